(** Corr/C20.v - every published fixture through the real evaluator *)
From Coq Require Import List Bool NArith String.
From PSA Require Import Base.Str Model.Api Model.Pod Model.Checks Model.Registry Model.Shipped Spec.P20.
Import ListNotations.

Record c20_case := C20Case {
  c20_level : level; c20_minor : N; c20_pass : bool; c20_check : string;
  c20_pod : pod;                                    (* after API-server defaulting (applied by the harness) *)
  c20_ran : list (string * list string * bool);     (* per control run by the implementation: id, overrides of its active revision, allowed *)
  c20_allowed : bool                                (* Evaluator.EvaluatePod aggregate *)
}.
Definition rn (id : string) (ov : list string) (ok : bool) : string * list string * bool := (id, ov, ok).

Definition propfail_c20 (c : c20_case) : bool :=
  negb (P20 (c20_pass c) (c20_check c) (c20_ran c))
  || negb (Bool.eqb (c20_allowed c) (forallb (fun x : string * list string * bool => snd x) (c20_ran c))).

Definition model_ran (c : c20_case) : list (string * list string * bool) :=
  map (fun x : string * vcheck string =>
         (fst x, vc_overrides (snd x), cr_allowed (run_check shipped_lists false (vc_fn (snd x)) (c20_pod c))))
      (resolve shipped_checks (c20_level c) (V 1 (c20_minor c))).
Definition ran_eqb (a b : string * list string * bool) : bool :=
  String.eqb (fst (fst a)) (fst (fst b)) && list_eqb String.eqb (snd (fst a)) (snd (fst b)) && Bool.eqb (snd a) (snd b).
Definition mismatch_c20 (c : c20_case) : bool := negb (list_eqb ran_eqb (model_ran c) (c20_ran c)).
Definition run_c20 (cs : list c20_case) : list N * list N :=
  (find_idx propfail_c20 cs, find_idx mismatch_c20 cs).
