(** Corr/Src.v - admission cases answered through the real client- and
    informer-backed sources (admission/namespace.go, admission/pods.go) over a
    stub API server: the case carries the cluster state, the wiring and the
    fault plan instead of oracle answers; the world is computed by Model/Sources.v. *)
From Coq Require Import List Bool NArith ZArith String.
From PSA Require Import Base.Str Model.Api Model.Pod Model.Checks Model.Admission Model.Namespace Model.Sources
     Spec.PAdm Corr.Adm.
Import ListNotations.

Record src_case := SrcCase {
  sc_cfg : config; sc_marker : bool; sc_req : request;
  sc_wiring : wiring; sc_cluster : cluster; sc_faults : faults;
  sc_evals : list (lv * string * list check_result);
  sc_obs : obs;                             (* the long-lived instance, after the earlier requests and state changes of its history *)
  sc_fresh : response;                      (* a rig built from scratch on the same state *)
  sc_list_failed : bool                     (* the stub answered at least one LIST request of this admission request with a failure *)
}.
Definition sc_world (c : src_case) : world :=
  world_of (sc_wiring c) (sc_cluster c) (sc_faults c) (r_namespace (sc_req c)) None 0%Z.
Definition sc_adm (c : src_case) : adm_case :=
  AdmCase (sc_cfg c) (sc_marker c) (sc_req c) (sc_world c) (sc_evals c) (sc_obs c) None None None None.
(** the pod informer's order is not defined: traces are compared as multisets, responses exactly
    where the request is a namespace request (warnings are sorted and aggregated, hence order-free
    as long as the cap is not reached - the harness keeps informer-backed lists below the cap) *)
Definition mismatch_src (c : src_case) : bool :=
  let a := sc_adm c in
  let m := validate (sc_cfg c) (table_ev a) (sc_req c) (sc_world c) in
  negb ((if is_namespaces (sc_req c) then resp_match (fst m) (fst (sc_obs c)) else resp_match_loose (fst m) (fst (sc_obs c)))
        && trace_match false (snd m) (snd (sc_obs c))).
(** the property relations of C07 (failures are reported) and C15 (the answer is the one a fresh
    controller gives on the present state: here, the model's) on the implementation's observation *)
(** C07 at the level of the sources: whatever happens between the lister and the API server (chunking,
    retries, a failing page), the answer is either the list-failure warning or the honest report over
    ALL the pods the server holds (P11 / P12 against the complete live list) - never a silently shortened list.
    (The informer's list order is not defined, so this is evaluated for the live lister only.) *)
Definition pf_src07 (c : src_case) : bool :=
  pf07 (sc_adm c)
  || (negb (wi_pods_informer (sc_wiring c)) && negb (f_list (sc_faults c)) && (pf11 (sc_adm c) || pf12 (sc_adm c))).
Definition resp_same_src (a b : response) : bool :=
  resp_eqb a b && list_eqb String.eqb (map fst (rs_causes a)) (map fst (rs_causes b)) && shared_eqb (rs_shared a) (rs_shared b).
Definition pf_src15 (c : src_case) : bool := negb (resp_same_src (fst (sc_obs c)) (sc_fresh c)).
(** C12 at the level of the sources: the dry run over what the live lister returned is bounded and honest *)
Definition pf_src12 (c : src_case) : bool :=
  if wi_pods_informer (sc_wiring c) then false        (* the informer's list order is not defined *)
  else pf12 (sc_adm c) || pf11 (sc_adm c).
Definition run_src (pf : src_case -> bool) (cs : list src_case) : list N * list N :=
  (find_idx pf cs, find_idx mismatch_src cs).
Definition pf_src_none (c : src_case) : bool := false.
