(** Corr/C02.v, C03, C19 evaluators over pod cases *)
From Coq Require Import List Bool NArith String.
From PSA Require Import Base.Str Model.Api Model.Pod Model.Checks Model.Registry Model.Shipped
     Spec.PSS Spec.P02 Corr.PodCases.
Import ListNotations.

Definition all_allowed (l : list check_result) : bool := forallb cr_allowed l.

(** C02: P_02 on every observation of the case *)
Definition propfail_c02 (c : pod_case) : bool :=
  existsb (fun o => negb (P02_check (oc_relax o) (oc_fn o) (pc_pod c) (cr_allowed (oc_res o)))) (pc_checks c) ||
  existsb (fun o => negb (P02_eval (oe_relax o) (oe_level o) (oe_version o) (pc_pod c) (all_allowed (oe_results o))))
          (pc_evals c).
Definition run_c02 (cs : list pod_case) : list N * list N :=
  (find_idx propfail_c02 cs, find_idx mismatch_bits cs).

(** C03: for every (relax, version) observed at both levels, P_03; privileged runs nothing *)
Definition find_eval (relax : bool) (l : level) (v : version) (es : list obs_eval) : option obs_eval :=
  find (fun o => Bool.eqb (oe_relax o) relax && level_eqb (oe_level o) l && version_eqb (oe_version o) v) es.
Definition propfail_c03 (c : pod_case) : bool :=
  existsb (fun o =>
             match oe_level o with
             | Restricted =>
                 match find_eval (oe_relax o) Baseline (oe_version o) (pc_evals c) with
                 | Some b => negb (P03 (pc_pod c) (all_allowed (oe_results o)) (all_allowed (oe_results b)))
                 | None => false
                 end
             | Privileged => negb (is_nil (oe_results o))
             | Baseline => false
             end) (pc_evals c).
Definition run_c03 (cs : list pod_case) : list N * list N :=
  (find_idx propfail_c03 cs, find_idx mismatch_bits cs).
