(** Corr/C16.v - HTTP exchanges through HandleValidate *)
From Coq Require Import List Bool NArith ZArith String.
From PSA Require Import Base.Str Model.Api Model.Pod Model.Checks Model.Admission Model.Namespace Model.Webhook
     Spec.P16 Corr.Adm.
Import ListNotations.

Record c16_case := C16Case {
  c16_cfg : config;
  c16_req : http_request;
  c16_lib_allowed : option bool;     (* Admission.Validate called directly on the same request *)
  c16_status : Z;                    (* 0 = the handler panicked / dropped the connection *)
  c16_uid : option string;
  c16_allowed : option bool
}.

Definition propfail_c16 (c : c16_case) : bool :=
  negb (P16 (c16_req c) (c16_lib_allowed c) (c16_status c) (c16_uid c) (c16_allowed c)).

Definition mismatch_c16 (c : c16_case) : bool :=
  let m := handle (c16_cfg c) marker_eval (c16_req c) in
  negb (Z.eqb (hs_status m) (c16_status c)
        && opt_eqb String.eqb (option_map fst (hs_review m)) (c16_uid c)
        && opt_eqb Bool.eqb (option_map (fun x : string * response => rs_allowed (snd x)) (hs_review m)) (c16_allowed c)).

Definition run_c16 (cs : list c16_case) : list N * list N :=
  (find_idx propfail_c16 cs, find_idx mismatch_c16 cs).
