(** Corr/C17.v - configuration documents through load.LoadFromData, validation and Admission construction *)
From Coq Require Import List Bool NArith String.
From PSA Require Import Base.Str Model.Api Model.Config Spec.P05 Spec.P17.
Import ListNotations.

Record c17_case := C17Case {
  c17_input : input;
  c17_loaded : option loaded;          (* LoadFromData: None = error *)
  c17_errors : list (string * nat * verr_kind);   (* ValidatePodSecurityConfiguration (path, index, kind) *)
  c17_enforced : option policy         (* policy an Admission completed+validated from it resolves for an unlabelled namespace *)
}.
Definition ve (path : string) (i : nat) (k : verr_kind) : string * nat * verr_kind := (path, i, k).

Definition propfail_c17 (c : c17_case) : bool :=
  negb (P17_load (c17_input c) (c17_loaded c))
  || match c17_loaded c with
     | Some l => negb (P17_validate l (List.length (c17_errors c)) (c17_enforced c))
     | None => false
     end.

Definition kind_eqb (a b : verr_kind) : bool := match a, b with Invalid, Invalid | Duplicate, Duplicate => true | _, _ => false end.
Definition verr_eqb (a b : string * nat * verr_kind) : bool :=
  String.eqb (fst (fst a)) (fst (fst b)) && Nat.eqb (snd (fst a)) (snd (fst b)) && kind_eqb (snd a) (snd b).
Definition mismatch_c17 (c : c17_case) : bool :=
  negb (opt_eqb loaded_eqb (load (c17_input c)) (c17_loaded c))
  || match c17_loaded c with
     | Some l => negb (list_eqb verr_eqb (validate_config l) (c17_errors c))
                 || (is_nil (c17_errors c) && negb (opt_eqb policy_eqb (to_policy l) (c17_enforced c)))
     | None => false
     end.
Definition run_c17 (cs : list c17_case) : list N * list N :=
  (find_idx propfail_c17 cs, find_idx mismatch_c17 cs).
