(** Corr/C04.v - marker check sets through policy.NewEvaluator *)
From Coq Require Import List Bool NArith String.
From PSA Require Import Base.Str Model.Api Model.Registry Spec.P04.
Import ListNotations.

Record c04_case := C04Case {
  c4_checks : list (check string);
  c4_err : bool;                                   (* NewEvaluator returned an error *)
  c4_rows : list (level * version * list string)   (* markers returned by EvaluatePod *)
}.

Definition propfail_c04 (c : c04_case) : bool := negb (P04 (c4_checks c) (c4_err c) (c4_rows c)).

Definition mismatch_c04 (c : c04_case) : bool :=
  match new_evaluator (c4_checks c) with
  | None => negb (c4_err c)
  | Some ev =>
      c4_err c ||
      (majors_one (c4_checks c) &&
       existsb (fun row : level * version * list string =>
                  let '(l, v, got) := row in
                  negb (list_eqb String.eqb got (map (fun x => vc_fn (snd x)) (ev l v)))) (c4_rows c))
  end.

Definition run_c04 (cs : list c04_case) : list N * list N :=
  (find_idx propfail_c04 cs, find_idx mismatch_c04 cs).
