(** Corr/C05.v - correspondence and violation-search evaluators for C05.
    A case carries an input and what the implementation returned for it. *)
From Coq Require Import List Bool NArith String.
From PSA Require Import Base.Str Model.Api Spec.P05.
Import ListNotations.

Inductive c05_case :=
| PolCase (ls : labels) (d : policy) (op : policy) (oe : list ferr)
| VerCase (s : string) (ok : bool) (v : version) (printed : string)
| LevCase (s : string) (ok : bool) (l : level)
| PrintCase (v : version) (printed : string) (ok : bool) (v' : version)
| BadObs05 (what : string).   (* implementation output outside the observable type *)

(** P_05 evaluated on the implementation's observation *)
Definition propfail_c05 (c : c05_case) : bool :=
  match c with
  | PolCase ls d op oe => negb (P05_policy ls d (op, oe))
  | VerCase s ok v printed => negb (P05_version s (ok, v, printed))
  | LevCase s ok l => negb (P05_level s (ok, l))
  | PrintCase v printed ok v' => negb (P05_print v (printed, ok, v'))
  | BadObs05 _ => true
  end.

(** model observation differs from implementation observation *)
Definition mismatch_c05 (c : c05_case) : bool :=
  match c with
  | PolCase ls d op oe =>
      let '(mp, me) := policy_to_evaluate ls d in
      negb (policy_eqb mp op && list_eqb ferr_eqb me oe)
  | VerCase s ok v printed =>
      let '(mv, mok) := parse_version s in
      negb (Bool.eqb mok ok && version_eqb mv v && String.eqb (version_string mv) printed)
  | LevCase s ok l =>
      let '(ml, mok) := parse_level s in negb (Bool.eqb mok ok && level_eqb ml l)
  | PrintCase v printed ok v' =>
      let s := version_string v in
      let '(mv, mok) := parse_version s in
      negb (String.eqb s printed && Bool.eqb mok ok && version_eqb mv v')
  | BadObs05 _ => true
  end.

Definition run_c05 (cs : list c05_case) : list N * list N :=
  (find_idx propfail_c05 cs, find_idx mismatch_c05 cs).
