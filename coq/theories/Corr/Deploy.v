(** Corr/Deploy.v - the full stack: a configuration document through the real
    loader and server.Setup (production wiring over a stub API server), then
    AdmissionReview bodies through HandleValidate. *)
From Coq Require Import List Bool NArith ZArith String.
From PSA Require Import Base.Str Model.Api Model.Pod Model.Checks Model.Admission Model.Namespace Model.Sources
     Model.Webhook Model.Config Model.Deploy Spec.P05 Spec.P17 Spec.PAdm Corr.Adm.
Import ListNotations.

Record dep_case := DepCase {
  dc_input : input;
  dc_deployed : bool;                       (* LoadFromData and Setup both succeeded *)
  dc_cluster : cluster; dc_faults : faults;
  dc_uid : string; dc_req : request; dc_size : N;
  dc_evals : list (lv * string * list check_result);
  dc_status : Z;                            (* HTTP status; 0 when the server did not come up *)
  dc_answer : option (string * response)    (* response.uid and the AdmissionResponse of a 200 *)
}.
Definition dc_world (c : dep_case) : world :=
  world_of production_wiring (dc_cluster c) (dc_faults c) (r_namespace (dc_req c)) None 0%Z.
Definition dc_adm (c : dep_case) (cfg : config) (resp : response) : adm_case :=
  AdmCase cfg false (dc_req c) (dc_world c) (dc_evals c) (resp, []) None None None None.

(** over HTTP the identity of a shared response object is not observable; texts as in Corr/Adm.v *)
Definition resp_match_wire (ns : bool) (m i : response) : bool :=
  Bool.eqb (rs_allowed m) (rs_allowed i) && opt_eqb Z.eqb (rs_code m) (rs_code i)
  && String.eqb (rs_reason m) (rs_reason i)
  && (if opt_eqb Z.eqb (rs_code m) (Some 403%Z) then String.eqb (from_quote (rs_message m)) (from_quote (rs_message i)) else true)
  && list_eqb String.eqb (map fst (rs_causes m)) (map fst (rs_causes i))
  && (if ns then list_eqb String.eqb (rs_warnings m) (rs_warnings i)
      else list_eqb String.eqb (map from_quote (rs_warnings m)) (map from_quote (rs_warnings i)))
  && audit_match_loose (rs_audit m) (rs_audit i).

Definition dc_http (c : dep_case) : http_request :=
  HttpRequest true (dc_size c) "application/json" (Review (dc_uid c) (dc_req c) (dc_world c)).

Definition mismatch_dep (c : dep_case) : bool :=
  match deploy (dc_input c) with
  | None => dc_deployed c
  | Some cfg =>
      negb (dc_deployed c)
      || (let a := dc_adm c cfg allowed_fresh in
          let m := serve cfg (table_ev a) (dc_cluster c) (dc_faults c) 0%Z (dc_http c) in
          negb (Z.eqb (hs_status m) (dc_status c))
          || match hs_review m, dc_answer c with
             | Some (u, rm), Some (ui, ri) => negb (String.eqb u ui && resp_match_wire (is_namespaces (dc_req c)) rm ri)
             | None, None => false
             | _, _ => true
             end)
  end.

(** C17 end to end, read off the document by the specification (Spec/P17.v): the server comes up
    exactly for acceptable, valid documents, and then enforces, audits, warns and exempts exactly as
    the document states *)
Definition s_config (i : input) : option config :=
  let of_doc d :=
    let l := s_loaded d in
    if s_valid l then
      match spec_level_of (ld_enforce l), spec_version_of (ld_enforce_version l),
            spec_level_of (ld_audit l), spec_version_of (ld_audit_version l),
            spec_level_of (ld_warn l), spec_version_of (ld_warn_version l) with
      | Some el, Some ev, Some al, Some av, Some wl, Some wv =>
          Some (Config (Policy (LV el ev) (LV al av) (LV wl wv)) (ld_namespaces l) (ld_usernames l) (ld_runtimeclasses l)
                       3000 1000000000%Z)
      | _, _, _, _, _, _ => None
      end
    else None in
  match i with
  | InEmpty => of_doc []
  | InMalformed => None
  | InDoc d => if s_acceptable d then of_doc d else None
  end.
Definition propfail_dep (c : dep_case) : bool :=
  match s_config (dc_input c) with
  | None => dc_deployed c
  | Some cfg =>
      negb (dc_deployed c)
      || match dc_answer c with
         | Some (u, resp) =>
             let a := dc_adm c cfg resp in
             negb (String.eqb u (dc_uid c)) || pf01 a || pf08 a
             || negb (P06_always_allowed cfg (dc_req c) (resp, []))
         | None => true                     (* a well-formed review below the size limit is always answered *)
         end
  end.
Definition run_dep (cs : list dep_case) : list N * list N :=
  (find_idx propfail_dep cs, find_idx mismatch_dep cs).
