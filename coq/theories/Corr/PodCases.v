(** Corr/PodCases.v - a pod together with what the implementation returned for
    it: every registered check revision called directly, and the assembled
    evaluator at selected (level, version) pairs, with the user-namespace
    relaxation switch off / on.  Shared by C02, C03, C13, C14, C19, C20. *)
From Coq Require Import List Bool NArith String.
From PSA Require Import Base.Str Model.Api Model.Pod Model.Checks Model.Registry Model.Shipped.
Import ListNotations.

Record obs_check := OC { oc_fn : string; oc_relax : bool; oc_res : check_result }.
Record obs_eval := OE { oe_relax : bool; oe_level : level; oe_version : version;
                        oe_results : list check_result }.
Record pod_case := PC { pc_pod : pod; pc_checks : list obs_check; pc_evals : list obs_eval }.

(** compact wire format used by the generated case files (most results are
    "allowed"): a result list is its length plus the denying entries by index;
    the per-revision results come in the order of a function-name list given
    once per file. *)
Fixpoint sparse_get (i : nat) (bad : list (nat * check_result)) : check_result :=
  match bad with
  | [] => cr_ok
  | (j, r) :: rest => if Nat.eqb i j then r else sparse_get i rest
  end.
Definition expand (n : nat) (bad : list (nat * check_result)) : list check_result :=
  map (fun i => sparse_get i bad) (seq 0 n).
Definition OEs (relax : bool) (l : level) (v : version) (n : nat) (bad : list (nat * check_result)) : obs_eval :=
  OE relax l v (expand n bad).
Definition OCs (fns : list string) (relax : bool) (bad : list (nat * check_result)) : list obs_check :=
  map (fun x : string * check_result => OC (fst x) relax (snd x)) (combine fns (expand (List.length fns) bad)).
(** monomorphic cell constructors (cheap to elaborate in big case files) *)
Definition cz (n : nat) : nat * list (nat * check_result) := (n, []).
Definition ce (n : nat) (bad : list (nat * check_result)) : nat * list (nat * check_result) := (n, bad).
Definition bd (i : nat) (r : check_result) : nat * check_result := (i, r).
(** run-length encoded cells: [rp k c] stands for k copies of c *)
Definition rp (k : nat) (c : nat * list (nat * check_result)) : list (nat * list (nat * check_result)) := repeat c k.
Definition erow (relax : bool) (l : level) (cells : list (list (nat * list (nat * check_result)))) :
  bool * level * list (nat * list (nat * check_result)) := (relax, l, List.concat cells).
(** matrix form: one row per (relax, level), aligned with a version list given once per file *)
Definition eval_row (vers : list version) (row : bool * level * list (nat * list (nat * check_result))) : list obs_eval :=
  let '(relax, l, cells) := row in
  map (fun x : version * (nat * list (nat * check_result)) => OEs relax l (fst x) (fst (snd x)) (snd (snd x)))
      (combine vers cells).
Definition PCm (fns : list string) (vers : list version) (p : pod) (bad_off bad_on : list (nat * check_result))
           (rows : list (bool * level * list (nat * list (nat * check_result)))) : pod_case :=
  PC p (OCs fns false bad_off ++ OCs fns true bad_on)%list (flat_map (eval_row vers) rows).
Definition PCs (fns : list string) (p : pod) (bad_off bad_on : list (nat * check_result)) (evals : list obs_eval) : pod_case :=
  PC p (OCs fns false bad_off ++ OCs fns true bad_on)%list evals.

Definition cr_eqb (a b : check_result) : bool :=
  Bool.eqb (cr_allowed a) (cr_allowed b) && String.eqb (cr_reason a) (cr_reason b)
  && String.eqb (cr_detail a) (cr_detail b).

(** allow bits only: the projection C02, C03, C19 and C20 read *)
Definition check_mismatch_bits (p : pod) (o : obs_check) : bool :=
  negb (Bool.eqb (cr_allowed (run_check shipped_lists (oc_relax o) (oc_fn o) p)) (cr_allowed (oc_res o))).
Definition eval_mismatch_bits (p : pod) (o : obs_eval) : bool :=
  negb (list_eqb Bool.eqb
          (map cr_allowed (shipped_eval_fast (oe_relax o) (oe_level o) (oe_version o) p))
          (map cr_allowed (oe_results o))).
Definition mismatch_bits (c : pod_case) : bool :=
  existsb (check_mismatch_bits (pc_pod c)) (pc_checks c) ||
  existsb (eval_mismatch_bits (pc_pod c)) (pc_evals c).

(** full text: allow bit, reason and detail, in order *)
Definition check_mismatch_text (p : pod) (o : obs_check) : bool :=
  negb (cr_eqb (run_check shipped_lists (oc_relax o) (oc_fn o) p) (oc_res o)).
Definition eval_mismatch_text (p : pod) (o : obs_eval) : bool :=
  negb (list_eqb cr_eqb (shipped_eval_fast (oe_relax o) (oe_level o) (oe_version o) p) (oe_results o)).
Definition mismatch_text (c : pod_case) : bool :=
  existsb (check_mismatch_text (pc_pod c)) (pc_checks c) ||
  existsb (eval_mismatch_text (pc_pod c)) (pc_evals c).

(** reasons only (allow bit + reason, in order): the projection C11/C13 read *)
Definition cr_eqb_reason (a b : check_result) : bool :=
  Bool.eqb (cr_allowed a) (cr_allowed b) && String.eqb (cr_reason a) (cr_reason b).
Definition mismatch_reasons (c : pod_case) : bool :=
  existsb (fun o => negb (cr_eqb_reason (run_check shipped_lists (oc_relax o) (oc_fn o) (pc_pod c)) (oc_res o)))
          (pc_checks c) ||
  existsb (fun o => negb (list_eqb cr_eqb_reason
                            (shipped_eval_fast (oe_relax o) (oe_level o) (oe_version o) (pc_pod c)) (oe_results o)))
          (pc_evals c).

(** a pure model self-check used while developing: both text and bits *)
Definition run_pods_text (cs : list pod_case) : list N * list N :=
  (find_idx mismatch_bits cs, find_idx mismatch_text cs).

(** C14: the same pod evaluated repeatedly (fresh map iteration orders): every
    repetition must give the identical vector of results; the pod term carries
    the annotations in a shuffled order, and the model must still reproduce the
    exact text. *)
Record c14_case := C14Case { c14_pc : pod_case; c14_reps : list (list (nat * check_result)) }.
Definition bad_eqb (a b : nat * check_result) : bool := Nat.eqb (fst a) (fst b) && cr_eqb (snd a) (snd b).
Definition propfail_c14 (c : c14_case) : bool :=
  match c14_reps c with
  | [] => false
  | r0 :: rest => existsb (fun r => negb (list_eqb bad_eqb r0 r)) rest
  end.
Definition run_c14 (cs : list c14_case) : list N * list N :=
  (find_idx propfail_c14 cs, find_idx (fun c => mismatch_reasons (c14_pc c)) cs).
(* C14 is about the implementation agreeing with ITSELF, text included (propfail_c14); against the model only the
   allow bit and the reason are compared here - the detail texts are C13's subject *)
