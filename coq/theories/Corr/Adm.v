(** Corr/Adm.v - admission cases: a configuration, a request, the oracle
    answers its dependencies gave, the implementation's response and effect
    trace, the evaluator's direct answers for the pods involved, and the
    observations of related requests (exemptions cleared; the bare pod of a
    controller's template; the same request as CREATE; without subresource). *)
From Coq Require Import List Bool NArith ZArith Ascii String.
From PSA Require Import Base.Str Model.Api Model.Pod Model.Checks Model.Registry Model.Shipped
     Model.Admission Model.Namespace Spec.P05 Spec.PAdm.
Import ListNotations.
Local Open Scope string_scope.

(** the marker evaluator used by half of the streams (mirrored in the Go harness):
    a pod is denied at level:version x iff it carries the annotation m/<x>, whose value is the reason *)
Definition marker_eval : evaluator := fun x p =>
  match x with
  | LV Privileged _ => []
  | _ => match lookup ("m/" ++ lv_string x) (pd_annotations p) with
         | Some v => [CR false v ("detail of " ++ v)]
         | None => [cr_ok]
         end
  end.
Definition model_ev (marker : bool) : evaluator :=
  if marker then marker_eval else fun x p => shipped_eval_fast false (lv_level x) (lv_version x) p.

Record adm_case := AdmCase {
  ac_cfg : config;
  ac_marker : bool;
  ac_req : request;
  ac_world : world;
  ac_evals : list (lv * string * list check_result);   (* Evaluator.EvaluatePod called directly: (lv, pod name) -> results *)
  ac_obs : obs;
  ac_noexempt : option obs;
  ac_barepod : option obs;
  ac_create : option obs;
  ac_nosub : option obs
}.

(** the evaluator as observed: table first, model as a fallback for keys the harness did not query *)
Definition table_ev (c : adm_case) : evaluator := fun x p =>
  match find (fun e : lv * string * list check_result =>
                lv_eqb (fst (fst e)) x && String.eqb (snd (fst e)) (pd_name p)) (ac_evals c) with
  | Some e => snd e
  | None => model_ev (ac_marker c) x p
  end.

(* sparse constructors for the case files *)
Fixpoint sparse_get_a (i : nat) (bad : list (nat * check_result)) : check_result :=
  match bad with
  | [] => cr_ok
  | (j, r) :: rest => if Nat.eqb i j then r else sparse_get_a i rest
  end.
Definition eve (x : lv) (name : string) (n : nat) (bad : list (nat * check_result)) : lv * string * list check_result :=
  (x, name, map (fun i => sparse_get_a i bad) (seq 0 n)).
Definition bda (i : nat) (r : check_result) : nat * check_result := (i, r).
Definition mkobs (r : response) (tr : list event) : obs := (r, tr).

(** response agreement on the observables.  Not compared, because no property pins them and a
    maintainer may reword or reorder them: the text of the "error" annotation and of non-403
    messages (presence, code and reason are compared); which of several matching exemption
    dimensions an exempt answer names (the relation P06 demands that it names one that matched);
    causes are compared by label key *)
Definition audit_match (m i : list (string * string)) : bool :=
  Nat.eqb (List.length m) (List.length i) &&
  forallb (fun kv : string * string =>
             match lookup (fst kv) i with
             | Some v => if String.eqb (fst kv) "error" || String.eqb (fst kv) "exempt" then true
                         else String.eqb (snd kv) v
             | None => false
             end) m.
Definition shared_eqb (a b : shared_tag) : bool :=
  match a, b with
  | Fresh, Fresh | SharedAllowed, SharedAllowed | SharedPrivileged, SharedPrivileged
  | SharedUser, SharedUser | SharedNamespace, SharedNamespace | SharedRuntimeClass, SharedRuntimeClass => true
  | _, _ => false
  end.
Definition is_exempt_tag (a : shared_tag) : bool :=
  match a with SharedUser | SharedNamespace | SharedRuntimeClass => true | _ => false end.
(** which answers are served from a shared object is an allocation choice no property pins (the
    properties demand that shared objects are never written: C15, C16): not compared *)
Definition shared_match (a b : shared_tag) : bool := true.
(** pod / controller texts are compared from their first double quote on (the sentence around
    the quoted level:version and the evaluator's detail may be reworded without touching any
    property); namespace warnings are compared exactly *)
Fixpoint from_quote (s : string) : string :=
  match s with
  | EmptyString => EmptyString
  | String c r => if Ascii.eqb c """"%char then s else from_quote r
  end.
Definition audit_match_loose (m i : list (string * string)) : bool :=
  Nat.eqb (List.length m) (List.length i) &&
  forallb (fun kv : string * string =>
             match lookup (fst kv) i with
             | Some v => if String.eqb (fst kv) "error" || String.eqb (fst kv) "exempt" then true
                         else if String.eqb (fst kv) "audit-violations" then String.eqb (from_quote (snd kv)) (from_quote v)
                         else String.eqb (snd kv) v
             | None => false
             end) m.
Definition resp_match_loose (m i : response) : bool :=
  Bool.eqb (rs_allowed m) (rs_allowed i) && opt_eqb Z.eqb (rs_code m) (rs_code i)
  && String.eqb (rs_reason m) (rs_reason i)
  && (if opt_eqb Z.eqb (rs_code m) (Some 403%Z) then String.eqb (from_quote (rs_message m)) (from_quote (rs_message i)) else true)
  && list_eqb String.eqb (map from_quote (rs_warnings m)) (map from_quote (rs_warnings i))
  && audit_match_loose (rs_audit m) (rs_audit i)
  && shared_match (rs_shared m) (rs_shared i).
Definition resp_match (m i : response) : bool :=
  Bool.eqb (rs_allowed m) (rs_allowed i) && opt_eqb Z.eqb (rs_code m) (rs_code i)
  && String.eqb (rs_reason m) (rs_reason i)
  && (if opt_eqb Z.eqb (rs_code m) (Some 403%Z) then String.eqb (from_quote (rs_message m)) (from_quote (rs_message i)) else true)
  && list_eqb String.eqb (map fst (rs_causes m)) (map fst (rs_causes i))
  && list_eqb String.eqb (rs_warnings m) (rs_warnings i)
  && audit_match (rs_audit m) (rs_audit i)
  && shared_match (rs_shared m) (rs_shared i).
Definition mode_eqb (a b : emode) : bool :=
  match a, b with ModeEnforce, ModeEnforce | ModeAudit, ModeAudit | ModeWarn, ModeWarn => true | _, _ => false end.
Definition event_match (m i : event) : bool :=
  match m, i with
  | EvNsLookup, EvNsLookup | EvDecode, EvDecode | EvDecodeOld, EvDecodeOld | MExempt, MExempt => true
  | EvList _, EvList _ => true                      (* the wall-clock deadline is checked on the Go side *)
  | EvEval x n, EvEval y k => lv_eqb x y && String.eqb n k
  | MEval d x mo, MEval e y mo' => Bool.eqb d e && lv_eqb x y && mode_eqb mo mo'
  | MError f, MError g => Bool.eqb f g
  | _, _ => false
  end.
(** traces are compared as multisets for pod and controller requests (no property
    constrains the relative order of dependency, evaluator and metrics calls there),
    and in order for namespace requests (the dry-run evaluation order is C12's subject) *)
Definition mode_key (m : emode) : string := match m with ModeEnforce => "enforce" | ModeAudit => "audit" | ModeWarn => "warn" end.
Definition event_key (e : event) : string :=
  match e with
  | EvNsLookup => "nslookup" | EvDecode => "decode" | EvDecodeOld => "decodeold" | EvList _ => "list"
  | EvEval x n => "eval " ++ lv_string x ++ " " ++ n
  | MEval d x mo => "meval " ++ (if d then "deny " else "allow ") ++ lv_string x ++ " " ++ mode_key mo
  | MExempt => "mexempt"
  | MError f => if f then "merror fatal" else "merror"
  end.
Definition trace_match (ordered : bool) (m i : list event) : bool :=
  if ordered then list_eqb event_match m i
  else list_eqb String.eqb (ssort (map event_key m)) (ssort (map event_key i)).
Definition obs_match_gen (ordered : bool) (m i : obs) : bool :=
  (if ordered then resp_match (fst m) (fst i) else resp_match_loose (fst m) (fst i)) && trace_match ordered (snd m) (snd i).
Definition obs_match (m i : obs) : bool := obs_match_gen true m i.

Definition no_exemptions (c : config) : config :=
  Config (cf_defaults c) [] [] [] (cf_max_pods c) (cf_timeout c).

Definition mismatch_adm (c : adm_case) : bool :=
  let ordered := is_namespaces (ac_req c) in
  negb (obs_match_gen ordered (validate (ac_cfg c) (table_ev c) (ac_req c) (ac_world c)) (ac_obs c))
  || match ac_noexempt c with
     | Some o => negb (obs_match_gen ordered (validate (no_exemptions (ac_cfg c)) (table_ev c) (ac_req c) (ac_world c)) o)
     | None => false
     end.

Definition or_self (c : adm_case) (o : option obs) : obs := match o with Some x => x | None => ac_obs c end.

Definition pf01 (c : adm_case) := negb (P01 (ac_cfg c) (table_ev c) (ac_req c) (ac_world c) (ac_obs c)).
Definition pf06 (c : adm_case) :=
  negb (P06 (ac_cfg c) (ac_req c) (ac_world c) (ac_obs c) (or_self c (ac_noexempt c))
        && P06_dryrun (ac_cfg c) (ac_world c) (ac_obs c)
        && P06_always_allowed (ac_cfg c) (ac_req c) (ac_obs c)).
Definition pf07 (c : adm_case) :=
  negb (P07 (ac_cfg c) (table_ev c) (ac_req c) (ac_world c) (ac_obs c)
        && P07_expiry_reported (ac_cfg c) (ac_req c) (ac_world c) (ac_obs c)).
Definition pf08 (c : adm_case) := negb (P08_obs (ac_cfg c) (table_ev c) (ac_req c) (ac_world c) (ac_obs c)).
(** C09 also demands that the template's findings are the *correct* ones for its warn/audit policies: P08 on controller requests *)
Definition pf09 (c : adm_case) :=
  negb (P09 (ac_cfg c) (table_ev c) (ac_req c) (ac_world c) (ac_obs c) (ac_barepod c))
  || (is_controller (ac_req c) && negb (P08_obs (ac_cfg c) (table_ev c) (ac_req c) (ac_world c) (ac_obs c))).
Definition pf10 (c : adm_case) := negb (P10 (ac_cfg c) (ac_req c) (ac_world c) (ac_obs c) (ac_create c) (ac_nosub c)).
Definition pf11 (c : adm_case) := negb (P11 (ac_cfg c) (table_ev c) (ac_req c) (ac_world c) (ac_obs c)).
Definition pf11cs (c : adm_case) := negb (P11_control_sets (ac_cfg c) (table_ev c) (ac_req c) (ac_world c) (ac_obs c)).
Definition pf12 (c : adm_case) := negb (P12 (ac_cfg c) (table_ev c) (ac_req c) (ac_world c) (ac_obs c)).
Definition pf18 (c : adm_case) := negb (P18_adm (ac_cfg c) (ac_req c) (ac_world c) (ac_obs c)).

(** C13 on admission messages: the denial message, the warning and the audit annotation carry the
    evaluator's detail for their own level:version (the message clauses of P01 and P08) *)
Definition pf13 (c : adm_case) := negb (P13_adm (ac_cfg c) (table_ev c) (ac_req c) (ac_world c) (ac_obs c)).
Definition run_adm (pf : adm_case -> bool) (cs : list adm_case) : list N * list N :=
  (find_idx pf cs, find_idx mismatch_adm cs).
(** all admission relations at once (development self-check) *)
Definition pf_all (c : adm_case) : bool :=
  pf01 c || pf06 c || pf07 c || pf08 c || pf09 c || pf10 c || pf11 c || pf12 c || pf18 c.
