(** Corr/C18.v - histories of recordings / resets through the real PrometheusRecorder *)
From Coq Require Import List Bool NArith String.
From PSA Require Import Base.Str Model.Api Model.Admission Model.Metrics Spec.P18.
Import ListNotations.

(** a recording as the harness issued it: the request attributes that matter and the event *)
Inductive rec_call :=
| CallEvent (r_op : operation) (group resource subresource : string) (e : event)
| CallReset.

Record c18_case := C18Case {
  c18_server_major : N;                 (* 1 for a real server; 0 = the zero version GetAPIVersion returns for an unstamped binary *)
  c18_server_minor : N;
  c18_calls : list rec_call;
  c18_gathered : list (series * N)      (* non-zero series reported by the registry afterwards *)
}.

Definition req_of (o : operation) (g res sub : string) : request :=
  Request g res sub "" "" "" o ONil ONil None.
Definition ops_of_v (server : version) (calls : list rec_call) : list rec_op :=
  flat_map (fun c => match c with
                     | CallReset => [Reset]
                     | CallEvent o g res sub e =>
                         match series_of server (req_of o g res sub) e with
                         | Some k => [Rec k] | None => [] end
                     end) calls.
Definition server_of (c : c18_case) : version := V (c18_server_major c) (c18_server_minor c).
(** the label bound for the server version in force: v1.n -> latest, future, v1.0..v1.n; the zero version -> latest, future *)
Definition label_ok (c : c18_case) (l : string) : bool :=
  if N.eqb (c18_server_major c) 1 then P18_label (c18_server_minor c) l
  else if N.eqb (c18_server_major c) 0 then String.eqb l "latest" || String.eqb l "future"
  else false.
Definition ops_of (server_minor : N) (calls : list rec_call) : list rec_op :=
  flat_map (fun c => match c with
                     | CallReset => [Reset]
                     | CallEvent o g res sub e =>
                         match series_of (V 1 server_minor) (req_of o g res sub) e with
                         | Some k => [Rec k] | None => [] end
                     end) calls.

(** position of the policy_version label in an evaluations series *)
Definition version_label_of (k : series) : option string :=
  if String.eqb (fst k) "pod_security_evaluations_total" then nth_error (snd k) 2 else None.

Definition propfail_c18 (c : c18_case) : bool :=
  negb (P18_counts (ops_of_v (server_of c) (c18_calls c)) (c18_gathered c))
  || existsb (fun kv : series * N =>
                match version_label_of (fst kv) with
                | Some l => negb (label_ok c l)
                | None => false end) (c18_gathered c).

Definition nonzero (st : counters) : counters := filter (fun kv : series * N => negb (N.eqb (snd kv) 0)) st.
Definition mismatch_c18 (c : c18_case) : bool :=
  let m := nonzero (run_ops (ops_of_v (server_of c) (c18_calls c))) in
  negb (Nat.eqb (List.length m) (List.length (c18_gathered c))
        && forallb (fun kv : series * N => N.eqb (get (fst kv) m) (snd kv)) (c18_gathered c)).
Definition run_c18 (cs : list c18_case) : list N * list N :=
  (find_idx propfail_c18 cs, find_idx mismatch_c18 cs).
