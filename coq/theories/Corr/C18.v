(** Corr/C18.v - histories of recordings / resets through the real PrometheusRecorder *)
From Coq Require Import List Bool NArith String.
From PSA Require Import Base.Str Model.Api Model.Admission Model.Metrics Spec.P18.
Import ListNotations.

(** a recording as the harness issued it: the request attributes that matter and the event *)
Inductive rec_call :=
| CallEvent (r_op : operation) (group resource subresource : string) (e : event)
| CallReset.

(** [n] copies of a call (the concurrent run is reported as its multiset of calls: by
    C18_exact_any_order the interleaving does not matter) *)
Definition repeat_calls (l : list (nat * rec_call)) : list rec_call :=
  flat_map (fun x : nat * rec_call => repeat (snd x) (fst x)) l.
Definition rc (n : nat) (c : rec_call) : nat * rec_call := (n, c).

Record c18_case := C18Case {
  c18_server_major : N;                 (* 1 for a real server; 0 = the zero version GetAPIVersion returns for an unstamped binary *)
  c18_server_minor : N;
  c18_calls : list rec_call;
  c18_gathered : list (series * N)      (* non-zero series reported by the registry afterwards *)
}.

Definition req_of (o : operation) (g res sub : string) : request :=
  Request g res sub "" "" "" o ONil ONil None.
Definition ops_of_v (server : version) (calls : list rec_call) : list rec_op :=
  flat_map (fun c => match c with
                     | CallReset => [Reset]
                     | CallEvent o g res sub e =>
                         match series_of server (req_of o g res sub) e with
                         | Some k => [Rec k] | None => [] end
                     end) calls.
Definition server_of (c : c18_case) : version := V (c18_server_major c) (c18_server_minor c).
(** the label bound for the server version in force: v1.n -> latest, future, v1.0..v1.n; the zero version -> latest, future *)
Definition label_ok (c : c18_case) (l : string) : bool :=
  if N.eqb (c18_server_major c) 1 then P18_label (c18_server_minor c) l
  else if N.eqb (c18_server_major c) 0 then String.eqb l "latest" || String.eqb l "future"
  else false.
Definition ops_of (server_minor : N) (calls : list rec_call) : list rec_op :=
  flat_map (fun c => match c with
                     | CallReset => [Reset]
                     | CallEvent o g res sub e =>
                         match series_of (V 1 server_minor) (req_of o g res sub) e with
                         | Some k => [Rec k] | None => [] end
                     end) calls.

(** position of the policy_version label in an evaluations series *)
Definition version_label_of (k : series) : option string :=
  if String.eqb (fst k) "pod_security_evaluations_total" then nth_error (snd k) 2 else None.

(** the same relation as [P18_counts], evaluated with the recorded series de-duplicated first
    (the specification text is quadratic in the history length; used for long histories only) *)
Fixpoint dedup_series (l : list series) : list series :=
  match l with
  | [] => []
  | k :: r => k :: filter (fun k' => negb (series_eqb k k')) (dedup_series r)
  end.
Definition P18_counts_long (ops : list rec_op) (gathered : list (series * N)) : bool :=
  let recs := since_reset ops [] in
  let count k := N.of_nat (List.length (filter (series_eqb k) recs)) in
  forallb (fun kv : series * N => N.eqb (snd kv) (count (fst kv))) gathered
  && forallb (fun k => existsb (fun kv : series * N => series_eqb k (fst kv)) gathered) (dedup_series recs).
Definition counts_ok (ops : list rec_op) (gathered : list (series * N)) : bool :=
  if Nat.leb (List.length ops) 200 then P18_counts ops gathered else P18_counts_long ops gathered.

Definition propfail_c18 (c : c18_case) : bool :=
  negb (counts_ok (ops_of_v (server_of c) (c18_calls c)) (c18_gathered c))
  || existsb (fun kv : series * N =>
                match version_label_of (fst kv) with
                | Some l => negb (label_ok c l)
                | None => false end) (c18_gathered c).

Definition nonzero (st : counters) : counters := filter (fun kv : series * N => negb (N.eqb (snd kv) 0)) st.
Definition mismatch_c18 (c : c18_case) : bool :=
  let m := nonzero (run_ops (ops_of_v (server_of c) (c18_calls c))) in
  negb (Nat.eqb (List.length m) (List.length (c18_gathered c))
        && forallb (fun kv : series * N => N.eqb (get (fst kv) m) (snd kv)) (c18_gathered c)).
Definition run_c18 (cs : list c18_case) : list N * list N :=
  (find_idx propfail_c18 cs, find_idx mismatch_c18 cs).
