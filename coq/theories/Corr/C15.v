(** Corr/C15.v - the same request answered by a freshly constructed Admission, by
    a long-lived one after a history of other requests, and by the long-lived
    one while 16 goroutines replay the history concurrently *)
From Coq Require Import List Bool NArith ZArith String.
From PSA Require Import Base.Str Model.Api Model.Pod Model.Checks Model.Admission Model.Namespace Spec.PAdm Corr.Adm.
Import ListNotations.

Record c15_case := C15Case {
  c15_cfg : config; c15_marker : bool; c15_req : request; c15_world : world;
  c15_evals : list (lv * string * list check_result);
  c15_fresh : response; c15_long : response; c15_conc : response
}.
Definition resp_same (a b : response) : bool :=
  resp_eqb a b && list_eqb String.eqb (map fst (rs_causes a)) (map fst (rs_causes b)) && shared_eqb (rs_shared a) (rs_shared b).
Definition propfail_c15 (c : c15_case) : bool :=
  negb (resp_same (c15_long c) (c15_fresh c) && resp_same (c15_conc c) (c15_fresh c)).
Definition as_adm (c : c15_case) : adm_case :=
  AdmCase (c15_cfg c) (c15_marker c) (c15_req c) (c15_world c) (c15_evals c) (c15_fresh c, []) None None None None.
Definition mismatch_c15 (c : c15_case) : bool :=
  negb ((if is_namespaces (c15_req c) then resp_match else resp_match_loose)
          (fst (validate (c15_cfg c) (table_ev (as_adm c)) (c15_req c) (c15_world c))) (c15_fresh c)).
Definition run_c15 (cs : list c15_case) : list N * list N :=
  (find_idx propfail_c15 cs, find_idx mismatch_c15 cs).
