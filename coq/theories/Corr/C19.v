(** Corr/C19.v - per-revision results for the three hostUsers variants of a pod, switch off/on *)
From Coq Require Import List Bool NArith String.
From PSA Require Import Base.Str Model.Api Model.Pod Model.Checks Model.Shipped Spec.P02.
Import ListNotations.

Record c19_case := C19Case {
  c19_pod : pod;
  c19_obs : list (option bool * bool * list check_result)
}.
(** sparse constructor used by the case files *)
Fixpoint sparse_get19 (i : nat) (bad : list (nat * check_result)) : check_result :=
  match bad with
  | [] => cr_ok
  | (j, r) :: rest => if Nat.eqb i j then r else sparse_get19 i rest
  end.
Definition ob19 (n : nat) (h : option bool) (r : bool) (bad : list (nat * check_result)) :
  option bool * bool * list check_result := (h, r, map (fun i => sparse_get19 i bad) (seq 0 n)).
Definition bd19 (i : nat) (r : check_result) : nat * check_result := (i, r).

Definition propfail_c19 (ids : list string) (c : c19_case) : bool := negb (P19 ids (c19_obs c)).
Definition cr_eqb_reason19 (a b : check_result) : bool :=
  Bool.eqb (cr_allowed a) (cr_allowed b) && String.eqb (cr_reason a) (cr_reason b).
Definition mismatch_c19 (fns : list string) (c : c19_case) : bool :=
  existsb (fun o : option bool * bool * list check_result =>
             let '(h, r, res) := o in
             (* verdict and reason; the detail texts are C13's subject *)
             negb (list_eqb cr_eqb_reason19
                     (map (fun fn => run_check shipped_lists r fn (set_hostUsers (c19_pod c) h)) fns) res))
          (c19_obs c).
Definition run_c19 (ids fns : list string) (cs : list c19_case) : list N * list N :=
  (find_idx (propfail_c19 ids) cs, find_idx (mismatch_c19 fns) cs).
