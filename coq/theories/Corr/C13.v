(** Corr/C13.v - per-revision results with the names parsed out of the
    implementation's detail text, and evaluator results with the aggregate texts *)
From Coq Require Import List Bool NArith String.
From PSA Require Import Base.Str Model.Api Model.Pod Model.Checks Model.Names Model.Registry Model.Shipped
     Spec.PSS Spec.P13.
Import ListNotations.

Record c13_check := C13Check { k_fn : string; k_res : check_result; k_names : list string }.
Record c13_eval := C13Eval { e_level : level; e_version : version; e_results : list check_result;
                             e_reason : string; e_detail : string }.
Record c13_case := C13Case { c13_pod : pod; c13_checks : list c13_check; c13_evals : list c13_eval }.

Definition names_are_dns_labels (p : pod) : bool :=
  forallb (fun c => negb (contains """" (c_name c))) (all_containers p)
  && forallb (fun v => negb (contains """" (v_name v))) (pd_volumes p).

Definition direct_of (c : c13_case) (fn : string) : check_result :=
  match find (fun k => String.eqb (k_fn k) fn) (c13_checks c) with
  | Some k => k_res k
  | None => CR false "missing direct observation" fn
  end.

Definition propfail_c13 (c : c13_case) : bool :=
  if negb (names_are_dns_labels (c13_pod c)) then false else
  existsb (fun k => negb (P13_reason (k_res k))
                    || negb (P13_names (k_fn k) (c13_pod c) (negb (cr_allowed (k_res k))) (k_names k)))
          (c13_checks c)
  || existsb (fun e => negb (P13_eval (e_level e) (e_version e) (direct_of c) (e_results e) (e_reason e) (e_detail e)))
             (c13_evals c).

(** model agreement on the projection C13 reads: allow bit, reason, listed names (per revision);
    allow bits and reasons in order (evaluator) *)
Definition mismatch_c13 (c : c13_case) : bool :=
  existsb (fun k =>
             let m := run_check shipped_lists false (k_fn k) (c13_pod c) in
             negb (Bool.eqb (cr_allowed m) (cr_allowed (k_res k)) && String.eqb (cr_reason m) (cr_reason (k_res k))
                   && (negb (names_are_dns_labels (c13_pod c))
                       || list_eqb String.eqb (check_names (k_fn k) shipped_lists false (c13_pod c)) (k_names k))))
          (c13_checks c)
  || existsb (fun e =>
                negb (list_eqb (fun a b => Bool.eqb (cr_allowed a) (cr_allowed b) && String.eqb (cr_reason a) (cr_reason b))
                               (shipped_eval_fast false (e_level e) (e_version e) (c13_pod c)) (e_results e)))
             (c13_evals c).

Definition run_c13 (cs : list c13_case) : list N * list N :=
  (find_idx propfail_c13 cs, find_idx mismatch_c13 cs).
