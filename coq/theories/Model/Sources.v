(** Model/Sources.v - the glue between Admission and the cluster:
    admission/namespace.go (NamespaceGetterFromClient, NamespaceGetterFromListerAndClient)
    and admission/pods.go (PodListerFromClient, PodListerFromInformer).
    A cluster is what the informer caches hold and what the API server holds
    right now; a fault plan says whether the next live GET / LIST fails.
    [world_of] is the oracle the admission model reads through these sources:
    it is a function of the present state only. *)
From Coq Require Import List Bool NArith ZArith String.
From PSA Require Import Base.Str Model.Api Model.Pod Model.Admission.
Import ListNotations.
Local Open Scope string_scope.

Record cluster := Cluster {
  cl_cached_ns : list (string * labels);    (* namespace informer cache *)
  cl_live_ns : list (string * labels);      (* namespaces the API server has *)
  cl_cached_pods : list pod;                (* pod informer cache, for the namespace under review *)
  cl_live_pods : list pod                   (* pods the API server has in that namespace *)
}.
Record wiring := Wiring {
  wi_ns_lister : bool;                      (* NamespaceGetterFromListerAndClient (true) / ...FromClient (false) *)
  wi_pods_informer : bool                   (* PodListerFromInformer (true) / PodListerFromClient (false) *)
}.
Record faults := Faults {
  f_get : option string;                    (* the live GET of the namespace fails with this error text *)
  f_list : bool                             (* the live LIST of pods fails *)
}.

Definition not_found_text (name : string) : string := "namespaces " ++ go_quote name ++ " not found".

(** namespaceGetter.GetNamespace: the lister's answer unless it is NotFound, then (or without a lister) a live GET *)
Definition get_namespace (wi : wiring) (cl : cluster) (f : faults) (name : string) : option labels * string :=
  let live := if String.eqb name "" then (None, "resource name may not be empty")   (* client-go refuses before any request *)
              else match f_get f with
              | Some e => (None, e)
              | None => match lookup name (cl_live_ns cl) with
                        | Some l => (Some l, "")
                        | None => (None, not_found_text name)
                        end
              end in
  if wi_ns_lister wi
  then match lookup name (cl_cached_ns cl) with Some l => (Some l, "") | None => live end
  else live.

(** ListPods: the whole cached list, or the whole live list, or an error - never part of a list *)
Definition list_pods (wi : wiring) (cl : cluster) (f : faults) : option (list pod) :=
  if wi_pods_informer wi then Some (cl_cached_pods cl)
  else if f_list f then None else Some (cl_live_pods cl).

Definition world_of (wi : wiring) (cl : cluster) (f : faults) (nsname : string) (expire : option nat) (now : Z) : world :=
  let '(ns, err) := get_namespace wi cl f nsname in
  World ns err (list_pods wi cl f) expire now.
