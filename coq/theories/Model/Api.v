(** Model/Api.v - api/helpers.go, api/constants.go.
    Executable model; no proofs here. *)
From Coq Require Import List Bool NArith Ascii String DecimalString Decimal.
From PSA Require Import Base.Str.
Import ListNotations.
Local Open Scope string_scope.

Inductive level := Privileged | Baseline | Restricted.

(** api.Version: [V 0 0] is the Go zero value ("unset"); [Latest] is {0,0,true}. *)
Inductive version := Latest | V (major minor : N).

Record lv := LV { lv_level : level; lv_version : version }.
Record policy := Policy { enforce : lv; audit : lv; warn : lv }.

Definition level_eqb (a b : level) : bool :=
  match a, b with
  | Privileged, Privileged | Baseline, Baseline | Restricted, Restricted => true
  | _, _ => false
  end.
Definition version_eqb (a b : version) : bool :=
  match a, b with
  | Latest, Latest => true
  | V a1 a2, V b1 b2 => N.eqb a1 b1 && N.eqb a2 b2
  | _, _ => false
  end.
Definition lv_eqb (a b : lv) : bool :=
  level_eqb (lv_level a) (lv_level b) && version_eqb (lv_version a) (lv_version b).

Definition level_string (l : level) : string :=
  match l with Privileged => "privileged" | Baseline => "baseline" | Restricted => "restricted" end.

(** Version.String *)
Definition version_string (v : version) : string :=
  match v with
  | Latest => "latest"
  | V ma mi => "v" ++ N_to_string ma ++ "." ++ N_to_string mi
  end.
(** LevelVersion.String *)
Definition lv_string (x : lv) : string :=
  level_string (lv_level x) ++ ":" ++ version_string (lv_version x).

(** Version.Older (strict; latest is never older, everything else is older than latest) *)
Definition older (v other : version) : bool :=
  match v, other with
  | Latest, _ => false
  | _, Latest => true
  | V a1 a2, V b1 b2 => if N.eqb a1 b1 then N.ltb a2 b2 else N.ltb a1 b1
  end.

(** ParseLevel: the level and whether an error is returned *)
Definition parse_level (s : string) : level * bool :=
  if String.eqb s "privileged" then (Privileged, true)
  else if String.eqb s "baseline" then (Baseline, true)
  else if String.eqb s "restricted" then (Restricted, true)
  else (Restricted, false).

(** strconv.Atoi succeeds on a digit string iff the value fits in int64 *)
Definition max_int : N := 9223372036854775807%N.

(** ParseVersion: the regexp accepts v1. followed by a single digit or by a
    digit string without leading zero, anchored at both ends; then Atoi. *)
Definition parse_version (s : string) : version * bool :=
  if String.eqb s "latest" then (Latest, true)
  else match strip_prefix "v1." s with
       | None => (Latest, false)
       | Some r =>
           match NilZero.uint_of_string r with
           | None => (Latest, false)                      (* empty, or a non-digit *)
           | Some d =>
               if uint_beq (unorm d) d                        (* no leading zero *)
               then let n := N.of_uint d in
                    if N.leb n max_int then (V 1 n, true) else (Latest, false)
               else (Latest, false)
           end
       end.

(** LevelVersion.Equivalent / Policy.Equivalent / FullyPrivileged *)
Definition lv_equivalent (a b : lv) : bool :=
  (level_eqb (lv_level a) Privileged && level_eqb (lv_level b) Privileged) || lv_eqb a b.
Definition policy_equivalent (p q : policy) : bool :=
  lv_equivalent (enforce p) (enforce q) && lv_equivalent (audit p) (audit q)
  && lv_equivalent (warn p) (warn q).
Definition fully_privileged (p : policy) : bool :=
  level_eqb (lv_level (enforce p)) Privileged && level_eqb (lv_level (audit p)) Privileged
  && level_eqb (lv_level (warn p)) Privileged.

(** CompareLevels as Z-free three-way result: Lt = less strict *)
Definition compare_levels (a b : level) : comparison :=
  if level_eqb a b then Eq else
  match a with
  | Privileged => Lt
  | Restricted => Gt
  | Baseline => match b with Privileged => Gt | Restricted => Lt | Baseline => Eq end
  end.

Definition label_prefix := "pod-security.kubernetes.io/".
Definition enforce_level_label := "pod-security.kubernetes.io/enforce".
Definition enforce_version_label := "pod-security.kubernetes.io/enforce-version".
Definition audit_level_label := "pod-security.kubernetes.io/audit".
Definition audit_version_label := "pod-security.kubernetes.io/audit-version".
Definition warn_level_label := "pod-security.kubernetes.io/warn".
Definition warn_version_label := "pod-security.kubernetes.io/warn-version".

(** a field error: the label key it is attached to and the rejected value.
    (Type is always Invalid, the path is metadata.labels[key], the detail text
    is a function of the key's kind.) *)
Definition ferr := (string * string)%type.
Definition labels := list (string * string).

Definition append_err (errs : list ferr) (ok : bool) (label value : string) : list ferr :=
  if ok then errs else errs ++ [(label, value)].

(** PolicyToEvaluate, statement by statement *)
Definition policy_to_evaluate (ls : labels) (defaults : policy) : policy * list ferr :=
  match ls with
  | [] => (defaults, [])
  | _ =>
    let errs := [] in
    let e := enforce defaults in let a := audit defaults in let w := warn defaults in
    (* enforce level *)
    let '(e, has_enforce_level, errs) :=
      match lookup enforce_level_label ls with
      | Some s => let '(l, ok) := parse_level s in
                  (LV l (lv_version e), ok, append_err errs ok enforce_level_label s)
      | None => (e, false, errs)
      end in
    let '(e, errs) :=
      match lookup enforce_version_label ls with
      | Some s => let '(v, ok) := parse_version s in
                  (LV (lv_level e) v, append_err errs ok enforce_version_label s)
      | None => (e, errs)
      end in
    let '(a, errs) :=
      match lookup audit_level_label ls with
      | Some s => let '(l, ok) := parse_level s in
                  (LV (if ok then l else Privileged) (lv_version a),
                   append_err errs ok audit_level_label s)
      | None => (a, errs)
      end in
    let '(a, errs) :=
      match lookup audit_version_label ls with
      | Some s => let '(v, ok) := parse_version s in
                  (LV (lv_level a) v, append_err errs ok audit_version_label s)
      | None => (a, errs)
      end in
    let '(w, has_warn_level, errs) :=
      match lookup warn_level_label ls with
      | Some s => let '(l, ok) := parse_level s in
                  (LV (if ok then l else Privileged) (lv_version w), true,
                   append_err errs ok warn_level_label s)
      | None => (w, false, errs)
      end in
    let '(w, has_warn_version, errs) :=
      match lookup warn_version_label ls with
      | Some s => let '(v, ok) := parse_version s in
                  (LV (lv_level w) v, true, append_err errs ok warn_version_label s)
      | None => (w, false, errs)
      end in
    let w :=
      if negb has_warn_level && has_enforce_level
         && match compare_levels (lv_level e) (lv_level w) with Gt => true | _ => false end
      then LV (lv_level e) (if has_warn_version then lv_version w else lv_version e)
      else w in
    (Policy e a w, errs)
  end.

Definition ferr_eqb (x y : ferr) : bool :=
  String.eqb (fst x) (fst y) && String.eqb (snd x) (snd y).
