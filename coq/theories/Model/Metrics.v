(** Model/Metrics.v - metrics/metrics.go: the PrometheusRecorder as an interpreter
    of recordings into a map  series -> count.  A series is the metric name and
    its label values.  The CachedInc fast path and the slow path address the same
    series, so the model has a single increment. *)
From Coq Require Import List Bool NArith Ascii String.
From PSA Require Import Base.Str Model.Api Model.Admission.
Import ListNotations.
Local Open Scope string_scope.

Definition series := (string * list string)%type.
Definition series_eqb (a b : series) : bool :=
  String.eqb (fst a) (fst b) && list_eqb String.eqb (snd a) (snd b).
Definition counters := list (series * N).

(** strings.ToLower on ASCII *)
Definition lower_char (c : ascii) : ascii :=
  let n := N_of_ascii c in if (N.leb 65 n && N.leb n 90)%bool then ascii_of_N (n + 32) else c.
Fixpoint to_lower (s : string) : string :=
  match s with EmptyString => EmptyString | String c r => String (lower_char c) (to_lower r) end.

(** RecordEvaluation's version bucketing *)
Definition version_label (server : version) (x : lv) : string :=
  if match lv_version x with Latest => true | _ => false end || level_eqb (lv_level x) Privileged then "latest"
  else if negb (older server (lv_version x)) then version_string (lv_version x)
  else "future".

Definition operation_label (o : operation) : string :=
  match o with OpCreate => "create" | OpUpdate => "update" | OpOther s => to_lower s end.
Definition resource_label (r : request) : string :=
  if String.eqb (r_group r) "" && String.eqb (r_resource r) "pods" then "pod"
  else if String.eqb (r_group r) "" && String.eqb (r_resource r) "namespaces" then "namespace"
  else "controller".
Definition mode_label (m : emode) : string :=
  match m with ModeEnforce => "enforce" | ModeAudit => "audit" | ModeWarn => "warn" end.

(** the series a metrics event of request [r] increments *)
Definition series_of (server : version) (r : request) (e : event) : option series :=
  match e with
  | MEval deny x m =>
      Some ("pod_security_evaluations_total",
            [if deny then "deny" else "allow"; level_string (lv_level x); version_label server x; mode_label m;
             operation_label (r_op r); resource_label r; r_subresource r])
  | MExempt => Some ("pod_security_exemptions_total", [operation_label (r_op r); resource_label r; r_subresource r])
  | MError fatal =>
      Some ("pod_security_errors_total",
            [if fatal then "true" else "false"; operation_label (r_op r); resource_label r; r_subresource r])
  | _ => None
  end.

Fixpoint inc (k : series) (st : counters) : counters :=
  match st with
  | [] => [(k, 1%N)]
  | (k', n) :: r => if series_eqb k k' then (k', N.succ n) :: r else (k', n) :: inc k r
  end.
Fixpoint get (k : series) (st : counters) : N :=
  match st with
  | [] => 0%N
  | (k', n) :: r => if series_eqb k k' then n else get k r
  end.

Inductive rec_op := Rec (k : series) | Reset.
Definition apply_op (st : counters) (o : rec_op) : counters :=
  match o with Rec k => inc k st | Reset => [] end.
Definition run_ops (ops : list rec_op) : counters := fold_left apply_op ops [].

(** the recordings one admission request causes *)
Definition request_ops (server : version) (r : request) (tr : list event) : list rec_op :=
  flat_map (fun e => match series_of server r e with Some k => [Rec k] | None => [] end) tr.
