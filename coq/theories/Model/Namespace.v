(** Model/Namespace.v - Admission.ValidateNamespace, EvaluatePodsInNamespace,
    prioritizePods, decoratePodWarnings, exemptNamespaceWarning, and the
    top-level dispatch Admission.Validate. *)
From Coq Require Import List Bool NArith ZArith String.
From PSA Require Import Base.Str Model.Api Model.Pod Model.Checks Model.Registry Model.Admission.
Import ListNotations.
Local Open Scope string_scope.

(** exemptNamespaceWarning *)
Definition exempt_namespace_warning (c : config) (name : string) (pol : policy) (ls : labels) : string :=
  if fully_privileged pol || policy_equivalent pol (cf_defaults c) then "" else
  let has k := is_some (lookup k ls) in
  let part (nm : string) (x : lv) (kl kv : string) : list string :=
    if negb (level_eqb (lv_level x) Privileged) && (has kl || has kv) then [nm ++ "=" ++ lv_string x] else [] in
  let parts := part "enforce" (enforce pol) enforce_level_label enforce_version_label
               +:+ part "audit" (audit pol) audit_level_label audit_version_label
               +:+ part "warn" (warn pol) warn_level_label warn_version_label in
  "namespace " ++ go_quote name ++ " is exempt from Pod Security, and the policy (" ++ join ", " parts
  ++ ") will be ignored".

(** prioritizePods: drop exempt runtime classes; the first pod of each controller
    stays in place, later pods of an already seen controller go to the end. *)
Fixpoint prioritize_aux (c : config) (seen : list string) (pods : list pod) : list pod * list pod :=
  match pods with
  | [] => ([], [])
  | p :: rest =>
      if exempt_runtimeclass c (pd_runtimeClass p) then prioritize_aux c seen rest
      else match pd_ownerUID p with
           | None => let '(a, b) := prioritize_aux c seen rest in (p :: a, b)
           | Some u =>
               if mem u seen then let '(a, b) := prioritize_aux c seen rest in (a, p :: b)
               else let '(a, b) := prioritize_aux c (u :: seen) rest in (p :: a, b)
           end
  end.
Definition prioritize_pods (c : config) (pods : list pod) : list pod :=
  let '(a, b) := prioritize_aux c [] pods in a +:+ b.

(** the aggregation map podWarningsToCount plus the first-seen order podWarnings *)
Record pod_count := PodCount { pc_name : string; pc_count : nat }.
Fixpoint count_update (w name : string) (m : list (string * pod_count)) : list (string * pod_count) :=
  match m with
  | [] => [(w, PodCount name 1)]
  | (w', c) :: r =>
      if String.eqb w w'
      then (w', PodCount (if String.ltb name (pc_name c) then name else pc_name c) (S (pc_count c))) :: r
      else (w', c) :: count_update w name r
  end.

(** the evaluation loop: evaluates pods in order; after pod i, stops if the
    expiry oracle says ctx.Err() is non-nil.  Returns the map (in first-seen
    order), the number of pods checked, and the evaluated pods' names. *)
Fixpoint eval_loop (ev : evaluator) (x : lv) (expire_after : option nat) (i : nat) (pods : list pod)
         (m : list (string * pod_count)) : list (string * pod_count) * nat * list string :=
  match pods with
  | [] => (m, i, [])
  | p :: rest =>
      let r := aggregate_results (ev x p) in
      let m' := if ag_allowed r then m else count_update (forbidden_reason r) (pd_name p) m in
      if match expire_after with Some k => Nat.eqb k i | None => false end
      then (m', S i, [pd_name p])
      else let '(mm, n, names) := eval_loop ev x expire_after (S i) rest m' in (mm, n, pd_name p :: names)
  end.

(** decoratePodWarnings *)
Definition decorate (wc : string * pod_count) : string :=
  let (w, c) := wc in
  match pc_count c with
  | 0 => w
  | 1 => pc_name c ++ ": " ++ w
  | 2 => pc_name c ++ " (and 1 other pod): " ++ w
  | S n => pc_name c ++ " (and " ++ nat_to_string n ++ " other pods): " ++ w
  end.

(** Go duration division truncates toward zero *)
Definition dry_run_deadline (c : config) (deadline : option Z) (now : Z) : Z :=
  let timeout := match deadline with
                 | Some d => let remaining := Z.quot (d - now) 2 in
                             if Z.ltb remaining (cf_timeout c) then remaining else cf_timeout c
                 | None => cf_timeout c
                 end in
  let dl := (now + timeout)%Z in
  match deadline with
  | Some d => Z.min d dl          (* context.WithDeadline keeps an earlier parent deadline *)
  | None => dl
  end.

(** EvaluatePodsInNamespace *)
Definition evaluate_pods_in_namespace (c : config) (ev : evaluator) (r : request) (w : world)
           (nsname : string) (x : lv) : list string * list event :=
  let dl := dry_run_deadline c (r_deadline r) (w_now w) in
  match w_pods w with
  | None => (["failed to list pods while checking new PodSecurity enforce level"], [EvList dl])
  | Some pods =>
      let prioritized := prioritize_pods c pods in
      let total := List.length prioritized in
      let capped := firstn (cf_max_pods c) prioritized in
      let '(m, checked, names) := eval_loop ev x (w_expire_after w) 0 capped [] in
      let trunc := if Nat.ltb checked total
                   then ["new PodSecurity enforce level only checked against the first " ++ nat_to_string checked
                         ++ " of " ++ nat_to_string total ++ " existing pods"]
                   else [] in
      let header := if is_nil m then []
                    else ["existing pods in namespace " ++ go_quote nsname ++ " violate the new PodSecurity enforce level "
                          ++ go_quote (lv_string x)] in
      (trunc +:+ header +:+ ssort (map decorate m),
       EvList dl :: map (fun n => EvEval x n) names)
  end.

Definition ferrs_eqb (a b : list ferr) : bool := list_eqb ferr_eqb a b.

(** ValidateNamespace *)
Definition validate_namespace (c : config) (ev : evaluator) (r : request) (w : world) : response * list event :=
  if negb (String.eqb (r_subresource r) "") then (shared_allowed, []) else
  match r_object r with
  | ODecodeErr _ => (bad_request "failed to decode object", [EvDecode])
  | ONamespace name ls =>
      let '(new_pol, new_errs) := policy_to_evaluate ls (cf_defaults c) in
      let exempt_branch (fallback : response) :=
        let warning := exempt_namespace_warning c name new_pol ls in
        if String.eqb warning "" then fallback else with_warnings allowed_fresh [warning] in
      match r_op r with
      | OpCreate =>
          if negb (is_nil new_errs) then (invalid new_errs, [EvDecode])
          else if exempt_namespace c (r_namespace r) then (exempt_branch shared_allowed, [EvDecode])
          else (shared_allowed, [EvDecode])
      | OpUpdate =>
          match r_old r with
          | ODecodeErr _ => (bad_request "failed to decode  old object", [EvDecode; EvDecodeOld])
          | ONamespace _ old_ls =>
              let '(old_pol, old_errs) := policy_to_evaluate old_ls (cf_defaults c) in
              let tr := [EvDecode; EvDecodeOld] in
              if negb (is_nil new_errs) && (is_nil old_errs || negb (ferrs_eqb new_errs old_errs))
              then (invalid new_errs, tr)
              else if lv_eqb (enforce new_pol) (enforce old_pol) then (shared_allowed, tr)
              else if level_eqb (lv_level (enforce new_pol)) Privileged then (shared_allowed, tr)
              else if version_eqb (lv_version (enforce new_pol)) (lv_version (enforce old_pol))
                      && match compare_levels (lv_level (enforce new_pol)) (lv_level (enforce old_pol)) with
                         | Gt => false | _ => true end
              then (shared_allowed, tr)
              else if exempt_namespace c (r_namespace r) then (exempt_branch shared_allowed, tr)
              else
                let '(warns, tr2) := evaluate_pods_in_namespace c ev r w name (enforce new_pol) in
                (with_warnings allowed_fresh warns, tr +:+ tr2)
          | _ => (bad_request "failed to decode  old namespace", [EvDecode; EvDecodeOld])
          end
      | OpOther _ => (shared_allowed, [EvDecode])
      end
  | _ => (bad_request "failed to decode namespace", [EvDecode])
  end.

(** Admission.Validate *)
Definition validate (c : config) (ev : evaluator) (r : request) (w : world) : response * list event :=
  if String.eqb (r_group r) "" && String.eqb (r_resource r) "namespaces" then validate_namespace c ev r w
  else if String.eqb (r_group r) "" && String.eqb (r_resource r) "pods" then validate_pod c ev r w
  else validate_controller c ev r w.
