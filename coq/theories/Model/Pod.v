(** Model/Pod.v - the abstract pod: exactly the fields of metav1.ObjectMeta /
    corev1.PodSpec that some control, exemption, significance test or dry-run
    step reads, with Go's nil / empty / set distinctions preserved.
    The abstraction function alpha : *corev1.Pod -> pod lives in the Go harness
    (harness/internal/enc/pod.go). *)
From Coq Require Import List Bool ZArith String.
From PSA Require Import Base.Str.
Import ListNotations.

Record selinux := SELinux { se_type : string; se_user : string; se_role : string }.

(** container securityContext (only when non-nil) *)
Record secctx := SecCtx {
  sc_privileged : option bool;
  sc_allowPE : option bool;
  sc_runAsNonRoot : option bool;
  sc_runAsUser : option Z;
  sc_procMount : option string;
  sc_caps : option (list string * list string);     (* capabilities: (add, drop) *)
  sc_seccomp : option string;                       (* seccompProfile.type *)
  sc_apparmor : option string;                      (* appArmorProfile.type *)
  sc_selinux : option selinux;
  sc_winHP : option (option bool)                   (* windowsOptions nil | .hostProcess nil / set *)
}.

Record container := Container {
  c_name : string;
  c_image : string;
  c_hostPorts : list Z;            (* ports[*].hostPort, in order, zeros included *)
  c_sc : option secctx
}.

(** pod securityContext (only when non-nil) *)
Record podsc := PodSC {
  p_runAsNonRoot : option bool;
  p_runAsUser : option Z;
  p_seccomp : option string;
  p_apparmor : option string;
  p_selinux : option selinux;
  p_sysctls : list string;
  p_winHP : option (option bool)
}.

(** a volume: its name and the JSON names of the non-nil members of its
    VolumeSource, in struct order ("hostPath", "emptyDir", ..., "image") *)
Record volume := Volume { v_name : string; v_sources : list string }.

Record pod := Pod {
  pd_name : string;
  pd_annotations : list (string * string);
  pd_ownerUID : option string;          (* UID of the controller owner reference *)
  pd_hostNetwork : bool;
  pd_hostPID : bool;
  pd_hostIPC : bool;
  pd_hostUsers : option bool;
  pd_os : option string;                (* spec.os.name when spec.os is set *)
  pd_runtimeClass : option string;
  pd_init : list container;
  pd_containers : list container;
  pd_ephemeral : list container;
  pd_volumes : list volume;
  pd_sc : option podsc
}.

(** policy/visitor.go:visitContainers order *)
Definition all_containers (p : pod) : list container :=
  (pd_init p ++ pd_containers p ++ pd_ephemeral p)%list.

Definition set_hostUsers (p : pod) (h : option bool) : pod :=
  Pod (pd_name p) (pd_annotations p) (pd_ownerUID p) (pd_hostNetwork p) (pd_hostPID p) (pd_hostIPC p)
      h (pd_os p) (pd_runtimeClass p) (pd_init p) (pd_containers p) (pd_ephemeral p) (pd_volumes p) (pd_sc p).

Definition set_annotations (p : pod) (a : list (string * string)) : pod :=
  Pod (pd_name p) a (pd_ownerUID p) (pd_hostNetwork p) (pd_hostPID p) (pd_hostIPC p)
      (pd_hostUsers p) (pd_os p) (pd_runtimeClass p) (pd_init p) (pd_containers p) (pd_ephemeral p) (pd_volumes p) (pd_sc p).

Definition set_volumes (p : pod) (v : list volume) : pod :=
  Pod (pd_name p) (pd_annotations p) (pd_ownerUID p) (pd_hostNetwork p) (pd_hostPID p) (pd_hostIPC p)
      (pd_hostUsers p) (pd_os p) (pd_runtimeClass p) (pd_init p) (pd_containers p) (pd_ephemeral p) v (pd_sc p).

(** field accessors through the optional security contexts *)
Definition csc {A} (f : secctx -> option A) (c : container) : option A :=
  match c_sc c with Some s => f s | None => None end.
Definition psc {A} (f : podsc -> option A) (p : pod) : option A :=
  match pd_sc p with Some s => f s | None => None end.

(** API validity predicates used as hypotheses (boolean, satisfiable) *)
Definition one_source_per_volume (p : pod) : bool :=
  forallb (fun v => Nat.leb (List.length (v_sources v)) 1) (pd_volumes p).

Definition is_windows (p : pod) : bool :=
  match pd_os p with Some o => String.eqb o "windows" | None => false end.

(** validateWindows (k8s.io/kubernetes/pkg/apis/core/validation): on os=windows
    pods these container fields must be unset: capabilities, seccompProfile,
    appArmorProfile, seLinuxOptions, privileged, allowPrivilegeEscalation,
    procMount, runAsUser (and the pod-level counterparts).  Only the ones the
    level ordering needs are required here. *)
Definition windows_no_linux_fields (p : pod) : bool :=
  negb (is_windows p) ||
  (forallb (fun c => match c_sc c with
                     | Some s => negb (is_some (sc_caps s)) && negb (is_some (sc_seccomp s))
                     | None => true end) (all_containers p)
   && match pd_sc p with Some s => negb (is_some (p_seccomp s)) | None => true end).

Definition api_valid (p : pod) : bool := one_source_per_volume p && windows_no_linux_fields p.
