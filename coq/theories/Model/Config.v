(** Model/Config.v - admission/api: load (strict decode + per-version defaulting +
    conversion), validation, ToPolicy.  A configuration document is abstracted
    to the members of its top-level object, in document order, with unknown and
    duplicated keys kept (strict decoding rejects them). *)
From Coq Require Import List Bool NArith Ascii String.
From PSA Require Import Base.Str Model.Api.
Import ListNotations.
Local Open Scope string_scope.

Inductive member :=
| MApiVersion (v : string)
| MKind (k : string)
| MDefaults (entries : list (string * string))          (* "defaults": { key: value, ... } *)
| MExemptions (entries : list (string * list string))   (* "exemptions": { key: [values], ... } *)
| MUnknown (key : string).

Inductive input :=
| InEmpty                   (* zero bytes *)
| InMalformed               (* not decodable into the typed object at all (syntax error, wrong value types) *)
| InDoc (d : list member).

Record loaded := Loaded {
  ld_enforce : string; ld_enforce_version : string;
  ld_audit : string; ld_audit_version : string;
  ld_warn : string; ld_warn_version : string;
  ld_usernames : list string; ld_namespaces : list string; ld_runtimeclasses : list string
}.

Definition config_group := "pod-security.admission.config.k8s.io".
Definition config_kind := "PodSecurityConfiguration".
Definition served_versions : list string := ["v1"; "v1beta1"; "v1alpha1"].
Definition default_keys : list string := ["enforce"; "enforce-version"; "audit"; "audit-version"; "warn"; "warn-version"].
Definition exemption_keys : list string := ["usernames"; "namespaces"; "runtimeClasses"].

Fixpoint has_dup (l : list string) : bool :=
  match l with [] => false | x :: r => mem x r || has_dup r end.

Definition member_key (m : member) : string :=
  match m with
  | MApiVersion _ => "apiVersion" | MKind _ => "kind" | MDefaults _ => "defaults"
  | MExemptions _ => "exemptions" | MUnknown k => k
  end.

(** strict decoding: no unknown member, no duplicated member, at any level *)
Definition strict_ok (d : list member) : bool :=
  negb (has_dup (map member_key d))
  && forallb (fun m => match m with
                       | MUnknown _ => false
                       | MDefaults es => negb (has_dup (map fst es)) && forallb (fun e => mem (fst e) default_keys) es
                       | MExemptions es => negb (has_dup (map fst es)) && forallb (fun e => mem (fst e) exemption_keys) es
                       | _ => true
                       end) d.

Definition find_api_version (d : list member) : option string :=
  match find (fun m => match m with MApiVersion _ => true | _ => false end) d with
  | Some (MApiVersion v) => Some v | _ => None end.
Definition find_kind (d : list member) : option string :=
  match find (fun m => match m with MKind _ => true | _ => false end) d with
  | Some (MKind k) => Some k | _ => None end.
Definition defaults_of (d : list member) : list (string * string) :=
  match find (fun m => match m with MDefaults _ => true | _ => false end) d with
  | Some (MDefaults es) => es | _ => [] end.
Definition exemptions_of (d : list member) : list (string * list string) :=
  match find (fun m => match m with MExemptions _ => true | _ => false end) d with
  | Some (MExemptions es) => es | _ => [] end.

(** SetDefaults_PodSecurityDefaults (the three per-version copies are identical) *)
Definition default_level (s : string) : string := if String.eqb s "" then "privileged" else s.
Definition default_version (s : string) : string := if String.eqb s "" then "latest" else s.
Definition str_field (k : string) (es : list (string * string)) : string :=
  match lookup k es with Some v => v | None => "" end.
Definition list_field (k : string) (es : list (string * list string)) : list string :=
  match lookup k es with Some v => v | None => [] end.

Definition set_defaults (version : string) (ds : list (string * string)) (es : list (string * list string)) : loaded :=
  (* [version] selects the per-version defaulting function; all three behave alike *)
  Loaded (default_level (str_field "enforce" ds)) (default_version (str_field "enforce-version" ds))
         (default_level (str_field "audit" ds)) (default_version (str_field "audit-version" ds))
         (default_level (str_field "warn" ds)) (default_version (str_field "warn-version" ds))
         (list_field "usernames" es) (list_field "namespaces" es) (list_field "runtimeClasses" es).

(** load.LoadFromData *)
Definition load (i : input) : option loaded :=
  match i with
  | InEmpty => Some (set_defaults "v1" [] [])
  | InMalformed => None
  | InDoc d =>
      if negb (strict_ok d) then None else
      match find_api_version d, find_kind d with
      | Some av, Some k =>
          match strip_prefix (config_group ++ "/") av with
          | Some v => if mem v served_versions && String.eqb k config_kind
                      then Some (set_defaults v (defaults_of d) (exemptions_of d)) else None
          | None => None
          end
      | _, _ => None
      end
  end.

(* ------------------------------------------------------------- validation *)

Definition is_lower_alnum (c : ascii) : bool :=
  let n := N_of_ascii c in (N.leb 97 n && N.leb n 122) || (N.leb 48 n && N.leb n 57).
Definition is_label_char (c : ascii) : bool := is_lower_alnum c || Ascii.eqb c "-"%char.
Fixpoint all_chars (f : ascii -> bool) (s : string) : bool :=
  match s with EmptyString => true | String c r => f c && all_chars f r end.
Fixpoint last_char (s : string) : option ascii :=
  match s with EmptyString => None | String c EmptyString => Some c | String _ r => last_char r end.
(** the regexp [a-z0-9]([-a-z0-9]*[a-z0-9])? *)
Definition label_fmt (s : string) : bool :=
  match s with
  | EmptyString => false
  | String c _ => is_lower_alnum c && all_chars is_label_char s
                  && match last_char s with Some l => is_lower_alnum l | None => false end
  end.
(** IsDNS1123Label *)
Definition is_dns_label (s : string) : bool := Nat.leb (String.length s) 63 && label_fmt s.
(** split on '.' *)
Fixpoint split_dots (s : string) (cur : string) : list string :=
  match s with
  | EmptyString => [string_rev cur]
  | String c r => if Ascii.eqb c "."%char then string_rev cur :: split_dots r EmptyString
                  else split_dots r (String c cur)
  end.
(** IsDNS1123Subdomain *)
Definition is_dns_subdomain (s : string) : bool :=
  Nat.leb (String.length s) 253 && forallb label_fmt (split_dots s EmptyString).

Inductive verr_kind := Invalid | Duplicate.
Definition verr := (string * nat * verr_kind)%type.   (* path, index (0 for the six defaults), kind *)

(** the exemption list loops: an invalid entry is reported and not remembered; a
    valid entry seen before is a duplicate *)
Fixpoint validate_list (path : string) (ok : string -> bool) (l : list string) (i : nat) (seen : list string) : list verr :=
  match l with
  | [] => []
  | x :: r =>
      if negb (ok x) then (path, i, Invalid) :: validate_list path ok r (S i) seen
      else if mem x seen then (path, i, Duplicate) :: validate_list path ok r (S i) seen
      else validate_list path ok r (S i) (x :: seen)
  end.

Definition level_errs (path s : string) : list verr := if snd (parse_level s) then [] else [(path, 0, Invalid)].
Definition version_errs (path s : string) : list verr := if snd (parse_version s) then [] else [(path, 0, Invalid)].

(** validation.ValidatePodSecurityConfiguration *)
Definition validate_config (c : loaded) : list verr :=
  level_errs "defaults.enforce" (ld_enforce c) +:+ version_errs "defaults.enforce-version" (ld_enforce_version c)
  +:+ level_errs "defaults.warn" (ld_warn c) +:+ version_errs "defaults.warn-version" (ld_warn_version c)
  +:+ level_errs "defaults.audit" (ld_audit c) +:+ version_errs "defaults.audit-version" (ld_audit_version c)
  +:+ validate_list "exemptions.namespaces" is_dns_label (ld_namespaces c) 0 []
  +:+ validate_list "exemptions.runtimeClasses" is_dns_subdomain (ld_runtimeclasses c) 0 []
  +:+ validate_list "exemptions.usernames" (fun u => negb (String.eqb u "")) (ld_usernames c) 0 [].

(** admissionapi.ToPolicy: None when any of the six is empty or unparsable *)
Definition to_policy (c : loaded) : option policy :=
  let lvl s := if String.eqb s "" then None else let '(l, ok) := parse_level s in if ok then Some l else None in
  let ver s := if String.eqb s "" then None else let '(v, ok) := parse_version s in if ok then Some v else None in
  match lvl (ld_enforce c), ver (ld_enforce_version c), lvl (ld_audit c), ver (ld_audit_version c),
        lvl (ld_warn c), ver (ld_warn_version c) with
  | Some el, Some ev, Some al, Some av, Some wl, Some wv => Some (Policy (LV el ev) (LV al av) (LV wl wv))
  | _, _, _, _, _, _ => None
  end.
