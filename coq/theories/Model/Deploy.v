(** Model/Deploy.v - the webhook as deployed: cmd/webhook/server.Setup.
    A configuration document is loaded (load.LoadFromData), completed
    (Admission.CompleteConfiguration: ToPolicy of the defaults, the dry-run
    limits) and validated (Admission.ValidateConfiguration); the delegate is
    wired to the namespace informer's lister backed by live GETs and to live
    pod LISTs; HandleValidate serves reviews. *)
From Coq Require Import List Bool NArith ZArith String.
From PSA Require Import Base.Str Model.Api Model.Pod Model.Checks Model.Registry Model.Admission Model.Namespace
     Model.Sources Model.Webhook Model.Config.
Import ListNotations.

Definition default_max_pods : nat := 3000.
Definition default_timeout_ns : Z := 1000000000.

(** Setup succeeds exactly when the document loads, its defaults convert and it validates *)
Definition deploy (i : input) : option config :=
  match load i with
  | None => None
  | Some l =>
      match to_policy l with
      | None => None
      | Some pol =>
          if is_nil (validate_config l)
          then Some (Config pol (ld_namespaces l) (ld_usernames l) (ld_runtimeclasses l) default_max_pods default_timeout_ns)
          else None
      end
  end.

(** NamespaceGetterFromListerAndClient + PodListerFromClient *)
Definition production_wiring : wiring := Wiring true false.

(** the review's request answered over the present cluster state *)
Definition with_sources (cl : cluster) (f : faults) (now : Z) (q : http_request) : http_request :=
  match hq_payload q with
  | Review uid r _ =>
      HttpRequest (hq_has_body q) (hq_size q) (hq_ctype q)
                  (Review uid r (world_of production_wiring cl f (r_namespace r) None now))
  | _ => q
  end.
Definition serve (c : config) (ev : evaluator) (cl : cluster) (f : faults) (now : Z) (q : http_request) : http_response :=
  handle c ev (with_sources cl f now q).

(** document in, HTTP answer out; None: the server does not come up *)
Definition full_stack (i : input) (ev : evaluator) (cl : cluster) (f : faults) (now : Z) (q : http_request) : option http_response :=
  match deploy i with
  | Some c => Some (serve c ev cl f now q)
  | None => None
  end.
