(** Model/Shipped.v - the registered check set of the current source tree: the
    generated table (Gen/ChecksTable.v) and allow-lists (Gen/AllowLists.v)
    bound to the model functions through [check_dictionary].
    Revisions carry the *name* of the Go function bound to them; evaluation looks
    the name up in the dictionary, so a table naming an unknown function is
    visible as a denying placeholder result and as a failed [all_bound]. *)
From Coq Require Import List Bool NArith String.
From PSA Require Import Base.Str Model.Api Model.Pod Model.Checks Model.Registry.
From PSA Require Gen.ChecksTable Gen.AllowLists.
Import ListNotations.
Local Open Scope string_scope.

Definition named_check := check string.

Definition run_check (al : allowlists) (relax : bool) (fname : string) (p : pod) : check_result :=
  match lookup_check fname with
  | Some f => f al relax p
  | None => CR false "unbound check function" fname
  end.

(** the model of policy.Evaluator for a named check set *)
Definition evaluate_pod (al : allowlists) (relax : bool) (cs : list named_check)
           (l : level) (v : version) (p : pod) : list check_result :=
  map (fun x => run_check al relax (vc_fn (snd x)) p) (resolve cs l v).

Definition eval_allowed (al : allowlists) (relax : bool) (cs : list named_check)
           (l : level) (v : version) (p : pod) : bool :=
  forallb cr_allowed (evaluate_pod al relax cs l v p).

Definition all_bound (cs : list named_check) : bool :=
  forallb (fun c => forallb (fun r => is_some (lookup_check (vc_fn r))) (ck_versions c)) cs.

Definition conv_rev (t : bool * N * N * string * list string) : vcheck string :=
  let '(lat, ma, mi, fn, ov) := t in VC (if lat then Latest else V ma mi) fn ov.
Definition conv_check (t : string * string * list (bool * N * N * string * list string)) : named_check :=
  let '(id, lvl, revs) := t in CK id lvl (map conv_rev revs).

Definition shipped_checks : list named_check := map conv_check Gen.ChecksTable.gen_default_checks.
Definition shipped_experimental : list named_check := map conv_check Gen.ChecksTable.gen_experimental_checks.

Definition shipped_lists : allowlists :=
  AllowLists Gen.AllowLists.gen_capabilities_allowed_1_0
             Gen.AllowLists.gen_sysctlsAllowedV1Dot0 Gen.AllowLists.gen_sysctlsAllowedV1Dot27
             Gen.AllowLists.gen_sysctlsAllowedV1Dot29 Gen.AllowLists.gen_sysctlsAllowedV1Dot32
             Gen.AllowLists.gen_selinuxAllowedTypes1_0 Gen.AllowLists.gen_selinuxAllowedTypes1_31.

Definition shipped_eval (relax : bool) := evaluate_pod shipped_lists relax shipped_checks.

(** Memoised resolution for the correspondence evaluators: the (level, version)
    -> function-name lists of the shipped table for every minor up to max+2,
    computed once when this file is compiled (it is re-compiled whenever the
    generated table changes).  Each entry is by construction [resolve] applied
    to that key; keys outside the table fall back to [resolve] itself. *)
Definition fn_names (l : list (string * vcheck string)) : list string := map (fun x => vc_fn (snd x)) l.
Definition shipped_max_minor : N := minor_of (max_version shipped_checks).
Definition memo_versions : list version :=
  Latest :: map (fun k => V 1 (N.of_nat k)) (seq 0 (N.to_nat shipped_max_minor + 3)).
Definition shipped_memo : list (level * version * list string) :=
  Eval vm_compute in
    flat_map (fun v => [(Baseline, v, fn_names (resolve shipped_checks Baseline v));
                        (Restricted, v, fn_names (resolve shipped_checks Restricted v))]) memo_versions.
Fixpoint memo_find (l : level) (v : version) (m : list (level * version * list string)) : option (list string) :=
  match m with
  | [] => None
  | (l', v', r) :: rest => if level_eqb l l' && version_eqb v v' then Some r else memo_find l v rest
  end.
Definition shipped_resolve_names (l : level) (v : version) : list string :=
  match memo_find l v shipped_memo with
  | Some r => r
  | None => fn_names (resolve shipped_checks l v)
  end.
Definition shipped_eval_fast (relax : bool) (l : level) (v : version) (p : pod) : list check_result :=
  map (fun fn => run_check shipped_lists relax fn p) (shipped_resolve_names l v).
