(** Model/Wire.v - api/attributes.go: the adapter from the AdmissionRequest the API
    server sends to the Attributes the admission library reads (RequestAttributes).
    The request carries more than the library looks at; what it does look at:
      GetResource      = request.resource          (not requestResource)
      GetSubresource   = request.requestSubResource (not subResource)
      GetUserName      = request.userInfo.username (never uid or groups)
      GetObject / GetOldObject = the raw bytes decoded by the webhook's deserializer;
                         absent bytes are a nil object without error. *)
From Coq Require Import List Bool NArith ZArith String.
From PSA Require Import Base.Str Model.Api Model.Pod Model.Admission.
Import ListNotations.
Local Open Scope string_scope.

Inductive raw :=
| RawAbsent                                (* no bytes: GetObject returns (nil, nil) *)
| RawUndecodable (err : string)            (* bytes the deserializer rejects *)
| RawObject (o : obj).                     (* bytes that decode to a registered kind *)

Record admission_request := AdmissionRequest {
  ar_uid : string;
  ar_group : string; ar_resource : string; ar_subresource : string;                          (* .resource, .subResource *)
  ar_request_group : string; ar_request_resource : string; ar_request_subresource : string;  (* .requestResource, .requestSubResource *)
  ar_name : string; ar_namespace : string; ar_operation : string;
  ar_username : string; ar_user_uid : string; ar_groups : list string;                       (* .userInfo *)
  ar_object : raw; ar_old_object : raw
}.

Definition op_of_string (s : string) : operation :=
  if String.eqb s "CREATE" then OpCreate else if String.eqb s "UPDATE" then OpUpdate else OpOther s.

Definition decode (r : raw) : obj :=
  match r with
  | RawAbsent => ONil
  | RawUndecodable e => ODecodeErr e
  | RawObject o => o
  end.

(** api.RequestAttributes; [deadline] is the deadline of the context the webhook passes along *)
Definition attributes_of (a : admission_request) (deadline : option Z) : request :=
  Request (ar_group a) (ar_resource a) (ar_request_subresource a) (ar_namespace a) (ar_name a) (ar_username a)
          (op_of_string (ar_operation a)) (decode (ar_object a)) (decode (ar_old_object a)) deadline.
