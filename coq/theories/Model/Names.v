(** Model/Names.v - the structured twin of the check details: for every revision,
    the container / volume names its ForbiddenDetail lists (the badContainers /
    badVolumes slices of policy/check_*.go), in the order they are listed. *)
From Coq Require Import List Bool ZArith String.
From PSA Require Import Base.Str Model.Pod Model.Checks.
Import ListNotations.
Local Open Scope string_scope.

Definition names_fn := allowlists -> bool -> pod -> list string.

Definition n_appArmor : names_fn := fun _ _ p => names_where apparmor_bad_container p.
Definition n_capsBaseline : names_fn := fun al _ p =>
  names_where (fun c => negb (is_nil (caps_bad_adds (al_caps al) c))) p.
Definition n_none : names_fn := fun _ _ _ => [].
Definition n_hostPath : names_fn := fun _ _ p =>
  map v_name (filter (fun v => mem "hostPath" (v_sources v)) (pd_volumes p)).
Definition n_hostPorts : names_fn := fun _ _ p => names_where (fun c => negb (is_nil (bad_ports c))) p.
Definition n_privileged : names_fn := fun _ _ p =>
  names_where (fun c => match csc sc_privileged c with Some true => true | _ => false end) p.
Definition n_procMount : names_fn := fun _ relax p =>
  if relax_pod relax p then [] else names_where (fun c => is_some (procmount_bad c)) p.
Definition n_seLinux (allowed : list string) (p : pod) : list string :=
  names_where (fun c => match csc sc_selinux c with
                        | Some o => negb (selinux_valid allowed o) | None => false end) p.
Definition n_seccomp_explicit : names_fn := fun _ _ p => names_where seccomp_bad_container p.
Definition n_winHP : names_fn := fun _ _ p => names_where (fun c => is_host_process (csc sc_winHP c)) p.
Definition n_allowPE : names_fn := fun _ _ p =>
  names_where (fun c => match csc sc_allowPE c with Some false => false | _ => true end) p.
Definition n_capsRestricted : names_fn := fun _ _ p =>
  names_where missing_drop_all p +:+ names_where (fun c => negb (is_nil (forbidden_adds c))) p.
Definition n_restrictedVolumes : names_fn := fun _ _ p =>
  map v_name (filter (fun v => negb (volume_allowed v)) (pd_volumes p)).
Definition n_runAsNonRoot : names_fn := fun _ relax p =>
  if relax_pod relax p then [] else
  let pod_v := psc p_runAsNonRoot p in
  let explicit := names_where (fun c => match csc sc_runAsNonRoot c with Some false => true | _ => false end) p in
  let implicit := names_where (fun c => match csc sc_runAsNonRoot c with
                                        | None => match pod_v with Some true => false | _ => true end
                                        | Some _ => false end) p in
  if match pod_v with Some false => true | _ => false end || negb (is_nil explicit) then explicit else implicit.
Definition n_runAsUser : names_fn := fun _ relax p =>
  if relax_pod relax p then [] else names_where (fun c => is_zero_user (csc sc_runAsUser c)) p.
Definition n_seccompRestricted : names_fn := fun _ _ p =>
  let pod_ok := match psc p_seccomp p with Some t => valid_seccomp_type t | None => false end in
  let implicit := names_where (fun c => match csc sc_seccomp c with None => negb pod_ok | Some _ => false end) p in
  if negb (is_nil (seccomp_bad_setters p)) then names_where seccomp_bad_container p else implicit.
Definition windows_none (f : names_fn) : names_fn := fun al r p => if is_windows p then [] else f al r p.

Definition names_dictionary : list (string * names_fn) :=
  [("appArmorProfile_1_0", n_appArmor); ("capabilitiesBaseline_1_0", n_capsBaseline);
   ("hostNamespaces_1_0", n_none); ("hostPathVolumes_1_0", n_hostPath); ("hostPorts_1_0", n_hostPorts);
   ("privileged_1_0", n_privileged); ("procMount_1_0", n_procMount);
   ("seLinuxOptions1_0", fun al _ p => n_seLinux (al_selinux_0 al) p);
   ("seLinuxOptions1_31", fun al _ p => n_seLinux (al_selinux_31 al) p);
   ("seccompProfileBaseline_1_0", n_none); ("seccompProfileBaseline_1_19", n_seccomp_explicit);
   ("sysctlsV1Dot0", n_none); ("sysctlsV1Dot27", n_none); ("sysctlsV1Dot29", n_none); ("sysctlsV1Dot32", n_none);
   ("windowsHostProcess_1_0", n_winHP);
   ("allowPrivilegeEscalation_1_8", n_allowPE); ("allowPrivilegeEscalation_1_25", windows_none n_allowPE);
   ("capabilitiesRestricted_1_22", n_capsRestricted); ("capabilitiesRestricted_1_25", windows_none n_capsRestricted);
   ("restrictedVolumes_1_0", n_restrictedVolumes); ("runAsNonRoot_1_0", n_runAsNonRoot);
   ("runAsUser_1_23", n_runAsUser);
   ("seccompProfileRestricted_1_19", n_seccompRestricted);
   ("seccompProfileRestricted_1_25", windows_none n_seccompRestricted)].

Definition check_names (fn : string) (al : allowlists) (relax : bool) (p : pod) : list string :=
  match lookup fn names_dictionary with Some f => f al relax p | None => [] end.
