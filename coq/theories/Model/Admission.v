(** Model/Admission.v - admission/admission.go and admission/response.go.
    Dependencies (NamespaceGetter, PodLister, Attributes.GetObject, the context)
    are oracle answers carried by the [world] of a request; effects (dependency
    calls, evaluator calls, metrics recordings) are returned as an event trace.
    The policy.Evaluator is a parameter [ev]. *)
From Coq Require Import List Bool NArith ZArith String.
From PSA Require Import Base.Str Model.Api Model.Pod Model.Checks Model.Registry.
Import ListNotations.
Local Open Scope string_scope.

(* ------------------------------------------------------------------ types *)

Inductive operation := OpCreate | OpUpdate | OpOther (raw : string).

(** what Attributes.GetObject / GetOldObject hands back *)
Inductive obj :=
| ODecodeErr (msg : string)                 (* (nil, err) *)
| ONil                                      (* (nil, nil): no raw object in the request *)
| OPod (p : pod)
| ONamespace (name : string) (ls : labels)
| OController (kind : string) (tmpl : option pod)  (* a pod-bearing type; None = optional template absent *)
| OOther (what : string).                   (* any other runtime.Object *)

Record request := Request {
  r_group : string; r_resource : string;    (* attrs.GetResource().GroupResource() *)
  r_subresource : string;
  r_namespace : string;                     (* attrs.GetNamespace() *)
  r_name : string;
  r_user : string;
  r_op : operation;
  r_object : obj;
  r_old : obj;
  r_deadline : option Z                     (* ctx deadline, ns, absolute *)
}.

(** oracle answers for the dependency calls this request can make *)
Record world := World {
  w_ns : option labels;                     (* GetNamespace: Some labels | error *)
  w_ns_err : string;                        (* the error text when w_ns = None *)
  w_pods : option (list pod);               (* ListPods: Some pods | error *)
  w_expire_after : option nat;              (* ctx.Err() first non-nil after evaluating pod #i *)
  w_now : Z
}.

Record config := Config {
  cf_defaults : policy;
  cf_ex_namespaces : list string;
  cf_ex_users : list string;
  cf_ex_rcs : list string;
  cf_max_pods : nat;                        (* namespaceMaxPodsToCheck *)
  cf_timeout : Z                            (* namespacePodCheckTimeout, ns *)
}.

Inductive shared_tag := Fresh | SharedAllowed | SharedPrivileged | SharedUser | SharedNamespace | SharedRuntimeClass.

Record response := Response {
  rs_allowed : bool;
  rs_code : option Z;                       (* Result.Code, None when Result is nil *)
  rs_reason : string;                       (* Result.Reason *)
  rs_message : string;                      (* for 403: the text after "is forbidden: "; otherwise Result.Message *)
  rs_causes : list ferr;                    (* 422: (label key, bad value) of each cause *)
  rs_warnings : list string;
  rs_audit : list (string * string);        (* AuditAnnotations; the "error" value is modelled up to its stable prefix *)
  rs_shared : shared_tag                    (* which process-wide shared object is returned, if any *)
}.

Inductive emode := ModeEnforce | ModeAudit | ModeWarn.
Inductive event :=
| EvNsLookup | EvDecode | EvDecodeOld
| EvList (deadline : Z)                     (* PodLister.ListPods, with the deadline of the ctx it is given *)
| EvEval (x : lv) (podname : string)        (* Evaluator.EvaluatePod *)
| MEval (deny : bool) (x : lv) (m : emode)  (* Metrics.RecordEvaluation *)
| MExempt                                   (* Metrics.RecordExemption *)
| MError (fatal : bool).                    (* Metrics.RecordError *)

Definition evaluator := lv -> pod -> list check_result.

(* ------------------------------------------------------------ response.go *)

Definition allowed_fresh : response := Response true None "" "" [] [] [] Fresh.
Definition shared_allowed : response := Response true None "" "" [] [] [] SharedAllowed.
Definition shared_privileged : response :=
  Response true None "" "" [] [] [("enforce-policy", "privileged:latest")] SharedPrivileged.
Definition shared_user : response := Response true None "" "" [] [] [("exempt", "user")] SharedUser.
Definition shared_namespace : response := Response true None "" "" [] [] [("exempt", "namespace")] SharedNamespace.
Definition shared_runtimeclass : response :=
  Response true None "" "" [] [] [("exempt", "runtimeClass")] SharedRuntimeClass.

(** errorResponse(err, NewBadRequest(msg)) / NewInternalError *)
Definition bad_request (msg : string) : response :=
  Response false (Some 400%Z) "BadRequest" msg [] [] [("error", msg)] Fresh.
Definition internal_error (msg : string) : response :=
  Response false (Some 500%Z) "InternalError" ("Internal error occurred: " ++ msg) []
           [] [("error", "Internal error occurred: " ++ msg)] Fresh.
Definition forbidden (msg : string) : response :=
  Response false (Some 403%Z) "Forbidden" msg [] [] [] Fresh.
Definition invalid (errs : list ferr) : response :=
  Response false (Some 422%Z) "Invalid" "" errs [] [] Fresh.
Definition with_warnings (r : response) (w : list string) : response :=
  Response (rs_allowed r) (rs_code r) (rs_reason r) (rs_message r) (rs_causes r) w (rs_audit r) (rs_shared r).
Definition with_audit (r : response) (a : list (string * string)) : response :=
  Response (rs_allowed r) (rs_code r) (rs_reason r) (rs_message r) (rs_causes r) (rs_warnings r) a (rs_shared r).

(* ------------------------------------------------------------ exemptions *)

(** containsString with the empty-value guard *)
Definition exempt_in (x : string) (l : list string) : bool :=
  negb (String.eqb x "") && mem x l.
Definition exempt_namespace (c : config) (ns : string) : bool := exempt_in ns (cf_ex_namespaces c).
Definition exempt_user (c : config) (u : string) : bool := exempt_in u (cf_ex_users c).
Definition exempt_runtimeclass (c : config) (rc : option string) : bool :=
  match rc with Some s => exempt_in s (cf_ex_rcs c) | None => false end.

Definition ignored_pod_subresources : list string :=
  ["exec"; "attach"; "binding"; "eviction"; "log"; "portforward"; "proxy"; "status"].

(* ------------------------------------------------------------ EvaluatePod *)

Definition cache := list (lv * aggregate).
Fixpoint cache_get (k : lv) (c : cache) : option aggregate :=
  match c with
  | [] => None
  | (k', a) :: r => if lv_eqb k k' then Some a else cache_get k r
  end.

(** Admission.EvaluatePod *)
Definition evaluate_pod_request (c : config) (ev : evaluator) (pol : policy) (errs : list ferr)
           (p : pod) (enforce_mode : bool) : response * list event :=
  if exempt_runtimeclass c (pd_runtimeClass p) then (shared_runtimeclass, [MExempt]) else
  let ann0 := if is_nil errs then [] else [("error", "Failed to parse policy: ")] in
  let tr0 := if is_nil errs then [] else [MError false] in
  (* enforce *)
  let '(resp, ann1, tr1, cached) :=
    if enforce_mode then
      let e := enforce pol in
      let result := aggregate_results (ev e p) in
      let resp := if ag_allowed result then allowed_fresh
                  else forbidden ("violates PodSecurity " ++ go_quote (lv_string e) ++ ": " ++ forbidden_detail result) in
      (resp, ann0 +:+ [("enforce-policy", lv_string e)],
       tr0 +:+ [EvEval e (pd_name p); MEval (negb (ag_allowed result)) e ModeEnforce],
       [(e, result)])
    else (allowed_fresh, ann0, tr0, []) in
  (* audit *)
  let a := audit pol in
  let '(audit_result, tr2, cached2) :=
    match cache_get a cached with
    | Some r => (r, tr1, cached)
    | None => let r := aggregate_results (ev a p) in (r, tr1 +:+ [EvEval a (pd_name p)], cached +:+ [(a, r)])
    end in
  let '(ann2, tr3) :=
    if ag_allowed audit_result then (ann1, tr2)
    else (ann1 +:+ [("audit-violations",
                     "would violate PodSecurity " ++ go_quote (lv_string a) ++ ": " ++ forbidden_detail audit_result)],
          tr2 +:+ [MEval true a ModeAudit]) in
  (* warn, only when still allowed *)
  let w := warn pol in
  let '(warns, tr4) :=
    if rs_allowed resp then
      let '(warn_result, tr) :=
        match cache_get w cached2 with
        | Some r => (r, tr3)
        | None => (aggregate_results (ev w p), tr3 +:+ [EvEval w (pd_name p)])
        end in
      if ag_allowed warn_result then ([], tr)
      else (["would violate PodSecurity " ++ go_quote (lv_string w) ++ ": " ++ forbidden_detail warn_result],
            tr +:+ [MEval true w ModeWarn])
    else ([], tr3) in
  (with_audit (with_warnings resp warns) ann2, tr4).

(* ------------------------------------------------- isSignificantPodUpdate *)

Fixpoint images_differ (a b : list container) : bool :=
  match a, b with
  | x :: a', y :: b' => negb (String.eqb (c_image x) (c_image y)) || images_differ a' b'
  | _, _ => false
  end.
Definition ephemeral_significant (new old : list container) : bool :=
  existsb (fun c => match find (fun oc => String.eqb (c_name oc) (c_name c)) old with
                    | None => true
                    | Some oc => negb (String.eqb (c_image c) (c_image oc))
                    end) new.
Definition significant_update (p old : pod) : bool :=
  negb (Nat.eqb (List.length (pd_containers p)) (List.length (pd_containers old)))
  || negb (Nat.eqb (List.length (pd_init p)) (List.length (pd_init old)))
  || images_differ (pd_containers p) (pd_containers old)
  || images_differ (pd_init p) (pd_init old)
  || ephemeral_significant (pd_ephemeral p) (pd_ephemeral old).

(* ------------------------------------------------------------ ValidatePod *)

Definition is_update (o : operation) : bool := match o with OpUpdate => true | _ => false end.
Definition is_create (o : operation) : bool := match o with OpCreate => true | _ => false end.

Definition validate_pod (c : config) (ev : evaluator) (r : request) (w : world) : response * list event :=
  if mem (r_subresource r) ignored_pod_subresources then (shared_allowed, []) else
  if exempt_namespace c (r_namespace r) then (shared_namespace, [MExempt]) else
  if exempt_user c (r_user r) then (shared_user, [MExempt]) else
  match w_ns w with
  | None => (internal_error ("failed to lookup namespace " ++ go_quote (r_namespace r)), [EvNsLookup; MError true])
  | Some ls =>
    let '(pol, errs) := policy_to_evaluate ls (cf_defaults c) in
    if is_nil errs && fully_privileged pol then
      (shared_privileged, [EvNsLookup; MEval false (enforce pol) ModeEnforce])
    else
    match r_object r with
    | ODecodeErr _ => (bad_request "failed to decode object", [EvNsLookup; EvDecode; MError true])
    | OPod p =>
      let go (pre : list event) :=
        let '(resp, tr) := evaluate_pod_request c ev pol errs p true in (resp, pre +:+ tr) in
      if is_update (r_op r) then
        match r_old r with
        | ODecodeErr _ => (bad_request "failed to decode old object", [EvNsLookup; EvDecode; EvDecodeOld; MError true])
        | OPod old =>
            if significant_update p old then go [EvNsLookup; EvDecode; EvDecodeOld]
            else (shared_allowed, [EvNsLookup; EvDecode; EvDecodeOld])
        | _ => (bad_request "failed to decode old pod", [EvNsLookup; EvDecode; EvDecodeOld; MError true])
        end
      else go [EvNsLookup; EvDecode]
    | _ => (bad_request "failed to decode pod", [EvNsLookup; EvDecode; MError true])
    end
  end.

(* -------------------------------------------------- ValidatePodController *)

(** DefaultPodSpecExtractor.ExtractPodSpec: Some (Some t) = template, Some None = no template, None = error *)
Definition extract_pod_spec (o : obj) : option (option pod) :=
  match o with
  | OPod p => Some (Some p)
  | OController _ t => Some t
  | _ => None
  end.

Definition allowed_with_error (msg : string) : response :=
  with_audit allowed_fresh [("error", msg)].

Definition validate_controller (c : config) (ev : evaluator) (r : request) (w : world) : response * list event :=
  if negb (String.eqb (r_subresource r) "") then (shared_allowed, []) else
  if exempt_namespace c (r_namespace r) then (shared_namespace, [MExempt]) else
  if exempt_user c (r_user r) then (shared_user, [MExempt]) else
  match w_ns w with
  | None => (allowed_with_error ("failed to lookup namespace " ++ go_quote (r_namespace r) ++ ": "),
             [EvNsLookup; MError true])
  | Some ls =>
    let '(pol, errs) := policy_to_evaluate ls (cf_defaults c) in
    if is_nil errs && level_eqb (lv_level (warn pol)) Privileged && level_eqb (lv_level (audit pol)) Privileged then
      (shared_allowed, [EvNsLookup])
    else
    match r_object r with
    | ODecodeErr _ => (allowed_with_error "failed to decode object: ", [EvNsLookup; EvDecode; MError true])
    | o =>
      match extract_pod_spec o with
      | None => (allowed_with_error "failed to extract pod template: ", [EvNsLookup; EvDecode; MError true])
      | Some None => (shared_allowed, [EvNsLookup; EvDecode])
      | Some (Some p) =>
          let '(resp, tr) := evaluate_pod_request c ev pol errs p false in
          (resp, [EvNsLookup; EvDecode] +:+ tr)
      end
    end
  end.
