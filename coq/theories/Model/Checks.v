(** Model/Checks.v - policy/check_*.go: the 26 check revisions, with the exact
    reason / detail text.  Each revision is a function
      allowlists -> relax:bool -> pod -> check_result
    where [allowlists] carries the package-level allow-list sets (regenerated
    from the source into Gen/AllowLists.v and passed in by Model/Shipped.v) and
    [relax] is the process-wide switch policy.RelaxPolicyForUserNamespacePods. *)
From Coq Require Import List Bool ZArith String.
From PSA Require Import Base.Str Model.Pod.
Import ListNotations.
Local Open Scope string_scope.

Record check_result := CR { cr_allowed : bool; cr_reason : string; cr_detail : string }.
Definition cr_ok : check_result := CR true "" "".

Record allowlists := AllowLists {
  al_caps : list string;          (* capabilities_allowed_1_0 *)
  al_sysctls_0 : list string;     (* sysctlsAllowedV1Dot0 *)
  al_sysctls_27 : list string;
  al_sysctls_29 : list string;
  al_sysctls_32 : list string;
  al_selinux_0 : list string;     (* selinuxAllowedTypes1_0 *)
  al_selinux_31 : list string
}.

Definition check_fn := allowlists -> bool -> pod -> check_result.

Definition names_where (f : container -> bool) (p : pod) : list string :=
  map c_name (filter f (all_containers p)).

(** "container(s) "a", "b"" *)
Definition containers_phrase (names : list string) : string :=
  pluralize "container" "containers" (List.length names) ++ " " ++ join_quote names.

Definition opt_list {A} (b : bool) (x : A) : list A := if b then [x] else [].

(** policy/helpers.go:relaxPolicyForUserNamespacePod *)
Definition relax_pod (relax : bool) (p : pod) : bool :=
  relax && match pd_hostUsers p with Some false => true | _ => false end.

(* ------------------------------------------------------------------ baseline *)

(** check_appArmorProfile.go *)
Definition apparmor_annotation_prefix := "container.apparmor.security.beta.kubernetes.io/".
Definition allowed_apparmor_annotation (v : string) : bool :=
  String.eqb v "" || String.eqb v "runtime/default" || has_prefix "localhost/" v.
Definition allowed_apparmor_type (t : string) : bool :=
  String.eqb t "RuntimeDefault" || String.eqb t "Localhost".

Definition apparmor_bad_container (c : container) : bool :=
  match csc sc_apparmor c with Some t => negb (allowed_apparmor_type t) | None => false end.
Definition apparmor_bad_pod (p : pod) : option string :=
  match psc p_apparmor p with
  | Some t => if allowed_apparmor_type t then None else Some t
  | None => None
  end.
Definition apparmor_forbidden_annotations (p : pod) : list string :=
  flat_map (fun kv : string * string =>
              let (k, v) := kv in
              if has_prefix apparmor_annotation_prefix k && negb (allowed_apparmor_annotation v)
              then [k ++ "=" ++ go_quote v] else [])
           (pd_annotations p).

Definition appArmorProfile_1_0 : check_fn := fun _ _ p =>
  let pod_bad := apparmor_bad_pod p in
  let bad_containers := names_where apparmor_bad_container p in
  let bad_values :=
    sset_of ((match pod_bad with Some t => [t] | None => [] end) +:+
             flat_map (fun c => if apparmor_bad_container c
                                then match csc sc_apparmor c with Some t => [t] | None => [] end
                                else []) (all_containers p)) in
  let forbidden := apparmor_forbidden_annotations p in
  let bad_value_list := bad_values +:+ ssort forbidden in
  let bad_setters :=
    opt_list (is_some pod_bad) "pod" +:+
    opt_list (negb (is_nil bad_containers)) (containers_phrase bad_containers) +:+
    opt_list (negb (is_nil forbidden)) (pluralize "annotation" "annotations" (List.length forbidden)) in
  if is_nil bad_setters then cr_ok
  else CR false
          (pluralize "forbidden AppArmor profile" "forbidden AppArmor profiles" (List.length bad_value_list))
          (join " and " bad_setters ++ " must not set AppArmor profile type to " ++ join_quote bad_value_list).

(** check_capabilities_baseline.go *)
Definition caps_bad_adds (allowed : list string) (c : container) : list string :=
  match csc sc_caps c with
  | Some (add, _) => filter (fun x => negb (mem x allowed)) add
  | None => []
  end.
Definition capabilitiesBaseline_1_0 : check_fn := fun al _ p =>
  let bad c := negb (is_nil (caps_bad_adds (al_caps al) c)) in
  let bad_containers := names_where bad p in
  let non_default := sset_of (flat_map (caps_bad_adds (al_caps al)) (all_containers p)) in
  if is_nil bad_containers then cr_ok
  else CR false "non-default capabilities"
          (containers_phrase bad_containers ++ " must not include " ++ join_quote non_default
           ++ " in securityContext.capabilities.add").

(** check_hostNamespaces.go *)
Definition hostNamespaces_1_0 : check_fn := fun _ _ p =>
  let l := opt_list (pd_hostNetwork p) "hostNetwork=true" +:+ opt_list (pd_hostPID p) "hostPID=true"
           +:+ opt_list (pd_hostIPC p) "hostIPC=true" in
  if is_nil l then cr_ok else CR false "host namespaces" (join ", " l).

(** check_hostPathVolumes.go *)
Definition volumes_phrase (names : list string) : string :=
  pluralize "volume" "volumes" (List.length names) ++ " " ++ join_quote names.
Definition hostPathVolumes_1_0 : check_fn := fun _ _ p =>
  let l := map v_name (filter (fun v => mem "hostPath" (v_sources v)) (pd_volumes p)) in
  if is_nil l then cr_ok else CR false "hostPath volumes" (volumes_phrase l).

(** check_hostPorts.go *)
Definition bad_ports (c : container) : list Z := filter (fun z => negb (Z.eqb z 0)) (c_hostPorts c).
Definition hostPorts_1_0 : check_fn := fun _ _ p =>
  let bad_containers := names_where (fun c => negb (is_nil (bad_ports c))) p in
  let ports := sset_of (map Z_to_string (flat_map bad_ports (all_containers p))) in
  if is_nil bad_containers then cr_ok
  else CR false "hostPort"
          (containers_phrase bad_containers ++ " " ++
           pluralize "uses" "use" (List.length bad_containers) ++ " " ++
           pluralize "hostPort" "hostPorts" (List.length ports) ++ " " ++ join ", " ports).

(** check_privileged.go *)
Definition privileged_1_0 : check_fn := fun _ _ p =>
  let l := names_where (fun c => match csc sc_privileged c with Some true => true | _ => false end) p in
  if is_nil l then cr_ok
  else CR false "privileged" (containers_phrase l ++ " must not set securityContext.privileged=true").

(** check_procMount.go *)
Definition procmount_bad (c : container) : option string :=
  match csc sc_procMount c with
  | Some t => if String.eqb t "Default" then None else Some t
  | None => None
  end.
Definition procMount_1_0 : check_fn := fun _ relax p =>
  if relax_pod relax p then cr_ok else
  let l := names_where (fun c => is_some (procmount_bad c)) p in
  let types := sset_of (flat_map (fun c => match procmount_bad c with Some t => [t] | None => [] end)
                                 (all_containers p)) in
  if is_nil l then cr_ok
  else CR false "procMount"
          (containers_phrase l ++ " must not set securityContext.procMount to " ++ join_quote types).

(** check_seLinuxOptions.go *)
Definition selinux_valid (allowed : list string) (o : selinux) : bool :=
  mem (se_type o) allowed && String.eqb (se_user o) "" && String.eqb (se_role o) "".
Definition seLinuxOptions (allowed : list string) (p : pod) : check_result :=
  let pod_opts := match psc p_selinux p with Some o => [o] | None => [] end in
  let cont_opts := flat_map (fun c => match csc sc_selinux c with Some o => [o] | None => [] end)
                            (all_containers p) in
  let visited := pod_opts +:+ cont_opts in
  let bad_types := sset_of (map se_type (filter (fun o => negb (mem (se_type o) allowed)) visited)) in
  let set_user := existsb (fun o => negb (String.eqb (se_user o) "")) visited in
  let set_role := existsb (fun o => negb (String.eqb (se_role o) "")) visited in
  let pod_bad := existsb (fun o => negb (selinux_valid allowed o)) pod_opts in
  let bad_containers :=
    names_where (fun c => match csc sc_selinux c with
                          | Some o => negb (selinux_valid allowed o) | None => false end) p in
  let bad_setters := opt_list pod_bad "pod" +:+
                     opt_list (negb (is_nil bad_containers)) (containers_phrase bad_containers) in
  if is_nil bad_setters then cr_ok
  else
    let bad_data :=
      opt_list (negb (is_nil bad_types))
               (pluralize "type" "types" (List.length bad_types) ++ " " ++ join_quote bad_types) +:+
      opt_list set_user "user may not be set" +:+ opt_list set_role "role may not be set" in
    CR false "seLinuxOptions"
       (join " and " bad_setters ++ " set forbidden securityContext.seLinuxOptions: " ++ join "; " bad_data).
Definition seLinuxOptions1_0 : check_fn := fun al _ p => seLinuxOptions (al_selinux_0 al) p.
Definition seLinuxOptions1_31 : check_fn := fun al _ p => seLinuxOptions (al_selinux_31 al) p.

(** check_seccompProfile_baseline.go *)
Definition seccomp_pod_annotation := "seccomp.security.alpha.kubernetes.io/pod".
Definition seccomp_container_annotation_prefix := "container.seccomp.security.alpha.kubernetes.io/".
Definition valid_seccomp_type (t : string) : bool :=
  String.eqb t "Localhost" || String.eqb t "RuntimeDefault".
Definition valid_seccomp_annotation (v : string) : bool :=
  String.eqb v "runtime/default" || String.eqb v "docker/default" || has_prefix "localhost/" v.
Definition seccomp_annotation_finding (p : pod) (key : string) : list string :=
  match lookup key (pd_annotations p) with
  | Some v => if valid_seccomp_annotation v then [] else [key ++ "=" ++ go_quote v]
  | None => []
  end.
Definition seccompProfileBaseline_1_0 : check_fn := fun _ _ p =>
  let forbidden :=
    sset_of (seccomp_annotation_finding p seccomp_pod_annotation +:+
             flat_map (fun c => seccomp_annotation_finding p (seccomp_container_annotation_prefix ++ c_name c))
                      (all_containers p)) in
  if is_nil forbidden then cr_ok
  else CR false "seccompProfile"
          ("forbidden " ++ pluralize "annotation" "annotations" (List.length forbidden) ++ " "
           ++ join ", " forbidden).

Definition seccomp_bad_container (c : container) : bool :=
  match csc sc_seccomp c with Some t => negb (valid_seccomp_type t) | None => false end.
Definition seccomp_bad_pod (p : pod) : option string :=
  match psc p_seccomp p with
  | Some t => if valid_seccomp_type t then None else Some t
  | None => None
  end.
Definition seccomp_bad_values (p : pod) : list string :=
  sset_of ((match seccomp_bad_pod p with Some t => [t] | None => [] end) +:+
           flat_map (fun c => if seccomp_bad_container c
                              then match csc sc_seccomp c with Some t => [t] | None => [] end
                              else []) (all_containers p)).
Definition seccomp_bad_setters (p : pod) : list string :=
  let explicit := names_where seccomp_bad_container p in
  opt_list (is_some (seccomp_bad_pod p)) "pod" +:+
  opt_list (negb (is_nil explicit)) (containers_phrase explicit).
Definition seccompProfileBaseline_1_19 : check_fn := fun _ _ p =>
  let bad_setters := seccomp_bad_setters p in
  if is_nil bad_setters then cr_ok
  else CR false "seccompProfile"
          (join " and " bad_setters ++ " must not set securityContext.seccompProfile.type to "
           ++ join_quote (seccomp_bad_values p)).

(** check_sysctls.go *)
Definition sysctls (allowed : list string) (p : pod) : check_result :=
  let forbidden := match pd_sc p with
                   | Some s => filter (fun n => negb (mem n allowed)) (p_sysctls s)
                   | None => [] end in
  if is_nil forbidden then cr_ok else CR false "forbidden sysctls" (join ", " forbidden).
Definition sysctlsV1Dot0 : check_fn := fun al _ p => sysctls (al_sysctls_0 al) p.
Definition sysctlsV1Dot27 : check_fn := fun al _ p => sysctls (al_sysctls_27 al) p.
Definition sysctlsV1Dot29 : check_fn := fun al _ p => sysctls (al_sysctls_29 al) p.
Definition sysctlsV1Dot32 : check_fn := fun al _ p => sysctls (al_sysctls_32 al) p.

(** check_windowsHostProcess.go *)
Definition is_host_process (o : option (option bool)) : bool :=
  match o with Some (Some true) => true | _ => false end.
Definition windowsHostProcess_1_0 : check_fn := fun _ _ p =>
  let bad_containers := names_where (fun c => is_host_process (csc sc_winHP c)) p in
  let pod_bad := is_host_process (psc p_winHP p) in
  let setters := opt_list pod_bad "pod" +:+
                 opt_list (negb (is_nil bad_containers)) (containers_phrase bad_containers) in
  if is_nil setters then cr_ok
  else CR false "hostProcess"
          (join " and " setters ++ " must not set securityContext.windowsOptions.hostProcess=true").

(* ---------------------------------------------------------------- restricted *)

(** check_allowPrivilegeEscalation.go *)
Definition allowPrivilegeEscalation_1_8 : check_fn := fun _ _ p =>
  let l := names_where (fun c => match csc sc_allowPE c with Some false => false | _ => true end) p in
  if is_nil l then cr_ok
  else CR false "allowPrivilegeEscalation != false"
          (containers_phrase l ++ " must set securityContext.allowPrivilegeEscalation=false").
Definition allowPrivilegeEscalation_1_25 : check_fn := fun al r p =>
  if is_windows p then cr_ok else allowPrivilegeEscalation_1_8 al r p.

(** check_capabilities_restricted.go *)
Definition missing_drop_all (c : container) : bool :=
  match csc sc_caps c with
  | Some (_, drop) => negb (mem "ALL" drop)
  | None => true
  end.
Definition forbidden_adds (c : container) : list string :=
  match csc sc_caps c with
  | Some (add, _) => filter (fun x => negb (String.eqb x "NET_BIND_SERVICE")) add
  | None => []
  end.
Definition capabilitiesRestricted_1_22 : check_fn := fun _ _ p =>
  let missing := names_where missing_drop_all p in
  let adding := names_where (fun c => negb (is_nil (forbidden_adds c))) p in
  let caps := sset_of (flat_map forbidden_adds (all_containers p)) in
  let details :=
    opt_list (negb (is_nil missing))
             (containers_phrase missing ++ " must set securityContext.capabilities.drop=[""ALL""]") +:+
    opt_list (negb (is_nil adding))
             (containers_phrase adding ++ " must not include " ++ join_quote caps
              ++ " in securityContext.capabilities.add") in
  if is_nil details then cr_ok else CR false "unrestricted capabilities" (join "; " details).
Definition capabilitiesRestricted_1_25 : check_fn := fun al r p =>
  if is_windows p then cr_ok else capabilitiesRestricted_1_22 al r p.

(** check_restrictedVolumes.go *)
Definition allowed_volume_kinds : list string :=
  ["configMap"; "csi"; "downwardAPI"; "emptyDir"; "ephemeral"; "persistentVolumeClaim"; "projected"; "secret"].
Definition restricted_volume_order : list string :=
  ["hostPath"; "gcePersistentDisk"; "awsElasticBlockStore"; "gitRepo"; "nfs"; "iscsi"; "glusterfs"; "rbd";
   "flexVolume"; "cinder"; "cephfs"; "flocker"; "fc"; "azureFile"; "vsphereVolume"; "quobyte"; "azureDisk";
   "photonPersistentDisk"; "portworxVolume"; "scaleIO"; "storageos"].
Definition volume_allowed (v : volume) : bool :=
  existsb (fun k => mem k (v_sources v)) allowed_volume_kinds.
Definition volume_type (v : volume) : string :=
  match find (fun k => mem k (v_sources v)) restricted_volume_order with
  | Some k => k
  | None => "unknown"
  end.
Definition restrictedVolumes_1_0 : check_fn := fun _ _ p =>
  let bad := filter (fun v => negb (volume_allowed v)) (pd_volumes p) in
  let names := map v_name bad in
  let types := sset_of (map volume_type bad) in
  if is_nil names then cr_ok
  else CR false "restricted volume types"
          (volumes_phrase names ++ " " ++ pluralize "uses" "use" (List.length names) ++ " " ++
           pluralize "restricted volume type" "restricted volume types" (List.length types) ++ " " ++
           join_quote types).

(** check_runAsNonRoot.go *)
Definition runAsNonRoot_1_0 : check_fn := fun _ relax p =>
  if relax_pod relax p then cr_ok else
  let pod_v := psc p_runAsNonRoot p in
  let pod_bad := match pod_v with Some false => true | _ => false end in
  let pod_ok := match pod_v with Some true => true | _ => false end in
  let explicit := names_where (fun c => match csc sc_runAsNonRoot c with Some false => true | _ => false end) p in
  let implicit := names_where (fun c => match csc sc_runAsNonRoot c with
                                        | None => negb pod_ok | Some _ => false end) p in
  let bad_setters := opt_list pod_bad "pod" +:+
                     opt_list (negb (is_nil explicit)) (containers_phrase explicit) in
  if negb (is_nil bad_setters) then
    CR false "runAsNonRoot != true"
       (join " and " bad_setters ++ " must not set securityContext.runAsNonRoot=false")
  else if negb (is_nil implicit) then
    CR false "runAsNonRoot != true"
       ("pod or " ++ containers_phrase implicit ++ " must set securityContext.runAsNonRoot=true")
  else cr_ok.

(** check_runAsUser.go *)
Definition is_zero_user (o : option Z) : bool := match o with Some z => Z.eqb z 0 | None => false end.
Definition runAsUser_1_23 : check_fn := fun _ relax p =>
  if relax_pod relax p then cr_ok else
  let pod_bad := is_zero_user (psc p_runAsUser p) in
  let explicit := names_where (fun c => is_zero_user (csc sc_runAsUser c)) p in
  let bad_setters := opt_list pod_bad "pod" +:+
                     opt_list (negb (is_nil explicit)) (containers_phrase explicit) in
  if is_nil bad_setters then cr_ok
  else CR false "runAsUser=0" (join " and " bad_setters ++ " must not set runAsUser=0").

(** check_seccompProfile_restricted.go *)
Definition seccompProfileRestricted_1_19 : check_fn := fun _ _ p =>
  let pod_ok := match psc p_seccomp p with Some t => valid_seccomp_type t | None => false end in
  let implicit := names_where (fun c => match csc sc_seccomp c with
                                        | None => negb pod_ok | Some _ => false end) p in
  let bad_setters := seccomp_bad_setters p in
  if negb (is_nil bad_setters) then
    CR false "seccompProfile"
       (join " and " bad_setters ++ " must not set securityContext.seccompProfile.type to "
        ++ join_quote (seccomp_bad_values p))
  else if negb (is_nil implicit) then
    CR false "seccompProfile"
       ("pod or " ++ containers_phrase implicit ++
        " must set securityContext.seccompProfile.type to ""RuntimeDefault"" or ""Localhost""")
  else cr_ok.
Definition seccompProfileRestricted_1_25 : check_fn := fun al r p =>
  if is_windows p then cr_ok else seccompProfileRestricted_1_19 al r p.

(** the dictionary: Go function name (as bound in the registered check table,
    recovered by the translator with runtime.FuncForPC) -> model function *)
Definition check_dictionary : list (string * check_fn) :=
  [("appArmorProfile_1_0", appArmorProfile_1_0);
   ("capabilitiesBaseline_1_0", capabilitiesBaseline_1_0);
   ("hostNamespaces_1_0", hostNamespaces_1_0);
   ("hostPathVolumes_1_0", hostPathVolumes_1_0);
   ("hostPorts_1_0", hostPorts_1_0);
   ("privileged_1_0", privileged_1_0);
   ("procMount_1_0", procMount_1_0);
   ("seLinuxOptions1_0", seLinuxOptions1_0);
   ("seLinuxOptions1_31", seLinuxOptions1_31);
   ("seccompProfileBaseline_1_0", seccompProfileBaseline_1_0);
   ("seccompProfileBaseline_1_19", seccompProfileBaseline_1_19);
   ("sysctlsV1Dot0", sysctlsV1Dot0);
   ("sysctlsV1Dot27", sysctlsV1Dot27);
   ("sysctlsV1Dot29", sysctlsV1Dot29);
   ("sysctlsV1Dot32", sysctlsV1Dot32);
   ("windowsHostProcess_1_0", windowsHostProcess_1_0);
   ("allowPrivilegeEscalation_1_8", allowPrivilegeEscalation_1_8);
   ("allowPrivilegeEscalation_1_25", allowPrivilegeEscalation_1_25);
   ("capabilitiesRestricted_1_22", capabilitiesRestricted_1_22);
   ("capabilitiesRestricted_1_25", capabilitiesRestricted_1_25);
   ("restrictedVolumes_1_0", restrictedVolumes_1_0);
   ("runAsNonRoot_1_0", runAsNonRoot_1_0);
   ("runAsUser_1_23", runAsUser_1_23);
   ("seccompProfileRestricted_1_19", seccompProfileRestricted_1_19);
   ("seccompProfileRestricted_1_25", seccompProfileRestricted_1_25)].

Definition lookup_check (name : string) : option check_fn := lookup name check_dictionary.
