(** Model/Webhook.v - cmd/webhook/server/server.go:HandleValidate, as a
    classification of the HTTP request followed by delegation to the admission
    library; and an action-level model of concurrent handler threads over the
    process-wide shared response objects (used by C15 and C16). *)
From Coq Require Import List Bool NArith ZArith String.
From PSA Require Import Base.Str Model.Api Model.Pod Model.Checks Model.Registry Model.Admission Model.Namespace.
Import ListNotations.
Local Open Scope string_scope.

(** what the body decodes to with the webhook's universal deserializer *)
Inductive payload :=
| Garbage                                   (* not decodable (bad JSON, unregistered group/version/kind) *)
| OtherKind                                 (* decodes to a registered kind other than admission.k8s.io/v1 AdmissionReview *)
| ReviewNoRequest                           (* a v1 AdmissionReview whose request is absent *)
| Review (uid : string) (r : request) (w : world).

Record http_request := HttpRequest {
  hq_has_body : bool;                       (* false: Body nil or http.NoBody *)
  hq_size : N;                              (* body length in bytes *)
  hq_ctype : string;                        (* Content-Type header *)
  hq_payload : payload
}.
Record http_response := HttpResponse {
  hs_status : Z;
  hs_review : option (string * response)    (* 200 only: response.uid and the AdmissionResponse *)
}.

Definition max_request_size : N := 3145728.   (* 3 * 1024 * 1024 *)
Definition http_error (code : Z) : http_response := HttpResponse code None.

(** HandleValidate after the two fix: commits (F1: UID set on a copy; F2: nil request -> 400) *)
Definition handle (c : config) (ev : evaluator) (q : http_request) : http_response :=
  if negb (hq_has_body q) then http_error 400
  else if N.leb max_request_size (hq_size q) then http_error 413      (* LimitedReader exhausted: N <= 0 *)
  else if negb (String.eqb (hq_ctype q) "application/json") then http_error 400
  else match hq_payload q with
       | Garbage => http_error 400
       | OtherKind => http_error 400
       | ReviewNoRequest => http_error 400
       | Review uid r w => HttpResponse 200 (Some (uid, fst (validate c ev r w)))
       end.

(* ------------------------------------------------------------------------- *)
(** Action-level concurrency model.  The only mutable state the handler and the
    library share is the five shared response objects; the only field anybody
    ever writes is UID.  A handler thread, for a review with uid [u] whose
    Validate call returned the object [ref], performs:
      fixed handler   : copy ref -> private ; private.UID := u ; encode private
      unfixed handler : ref.UID := u ; encode ref              (the pre-fix code)
    Each step is atomic; a schedule interleaves the steps of the threads. *)

Definition store := list (shared_tag * string).     (* UID field of each shared object *)
Definition tag_eqb (a b : shared_tag) : bool :=
  match a, b with
  | Fresh, Fresh | SharedAllowed, SharedAllowed | SharedPrivileged, SharedPrivileged
  | SharedUser, SharedUser | SharedNamespace, SharedNamespace | SharedRuntimeClass, SharedRuntimeClass => true
  | _, _ => false
  end.
Fixpoint store_get (k : shared_tag) (s : store) : string :=
  match s with [] => "" | (k', v) :: r => if tag_eqb k k' then v else store_get k r end.
Fixpoint store_set (k : shared_tag) (v : string) (s : store) : store :=
  match s with
  | [] => [(k, v)]
  | (k', v') :: r => if tag_eqb k k' then (k', v) :: r else (k', v') :: store_set k v r
  end.
Definition initial_store : store :=
  [(SharedAllowed, ""); (SharedPrivileged, ""); (SharedUser, ""); (SharedNamespace, ""); (SharedRuntimeClass, "")].

Record thread := Thread {
  th_uid : string;            (* the review's uid *)
  th_ref : shared_tag;        (* what Validate returned: a shared object or a fresh one *)
  th_pc : nat;                (* next step *)
  th_private : string;        (* UID field of the thread's private object (the copy, or the fresh response) *)
  th_out : option string      (* encoded response.uid once written *)
}.
Definition new_thread (uid : string) (ref : shared_tag) : thread := Thread uid ref 0 "" None.

(** one atomic step of thread [t] *)
Definition step_fixed (s : store) (t : thread) : store * thread :=
  match th_pc t with
  | 0 => (s, Thread (th_uid t) (th_ref t) 1 (match th_ref t with Fresh => "" | k => store_get k s end) None)  (* DeepCopy *)
  | 1 => (s, Thread (th_uid t) (th_ref t) 2 (th_uid t) None)                                                  (* copy.UID := u *)
  | 2 => (s, Thread (th_uid t) (th_ref t) 3 (th_private t) (Some (th_private t)))                             (* encode *)
  | _ => (s, t)
  end.
Definition step_unfixed (s : store) (t : thread) : store * thread :=
  match th_pc t with
  | 0 => match th_ref t with
         | Fresh => (s, Thread (th_uid t) Fresh 1 (th_uid t) None)
         | k => (store_set k (th_uid t) s, Thread (th_uid t) k 1 "" None)          (* shared.UID := u *)
         end
  | 1 => (s, Thread (th_uid t) (th_ref t) 2 (th_private t)
                    (Some (match th_ref t with Fresh => th_private t | k => store_get k s end)))  (* encode *)
  | _ => (s, t)
  end.

Fixpoint update_nth {A} (n : nat) (f : A -> A) (l : list A) : list A :=
  match l, n with
  | [], _ => []
  | x :: r, 0 => f x :: r
  | x :: r, S k => x :: update_nth k f r
  end.

(** run a schedule (a list of thread indices); indices out of range are no-ops *)
Fixpoint run_schedule (step : store -> thread -> store * thread) (sched : list nat) (s : store) (ts : list thread)
  : store * list thread :=
  match sched with
  | [] => (s, ts)
  | i :: rest =>
      match nth_error ts i with
      | None => run_schedule step rest s ts
      | Some t => let '(s', t') := step s t in run_schedule step rest s' (update_nth i (fun _ => t') ts)
      end
  end.
