(** Model/Registry.v - policy/registry.go and the aggregation part of
    policy/checks.go, polymorphic in what a check revision carries ([F]: a
    check function for the shipped checks, an opaque marker for C04). *)
From Coq Require Import List Bool NArith String.
From PSA Require Import Base.Str Model.Api.
Import ListNotations.
Local Open Scope string_scope.

Section Registry.
  Variable F : Type.

  (** policy.VersionedCheck / policy.Check (Level kept as the raw string, it is validated) *)
  Record vcheck := VC { vc_min : version; vc_fn : F; vc_overrides : list string }.
  Record check := CK { ck_id : string; ck_level : string; ck_versions : list vcheck }.

  Definition is_zero_version (v : version) : bool := version_eqb v (V 0 0).
  Definition is_latest (v : version) : bool := match v with Latest => true | _ => false end.

  (** validateChecks, first pass, the per-check version loop *)
  Fixpoint validate_versions (mx : version) (vs : list vcheck) : bool :=
    match vs with
    | [] => true
    | c :: rest =>
        if is_zero_version (vc_min c) then false
        else if is_latest (vc_min c) then false
        else if version_eqb mx (vc_min c) then false
        else if negb (older mx (vc_min c)) then false
        else validate_versions (vc_min c) rest
    end.

  (** first pass over the checks; [ids] is the map built so far (id -> level) *)
  Fixpoint validate_first (ids : list (string * string)) (cs : list check) : bool :=
    match cs with
    | [] => true
    | c :: rest =>
        if is_some (lookup (ck_id c) ids) then false
        else if negb (String.eqb (ck_level c) "baseline" || String.eqb (ck_level c) "restricted") then false
        else if is_nil (ck_versions c) then false
        else if negb (validate_versions (V 0 0) (ck_versions c)) then false
        else validate_first ((ck_id c, ck_level c) :: ids) rest
    end.

  Definition ids_of (cs : list check) : list (string * string) :=
    map (fun c => (ck_id c, ck_level c)) cs.

  (** second pass: overrides only on restricted checks and only of absent or baseline ids *)
  Definition validate_overrides (cs : list check) : bool :=
    let ids := ids_of cs in
    forallb (fun c =>
      forallb (fun v =>
        is_nil (vc_overrides v) ||
        (String.eqb (ck_level c) "restricted" &&
         forallb (fun o => match lookup o ids with
                           | Some l => String.eqb l "baseline"
                           | None => true end) (vc_overrides v)))
      (ck_versions c)) cs.

  Definition validate_checks (cs : list check) : bool :=
    validate_first [] cs && validate_overrides cs.

  (** nextMinor *)
  Definition next_minor (v : version) : version :=
    match v with Latest => Latest | V ma mi => V ma (mi + 1) end.

  Definition last_min (c : check) : version :=
    match rev (ck_versions c) with v :: _ => vc_min v | [] => V 0 0 end.

  (** populate: maxVersion *)
  Definition max_version (cs : list check) : version :=
    fold_left (fun mx c => if older mx (last_min c) then last_min c else mx) cs (V 0 0).

  Definition minor_of (v : version) : N := match v with V _ m => m | Latest => 0 end.
  Definition major_of (v : version) : N := match v with V m _ => m | Latest => 0 end.

  (** minors a, a+1, ..., b-1 *)
  Definition minors (a b : N) : list N :=
    map (fun k => (a + N.of_nat k)%N) (seq 0 (N.to_nat (b - a))).

  (** inflateVersions: the (version, revision) entries written for one check, in
      write order.  The Go loops step the minor and compare with Older; with a
      single major (hypothesis [majors_one] of C04 - remark R1 in DESIGN.md: the
      real loops do not terminate otherwise) they cover the minors
      [min_i, next_i). *)
  Fixpoint inflate (vs : list vcheck) (mx : version) : list (version * vcheck) :=
    match vs with
    | [] => []
    | c :: rest =>
        let next := match rest with c' :: _ => vc_min c' | [] => next_minor mx end in
        (if N.eqb (major_of (vc_min c)) (major_of next)
         then map (fun m => (V (major_of (vc_min c)) m, c)) (minors (minor_of (vc_min c)) (minor_of next))
         else [])
        +:+ inflate rest mx
    end.

  (** versions[v][id], last write wins *)
  Fixpoint map_get (v : version) (m : list (version * vcheck)) : option vcheck :=
    match m with
    | [] => None
    | (v', c) :: r => match map_get v r with
                      | Some x => Some x
                      | None => if version_eqb v v' then Some c else None
                      end
    end.

  Definition rev_at (c : check) (mx v : version) : option vcheck :=
    map_get v (inflate (ck_versions c) mx).

  Definition is_restricted (c : check) : bool := String.eqb (ck_level c) "restricted".

  (** the (id, revision) pairs of the checks of one level that are in force at v *)
  Definition level_revs (restricted : bool) (cs : list check) (mx v : version) : list (string * vcheck) :=
    flat_map (fun c => if Bool.eqb (is_restricted c) restricted
                       then match rev_at c mx v with Some r => [(ck_id c, r)] | None => [] end
                       else []) cs.

  (** ordered ids: baseline sorted, then restricted sorted *)
  Definition ordered_ids (cs : list check) : list string :=
    ssort (map (@ck_id) (filter (fun c => negb (is_restricted c)) cs)) +:+
    ssort (map (@ck_id) (filter is_restricted cs)).

  (** mapCheckPodFns *)
  Definition map_fns (m : list (string * vcheck)) (ids : list string) : list (string * vcheck) :=
    flat_map (fun id => match lookup id m with Some r => [(id, r)] | None => [] end) ids.

  (** the per-version tables built by populate, as functions of v (v ranges
      over 1.0 .. maxVersion; outside that range the Go map has no entry) *)
  Definition in_populated_range (mx v : version) : bool :=
    match v, mx with
    | V 1 m, V 1 mm => N.leb m mm
    | _, _ => false
    end.

  Definition baseline_at (cs : list check) (v : version) : list (string * vcheck) :=
    let mx := max_version cs in
    if in_populated_range mx v then map_fns (level_revs false cs mx v) (ordered_ids cs) else [].

  Definition restricted_at (cs : list check) (v : version) : list (string * vcheck) :=
    let mx := max_version cs in
    if in_populated_range mx v then
      let r := level_revs true cs mx v in
      let overrides := flat_map (fun x => vc_overrides (snd x)) r in
      let b := filter (fun x => negb (mem (fst x) overrides)) (level_revs false cs mx v) in
      map_fns (r +:+ b) (ordered_ids cs)
    else [].

  (** checkRegistry.EvaluatePod: which (id, revision) pairs run, in order *)
  Definition resolve (cs : list check) (l : level) (v : version) : list (string * vcheck) :=
    match l with
    | Privileged => []
    | _ =>
        let mx := max_version cs in
        let v' := if older mx v then mx else v in
        match l with
        | Baseline => baseline_at cs v'
        | _ => restricted_at cs v'
        end
    end.

  (** NewEvaluator: None when validateChecks fails *)
  Definition new_evaluator (cs : list check) : option (level -> version -> list (string * vcheck)) :=
    if validate_checks cs then Some (resolve cs) else None.
End Registry.

Arguments VC {F}. Arguments CK {F}.
Arguments vc_min {F}. Arguments vc_fn {F}. Arguments vc_overrides {F}.
Arguments ck_id {F}. Arguments ck_level {F}. Arguments ck_versions {F}.
Arguments validate_checks {F}. Arguments validate_first {F}. Arguments validate_versions {F}.
Arguments validate_overrides {F}. Arguments max_version {F}. Arguments resolve {F}.
Arguments new_evaluator {F}. Arguments baseline_at {F}. Arguments restricted_at {F}.
Arguments rev_at {F}. Arguments inflate {F}. Arguments level_revs {F}. Arguments ordered_ids {F}.
Arguments map_fns {F}. Arguments map_get {F}. Arguments last_min {F}. Arguments is_restricted {F}.
Arguments ids_of {F}.

(** ---- policy/checks.go aggregation ---- *)
From PSA Require Import Model.Pod Model.Checks.

Record aggregate := Agg { ag_allowed : bool; ag_reasons : list string; ag_details : list string }.

Definition unknown_reason := "unknown forbidden reason".

(** AggregateCheckResults *)
Definition aggregate_results (rs : list check_result) : aggregate :=
  let bad := filter (fun r => negb (cr_allowed r)) rs in
  let reasons := map (fun r => if String.eqb (cr_reason r) "" then unknown_reason else cr_reason r) bad in
  Agg (is_nil reasons) reasons (map cr_detail bad).

(** AggregateCheckResult.ForbiddenReason / ForbiddenDetail *)
Definition forbidden_reason (a : aggregate) : string := join ", " (ag_reasons a).
Definition forbidden_detail (a : aggregate) : string :=
  join ", " (map (fun rd : string * string =>
                    let (r, d) := rd in if String.eqb d "" then r else r ++ " (" ++ d ++ ")")
                 (combine (ag_reasons a) (ag_details a))).
