(** Properties/C10.v - property C10: only security-relevant pod updates and
    subresources are (re-)evaluated.
    Theorem statements only; every proof lives in Proofs/AdmFactsB.v
    ([as_create], [without_sub] are defined there). *)
From Coq Require Import List Bool NArith ZArith String.
From PSA Require Import Base.Str Model.Api Model.Pod Model.Checks Model.Registry Model.Admission
     Model.Namespace Spec.P05 Spec.PAdm Proofs.AdmFactsB.
Import ListNotations.
Local Open Scope string_scope.

(** the relation P10 holds of every pod request, against the same request
    replayed as a CREATE and replayed without its subresource *)
Theorem C10_updates_and_subresources : forall c ev r w,
  P10 c r w (validate c ev r w) (Some (validate c ev (as_create r) w))
      (Some (validate c ev (without_sub r) w)) = true.
Proof. exact C10_updates_and_subresources_proof. Qed.
Print Assumptions C10_updates_and_subresources.

(** an insignificant pod update is allowed without any evaluation, whatever the policy *)
Theorem C10_insignificant_allowed : forall c ev r w ls p old,
  is_pods r = true -> r_op r = OpUpdate -> r_object r = OPod p -> r_old r = OPod old ->
  w_ns w = Some ls -> s_significant p old = false ->
  rs_allowed (fst (validate c ev r w)) = true /\ has_eval (snd (validate c ev r w)) = false.
Proof. exact C10_insignificant_allowed_proof. Qed.
Print Assumptions C10_insignificant_allowed.

(** isSignificantPodUpdate is exactly "some image changed or a container was added/removed" *)
Theorem C10_significance_characterised : forall p old, significant_update p old = s_significant p old.
Proof. exact B_significant_spec. Qed.
Print Assumptions C10_significance_characterised.

(** ---- examples: the statements are not vacuous ---- *)
Definition ex10_pod (img : string) (eph : list container) : pod :=
  Pod "p" [] None false false false None None None [] [Container "c" img [] None] eph [] None.
Definition ex10_cfg : config :=
  Config (Policy (LV Restricted Latest) (LV Restricted Latest) (LV Restricted Latest)) [] [] [] 3000 1000000000.
Definition ex10_deny_all : evaluator := fun _ _ => [CR false "r" "d"].
Definition ex10_req (op : operation) (sub : string) (new old : pod) : request :=
  Request "" "pods" sub "ns" "p" "u" op (OPod new) (OPod old) None.
Definition ex10_world : world := World (Some []) "" None None 0.

(** same images: allowed and unevaluated although every evaluation would deny *)
Example C10_ex_insignificant :
  let o := validate ex10_cfg ex10_deny_all (ex10_req OpUpdate "" (ex10_pod "a" []) (ex10_pod "a" [])) ex10_world in
  (rs_allowed (fst o), has_eval (snd o)) = (true, false).
Proof. vm_compute. reflexivity. Qed.
(** image changed: evaluated and denied, exactly as the CREATE is *)
Example C10_ex_significant :
  let r := ex10_req OpUpdate "" (ex10_pod "b" []) (ex10_pod "a" []) in
  let o := validate ex10_cfg ex10_deny_all r ex10_world in
  (rs_allowed (fst o), has_eval (snd o), resp_eqb (fst o) (fst (validate ex10_cfg ex10_deny_all (as_create r) ex10_world)))
  = (false, true, true).
Proof. vm_compute. reflexivity. Qed.
(** a new ephemeral container is significant, also through the ephemeralcontainers subresource *)
Example C10_ex_ephemeral :
  let r := ex10_req OpUpdate "ephemeralcontainers" (ex10_pod "a" [Container "dbg" "x" [] None]) (ex10_pod "a" []) in
  let o := validate ex10_cfg ex10_deny_all r ex10_world in
  (rs_allowed (fst o), has_eval (snd o)) = (false, true).
Proof. vm_compute. reflexivity. Qed.
(** an ignored subresource is allowed with an empty trace *)
Example C10_ex_ignored_sub :
  validate ex10_cfg ex10_deny_all (ex10_req OpUpdate "status" (ex10_pod "b" []) (ex10_pod "a" [])) ex10_world
  = (shared_allowed, []).
Proof. vm_compute. reflexivity. Qed.

(** ---- side conditions on the constants regenerated from the source (Gen/Constants.v) ---- *)
From PSA Require Import Proofs.Constants_table.
From PSA Require Gen.Constants.
From PSA Require Import Spec.P02.
Theorem C10_ignored_subresources_are_source :
  same_set Gen.Constants.gen_ignored_pod_subresources ignored_pod_subresources = true
  /\ forallb (fun s => s_ignored_sub s) Gen.Constants.gen_ignored_pod_subresources = true
  /\ List.length Gen.Constants.gen_ignored_pod_subresources = 8.
Proof. exact ignored_subresources_are_source. Qed.
Print Assumptions C10_ignored_subresources_are_source.

(** ---- the request adapter (Model/Wire.v: api.RequestAttributes) ---- *)
From PSA Require Import Model.Wire Proofs.WireFacts.
(** the subresource that is judged is the request's requestSubResource string, as sent: nothing is trimmed,
    split or normalised, so "status/x" or "proxy/" are not the ignored "status" or "proxy" *)
Theorem C10_wire_subresource_exact : forall a dl, r_subresource (attributes_of a dl) = ar_request_subresource a.
Proof. exact wire_subresource_exact. Qed.
Print Assumptions C10_wire_subresource_exact.
(** the old object of an UPDATE is decoded from oldObject, the new one from object *)
Theorem C10_wire_old_object : forall a dl,
  r_old (attributes_of a dl) = decode (ar_old_object a) /\ r_object (attributes_of a dl) = decode (ar_object a).
Proof. exact wire_old_object. Qed.
Print Assumptions C10_wire_old_object.
Example C10_wire_not_ignored :
  s_ignored_sub (r_subresource (attributes_of (AdmissionRequest "u" "" "pods" "status" "" "pods" "status/x" "p" "ns" "CREATE" "alice" "" [] RawAbsent RawAbsent) None)) = false.
Proof. vm_compute. reflexivity. Qed.
