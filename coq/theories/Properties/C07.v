(** Properties/C07.v - property C07: dependency failures fail closed for pod
    requests and open for the advisory paths (pod controllers, namespace dry runs).
    Theorem statements only; every proof lives in Proofs/AdmFactsB.v. *)
From Coq Require Import List Bool NArith ZArith String.
From PSA Require Import Base.Str Model.Api Model.Pod Model.Checks Model.Registry Model.Admission
     Model.Namespace Spec.P05 Spec.PAdm Proofs.AdmFactsB Proofs.AdmFactsD.
Import ListNotations.
Local Open Scope string_scope.

(** the relation P07 holds of every request *)
Theorem C07_faults : forall c ev r w, P07 c ev r w (validate c ev r w) = true.
Proof. exact C07_faults_proof. Qed.
Print Assumptions C07_faults.

(** a pod request is never let in unevaluated: an allowed answer is one of:
    ignored subresource; exempt; fully privileged namespace with valid labels;
    insignificant update; evaluated and compliant *)
Theorem C07_pod_never_allowed_unevaluated : forall c ev r w,
  is_pods r = true -> rs_allowed (fst (validate c ev r w)) = true ->
  s_ignored_sub (r_subresource r) = true \/ is_some (ann "exempt" (fst (validate c ev r w))) = true
  \/ (exists ls, w_ns w = Some ls /\ spec_errs ls = [] /\ s_fully_privileged (spec_policy ls (cf_defaults c)) = true)
  \/ (exists ls p old, w_ns w = Some ls /\ r_object r = OPod p /\ r_old r = OPod old /\ r_op r = OpUpdate
                       /\ s_significant p old = false)
  \/ (exists ls p, w_ns w = Some ls /\ r_object r = OPod p
                   /\ violates ev (enforce (spec_policy ls (cf_defaults c))) p = false).
Proof. exact C07_pod_unevaluated_proof. Qed.
Print Assumptions C07_pod_never_allowed_unevaluated.

(** pod-controller requests are always allowed, whatever fails *)
Theorem C07_controller_fail_open : forall c ev r w,
  is_controller r = true -> rs_allowed (fst (validate c ev r w)) = true.
Proof. exact C07_controller_fail_open_proof. Qed.
Print Assumptions C07_controller_fail_open.

(** the decision on a namespace request is the same for any two lister answers,
    expiry oracles and evaluators *)
Theorem C07_namespace_never_blocked_by_pods : forall c ev ev' r w w',
  is_namespaces r = true -> w_ns w = w_ns w' -> w_now w = w_now w' ->
  rs_allowed (fst (validate c ev r w)) = rs_allowed (fst (validate c ev' r w')).
Proof. exact C07_namespace_never_blocked_by_pods_proof. Qed.
Print Assumptions C07_namespace_never_blocked_by_pods.

(** ... in fact for any two worlds at all: namespace requests read neither the
    namespace getter nor the clock for their decision (the two hypotheses above are not needed) *)
Theorem C07_namespace_allow_independent : forall c ev ev' r w w',
  is_namespaces r = true ->
  rs_allowed (fst (validate c ev r w)) = rs_allowed (fst (validate c ev' r w')).
Proof. exact C07_namespace_allow_independent_proof. Qed.
Print Assumptions C07_namespace_allow_independent.

(** ---- examples: the statements are not vacuous ---- *)
Definition ex07_pod : pod :=
  Pod "p" [] None false false false None None None [] [Container "c" "img" [] None] [] [] None.
Definition ex07_pol : policy := Policy (LV Baseline Latest) (LV Baseline Latest) (LV Baseline Latest).
Definition ex07_cfg : config := Config ex07_pol [] [] [] 3000 1000000000.
Definition ex07_allow_all : evaluator := fun _ _ => [CR true "" ""].
Definition ex07_deny_all : evaluator := fun _ _ => [CR false "r" "d"].
Definition ex07_req (res : string) (o : obj) : request :=
  Request (if String.eqb res "deployments" then "apps" else "") res "" "ns" "p" "u" OpCreate o ONil None.

(** namespace lookup fails: a pod is denied with 500 even though every evaluation would allow it *)
Example C07_ex_pod_closed :
  let o := validate ex07_cfg ex07_allow_all (ex07_req "pods" (OPod ex07_pod)) (World None "boom" None None 0) in
  (rs_allowed (fst o), rs_code (fst o), has_eval (snd o), count_ev (is_merror true) (snd o))
  = (false, Some 500%Z, false, 1).
Proof. vm_compute. reflexivity. Qed.
(** ... the same failure lets a controller through, flagged *)
Example C07_ex_controller_open :
  let o := validate ex07_cfg ex07_deny_all (ex07_req "deployments" (OController "Deployment" (Some ex07_pod)))
                    (World None "boom" None None 0) in
  (rs_allowed (fst o), has_error_ann (fst o), count_ev (is_merror true) (snd o)) = (true, true, 1).
Proof. vm_compute. reflexivity. Qed.
(** an undecodable pod object is a 400 *)
Example C07_ex_pod_decode :
  let o := validate ex07_cfg ex07_allow_all (ex07_req "pods" (ODecodeErr "bad")) (World (Some []) "" None None 0) in
  (rs_allowed (fst o), rs_code (fst o)) = (false, Some 400%Z).
Proof. vm_compute. reflexivity. Qed.
(** malformed labels never skip evaluation: enforce falls back to restricted, the pod is evaluated, the answer flagged *)
Example C07_ex_bad_labels :
  let w := World (Some [("pod-security.kubernetes.io/enforce", "bogus")]) "" None None 0 in
  let o := validate ex07_cfg ex07_deny_all (ex07_req "pods" (OPod ex07_pod)) w in
  (rs_allowed (fst o), eval_events (snd o), has_error_ann (fst o), count_ev (is_merror false) (snd o))
  = (false, [(LV Restricted Latest, "p"); (LV Baseline Latest, "p")], true, 1).
Proof. vm_compute. reflexivity. Qed.
(** a namespace update whose dry run cannot list pods is allowed, with the warning *)
Example C07_ex_list_failure :
  let r := Request "" "namespaces" "" "" "ns" "u" OpUpdate
             (ONamespace "ns" [("pod-security.kubernetes.io/enforce", "restricted")])
             (ONamespace "ns" []) None in
  let o := validate ex07_cfg ex07_deny_all r (World None "" None None 0) in
  (rs_allowed (fst o), rs_warnings (fst o), existsb is_list (snd o))
  = (true, ["failed to list pods while checking new PodSecurity enforce level"], true).
Proof. vm_compute. reflexivity. Qed.
(** ... and one that expires after the first pod is allowed as well *)
Example C07_ex_expiry :
  let r := Request "" "namespaces" "" "" "ns" "u" OpUpdate
             (ONamespace "ns" [("pod-security.kubernetes.io/enforce", "restricted")])
             (ONamespace "ns" []) None in
  let o := validate ex07_cfg ex07_deny_all r (World None "" (Some [ex07_pod; ex07_pod; ex07_pod]) (Some 0) 0) in
  (rs_allowed (fst o), List.length (eval_events (snd o))) = (true, 1).
Proof. vm_compute. reflexivity. Qed.

(** expiry during a namespace update never blocks it and is reported: when the
    context expires after pod #k and pods remain unchecked, the update is
    allowed, a warning says how many pods were checked, and exactly k+1 pods
    were evaluated (proof in Proofs/AdmFactsD.v) *)
Theorem C07_expiry_reported : forall c ev r w, P07_expiry_reported c r w (validate c ev r w) = true.
Proof. exact C07_expiry_reported_proof. Qed.
Print Assumptions C07_expiry_reported.

(** non-vacuous: the premise holds (dry run made, 1 < 3 pods) and the conclusion is observed *)
Example C07_ex_expiry_reported :
  let r := Request "" "namespaces" "" "" "ns" "u" OpUpdate
             (ONamespace "ns" [("pod-security.kubernetes.io/enforce", "restricted")])
             (ONamespace "ns" []) None in
  let w := World None "" (Some [ex07_pod; ex07_pod; ex07_pod]) (Some 0) 0 in
  let o := validate ex07_cfg ex07_deny_all r w in
  (existsb is_list (snd o), rs_allowed (fst o), hd "" (rs_warnings (fst o)), List.length (eval_events (snd o)))
  = (true, true, "new PodSecurity enforce level only checked against the first 1 of 3 existing pods", 1).
Proof. vm_compute. reflexivity. Qed.

(** ---- the real sources (Model/Sources.v: namespace getter from lister+client, pod lister from
    client or informer); every proof lives in Proofs/SourcesFacts.v ---- *)
From PSA Require Import Model.Sources Proofs.SourcesFacts.

(** a listing is the whole cached list or the whole live list, never part of one *)
Theorem C07_sources_list_all_or_error : forall wi cl f l, list_pods wi cl f = Some l ->
  l = (if wi_pods_informer wi then cl_cached_pods cl else cl_live_pods cl).
Proof. exact C07_sources_list_all_or_error_proof. Qed.
Print Assumptions C07_sources_list_all_or_error.

(** ... and it is an error exactly when the live lister is wired and the LIST fails *)
Theorem C07_sources_list_error_iff : forall wi cl f,
  list_pods wi cl f = None <-> (wi_pods_informer wi = false /\ f_list f = true).
Proof. exact C07_sources_list_error_iff_proof. Qed.
Print Assumptions C07_sources_list_error_iff.

(** whenever the dry run asks the live lister and the LIST fails, the update is
    allowed and the failure is the (only) warning *)
Theorem C07_sources_list_failure_reported : forall c ev r wi cl f exp now,
  is_namespaces r = true -> wi_pods_informer wi = false -> f_list f = true ->
  existsb is_list (snd (validate c ev r (world_of wi cl f (r_namespace r) exp now))) = true ->
  rs_allowed (fst (validate c ev r (world_of wi cl f (r_namespace r) exp now))) = true /\
  rs_warnings (fst (validate c ev r (world_of wi cl f (r_namespace r) exp now)))
  = ["failed to list pods while checking new PodSecurity enforce level"%string].
Proof. exact C07_sources_list_failure_reported_proof. Qed.
Print Assumptions C07_sources_list_failure_reported.

(** a pod request whose namespace lookup fails through the real sources fails closed with a 500 *)
Theorem C07_sources_lookup_failure_closed : forall c ev r wi cl e exp now lf,
  is_pods r = true -> s_ignored_sub (r_subresource r) = false ->
  s_exempt (r_namespace r) (cf_ex_namespaces c) = false -> s_exempt (r_user r) (cf_ex_users c) = false ->
  get_namespace wi cl (Faults (Some e) lf) (r_namespace r) = (None, e) ->
  rs_allowed (fst (validate c ev r (world_of wi cl (Faults (Some e) lf) (r_namespace r) exp now))) = false /\
  rs_code (fst (validate c ev r (world_of wi cl (Faults (Some e) lf) (r_namespace r) exp now))) = Some 500%Z.
Proof. exact C07_sources_lookup_failure_closed_proof. Qed.
Print Assumptions C07_sources_lookup_failure_closed.

(** the lookup hypothesis above holds whenever the live GET is really made: the name
    is not empty, and there is no lister or the lister does not know the namespace *)
Theorem C07_sources_lookup_fault : forall wi cl e lf name,
  name <> "" -> (wi_ns_lister wi = false \/ lookup name (cl_cached_ns cl) = None) ->
  get_namespace wi cl (Faults (Some e) lf) name = (None, e).
Proof. exact get_namespace_fault. Qed.
Print Assumptions C07_sources_lookup_fault.

(** ---- examples ---- *)
Definition ex07_L1 : labels := [("pod-security.kubernetes.io/enforce", "baseline")].
Definition ex07_L2 : labels := [("pod-security.kubernetes.io/enforce", "restricted")].
Definition ex07_cluster : cluster :=
  Cluster [("ns", ex07_L1)] [("ns", ex07_L2); ("other", [])] [ex07_pod] [ex07_pod; ex07_pod].

(** the lister answers from the cache (possibly stale), the plain client from the API server;
    a namespace in neither is NotFound; a failing LIST is an error only for the live lister *)
Example C07_sources_example :
  get_namespace (Wiring true false) ex07_cluster (Faults None false) "ns" = (Some ex07_L1, "") /\
  get_namespace (Wiring false false) ex07_cluster (Faults None false) "ns" = (Some ex07_L2, "") /\
  get_namespace (Wiring true false) ex07_cluster (Faults None false) "other" = (Some [], "") /\
  get_namespace (Wiring true false) ex07_cluster (Faults None false) "gone" = (None, not_found_text "gone") /\
  get_namespace (Wiring false false) ex07_cluster (Faults None false) "gone" = (None, "namespaces ""gone"" not found") /\
  get_namespace (Wiring true false) ex07_cluster (Faults (Some "boom") false) "ns" = (Some ex07_L1, "") /\
  get_namespace (Wiring false false) ex07_cluster (Faults (Some "boom") false) "ns" = (None, "boom") /\
  list_pods (Wiring true false) ex07_cluster (Faults None true) = None /\
  list_pods (Wiring false false) ex07_cluster (Faults None true) = None /\
  list_pods (Wiring true true) ex07_cluster (Faults None true) = Some (cl_cached_pods ex07_cluster) /\
  list_pods (Wiring false true) ex07_cluster (Faults None true) = Some (cl_cached_pods ex07_cluster) /\
  list_pods (Wiring false false) ex07_cluster (Faults None false) = Some (cl_live_pods ex07_cluster).
Proof. vm_compute. repeat split. Qed.

(** non-vacuous: a namespace update through the real sources whose live LIST fails *)
Example C07_sources_ex_list_failure :
  let r := Request "" "namespaces" "" "" "ns" "u" OpUpdate (ONamespace "ns" ex07_L2) (ONamespace "ns" []) None in
  let o := validate ex07_cfg ex07_deny_all r
             (world_of (Wiring true false) ex07_cluster (Faults None true) (r_namespace r) None 0) in
  (is_namespaces r, existsb is_list (snd o), rs_allowed (fst o), rs_warnings (fst o))
  = (true, true, true, ["failed to list pods while checking new PodSecurity enforce level"]).
Proof. vm_compute. reflexivity. Qed.
(** ... the same update with the informer wired never sees the fault: the cached pod is evaluated *)
Example C07_sources_ex_list_informer :
  let r := Request "" "namespaces" "" "" "ns" "u" OpUpdate (ONamespace "ns" ex07_L2) (ONamespace "ns" []) None in
  let o := validate ex07_cfg ex07_deny_all r
             (world_of (Wiring true true) ex07_cluster (Faults None true) (r_namespace r) None 0) in
  (rs_allowed (fst o), List.length (eval_events (snd o)), List.length (rs_warnings (fst o))) = (true, 1, 2).
Proof. vm_compute. reflexivity. Qed.
(** non-vacuous: a pod request in a namespace the lister does not know, whose live GET fails *)
Example C07_sources_ex_lookup_failure :
  let r := Request "" "pods" "" "gone" "p" "u" OpCreate (OPod ex07_pod) ONil None in
  let f := Faults (Some "etcd unavailable") false in
  let o := validate ex07_cfg ex07_allow_all r (world_of (Wiring true false) ex07_cluster f (r_namespace r) None 0) in
  (is_pods r, s_ignored_sub (r_subresource r), s_exempt (r_namespace r) (cf_ex_namespaces ex07_cfg),
   s_exempt (r_user r) (cf_ex_users ex07_cfg), get_namespace (Wiring true false) ex07_cluster f (r_namespace r),
   rs_allowed (fst o), rs_code (fst o))
  = (true, false, false, false, (None, "etcd unavailable"), false, Some 500%Z).
Proof. vm_compute. reflexivity. Qed.
