(** Properties/C08.v - property C08: the audit and warn modes never block a
    request; their findings are reported (audit annotation / warning) exactly
    when the pod violates the audit / warn level:version.
    Theorem statements only; every proof lives in Proofs/AdmFactsA.v. *)
From Coq Require Import List Bool NArith ZArith String.
From PSA Require Import Base.Str Model.Api Model.Pod Model.Checks Model.Registry Model.Admission
     Model.Namespace Spec.P05 Spec.PAdm Proofs.AdmFactsA Proofs.AdmFactsE.
Import ListNotations.

(** audit and warn never block; reported exactly when violated *)
Theorem C08_audit_warn : forall c ev r w, P08 c ev r w (validate c ev r w) = true.
Proof. exact P08_model. Qed.
Print Assumptions C08_audit_warn.

(** every cached lookup of EvaluatePod returns the aggregate of the evaluator
    on that key, so the function equals its cache-free flat form [epr_flat]
    (whose only trace of the cache is which [EvEval] events are emitted) *)
Theorem C08_cache_sound : forall (c : config) (ev : evaluator) (pol : policy) (errs : list ferr) (p : pod) (em : bool),
  let cached : cache := if em then [(enforce pol, aggregate_results (ev (enforce pol) p))] else [] in
  let cached2 := match cache_get (audit pol) cached with
                 | Some _ => cached
                 | None => (cached ++ [(audit pol, aggregate_results (ev (audit pol) p))])%list
                 end in
  cache_sound ev p cached /\ cache_sound ev p cached2 /\
  (forall k a, cache_get k cached = Some a -> a = aggregate_results (ev k p)) /\
  (forall k a, cache_get k cached2 = Some a -> a = aggregate_results (ev k p)) /\
  (exempt_runtimeclass c (pd_runtimeClass p) = false ->
   evaluate_pod_request c ev pol errs p em = epr_flat c ev pol errs p em).
Proof. exact evaluate_pod_request_cache_sound. Qed.
Print Assumptions C08_cache_sound.

(** the allow bit does not depend on the audit/warn parts of the resolved
    policy.  Two hypotheses had to be added to the first formulation (the last
    two); each is necessary, see the two examples below.  The reason is the
    fully-privileged short circuit of ValidatePod: it answers "allowed" before
    the objects are decoded and without calling the evaluator, and whether it is
    taken depends on the audit and warn levels. *)
Theorem C08_allow_independent : forall c ev r w w' ls ls',
  w_ns w = Some ls -> w_ns w' = Some ls' -> w_pods w = w_pods w' -> w_expire_after w = w_expire_after w' ->
  enforce (spec_policy ls (cf_defaults c)) = enforce (spec_policy ls' (cf_defaults c)) ->
  (spec_errs ls = [] <-> spec_errs ls' = []) ->
  is_namespaces r = false ->
  ev_privileged_allows ev ->      (* added: nothing is forbidden at the privileged level *)
  pod_request_decodes r ->        (* added: the objects of a pod request decode *)
  rs_allowed (fst (validate c ev r w)) = rs_allowed (fst (validate c ev r w')).
Proof. intros c ev r w w' ls ls' Hw Hw' _ _ He _. exact (C08_allow_independent_proof c ev r w w' ls ls' Hw Hw' He). Qed.
Print Assumptions C08_allow_independent.

(** fully privileged vs. audit=baseline, undecodable object: allowed vs. 400 *)
Example C08_allow_independent_needs_decode :
  enforce (spec_policy [] (cf_defaults cex_cfg))
    = enforce (spec_policy [(audit_level_label, "baseline"%string)] (cf_defaults cex_cfg))
  /\ spec_errs [] = [] /\ spec_errs [(audit_level_label, "baseline"%string)] = []
  /\ ev_privileged_allows (fun _ _ => [])
  /\ rs_allowed (fst (validate cex_cfg (fun _ _ => []) cex_req_undecodable cex_world)) = true
  /\ rs_allowed (fst (validate cex_cfg (fun _ _ => []) cex_req_undecodable cex_world_audit)) = false.
Proof. exact C08_allow_independent_needs_decode_proof. Qed.
(** same two worlds, decodable pod, an evaluator that forbids at the privileged level *)
Example C08_allow_independent_needs_ev :
  pod_request_decodes cex_req
  /\ rs_allowed (fst (validate cex_cfg deny_all cex_req cex_world)) = true
  /\ rs_allowed (fst (validate cex_cfg deny_all cex_req cex_world_audit)) = false.
Proof. exact C08_allow_independent_needs_ev_proof. Qed.

(** no hypothesis on the evaluator or the objects is needed when both worlds
    agree on taking the fully-privileged short circuit *)
Theorem C08_allow_independent_same_shortcut : forall c ev r w w' ls ls',
  w_ns w = Some ls -> w_ns w' = Some ls' ->
  enforce (spec_policy ls (cf_defaults c)) = enforce (spec_policy ls' (cf_defaults c)) ->
  is_namespaces r = false ->
  is_nil (spec_errs ls) && fully_privileged (spec_policy ls (cf_defaults c))
  = is_nil (spec_errs ls') && fully_privileged (spec_policy ls' (cf_defaults c)) ->
  rs_allowed (fst (validate c ev r w)) = rs_allowed (fst (validate c ev r w')).
Proof. exact C08_allow_independent_same_shortcut_proof. Qed.
Print Assumptions C08_allow_independent_same_shortcut.

(** non-vacuity: a denied-by-nothing request whose audit and warn findings are both reported *)
Example C08_reported :
  let ev : evaluator := fun x _ => match lv_level x with Privileged => [] | _ => [CR false "no" ""] end in
  let ls := [(audit_level_label, "baseline"%string); (warn_level_label, "restricted"%string)] in
  let o := validate cex_cfg ev cex_req (World (Some ls) "" None None 0) in
  evaluated_object cex_cfg cex_req (World (Some ls) "" None None 0) = Some (ls, cex_pod, true)
  /\ rs_allowed (fst o) = true /\ List.length (rs_warnings (fst o)) = 1
  /\ is_some (ann "audit-violations" (fst o)) = true.
Proof. vm_compute. repeat split. Qed.

(** the relation as evaluated on the implementation's observations ([P08_obs]:
    the texts are only required to name their own level:version) is implied by
    the exact-text relation proved of the model: a rendered level:version
    contains neither a quote nor a backslash, so %q leaves it unchanged *)
Theorem C08_obs_from_exact : forall c ev r w o, P08 c ev r w o = true -> P08_obs c ev r w o = true.
Proof. exact P08_obs_from_exact. Qed.
Print Assumptions C08_obs_from_exact.

Theorem C08_audit_warn_obs : forall c ev r w, P08_obs c ev r w (validate c ev r w) = true.
Proof. exact P08_obs_model. Qed.
Print Assumptions C08_audit_warn_obs.

(** whatever the version, quoting a level:version only wraps it in quotes *)
Theorem C08_quote_lv_string : forall x, go_quote (lv_string x) = ("""" ++ lv_string x ++ """")%string.
Proof. exact go_quote_lv_string. Qed.
Print Assumptions C08_quote_lv_string.

(** ---- composition with the standard (C02), for the shipped evaluator ---- *)
From PSA Require Import Spec.PSS Spec.P02 Proofs.EndToEnd Proofs.EndToEnd2 Proofs.C02_table.

(** "violates", for the shipped evaluator, is non-compliance with the Pod Security Standards *)
Theorem C08_violates_is_noncompliance : forall relax x p m,
  api_valid p = true -> relaxed_for relax p = false -> effective_minor (lv_version x) = Some m ->
  violates (shipped_evaluator relax) x p = negb (compliant (lv_level x) m p).
Proof. exact violates_shipped. Qed.
Print Assumptions C08_violates_is_noncompliance.

(** an evaluated pod request, shipped evaluator: the verdict, the warning and
    the audit annotation are compliance with the standard (Spec/PSS.v) at the
    enforce, warn and audit level:version of the namespace.  No hypothesis on
    label errors or on the fully-privileged short circuit is needed. *)
Theorem C08_end_to_end : forall c relax r w ls p me ma mw,
  let pol := spec_policy ls (cf_defaults c) in
  let resp := fst (validate c (shipped_evaluator relax) r w) in
  evaluated_object c r w = Some (ls, p, true) ->
  api_valid p = true -> relaxed_for relax p = false ->
  effective_minor (lv_version (enforce pol)) = Some me ->
  effective_minor (lv_version (audit pol)) = Some ma ->
  effective_minor (lv_version (warn pol)) = Some mw ->
  rs_allowed resp = compliant (lv_level (enforce pol)) me p
  /\ (rs_warnings resp = [] <-> rs_allowed resp = false \/ compliant (lv_level (warn pol)) mw p = true)
  /\ (rs_allowed resp = true -> compliant (lv_level (warn pol)) mw p = false ->
      exists t, rs_warnings resp = [t] /\ contains (lv_string (warn pol)) t = true)
  /\ (ann "audit-violations" resp = None <-> compliant (lv_level (audit pol)) ma p = true)
  /\ (compliant (lv_level (audit pol)) ma p = false ->
      exists t, ann "audit-violations" resp = Some t /\ contains (lv_string (audit pol)) t = true).
Proof. exact C08_end_to_end_proof. Qed.
Print Assumptions C08_end_to_end.

(** the hypotheses are jointly satisfiable: a pod that is baseline- but not
    restricted-compliant, in a namespace enforcing baseline, auditing at
    restricted:v1.25 and warning at restricted: allowed, one warning, the audit
    annotation; and the baseline-violating pod is denied without a warning *)
Example C08_end_to_end_in_scope :
  let ls := [(enforce_level_label, "baseline"); (audit_level_label, "restricted");
             (audit_version_label, "v1.25"); (warn_level_label, "restricted")]%string in
  let r := e2e_pod_request example_pod_fixed in
  let w := e2e_world ls in
  let pol := spec_policy ls (cf_defaults cex_cfg) in
  let resp := fst (validate cex_cfg (shipped_evaluator false) r w) in
  let resp' := fst (validate cex_cfg (shipped_evaluator false) (e2e_pod_request example_pod) w) in
  evaluated_object cex_cfg r w = Some (ls, example_pod_fixed, true)
  /\ api_valid example_pod_fixed = true /\ relaxed_for false example_pod_fixed = false
  /\ effective_minor (lv_version (enforce pol)) = Some 32%N
  /\ effective_minor (lv_version (audit pol)) = Some 25%N
  /\ effective_minor (lv_version (warn pol)) = Some 32%N
  /\ compliant (lv_level (enforce pol)) 32 example_pod_fixed = true
  /\ compliant (lv_level (audit pol)) 25 example_pod_fixed = false
  /\ compliant (lv_level (warn pol)) 32 example_pod_fixed = false
  /\ rs_allowed resp = true /\ List.length (rs_warnings resp) = 1
  /\ is_some (ann "audit-violations" resp) = true
  /\ compliant (lv_level (enforce pol)) 32 example_pod = false
  /\ rs_allowed resp' = false /\ rs_warnings resp' = [].
Proof. vm_compute. repeat split. Qed.
