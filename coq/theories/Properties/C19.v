(** Properties/C19.v - property C19: user-namespace relaxation is opt-in and
    limited to three controls.
    "Unless the administrator opts in, a pod's hostUsers setting has no effect on
     any verdict.  After opting in, only pods that set hostUsers=false are
     affected, and for them only the runAsNonRoot, runAsUser and procMount
     controls are waived; every other control applies unchanged."
    Theorem statements only; every proof lives in Proofs/RelaxFacts.v.
    [waived_fns] and [model_obs19] are defined in Proofs/RelaxFacts.v:
      waived_fns = ["runAsNonRoot_1_0"; "runAsUser_1_23"; "procMount_1_0"]
      model_obs19 al fns p = for h in [None; Some true; Some false], r in [false; true]:
                               (h, r, map (fun fn => run_check al r fn (set_hostUsers p h)) fns) *)
From Coq Require Import List Bool NArith String.
From PSA Require Import Base.Str Model.Api Model.Pod Model.Checks Model.Registry Model.Shipped Spec.P02 Proofs.RelaxFacts.
Import ListNotations.

(** switch off: hostUsers is never read *)
Theorem C19_off : forall al fn f p h,
  lookup_check fn = Some f -> f al false (set_hostUsers p h) = f al false p.
Proof. exact C19_off_proof. Qed.
Print Assumptions C19_off.

(** switch on, pod not user-namespaced: nothing changes *)
Theorem C19_on_unaffected : forall al fn f p,
  lookup_check fn = Some f -> pd_hostUsers p <> Some false -> f al true p = f al false p.
Proof. exact C19_on_unaffected_proof. Qed.
Print Assumptions C19_on_unaffected.

(** switch on, hostUsers=false: exactly the three functions are waived (they
    allow), every other revision is unchanged *)
Theorem C19_on_three : forall al fn f p,
  lookup_check fn = Some f -> pd_hostUsers p = Some false ->
  (In fn waived_fns -> f al true p = cr_ok) /\ (~ In fn waived_fns -> f al true p = f al false p).
Proof. exact C19_on_three_proof. Qed.
Print Assumptions C19_on_three.

(** the same three facts for the assembled evaluator, for ANY check table *)
Theorem C19_eval_off : forall al cs l v p h,
  evaluate_pod al false cs l v (set_hostUsers p h) = evaluate_pod al false cs l v p.
Proof. exact C19_eval_off_proof. Qed.
Print Assumptions C19_eval_off.

Theorem C19_eval_on_unaffected : forall al cs l v p, pd_hostUsers p <> Some false ->
  evaluate_pod al true cs l v p = evaluate_pod al false cs l v p.
Proof. exact C19_eval_on_unaffected_proof. Qed.
Print Assumptions C19_eval_on_unaffected.

Theorem C19_eval_on : forall al cs l v p, pd_hostUsers p = Some false ->
  evaluate_pod al true cs l v p =
  map (fun x => if mem (vc_fn (snd x)) waived_fns then cr_ok else run_check al false (vc_fn (snd x)) p)
      (resolve cs l v).
Proof. exact C19_eval_on_proof. Qed.
Print Assumptions C19_eval_on.

(** consequence: opting in can only turn denials into allows *)
Theorem C19_relax_monotone : forall al cs l v p,
  eval_allowed al false cs l v p = true -> eval_allowed al true cs l v p = true.
Proof. exact C19_relax_monotone_proof. Qed.
Print Assumptions C19_relax_monotone.

(** the relation P19 holds of the model's own observation, for every pod.
    ids/fns: the control id and function name of each registered revision; the
    hypothesis says the id list marks exactly the waived functions *)
Theorem C19_P19 : forall al (ids fns : list string) p,
  List.length ids = List.length fns ->
  (forall id fn, In (id, fn) (combine ids fns) -> mem id waived_controls = mem fn waived_fns) ->
  P19 ids (model_obs19 al fns p) = true.
Proof. exact C19_P19_proof. Qed.
Print Assumptions C19_P19.

(** non-vacuity: a concrete pod with hostUsers=false, a root container and
    procMount Unmasked: denied by the three controls with the switch off, allowed
    by them with it on, while [privileged_1_0] still denies *)
Example C19_example : exists p : pod, pd_hostUsers p = Some false /\
   cr_allowed (runAsNonRoot_1_0 (AllowLists [] [] [] [] [] [] []) false p) = false /\
   cr_allowed (runAsUser_1_23 (AllowLists [] [] [] [] [] [] []) false p) = false /\
   cr_allowed (procMount_1_0 (AllowLists [] [] [] [] [] [] []) false p) = false /\
   cr_allowed (runAsNonRoot_1_0 (AllowLists [] [] [] [] [] [] []) true p) = true /\
   cr_allowed (runAsUser_1_23 (AllowLists [] [] [] [] [] [] []) true p) = true /\
   cr_allowed (procMount_1_0 (AllowLists [] [] [] [] [] [] []) true p) = true /\
   cr_allowed (privileged_1_0 (AllowLists [] [] [] [] [] [] []) true p) = false.
Proof. exact C19_example_proof. Qed.
Print Assumptions C19_example.
