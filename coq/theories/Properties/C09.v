(** Properties/C09.v - property C09: requests for pod-bearing controllers are
    never denied; the enforce policy is never applied to them (no enforce
    evaluation is recorded, no enforce-policy annotation); requests on a
    subresource or without a pod template carry no findings; the audit / warn
    findings are those of the bare pod of the template.
    Theorem statements only; every proof lives in Proofs/AdmFactsA.v.

    [bare_pod_request], [bare_labels], [bare_pod_world], [policy_printable] are
    defined in Proofs/AdmFactsA.v and mirror what the Go harness does to build
    the related request (barePodScenario). *)
From Coq Require Import List Bool NArith ZArith String.
From PSA Require Import Base.Str Model.Api Model.Pod Model.Checks Model.Registry Model.Admission
     Model.Namespace Spec.P05 Spec.PAdm Proofs.AdmFactsA.
Import ListNotations.

(** [o_pod], when given, is the observation of the bare-pod request of the
    template.  One conjunct was added to the hypothesis on [o_pod] with respect
    to the first formulation: [r_subresource r = ""] (the harness builds the
    bare pod only for requests without subresource).  It is necessary: see
    [C09_controllers_needs_hyp]. *)
Theorem C09_controllers : forall c ev r w (o_pod : option obs),
  (forall o, o_pod = Some o -> exists p ls,
        request_pod r = Some p /\ r_subresource r = ""%string /\ w_ns w = Some ls /\ spec_errs ls = [] /\
        o = validate c ev (bare_pod_request r p) (bare_pod_world c w ls)) ->
  policy_printable (cf_defaults c) = true ->
  P09 c ev r w (validate c ev r w) o_pod = true.
Proof. exact P09_model. Qed.
Print Assumptions C09_controllers.

(** a deployments/scale request carrying a template, namespace warn=baseline:
    the controller request answers from the shared allowed response, its bare
    pod is evaluated and warned about *)
Example C09_controllers_needs_hyp :
  let ls := [(warn_level_label, "baseline"%string)] in
  request_pod cex_req_scale = Some cex_pod /\ w_ns cex_world_warn = Some ls /\ spec_errs ls = []
  /\ policy_printable (cf_defaults cex_cfg) = true
  /\ P09 cex_cfg cex_ev cex_req_scale cex_world_warn (validate cex_cfg cex_ev cex_req_scale cex_world_warn)
         (Some (validate cex_cfg cex_ev (bare_pod_request cex_req_scale cex_pod)
                         (bare_pod_world cex_cfg cex_world_warn ls))) = false.
Proof. exact C09_controllers_needs_hyp_proof. Qed.

Theorem C09_never_denied : forall c ev r w, is_controller r = true -> rs_allowed (fst (validate c ev r w)) = true.
Proof. exact C09_never_denied_proof. Qed.
Print Assumptions C09_never_denied.

(** the namespace built for the bare pod resolves to enforce = privileged and
    the same audit / warn parts, without label errors *)
Theorem C09_bare_namespace : forall pol d,
  printable_version (lv_version (audit pol)) = true -> printable_version (lv_version (warn pol)) = true ->
  spec_policy (bare_labels pol) d = Policy (LV Privileged (lv_version (enforce d))) (audit pol) (warn pol)
  /\ spec_errs (bare_labels pol) = [].
Proof. exact spec_policy_bare. Qed.
Print Assumptions C09_bare_namespace.

(** non-vacuity: a controller request (no subresource) with findings, equal to those of its bare pod *)
Example C09_same_findings :
  let r := Request "apps" "deployments" "" "ns" "d" "u" OpCreate (OController "Deployment" (Some cex_pod)) ONil None in
  let ls := [(warn_level_label, "baseline"%string); (audit_level_label, "restricted"%string)] in
  let w := World (Some ls) "" None None 0 in
  let o := validate cex_cfg cex_ev r w in
  let op := validate cex_cfg cex_ev (bare_pod_request r cex_pod) (bare_pod_world cex_cfg w ls) in
  is_controller r = true /\ rs_allowed (fst op) = true
  /\ List.length (rs_warnings (fst o)) = 1 /\ rs_warnings (fst o) = rs_warnings (fst op)
  /\ is_some (ann "audit-violations" (fst o)) = true
  /\ ann "audit-violations" (fst o) = ann "audit-violations" (fst op)
  /\ P09 cex_cfg cex_ev r w o (Some op) = true.
Proof. vm_compute. repeat split. Qed.

(** ---- side conditions on the constants regenerated from the source (Gen/Constants.v) ---- *)
From PSA Require Import Proofs.Constants_table.
From PSA Require Gen.Constants.
From PSA Require Import Spec.P02.
Theorem C09_pod_spec_resources_are_source : same_set Gen.Constants.gen_pod_spec_resources pss_pod_spec_resources = true.
Proof. exact pod_spec_resources_are_source. Qed.
Print Assumptions C09_pod_spec_resources_are_source.

(** ---- composition with the standard (C02), for the shipped evaluator ---- *)
From PSA Require Import Spec.PSS Proofs.EndToEnd Proofs.EndToEnd2 Proofs.C02_table.

(** an evaluated controller request (no subresource, not exempt, template [p]),
    shipped evaluator: allowed and without enforce-policy annotation whatever
    the enforce level; it carries the warning / the audit annotation exactly
    when the template does not comply with the standard (Spec/PSS.v) at the
    warn / audit level:version.  No hypothesis on label errors or on the
    short circuit (warn and audit both privileged) is needed. *)
Theorem C09_end_to_end : forall c relax r w ls p ma mw,
  let pol := spec_policy ls (cf_defaults c) in
  let resp := fst (validate c (shipped_evaluator relax) r w) in
  evaluated_object c r w = Some (ls, p, false) ->
  api_valid p = true -> relaxed_for relax p = false ->
  effective_minor (lv_version (audit pol)) = Some ma ->
  effective_minor (lv_version (warn pol)) = Some mw ->
  rs_allowed resp = true
  /\ ann "enforce-policy" resp = None
  /\ (rs_warnings resp = [] <-> compliant (lv_level (warn pol)) mw p = true)
  /\ (compliant (lv_level (warn pol)) mw p = false ->
      exists t, rs_warnings resp = [t] /\ contains (lv_string (warn pol)) t = true)
  /\ (ann "audit-violations" resp = None <-> compliant (lv_level (audit pol)) ma p = true)
  /\ (compliant (lv_level (audit pol)) ma p = false ->
      exists t, ann "audit-violations" resp = Some t /\ contains (lv_string (audit pol)) t = true).
Proof. exact C09_end_to_end_proof. Qed.
Print Assumptions C09_end_to_end.

(** the hypotheses are jointly satisfiable: a Deployment whose template
    violates baseline:v1.19, namespace enforce=restricted, warn=audit=
    baseline:v1.19: allowed, one warning, the audit annotation, no
    enforce-policy annotation; the fixed template (baseline-compliant, not
    restricted-compliant) is allowed without findings *)
Example C09_end_to_end_in_scope :
  let ls := [(enforce_level_label, "restricted"); (warn_level_label, "baseline"); (warn_version_label, "v1.19");
             (audit_level_label, "baseline"); (audit_version_label, "v1.19")]%string in
  let r := e2e_deploy_request example_pod in
  let r' := e2e_deploy_request example_pod_fixed in
  let w := e2e_world ls in
  let pol := spec_policy ls (cf_defaults cex_cfg) in
  let resp := fst (validate cex_cfg (shipped_evaluator false) r w) in
  let resp' := fst (validate cex_cfg (shipped_evaluator false) r' w) in
  evaluated_object cex_cfg r w = Some (ls, example_pod, false)
  /\ evaluated_object cex_cfg r' w = Some (ls, example_pod_fixed, false)
  /\ api_valid example_pod = true /\ relaxed_for false example_pod = false
  /\ api_valid example_pod_fixed = true /\ relaxed_for false example_pod_fixed = false
  /\ effective_minor (lv_version (audit pol)) = Some 19%N
  /\ effective_minor (lv_version (warn pol)) = Some 19%N
  /\ compliant (lv_level (warn pol)) 19 example_pod = false
  /\ compliant (lv_level (audit pol)) 19 example_pod = false
  /\ rs_allowed resp = true /\ List.length (rs_warnings resp) = 1
  /\ is_some (ann "audit-violations" resp) = true /\ ann "enforce-policy" resp = None
  /\ compliant (lv_level (warn pol)) 19 example_pod_fixed = true
  /\ compliant (lv_level (enforce pol)) 32 example_pod_fixed = false
  /\ rs_allowed resp' = true /\ rs_warnings resp' = [] /\ ann "audit-violations" resp' = None.
Proof. vm_compute. repeat split. Qed.
