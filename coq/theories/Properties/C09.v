(** Properties/C09.v - property C09: requests for pod-bearing controllers are
    never denied; the enforce policy is never applied to them (no enforce
    evaluation is recorded, no enforce-policy annotation); requests on a
    subresource or without a pod template carry no findings; the audit / warn
    findings are those of the bare pod of the template.
    Theorem statements only; every proof lives in Proofs/AdmFactsA.v.

    [bare_pod_request], [bare_labels], [bare_pod_world], [policy_printable] are
    defined in Proofs/AdmFactsA.v and mirror what the Go harness does to build
    the related request (barePodScenario). *)
From Coq Require Import List Bool NArith ZArith String.
From PSA Require Import Base.Str Model.Api Model.Pod Model.Checks Model.Registry Model.Admission
     Model.Namespace Spec.P05 Spec.PAdm Proofs.AdmFactsA.
Import ListNotations.

(** [o_pod], when given, is the observation of the bare-pod request of the
    template.  One conjunct was added to the hypothesis on [o_pod] with respect
    to the first formulation: [r_subresource r = ""] (the harness builds the
    bare pod only for requests without subresource).  It is necessary: see
    [C09_controllers_needs_hyp]. *)
Theorem C09_controllers : forall c ev r w (o_pod : option obs),
  (forall o, o_pod = Some o -> exists p ls,
        request_pod r = Some p /\ r_subresource r = ""%string /\ w_ns w = Some ls /\ spec_errs ls = [] /\
        o = validate c ev (bare_pod_request r p) (bare_pod_world c w ls)) ->
  policy_printable (cf_defaults c) = true ->
  P09 c ev r w (validate c ev r w) o_pod = true.
Proof. exact P09_model. Qed.
Print Assumptions C09_controllers.

(** a deployments/scale request carrying a template, namespace warn=baseline:
    the controller request answers from the shared allowed response, its bare
    pod is evaluated and warned about *)
Example C09_controllers_needs_hyp :
  let ls := [(warn_level_label, "baseline"%string)] in
  request_pod cex_req_scale = Some cex_pod /\ w_ns cex_world_warn = Some ls /\ spec_errs ls = []
  /\ policy_printable (cf_defaults cex_cfg) = true
  /\ P09 cex_cfg cex_ev cex_req_scale cex_world_warn (validate cex_cfg cex_ev cex_req_scale cex_world_warn)
         (Some (validate cex_cfg cex_ev (bare_pod_request cex_req_scale cex_pod)
                         (bare_pod_world cex_cfg cex_world_warn ls))) = false.
Proof. exact C09_controllers_needs_hyp_proof. Qed.

Theorem C09_never_denied : forall c ev r w, is_controller r = true -> rs_allowed (fst (validate c ev r w)) = true.
Proof. exact C09_never_denied_proof. Qed.
Print Assumptions C09_never_denied.

(** the namespace built for the bare pod resolves to enforce = privileged and
    the same audit / warn parts, without label errors *)
Theorem C09_bare_namespace : forall pol d,
  printable_version (lv_version (audit pol)) = true -> printable_version (lv_version (warn pol)) = true ->
  spec_policy (bare_labels pol) d = Policy (LV Privileged (lv_version (enforce d))) (audit pol) (warn pol)
  /\ spec_errs (bare_labels pol) = [].
Proof. exact spec_policy_bare. Qed.
Print Assumptions C09_bare_namespace.

(** non-vacuity: a controller request (no subresource) with findings, equal to those of its bare pod *)
Example C09_same_findings :
  let r := Request "apps" "deployments" "" "ns" "d" "u" OpCreate (OController "Deployment" (Some cex_pod)) ONil None in
  let ls := [(warn_level_label, "baseline"%string); (audit_level_label, "restricted"%string)] in
  let w := World (Some ls) "" None None 0 in
  let o := validate cex_cfg cex_ev r w in
  let op := validate cex_cfg cex_ev (bare_pod_request r cex_pod) (bare_pod_world cex_cfg w ls) in
  is_controller r = true /\ rs_allowed (fst op) = true
  /\ List.length (rs_warnings (fst o)) = 1 /\ rs_warnings (fst o) = rs_warnings (fst op)
  /\ is_some (ann "audit-violations" (fst o)) = true
  /\ ann "audit-violations" (fst o) = ann "audit-violations" (fst op)
  /\ P09 cex_cfg cex_ev r w o (Some op) = true.
Proof. vm_compute. repeat split. Qed.

(** ---- side conditions on the constants regenerated from the source (Gen/Constants.v) ---- *)
From PSA Require Import Proofs.Constants_table.
From PSA Require Gen.Constants.
From PSA Require Import Spec.P02.
Theorem C09_pod_spec_resources_are_source : same_set Gen.Constants.gen_pod_spec_resources pss_pod_spec_resources = true.
Proof. exact pod_spec_resources_are_source. Qed.
Print Assumptions C09_pod_spec_resources_are_source.
