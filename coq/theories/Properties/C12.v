(** Properties/C12.v - property C12: the namespace dry run is bounded (at most
    cap pods, at most min(timeout, half the remaining request deadline)), takes
    one pod per owning controller before any sibling, and is honest about
    stopping early: it reports exactly how many of how many pods were checked
    and exactly the violations of the pods it checked.
    Theorem statements only; every proof lives in Proofs/NamespaceFacts.v. *)
From Coq Require Import List Bool NArith ZArith String Permutation.
From PSA Require Import Base.Str Model.Api Model.Pod Model.Checks Model.Registry Model.Admission Model.Namespace
     Spec.P05 Spec.PAdm Proofs.NamespaceFacts.
Import ListNotations.

(** the relation P_12 holds of every observation of the model: any cap, any
    timeout, any evaluator, any request, any pod list, any expiry index *)
Theorem C12_dry_run : forall c ev r w, P12 c ev r w (validate c ev r w) = true.
Proof. exact P12_proof. Qed.
Print Assumptions C12_dry_run.

(** prioritisation: exempt runtime classes dropped, the first pod of each
    controller in listing order, then all the siblings *)
Theorem C12_prioritise : forall c pods, prioritize_pods c pods = s_prioritized c pods.
Proof. exact prioritize_pods_spec. Qed.
Print Assumptions C12_prioritise.

(** ... which loses and invents no pod *)
Theorem C12_prioritise_perm : forall c pods,
  Permutation (prioritize_pods c pods) (filter (fun p => negb (s_exempt_rc c p)) pods).
Proof. exact prioritize_pods_perm. Qed.
Print Assumptions C12_prioritise_perm.

(** at most cap evaluations *)
Theorem C12_cap : forall c ev r w, is_namespaces r = true ->
  List.length (eval_events (snd (validate c ev r w))) <= cf_max_pods c.
Proof. exact cap_proof. Qed.
Print Assumptions C12_cap.

(** the lister is only ever given the deadline
    min(request deadline, now + min(timeout, remaining/2)); for every request
    kind (pod and controller requests never call the lister) *)
Theorem C12_deadline : forall c ev r w dl,
  In (EvList dl) (snd (validate c ev r w)) -> dl = s_deadline c (r_deadline r) (w_now w).
Proof. exact deadline_proof. Qed.
Print Assumptions C12_deadline.

(** the warnings of EvaluatePodsInNamespace are exactly the specification's
    report over the pods actually checked, for every cap and every expiry index *)
Theorem C12_warnings_exact : forall c ev r w name x,
  fst (evaluate_pods_in_namespace c ev r w name x) = s_dry_run_warnings c ev name x w.
Proof. exact warnings_exact_proof. Qed.
Print Assumptions C12_warnings_exact.

(** non-vacuity: the context expires right after the first pod: one pod
    evaluated, "first 1 of 3", and only that pod's violation reported *)
Example C12_example :
  let r := ex_request OpUpdate [("pod-security.kubernetes.io/enforce", "restricted")]%string [] in
  let o := validate ex_config ex_ev r (ex_world ex_pods (Some 0)) in
  rs_warnings (fst o) =
    ["new PodSecurity enforce level only checked against the first 1 of 3 existing pods";
     "existing pods in namespace ""ns"" violate the new PodSecurity enforce level ""restricted:latest""";
     "b2: r"]%string
  /\ snd o = [EvDecode; EvDecodeOld; EvList 1000; EvEval (LV Restricted Latest) "b2"]
  /\ s_deadline ex_config (Some 10000%Z) 0 = 1000%Z
  /\ s_deadline ex_config (Some 1500%Z) 0 = 750%Z.
Proof. vm_compute. repeat split. Qed.
Print Assumptions C12_example.

(** ---- side conditions on the constants regenerated from the source (Gen/Constants.v) ---- *)
From PSA Require Import Proofs.Constants_table.
From PSA Require Gen.Constants.
Theorem C12_defaults_are_source :
  Gen.Constants.gen_default_max_pods = 3000%N /\ Gen.Constants.gen_default_timeout_ns = 1000000000%Z.
Proof. exact dry_run_defaults_are_source. Qed.
Print Assumptions C12_defaults_are_source.
