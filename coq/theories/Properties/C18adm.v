(** Properties/C18adm.v - property C18, admission half: every decision of
    Admission.Validate is recorded in the metrics exactly once - one enforce
    evaluation (matching the response) per evaluated pod request, one exemption
    and nothing else per exempted request, one error per failed request,
    nothing for ignored requests and namespace requests, audit / warn denials
    counted when and only when they are reported.
    Theorem statements only; every proof lives in Proofs/AdmFactsA.v. *)
From Coq Require Import List Bool NArith ZArith String.
From PSA Require Import Base.Str Model.Api Model.Pod Model.Checks Model.Registry Model.Admission
     Model.Namespace Spec.P05 Spec.PAdm Proofs.AdmFactsA.
Import ListNotations.

Theorem C18_admission_metrics : forall c ev r w, P18_adm c r w (validate c ev r w) = true.
Proof. exact P18_adm_model. Qed.
Print Assumptions C18_admission_metrics.

(** non-vacuity: a denied pod with audit finding records one enforce denial and one audit denial *)
Example C18_counts :
  let ev : evaluator := fun x _ => match lv_level x with Privileged => [] | _ => [CR false "no" ""] end in
  let ls := [(enforce_level_label, "baseline"%string); (audit_level_label, "restricted"%string)] in
  let o := validate cex_cfg ev cex_req (World (Some ls) "" None None 0) in
  rs_allowed (fst o) = false
  /\ filter is_metric (snd o)
     = [MEval true (LV Baseline Latest) ModeEnforce; MEval true (LV Restricted Latest) ModeAudit].
Proof. vm_compute. repeat split. Qed.
