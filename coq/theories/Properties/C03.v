(** Properties/C03.v - property C03: the levels are ordered.  On a pod the API
    server would accept, whatever the Restricted level allows the Baseline level
    allows too (same version, same relax switch), and Privileged runs nothing.
    Theorem statements only; the table-parametric proofs live in
    Proofs/StandardFacts.v, the computed side conditions on the shipped table in
    Proofs/C03_table.v. *)
From Coq Require Import List Bool NArith String.
From PSA Require Import Base.Str Model.Api Model.Pod Model.Checks Model.Registry Model.Shipped
     Spec.P05 Spec.P02 Spec.P04 Proofs.StandardFacts Proofs.C03_table.
Import ListNotations.

(** table-parametric: in any well-formed table where every restricted revision
    that overrides a baseline id implies (on valid pods) every revision of that
    id that can be simultaneously in force, restricted => baseline.
    ([implies_on_valid al relax fr fb] is: for every API-valid pod, if the
    function named [fr] allows it then the function named [fb] allows it.) *)
Theorem C03_generic : forall al relax (cs : list named_check) v p,
  well_formed cs = true -> majors_one cs = true -> api_valid p = true ->
  (forall id r id' r', In (id, r) (resolve cs Baseline v) -> In (id', r') (resolve cs Restricted v) ->
                       In id (vc_overrides r') -> implies_on_valid al relax (vc_fn r') (vc_fn r)) ->
  eval_allowed al relax cs Restricted v p = true -> eval_allowed al relax cs Baseline v p = true.
Proof. exact restricted_implies_baseline_generic. Qed.
Print Assumptions C03_generic.

(** the same with the hypothesis on override pairs replaced by two computable
    side conditions: the pairs simultaneously in force at some populated minor
    are among the five with an implication lemma, and NET_BIND_SERVICE is in the
    baseline capability allow-list *)
Theorem C03_generic_computed : forall al relax (cs : list named_check) v p,
  well_formed cs = true -> majors_one cs = true ->
  mem "NET_BIND_SERVICE" (al_caps al) = true -> pairs_ok known_pairs cs = true ->
  api_valid p = true ->
  eval_allowed al relax cs Restricted v p = true -> eval_allowed al relax cs Baseline v p = true.
Proof. exact levels_ordered_known_pairs. Qed.
Print Assumptions C03_generic_computed.

(** the shipped checks: every version (latest, past, future, malformed), switch on or off *)
Theorem C03_levels_ordered : forall relax v p, api_valid p = true ->
  eval_allowed shipped_lists relax shipped_checks Restricted v p = true ->
  eval_allowed shipped_lists relax shipped_checks Baseline v p = true.
Proof. exact shipped_levels_ordered. Qed.
Print Assumptions C03_levels_ordered.

(** the privileged level runs no check, for any table *)
Theorem C03_privileged : forall al relax cs v p, evaluate_pod al relax cs Privileged v p = [].
Proof. exact evaluate_pod_privileged. Qed.
Print Assumptions C03_privileged.

(** relaxing the level at an unchanged version never makes a valid pod newly
    non-compliant ([strictness]: privileged 0, baseline 1, restricted 2) *)
Theorem C03_relaxation_safe : forall relax v p (l l' : level), api_valid p = true ->
  (strictness l' <= strictness l)%N ->
  eval_allowed shipped_lists relax shipped_checks l v p = true ->
  eval_allowed shipped_lists relax shipped_checks l' v p = true.
Proof. exact shipped_relaxation_safe. Qed.
Print Assumptions C03_relaxation_safe.

(** the relation P_03 holds of the model's own observations *)
Theorem C03_P03 : forall relax v p,
  P03 p (eval_allowed shipped_lists relax shipped_checks Restricted v p)
        (eval_allowed shipped_lists relax shipped_checks Baseline v p) = true.
Proof. exact shipped_P03. Qed.
Print Assumptions C03_P03.

(** the validity hypothesis is the property's own, not slack: a pod with a
    two-source volume is allowed at Restricted v1.0 and denied at Baseline v1.0 *)
Example C03_hypotheses_needed : exists p v, api_valid p = false /\
  eval_allowed shipped_lists false shipped_checks Restricted v p = true /\
  eval_allowed shipped_lists false shipped_checks Baseline v p = false.
Proof. exact shipped_hypotheses_needed. Qed.
Print Assumptions C03_hypotheses_needed.

(** ---- the ordering seen through admission (C03 composed with C01) ---- *)
From Coq Require Import ZArith.
From PSA Require Import Model.Admission Model.Namespace Spec.PAdm Proofs.AdmFactsA Proofs.LevelsAdm.
(** the same pod request under two configurations / namespace label sets: if
    both reach evaluation, the enforce versions agree and the second enforce
    level is no stricter than the first, then allowed under the first implies
    allowed under the second (the evaluator is the one built from the shipped table) *)
Theorem C03_admission_monotone : forall c c' relax r w w' ls ls' p,
  evaluated_pod c r w = Some (ls, p) -> evaluated_pod c' r w' = Some (ls', p) ->
  api_valid p = true ->
  lv_version (enforce (spec_policy ls' (cf_defaults c'))) = lv_version (enforce (spec_policy ls (cf_defaults c))) ->
  (strictness (lv_level (enforce (spec_policy ls' (cf_defaults c'))))
   <= strictness (lv_level (enforce (spec_policy ls (cf_defaults c)))))%N ->
  rs_allowed (fst (validate c (shipped_ev relax) r w)) = true ->
  rs_allowed (fst (validate c' (shipped_ev relax) r w')) = true.
Proof. exact admission_monotone_proof. Qed.
Print Assumptions C03_admission_monotone.

(** and a denial under the relaxed level is a denial under the stricter one *)
Theorem C03_admission_denial_antitone : forall c c' relax r w w' ls ls' p,
  evaluated_pod c r w = Some (ls, p) -> evaluated_pod c' r w' = Some (ls', p) ->
  api_valid p = true ->
  lv_version (enforce (spec_policy ls' (cf_defaults c'))) = lv_version (enforce (spec_policy ls (cf_defaults c))) ->
  (strictness (lv_level (enforce (spec_policy ls' (cf_defaults c'))))
   <= strictness (lv_level (enforce (spec_policy ls (cf_defaults c)))))%N ->
  rs_allowed (fst (validate c' (shipped_ev relax) r w')) = false ->
  rs_allowed (fst (validate c (shipped_ev relax) r w)) = false.
Proof. exact admission_antitone_denial_proof. Qed.
Print Assumptions C03_admission_denial_antitone.

(** a namespace that resolves to enforce=privileged denies no evaluated pod
    request, for any evaluator that runs nothing at privileged (C03_privileged) *)
Theorem C03_admission_privileged : forall c ev r w ls p,
  ev_privileged_allows ev -> evaluated_pod c r w = Some (ls, p) ->
  lv_level (enforce (spec_policy ls (cf_defaults c))) = Privileged ->
  rs_allowed (fst (validate c ev r w)) = true.
Proof. exact admission_privileged_proof. Qed.
Print Assumptions C03_admission_privileged.

(** non-vacuity: an evaluated, valid CREATE allowed under baseline:v1.24 and a privileged:v1.24 relaxation of it *)
Example C03_admission_in_scope :
  evaluated_pod cex_cfg cex_req (World (Some lb) "" None None 0) = Some (lb, cex_pod)
  /\ evaluated_pod cex_cfg cex_req (World (Some lp) "" None None 0) = Some (lp, cex_pod)
  /\ api_valid cex_pod = true
  /\ lv_version (enforce (spec_policy lp (cf_defaults cex_cfg))) = lv_version (enforce (spec_policy lb (cf_defaults cex_cfg)))
  /\ (strictness (lv_level (enforce (spec_policy lp (cf_defaults cex_cfg))))
      <= strictness (lv_level (enforce (spec_policy lb (cf_defaults cex_cfg)))))%N
  /\ rs_allowed (fst (validate cex_cfg (shipped_ev false) cex_req (World (Some lb) "" None None 0))) = true
  /\ lv_level (enforce (spec_policy lp (cf_defaults cex_cfg))) = Privileged.
Proof. exact monotone_in_scope. Qed.
