(** Properties/C16.v - property C16: for every well-formed v1 AdmissionReview the
    webhook answers HTTP 200 with a review whose response.uid is the uid of that
    same request and whose verdict is the admission library's decision, whatever
    else is in flight; oversized bodies, non-JSON content types, undecodable or
    non-v1 reviews and reviews without a request get an HTTP error status, never
    an allow.  Theorem statements only; every proof lives in Proofs/ConcFacts.v. *)
From Coq Require Import List Bool NArith ZArith String PeanoNat.
From PSA Require Import Base.Str Model.Api Model.Pod Model.Checks Model.Registry Model.Admission
     Model.Namespace Model.Webhook Spec.P16 Proofs.AdmFactsA Proofs.ConcFacts.
Import ListNotations.
Local Open Scope string_scope.

(** the relation P16 holds of every HTTP exchange ([lib_allowed] is defined in Proofs/ConcFacts.v:
    the allow bit of [validate] on the review's request, if there is one) *)
Theorem C16_exchange : forall c ev q,
  P16 q (lib_allowed c ev q) (hs_status (handle c ev q)) (option_map fst (hs_review (handle c ev q)))
      (option_map (fun x : string * response => rs_allowed (snd x)) (hs_review (handle c ev q))) = true.
Proof. exact C16_exchange_proof. Qed.
Print Assumptions C16_exchange.

(** stated directly *)
Theorem C16_classify : forall c ev q,
  (hq_has_body q = false -> hs_status (handle c ev q) = 400%Z) /\
  (hq_has_body q = true -> (3145728 <= hq_size q)%N -> hs_status (handle c ev q) = 413%Z) /\
  (hq_has_body q = true -> (hq_size q < 3145728)%N -> hq_ctype q <> "application/json"%string ->
     hs_status (handle c ev q) = 400%Z) /\
  (forall u r w, well_formed_review q = true -> hq_payload q = Review u r w ->
     handle c ev q = HttpResponse 200 (Some (u, fst (validate c ev r w)))).
Proof. exact C16_classify_proof. Qed.
Print Assumptions C16_classify.

(** any number of requests in flight, any interleaving of their steps: every
    encoded uid is the thread's own, and the shared objects are never written *)
Theorem C16_concurrent : forall (reqs : list (string * shared_tag)) (sched : list nat),
  let '(s, ts) := run_schedule step_fixed sched initial_store (map (fun x => new_thread (fst x) (snd x)) reqs) in
  s = initial_store /\ Forall (fun t => forall o, th_out t = Some o -> o = th_uid t) ts.
Proof. exact C16_concurrent_proof. Qed.
Print Assumptions C16_concurrent.

(** and every thread that is scheduled three times has answered *)
Theorem C16_progress : forall (reqs : list (string * shared_tag)) sched i t,
  3 <= count_occ Nat.eq_dec sched i ->
  nth_error (snd (run_schedule step_fixed sched initial_store (map (fun x => new_thread (fst x) (snd x)) reqs))) i = Some t ->
  th_out t = Some (th_uid t).
Proof. exact C16_progress_proof. Qed.
Print Assumptions C16_progress.

(** the pre-fix handler (finding F1) really was wrong: a two-thread schedule
    answers with a foreign uid, and a one-thread run leaves a shared object dirty *)
Theorem C16_unfixed_refuted : exists (reqs : list (string * shared_tag)) sched,
  let '(s, ts) := run_schedule step_unfixed sched initial_store (map (fun x => new_thread (fst x) (snd x)) reqs) in
  exists t o, In t ts /\ th_out t = Some o /\ o <> th_uid t.
Proof. exact C16_unfixed_refuted_proof. Qed.
Print Assumptions C16_unfixed_refuted.

Theorem C16_unfixed_dirty_store : exists (reqs : list (string * shared_tag)) sched,
  fst (run_schedule step_unfixed sched initial_store (map (fun x => new_thread (fst x) (snd x)) reqs)) <> initial_store.
Proof. exact C16_unfixed_dirty_store_proof. Qed.
Print Assumptions C16_unfixed_dirty_store.

(** ---- examples: the statements are not vacuous ---- *)
Definition ex16_q (size : N) (ctype : string) (p : payload) : http_request := HttpRequest true size ctype p.

(** a well-formed review is answered 200 with its own uid and the library's (here: allowing) verdict *)
Example C16_ex_ok :
  let q := ex16_q 100 "application/json" (Review "uid-1" cex_req cex_world) in
  well_formed_review q = true /\
  hs_status (handle cex_cfg (fun _ _ => []) q) = 200%Z /\
  option_map fst (hs_review (handle cex_cfg (fun _ _ => []) q)) = Some "uid-1" /\
  lib_allowed cex_cfg (fun _ _ => []) q = Some true.
Proof. vm_compute. repeat split. Qed.

(** the ill-formed classes: exactly 3 MiB -> 413; wrong content type, garbage, other kind, no request -> 400 *)
Example C16_ex_errors :
  map (fun q => hs_status (handle cex_cfg (fun _ _ => []) q))
      [ex16_q 3145728 "application/json" (Review "u" cex_req cex_world);
       ex16_q 100 "application/yaml" (Review "u" cex_req cex_world);
       ex16_q 100 "application/json" Garbage;
       ex16_q 100 "application/json" OtherKind;
       ex16_q 100 "application/json" ReviewNoRequest;
       HttpRequest false 0 "application/json" (Review "u" cex_req cex_world)]
  = [413; 400; 400; 400; 400; 400]%Z.
Proof. vm_compute. reflexivity. Qed.

(** the schedule that breaks the unfixed handler is harmless for the fixed one: both threads, sharing the same
    response object, run to completion interleaved and each answers with its own uid *)
Example C16_ex_schedule :
  let '(s, ts) := run_schedule step_fixed [0; 1; 0; 1; 0; 1] initial_store
                    [new_thread "A" SharedAllowed; new_thread "B" SharedAllowed] in
  s = initial_store /\ map th_out ts = [Some "A"; Some "B"].
Proof. vm_compute. split; reflexivity. Qed.
Example C16_ex_schedule_unfixed :
  let '(s, ts) := run_schedule step_unfixed [0; 1; 0; 1] initial_store
                    [new_thread "A" SharedAllowed; new_thread "B" SharedAllowed] in
  store_get SharedAllowed s = "B" /\ map th_out ts = [Some "B"; Some "B"].
Proof. vm_compute. split; reflexivity. Qed.

(** ---- side conditions on the constants regenerated from the source (Gen/Constants.v) ---- *)
From PSA Require Import Proofs.Constants_table.
From PSA Require Gen.Constants.
From PSA Require Import Model.Webhook.
Theorem C16_max_request_size_is_source : Gen.Constants.gen_max_request_size = max_request_size.
Proof. exact max_request_size_is_source. Qed.
Print Assumptions C16_max_request_size_is_source.

(** ---- end to end: webhook, admission layer and the standard composed ---- *)
From PSA Require Import Model.Shipped Spec.P05 Spec.PSS Spec.P02 Spec.PAdm Proofs.EndToEnd Proofs.C02_table.
(** a well-formed review below the size limit for a pod request that reaches evaluation is answered
    with 200, the review's own uid, and "allowed" exactly when the pod complies with the Pod Security
    Standards at the enforce level and version of its namespace *)
Theorem C16_end_to_end : forall c relax q uid r w ls p m,
  hq_has_body q = true -> N.ltb (hq_size q) max_request_size = true ->
  hq_ctype q = "application/json" -> hq_payload q = Review uid r w ->
  evaluated_pod c r w = Some (ls, p) ->
  api_valid p = true -> relaxed_for relax p = false ->
  effective_minor (lv_version (enforce (spec_policy ls (cf_defaults c)))) = Some m ->
  exists resp, handle c (shipped_evaluator relax) q = HttpResponse 200 (Some (uid, resp))
               /\ rs_allowed resp = compliant (lv_level (enforce (spec_policy ls (cf_defaults c)))) m p.
Proof. exact webhook_end_to_end_proof. Qed.
Print Assumptions C16_end_to_end.

Example C16_end_to_end_in_scope :
  let lr := [(enforce_level_label, "restricted"); (enforce_version_label, "v1.24")] in
  let r := Request "" "pods" "" "ns" "p" "u" OpCreate (OPod example_pod_fixed) ONil None in
  let q := HttpRequest true 2048 "application/json" (Review "uid-7" r (World (Some lr) "" None None 0)) in
  evaluated_pod cex_cfg r (World (Some lr) "" None None 0) = Some (lr, example_pod_fixed)
  /\ hs_status (handle cex_cfg (shipped_evaluator false) q) = 200%Z
  /\ option_map fst (hs_review (handle cex_cfg (shipped_evaluator false) q)) = Some "uid-7"
  /\ option_map (fun x => rs_allowed (snd x)) (hs_review (handle cex_cfg (shipped_evaluator false) q)) = Some false.
Proof. vm_compute. repeat split; reflexivity. Qed.
