(** Properties/C05.v - property C05: label parsing and PolicyToEvaluate.
    Theorem statements only; every proof lives in Proofs/ApiFacts.v. *)
From Coq Require Import List Bool NArith Ascii String.
From PSA Require Import Base.Str Model.Api Spec.P05 Proofs.ApiFacts.
Import ListNotations.

(** the model satisfies the relation P_05 on each observation *)

Theorem C05_policy : forall (ls : labels) (d : policy),
  P05_policy ls d (policy_to_evaluate ls d) = true.
Proof. exact C05_policy_proof. Qed.
Print Assumptions C05_policy.

Theorem C05_version : forall s, P05_version s (obs_version s) = true.
Proof. exact C05_version_proof. Qed.
Print Assumptions C05_version.

Theorem C05_level : forall s, P05_level s (obs_level s) = true.
Proof. exact C05_level_proof. Qed.
Print Assumptions C05_level.

Theorem C05_print : forall v, P05_print v (obs_print v) = true.
Proof. exact C05_print_proof. Qed.
Print Assumptions C05_print.

(** readable corollaries on the model, stated directly *)

Theorem C05_empty_labels : forall d, policy_to_evaluate [] d = (d, []).
Proof. exact C05_empty_labels_proof. Qed.
Print Assumptions C05_empty_labels.

Theorem C05_enforce_fail_closed : forall ls d s,
  lookup enforce_level_label ls = Some s -> spec_level_of s = None ->
  lv_level (enforce (fst (policy_to_evaluate ls d))) = Restricted
  /\ In (enforce_level_label, s) (snd (policy_to_evaluate ls d)).
Proof. exact C05_enforce_fail_closed_proof. Qed.
Print Assumptions C05_enforce_fail_closed.

Theorem C05_audit_warn_fail_open : forall ls d s,
  (lookup audit_level_label ls = Some s -> spec_level_of s = None ->
     lv_level (audit (fst (policy_to_evaluate ls d))) = Privileged) /\
  (lookup warn_level_label ls = Some s -> spec_level_of s = None ->
     lv_level (warn (fst (policy_to_evaluate ls d))) = Privileged).
Proof. exact C05_audit_warn_fail_open_proof. Qed.
Print Assumptions C05_audit_warn_fail_open.

Theorem C05_bad_version_is_latest : forall s,
  snd (parse_version s) = false -> fst (parse_version s) = Latest.
Proof. exact C05_bad_version_is_latest_proof. Qed.
Print Assumptions C05_bad_version_is_latest.

Theorem C05_version_roundtrip : forall s v,
  parse_version s = (v, true) -> version_string v = s.
Proof. exact version_roundtrip. Qed.
Print Assumptions C05_version_roundtrip.

Theorem C05_print_parse : forall n, (n < 9223372036854775808)%N ->
  parse_version (version_string (V 1 n)) = (V 1 n, true).
Proof. exact C05_print_parse_proof. Qed.
Print Assumptions C05_print_parse.

Theorem C05_no_errors_iff_all_parse : forall ls d,
  snd (policy_to_evaluate ls d) = [] <-> spec_errs ls = [].
Proof. exact C05_no_errors_iff_all_parse_proof. Qed.
Print Assumptions C05_no_errors_iff_all_parse.

(** non-vacuity: an invalid enforce level ("Baseline" is not "baseline") fails
    closed to restricted and is reported, the pinned version is kept, the valid
    audit level is applied, and warn does NOT follow the (invalid) enforce level *)
Example C05_example : policy_to_evaluate
   [(enforce_level_label, "Baseline"%string); (enforce_version_label, "v1.19"%string);
    (audit_level_label, "baseline"%string)]
   (Policy (LV Baseline Latest) (LV Restricted (V 1 5)) (LV Privileged Latest))
 = (Policy (LV Restricted (V 1 19)) (LV Baseline (V 1 5)) (LV Privileged Latest),
    [(enforce_level_label, "Baseline"%string)]).
Proof. exact C05_example_proof. Qed.
Print Assumptions C05_example.

(** ---- side conditions on the constants regenerated from the source (Gen/Constants.v) ---- *)
From PSA Require Import Proofs.Constants_table.
From PSA Require Gen.Constants.
Theorem C05_label_keys_are_source :
  Gen.Constants.gen_label_keys = [enforce_level_label; enforce_version_label; audit_level_label; audit_version_label;
                                  warn_level_label; warn_version_label].
Proof. exact label_keys_are_source. Qed.
Print Assumptions C05_label_keys_are_source.
