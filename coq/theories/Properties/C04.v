(** Properties/C04.v - property C04: check-set validation and version resolution
    of the check registry (policy/registry.go).
    Theorem statements only; every proof lives in Proofs/RegistryFacts.v. *)
From Coq Require Import List Bool NArith String.
From PSA Require Import Base.Str Model.Api Model.Registry Spec.P04 Proofs.RegistryFacts.
Import ListNotations.

(** validation accepts exactly the well-formed sets *)
Theorem C04_validate : forall (F : Type) (cs : list (check F)),
  validate_checks cs = well_formed cs.
Proof. exact validate_checks_well_formed. Qed.
Print Assumptions C04_validate.

(** resolution runs exactly the expected revisions, in the expected order *)
Theorem C04_resolution : forall (F : Type) (cs : list (check F)) (l : level) (v : version),
  well_formed cs = true -> majors_one cs = true -> resolve cs l v = expected cs l v.
Proof. exact resolve_expected. Qed.
Print Assumptions C04_resolution.

(** latest and anything newer than every registered revision behave as the
    newest registered version *)
Theorem C04_latest_and_future : forall (F : Type) (cs : list (check F)) (l : level) (v : version),
  well_formed cs = true -> majors_one cs = true ->
  (v = Latest \/ older (newest cs) v = true) -> resolve cs l v = resolve cs l (newest cs).
Proof. exact resolve_latest_and_future. Qed.
Print Assumptions C04_latest_and_future.

(** ... and never as an empty policy (at the newest version every registered
    check has an active revision, so no extra hypothesis is needed) *)
Theorem C04_never_empty : forall (F : Type) (cs : list (check F)) (v : version),
  well_formed cs = true -> majors_one cs = true -> cs <> [] ->
  (v = Latest \/ older (newest cs) v = true) -> resolve cs Restricted v <> [].
Proof. exact resolve_never_empty. Qed.
Print Assumptions C04_never_empty.

Theorem C04_privileged : forall (F : Type) (cs : list (check F)) (v : version),
  resolve cs Privileged v = [].
Proof. exact resolve_privileged. Qed.
Print Assumptions C04_privileged.

(** the relation P04 holds of the model's own observation, for every check set
    and every list of queried (level, version) rows *)
Theorem C04_P04 : forall (cs : list (check string)) (qs : list (level * version)),
  P04 cs (match new_evaluator cs with None => true | Some _ => false end)
      (match new_evaluator cs with
       | None => []
       | Some ev => map (fun q : level * version =>
                           (fst q, snd q, map (fun x => vc_fn (snd x)) (ev (fst q) (snd q)))) qs
       end) = true.
Proof. exact P04_model. Qed.
Print Assumptions C04_P04.

(** every baseline revision in force is either run at the restricted level too,
    or overridden by a restricted revision that is run *)
Theorem C04_baseline_covered : forall (F : Type) (cs : list (check F)) (v : version) id r,
  well_formed cs = true -> majors_one cs = true ->
  In (id, r) (resolve cs Baseline v) ->
  In (id, r) (resolve cs Restricted v) \/
  exists id' r', In (id', r') (resolve cs Restricted v) /\ In id (vc_overrides r').
Proof. exact resolve_baseline_covered. Qed.
Print Assumptions C04_baseline_covered.

(** non-vacuity: a concrete set with a gap, an override that starts mid-history
    and an override of an unknown id *)
Example C04_example :
  let cs := [CK "b" "baseline" [VC (V 1 0) "b@0" []; VC (V 1 5) "b@1" []];
             CK "a" "restricted" [VC (V 1 2) "a@0" ["b"; "nosuch"]; VC (V 1 4) "a@1" []]]%string in
  well_formed cs = true /\ majors_one cs = true /\
  map (fun x => vc_fn (snd x)) (resolve cs Restricted (V 1 3)) = ["a@0"]%string /\
  map (fun x => vc_fn (snd x)) (resolve cs Restricted (V 1 4)) = ["b@0"; "a@1"]%string /\
  map (fun x => vc_fn (snd x)) (resolve cs Restricted Latest) = ["b@1"; "a@1"]%string /\
  map (fun x => vc_fn (snd x)) (resolve cs Baseline (V 1 100)) = ["b@1"]%string.
Proof. vm_compute. repeat split. Qed.
Print Assumptions C04_example.
