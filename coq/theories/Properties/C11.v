(** Properties/C11.v - property C11: namespace requests are rejected (422
    Invalid) exactly for newly invalid pod-security labels and never because of
    the pods they contain; a tightening enforce update of a non-exempt namespace
    warns about every existing non-exempt violating pod, one line per distinct
    set of violated controls with the lexically first pod name and the exact
    number of others, independent of listing order.
    Theorem statements only; every proof lives in Proofs/NamespaceFacts.v. *)
From Coq Require Import List Bool NArith ZArith String Permutation.
From PSA Require Import Base.Str Model.Api Model.Pod Model.Checks Model.Registry Model.Admission Model.Namespace
     Spec.P05 Spec.PAdm Proofs.NamespaceFacts Proofs.AdmFactsE.
Import ListNotations.

(** the relation P_11 holds of every observation of the model *)
Theorem C11_namespace : forall c ev r w, P11 c ev r w (validate c ev r w) = true.
Proof. exact P11_proof. Qed.
Print Assumptions C11_namespace.

(** a namespace request is never rejected because of pods: the allow bit does
    not depend on the evaluator nor on any oracle answer (pod list, expiry, clock) *)
Theorem C11_never_rejected_for_pods : forall c ev ev' r w w', is_namespaces r = true ->
  rs_allowed (fst (validate c ev r w)) = rs_allowed (fst (validate c ev' r w')).
Proof. exact never_rejected_for_pods_proof. Qed.
Print Assumptions C11_never_rejected_for_pods.

(** listing order does not matter when nothing is truncated (pod names need not
    even be distinct) *)
Theorem C11_order_independent : forall c ev r w w' name x pods pods',
  w_pods w = Some pods -> w_pods w' = Some pods' -> Permutation pods pods' ->
  w_expire_after w = None -> w_expire_after w' = None ->
  List.length (filter (fun p => negb (s_exempt_rc c p)) pods) <= cf_max_pods c ->
  fst (evaluate_pods_in_namespace c ev r w name x) = fst (evaluate_pods_in_namespace c ev r w' name x).
Proof. exact order_independent_proof. Qed.
Print Assumptions C11_order_independent.

(** every violating checked pod is counted in exactly one line: the group sizes add up *)
Theorem C11_counts_add_up : forall ev x checked,
  List.length (filter (violates ev x) checked) =
  fold_right plus 0
    (map (fun t => List.length (filter (fun p => String.eqb (s_reason ev x p) t) (filter (violates ev x) checked)))
         (s_distinct (map (s_reason ev x) (filter (violates ev x) checked)))).
Proof. exact counts_add_up_proof. Qed.
Print Assumptions C11_counts_add_up.

(** non-vacuity: UPDATE from no labels to enforce=restricted, 4 listed pods (two
    of one controller violating with the same text, one exempt by runtime
    class), cap 2: truncation line, header, one aggregated line; the sibling
    "a1" is pushed behind "c3" and therefore not checked *)
Example C11_example :
  let r := ex_request OpUpdate [("pod-security.kubernetes.io/enforce", "restricted")]%string [] in
  let o := validate ex_config ex_ev r (ex_world ex_pods None) in
  rs_allowed (fst o) = true
  /\ rs_warnings (fst o) =
    ["new PodSecurity enforce level only checked against the first 2 of 3 existing pods";
     "existing pods in namespace ""ns"" violate the new PodSecurity enforce level ""restricted:latest""";
     "b2 (and 1 other pod): r"]%string
  /\ snd o = [EvDecode; EvDecodeOld; EvList 1000;
              EvEval (LV Restricted Latest) "b2"; EvEval (LV Restricted Latest) "c3"].
Proof. vm_compute. repeat split. Qed.
Print Assumptions C11_example.

(** non-vacuity of the rejection clauses: an invalid CREATE is a 422; an UPDATE
    keeping the same invalid label is let through; changing it to another
    invalid value is rejected; none of them lists pods *)
Example C11_example_reject :
  let bad v := [("pod-security.kubernetes.io/enforce", v)]%string in
  let o1 := validate ex_config ex_ev (ex_request OpCreate (bad "bogus"%string) []) (ex_world ex_pods None) in
  let o2 := validate ex_config ex_ev (ex_request OpUpdate (bad "bogus"%string) (bad "bogus"%string)) (ex_world ex_pods None) in
  let o3 := validate ex_config ex_ev (ex_request OpUpdate (bad "bogus2"%string) (bad "bogus"%string)) (ex_world ex_pods None) in
  (rs_allowed (fst o1) = false /\ rs_code (fst o1) = Some 422%Z /\ rs_reason (fst o1) = "Invalid"%string)
  /\ rs_allowed (fst o2) = true
  /\ (rs_allowed (fst o3) = false /\ rs_code (fst o3) = Some 422%Z)
  /\ existsb is_list (snd o1 ++ snd o2 ++ snd o3)%list = false.
Proof. vm_compute. repeat split. Qed.
Print Assumptions C11_example_reject.

(** non-vacuity of order independence: the hypotheses are satisfiable with a
    genuinely reordered listing (cap 5 instead of 2) *)
Example C11_example_order :
  let c := Config (cf_defaults ex_config) [] [] (cf_ex_rcs ex_config) 5 1000%Z in
  let x := LV Restricted Latest in
  let r := ex_request OpUpdate [] [] in
  Permutation ex_pods (rev ex_pods)
  /\ List.length (filter (fun p => negb (s_exempt_rc c p)) ex_pods) <= cf_max_pods c
  /\ fst (evaluate_pods_in_namespace c ex_ev r (ex_world ex_pods None) "ns" x) =
     ["existing pods in namespace ""ns"" violate the new PodSecurity enforce level ""restricted:latest""";
      "a1 (and 2 other pods): r"]%string
  /\ fst (evaluate_pods_in_namespace c ex_ev r (ex_world (rev ex_pods) None) "ns" x) =
     fst (evaluate_pods_in_namespace c ex_ev r (ex_world ex_pods None) "ns" x).
Proof.
  split; [apply Permutation_rev|]. vm_compute. repeat split. repeat constructor.
Qed.
Print Assumptions C11_example_order.

(** finding F3, as a theorem about the faithful model: the clause "one line per
    distinct set of violated controls" ([P11_control_sets]) is refuted by a
    concrete tightening namespace update over two listed pods that violate the
    same control with differently worded reasons *)
Theorem C11_control_sets_refuted : exists c ev r w, P11_control_sets c ev r w (validate c ev r w) = false.
Proof. exact P11_control_sets_refuted_proof. Qed.
Print Assumptions C11_control_sets_refuted.

(** the same with the shipped registry: pods "a" (one forbidden AppArmor
    profile) and "b" (two) violate exactly the same control set, yet get one
    line each, because lines are grouped by reason text - which [P11] specifies
    and the model satisfies *)
Example C11_control_sets_refuted_shipped :
  rs_warnings (fst (validate f3_cfg shipped_ev f3_req f3_world_shipped))
  = ["existing pods in namespace ""ns"" violate the new PodSecurity enforce level ""baseline:latest""";
     "a: forbidden AppArmor profile"; "b: forbidden AppArmor profiles"]%string
  /\ map (s_control_set shipped_ev (LV Baseline Latest))
         [aa_pod "a" [("container.apparmor.security.beta.kubernetes.io/c", "unconfined")]%string;
          aa_pod "b" [("container.apparmor.security.beta.kubernetes.io/c", "unconfined");
                      ("container.apparmor.security.beta.kubernetes.io/d", "bogus")]%string]
     = ["forbidden AppArmor profile"; "forbidden AppArmor profile"]%string
  /\ P11_control_sets f3_cfg shipped_ev f3_req f3_world_shipped (validate f3_cfg shipped_ev f3_req f3_world_shipped) = false
  /\ P11 f3_cfg shipped_ev f3_req f3_world_shipped (validate f3_cfg shipped_ev f3_req f3_world_shipped) = true.
Proof. exact P11_control_sets_refuted_shipped_proof. Qed.
Print Assumptions C11_control_sets_refuted_shipped.

(** ---- composition with the standard (C02), for the shipped evaluator ---- *)
From PSA Require Import Spec.PSS Spec.P02 Proofs.AdmFactsA Proofs.EndToEnd Proofs.EndToEnd2 Proofs.C02_table.

(** a namespace request whose dry run is reached (the trace lists pods), the
    listing answers, nothing is truncated (no expiry, the non-exempt pods fit
    the cap): the response has NO warning exactly when every listed pod outside
    the exempt runtime classes complies with the standard (Spec/PSS.v) at the
    new enforce level:version; otherwise the first warning is the header
    naming the namespace and the new level:version *)
Theorem C11_end_to_end : forall c relax r w name ls pods m,
  let x := enforce (spec_policy ls (cf_defaults c)) in
  let o := validate c (shipped_evaluator relax) r w in
  is_namespaces r = true -> r_object r = ONamespace name ls ->
  existsb is_list (snd o) = true ->
  w_pods w = Some pods -> w_expire_after w = None ->
  List.length (filter (fun p => negb (s_exempt_rc c p)) pods) <= cf_max_pods c ->
  (forall p, In p pods -> s_exempt_rc c p = false -> api_valid p = true /\ relaxed_for relax p = false) ->
  effective_minor (lv_version x) = Some m ->
  (rs_warnings (fst o) = [] <->
   forall p, In p pods -> s_exempt_rc c p = false -> compliant (lv_level x) m p = true)
  /\ ((exists p, In p pods /\ s_exempt_rc c p = false /\ compliant (lv_level x) m p = false) ->
      exists rest, rs_warnings (fst o) =
        ("existing pods in namespace " ++ go_quote name ++ " violate the new PodSecurity enforce level "
         ++ go_quote (lv_string x))%string :: rest).
Proof. exact C11_end_to_end_proof. Qed.
Print Assumptions C11_end_to_end.

(** when the dry run is reached, in terms of the request alone *)
Theorem C11_reaches_dry_run : forall c ev r w name ls oname old_ls,
  is_namespaces r = true -> r_subresource r = ""%string -> r_op r = OpUpdate ->
  r_object r = ONamespace name ls -> r_old r = ONamespace oname old_ls ->
  spec_errs ls = [] -> dry_run_required c r ls old_ls = true ->
  existsb is_list (snd (validate c ev r w)) = true.
Proof. exact C11_reaches_dry_run_proof. Qed.
Print Assumptions C11_reaches_dry_run.

(** the two together, premises on the inputs only: a namespace UPDATE with
    well-formed new labels whose enforce part tightens is allowed, and answers
    without warnings iff all listed non-exempt pods comply *)
Theorem C11_end_to_end_update : forall c relax r w name ls oname old_ls pods m,
  let x := enforce (spec_policy ls (cf_defaults c)) in
  let o := validate c (shipped_evaluator relax) r w in
  is_namespaces r = true -> r_subresource r = ""%string -> r_op r = OpUpdate ->
  r_object r = ONamespace name ls -> r_old r = ONamespace oname old_ls ->
  spec_errs ls = [] -> dry_run_required c r ls old_ls = true ->
  w_pods w = Some pods -> w_expire_after w = None ->
  List.length (filter (fun p => negb (s_exempt_rc c p)) pods) <= cf_max_pods c ->
  (forall p, In p pods -> s_exempt_rc c p = false -> api_valid p = true /\ relaxed_for relax p = false) ->
  effective_minor (lv_version x) = Some m ->
  rs_allowed (fst o) = true
  /\ (rs_warnings (fst o) = [] <->
      forall p, In p pods -> s_exempt_rc c p = false -> compliant (lv_level x) m p = true).
Proof. exact C11_end_to_end_update_proof. Qed.
Print Assumptions C11_end_to_end_update.

(** the hypotheses are jointly satisfiable: UPDATE from no labels to
    enforce=baseline over two listed pods, one of them violating baseline:
    allowed, header + one line; over two compliant pods: no warning *)
Example C11_end_to_end_in_scope :
  let ls := [(enforce_level_label, "baseline")]%string in
  let r := e2e_ns_request ls [] in
  let x := enforce (spec_policy ls (cf_defaults cex_cfg)) in
  let w := e2e_ns_world [example_pod_fixed; example_pod] in
  let w' := e2e_ns_world [example_pod_fixed; example_pod_fixed] in
  let o := validate cex_cfg (shipped_evaluator false) r w in
  let o' := validate cex_cfg (shipped_evaluator false) r w' in
  is_namespaces r = true /\ r_subresource r = ""%string /\ r_op r = OpUpdate
  /\ spec_errs ls = [] /\ dry_run_required cex_cfg r ls [] = true
  /\ existsb is_list (snd o) = true /\ existsb is_list (snd o') = true
  /\ Nat.leb (List.length (filter (fun p => negb (s_exempt_rc cex_cfg p)) [example_pod_fixed; example_pod]))
             (cf_max_pods cex_cfg) = true
  /\ effective_minor (lv_version x) = Some 32%N
  /\ forallb (fun p => api_valid p && negb (relaxed_for false p) && negb (s_exempt_rc cex_cfg p))
             [example_pod_fixed; example_pod] = true
  /\ compliant (lv_level x) 32 example_pod_fixed = true /\ compliant (lv_level x) 32 example_pod = false
  /\ rs_allowed (fst o) = true
  /\ rs_warnings (fst o) =
       ["existing pods in namespace ""ns"" violate the new PodSecurity enforce level ""baseline:latest""";
        "p: non-default capabilities, seccompProfile"]%string
  /\ rs_allowed (fst o') = true /\ rs_warnings (fst o') = [].
Proof. vm_compute. repeat split. Qed.
