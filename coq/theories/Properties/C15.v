(** Properties/C15.v - property C15: the response to an admission request depends
    only on that request, the configuration and the namespace and pod state it
    reads - never on earlier or concurrent requests.  In the model the library's
    only state is what it shares with the process: the five shared response
    objects and the metric counters ([lib_state], [lib_step], [lib_run] are
    defined in Proofs/ConcFacts.v).  Theorem statements only; every proof lives
    in Proofs/ConcFacts.v. *)
From Coq Require Import List Bool NArith ZArith String.
From Coq Require Import Sorting.Permutation.
From PSA Require Import Base.Str Model.Api Model.Pod Model.Checks Model.Registry Model.Admission
     Model.Namespace Model.Webhook Model.Metrics Proofs.AdmFactsA Proofs.ConcFacts.
Import ListNotations.
Local Open Scope string_scope.

(** whatever the history and the state it started from, each request gets the
    response it would get alone, and the shared objects are left as they were *)
Theorem C15_histories : forall server c ev st h,
  fst (lib_run server c ev st h) = map (fun rw => fst (validate c ev (fst rw) (snd rw))) h /\
  fst (snd (lib_run server c ev st h)) = fst st.
Proof. exact C15_histories_proof. Qed.
Print Assumptions C15_histories.

(** any two histories that are permutations of each other (any interleaving at
    request granularity) leave the same counters *)
Theorem C15_interleavings : forall server c ev h h' k, Permutation h h' ->
  get k (snd (snd (lib_run server c ev (initial_store, []) h))) =
  get k (snd (snd (lib_run server c ev (initial_store, []) h'))).
Proof. exact C15_interleavings_proof. Qed.
Print Assumptions C15_interleavings.

(** the library never returns a shared object with anything but its initial content *)
Theorem C15_shared_constant : forall c ev r w, rs_shared (fst (validate c ev r w)) <> Fresh ->
  In (fst (validate c ev r w)) [shared_allowed; shared_privileged; shared_user; shared_namespace; shared_runtimeclass].
Proof. exact C15_shared_constant_proof. Qed.
Print Assumptions C15_shared_constant.

(** ---- examples: the statements are not vacuous ---- *)
Definition ex15_cfg : config :=
  Config (Policy (LV Baseline Latest) (LV Privileged Latest) (LV Privileged Latest)) [] ["admin"] [] 10 1000.
Definition ex15_admin : request := Request "" "pods" "" "ns" "p" "admin" OpCreate (OPod cex_pod) ONil None.

(** a denied request followed by an exempt one, and the other way round: same responses per request,
    same counters, and the exempt request gets the shared "user" object *)
Example C15_ex_history :
  let h := [(cex_req, cex_world); (ex15_admin, cex_world)] in
  let run := lib_run (V 1 25) ex15_cfg cex_ev (initial_store, []) in
  map rs_allowed (fst (run h)) = [false; true] /\
  map rs_allowed (fst (run (rev h))) = [true; false] /\
  map rs_shared (fst (run h)) = [Fresh; SharedUser] /\
  snd (snd (run h)) =
    [(("pod_security_evaluations_total", ["deny"; "baseline"; "latest"; "enforce"; "create"; "pod"; ""]), 1%N);
     (("pod_security_exemptions_total", ["create"; "pod"; ""]), 1%N)] /\
  fst (snd (run h)) = initial_store.
Proof. vm_compute. repeat split. Qed.

(** ---- the real sources (Model/Sources.v): what the library reads for a request is a function
    of the present cluster state only; every proof lives in Proofs/SourcesFacts.v ---- *)
From PSA Require Import Model.Sources Proofs.SourcesFacts.

(** what the sources answer for a request depends only on the present entries of the
    request's own namespace: other namespaces' entries, and anything the cluster held
    earlier, are irrelevant *)
Theorem C15_sources_frame : forall wi f name exp now cl cl',
  lookup name (cl_cached_ns cl) = lookup name (cl_cached_ns cl') ->
  lookup name (cl_live_ns cl) = lookup name (cl_live_ns cl') ->
  cl_cached_pods cl = cl_cached_pods cl' -> cl_live_pods cl = cl_live_pods cl' ->
  world_of wi cl f name exp now = world_of wi cl' f name exp now.
Proof. exact C15_sources_frame_proof. Qed.
Print Assumptions C15_sources_frame.

(** the answer to a request in any history of cluster changes, fault-plan changes and
    earlier requests is the answer a freshly built rig gives on the state present at
    that moment ([src_op], [run_rig], [state_after], [count_serves] are defined in
    Proofs/SourcesFacts.v) *)
Theorem C15_sources_histories : forall c ev wi now ops1 ops2 cl f cl0 f0 r,
  state_after cl0 f0 ops1 = (cl, f) ->
  nth_error (run_rig c ev wi now cl0 f0 (ops1 ++ Serve r :: ops2)) (count_serves ops1)
  = Some (fst (validate c ev r (world_of wi cl f (r_namespace r) None now))).
Proof. exact C15_sources_histories_proof. Qed.
Print Assumptions C15_sources_histories.

(** two histories that end in the same state give the same answer to the next request *)
Theorem C15_sources_same_state : forall c ev wi now ops1 ops1' ops2 ops2' cl0 f0 cl0' f0' r,
  state_after cl0 f0 ops1 = state_after cl0' f0' ops1' ->
  nth_error (run_rig c ev wi now cl0 f0 (ops1 ++ Serve r :: ops2)) (count_serves ops1)
  = nth_error (run_rig c ev wi now cl0' f0' (ops1' ++ Serve r :: ops2')) (count_serves ops1').
Proof. exact C15_sources_same_state_proof. Qed.
Print Assumptions C15_sources_same_state.

(** one answer per request served *)
Theorem C15_sources_one_answer_each : forall c ev wi now ops cl f,
  List.length (run_rig c ev wi now cl f ops) = count_serves ops.
Proof. intros; apply run_rig_length. Qed.
Print Assumptions C15_sources_one_answer_each.

(** ---- examples ---- *)
Definition ex15_restricted : labels := [("pod-security.kubernetes.io/enforce", "restricted")].
Definition ex15_privileged : labels := [("pod-security.kubernetes.io/enforce", "privileged")].
Definition ex15_cl_open : cluster := Cluster [("ns", ex15_privileged)] [("ns", ex15_privileged)] [] [].
Definition ex15_cl_strict : cluster := Cluster [("ns", ex15_restricted); ("other", [])] [("ns", ex15_restricted)] [] [].
(** same entries for "ns" as ex15_cl_strict, different entries elsewhere *)
Definition ex15_cl_strict' : cluster := Cluster [("zzz", []); ("ns", ex15_restricted)] [("ns", ex15_restricted); ("b", [])] [] [].

(** the frame hypotheses are satisfiable by different clusters, and the oracle is the same *)
Example C15_sources_ex_frame :
  ex15_cl_strict <> ex15_cl_strict' /\
  world_of (Wiring true false) ex15_cl_strict (Faults None false) "ns" None 0
  = world_of (Wiring true false) ex15_cl_strict' (Faults None false) "ns" None 0.
Proof. split; [discriminate|vm_compute; reflexivity]. Qed.

(** a history: allowed while the namespace is open, denied once it is restricted, a 500 while the
    GET fails (plain client wiring), denied again afterwards - whatever came before *)
Example C15_sources_ex_history :
  let h := [Serve cex_req; SetCluster ex15_cl_strict; Serve cex_req; SetFaults (Faults (Some "boom") false);
            Serve cex_req; SetFaults (Faults None false); SetCluster ex15_cl_strict'; Serve cex_req] in
  let out := run_rig ex15_cfg cex_ev (Wiring false false) 0 ex15_cl_open (Faults None false) h in
  map rs_allowed out = [true; false; false; false] /\
  map rs_code out = [None; Some 403%Z; Some 500%Z; Some 403%Z] /\
  nth_error out 3 = nth_error (run_rig ex15_cfg cex_ev (Wiring false false) 0 ex15_cl_strict' (Faults None false) [Serve cex_req]) 0.
Proof. vm_compute. repeat split. Qed.
