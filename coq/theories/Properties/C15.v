(** Properties/C15.v - property C15: the response to an admission request depends
    only on that request, the configuration and the namespace and pod state it
    reads - never on earlier or concurrent requests.  In the model the library's
    only state is what it shares with the process: the five shared response
    objects and the metric counters ([lib_state], [lib_step], [lib_run] are
    defined in Proofs/ConcFacts.v).  Theorem statements only; every proof lives
    in Proofs/ConcFacts.v. *)
From Coq Require Import List Bool NArith ZArith String.
From Coq Require Import Sorting.Permutation.
From PSA Require Import Base.Str Model.Api Model.Pod Model.Checks Model.Registry Model.Admission
     Model.Namespace Model.Webhook Model.Metrics Proofs.AdmFactsA Proofs.ConcFacts.
Import ListNotations.
Local Open Scope string_scope.

(** whatever the history and the state it started from, each request gets the
    response it would get alone, and the shared objects are left as they were *)
Theorem C15_histories : forall server c ev st h,
  fst (lib_run server c ev st h) = map (fun rw => fst (validate c ev (fst rw) (snd rw))) h /\
  fst (snd (lib_run server c ev st h)) = fst st.
Proof. exact C15_histories_proof. Qed.
Print Assumptions C15_histories.

(** any two histories that are permutations of each other (any interleaving at
    request granularity) leave the same counters *)
Theorem C15_interleavings : forall server c ev h h' k, Permutation h h' ->
  get k (snd (snd (lib_run server c ev (initial_store, []) h))) =
  get k (snd (snd (lib_run server c ev (initial_store, []) h'))).
Proof. exact C15_interleavings_proof. Qed.
Print Assumptions C15_interleavings.

(** the library never returns a shared object with anything but its initial content *)
Theorem C15_shared_constant : forall c ev r w, rs_shared (fst (validate c ev r w)) <> Fresh ->
  In (fst (validate c ev r w)) [shared_allowed; shared_privileged; shared_user; shared_namespace; shared_runtimeclass].
Proof. exact C15_shared_constant_proof. Qed.
Print Assumptions C15_shared_constant.

(** ---- examples: the statements are not vacuous ---- *)
Definition ex15_cfg : config :=
  Config (Policy (LV Baseline Latest) (LV Privileged Latest) (LV Privileged Latest)) [] ["admin"] [] 10 1000.
Definition ex15_admin : request := Request "" "pods" "" "ns" "p" "admin" OpCreate (OPod cex_pod) ONil None.

(** a denied request followed by an exempt one, and the other way round: same responses per request,
    same counters, and the exempt request gets the shared "user" object *)
Example C15_ex_history :
  let h := [(cex_req, cex_world); (ex15_admin, cex_world)] in
  let run := lib_run (V 1 25) ex15_cfg cex_ev (initial_store, []) in
  map rs_allowed (fst (run h)) = [false; true] /\
  map rs_allowed (fst (run (rev h))) = [true; false] /\
  map rs_shared (fst (run h)) = [Fresh; SharedUser] /\
  snd (snd (run h)) =
    [(("pod_security_evaluations_total", ["deny"; "baseline"; "latest"; "enforce"; "create"; "pod"; ""]), 1%N);
     (("pod_security_exemptions_total", ["create"; "pod"; ""]), 1%N)] /\
  fst (snd (run h)) = initial_store.
Proof. vm_compute. repeat split. Qed.
