(** C20 - published conformance fixtures agree with the evaluator.
    Finite domain (every file under test/testdata, regenerated on every run):
    proofs by computation lifted with forallb_forall; the bound is the fixture list itself. *)
From Coq Require Import List Bool NArith String.
From PSA Require Import Base.Str Model.Api Model.Pod Model.Registry Model.Shipped Spec.P20 Proofs.C20_table.
From PSA Require Gen.Fixtures.

Theorem C20_fixtures : forall e, In e Gen.Fixtures.fixtures_serialized -> fixture_ok true e = true.
Proof. exact fixtures_serialized_ok. Qed.
Print Assumptions C20_fixtures.

Theorem C20_needs_defaulting : existsb (fun g => negb (group_ok false g)) groups = true.
Proof. exact needs_defaulting_nonempty. Qed.
Print Assumptions C20_needs_defaulting.

Theorem C20_same_pods : list_eqb entry_eqb Gen.Fixtures.fixtures_serialized Gen.Fixtures.fixtures_generated = true.
Proof. exact same_pods. Qed.
Print Assumptions C20_same_pods.

Theorem C20_complete : complete = true.
Proof. exact fixtures_complete. Qed.
Print Assumptions C20_complete.

Theorem C20_newest_tested_covers_table : N.leb (minor_of (max_version shipped_checks)) newest_tested = true.
Proof. exact newest_tested_covers_table. Qed.
Print Assumptions C20_newest_tested_covers_table.
