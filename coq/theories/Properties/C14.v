(** Properties/C14.v - property C14: evaluating a pod never modifies the pod,
    returns the same verdict and the same message text in the same order every
    time for equal input regardless of map iteration order, and can be called
    from many goroutines at once.
    In the model the evaluator and every check revision are Gallina functions
    of their arguments (no state is read or written: purity, repeatability and
    re-entrancy hold by construction).  A Go map is an association list with
    unique keys handed over in SOME order, and every [sets.String] is built by
    inserting the elements in iteration order.  What is proved here is that the
    result - verdict AND full message text - does not depend on those orders.
    Theorem statements only; every proof lives in Proofs/PurityFacts.v. *)
From Coq Require Import List Bool NArith String Permutation.
From PSA Require Import Base.Str Model.Api Model.Pod Model.Checks Model.Registry Model.Shipped Proofs.PurityFacts.
Import ListNotations.
Local Open Scope string_scope.

(** internal sets: the sorted duplicate-free list is a function of the SET of
    inserted elements, whatever the insertion order and multiplicity *)
Theorem C14_set_order : forall l l', (forall x, In x l <-> In x l') -> sset_of l = sset_of l'.
Proof. exact P14_sset_of_ext. Qed.
Print Assumptions C14_set_order.

(** [sort.Strings] of a slice collected in any order *)
Theorem C14_sort_order : forall l l', Permutation l l' -> ssort l = ssort l'.
Proof. exact P14_ssort_perm_eq. Qed.
Print Assumptions C14_sort_order.

(** map iteration order: lookups in a permuted association list with unique
    keys agree *)
Theorem C14_lookup_order : forall (A : Type) (m m' : list (string * A)) k,
  NoDup (map fst m) -> Permutation m m' -> lookup k m' = lookup k m.
Proof. exact P14_lookup_perm. Qed.
Print Assumptions C14_lookup_order.

(** every registered revision returns the identical result (allow bit, reason,
    detail text) whatever order the annotation map is iterated in *)
Theorem C14_revision_map_order : forall al fn f relax p anns',
  lookup_check fn = Some f -> NoDup (map fst (pd_annotations p)) -> Permutation (pd_annotations p) anns' ->
  f al relax (set_annotations p anns') = f al relax p.
Proof. exact P14_revision. Qed.
Print Assumptions C14_revision_map_order.

(** ... and so does the assembled evaluator, for any check table, level and
    version: same results, same text, same order *)
Theorem C14_evaluator_map_order : forall al relax cs l v p anns',
  NoDup (map fst (pd_annotations p)) -> Permutation (pd_annotations p) anns' ->
  evaluate_pod al relax cs l v (set_annotations p anns') = evaluate_pod al relax cs l v p.
Proof. exact P14_evaluator. Qed.
Print Assumptions C14_evaluator_map_order.

(** ... hence the same verdict *)
Theorem C14_verdict_map_order : forall al relax cs l v p anns',
  NoDup (map fst (pd_annotations p)) -> Permutation (pd_annotations p) anns' ->
  eval_allowed al relax cs l v (set_annotations p anns') = eval_allowed al relax cs l v p.
Proof. exact P14_eval_allowed. Qed.
Print Assumptions C14_verdict_map_order.

(** non-vacuity: [P14_pod] has three offending AppArmor annotations and two
    offending seccomp annotations, with unique keys; [P14_pod_rev] is the same
    pod with the annotation list reversed.  Both give the same
    appArmorProfile_1_0 and seccompProfileBaseline_1_0 results with these exact
    texts, although the unsorted list of findings really comes out in the
    opposite order; the shipped baseline evaluator at v1.0 (where both
    annotation checks are active) returns identical result lists with two
    denials. *)
Example C14_example_hyps :
  NoDup (map fst (pd_annotations P14_pod)) /\
  Permutation (pd_annotations P14_pod) (pd_annotations P14_pod_rev) /\
  pd_annotations P14_pod_rev <> pd_annotations P14_pod.
Proof. split; [exact P14_pod_keys_unique|split; [exact P14_pod_rev_perm|vm_compute; discriminate]]. Qed.
Print Assumptions C14_example_hyps.

Example C14_example :
  appArmorProfile_1_0 P14_no_lists false P14_pod_rev = appArmorProfile_1_0 P14_no_lists false P14_pod /\
  appArmorProfile_1_0 P14_no_lists false P14_pod =
    CR false "forbidden AppArmor profiles"
       "annotations must not set AppArmor profile type to ""container.apparmor.security.beta.kubernetes.io/a=""bad\""profile"""", ""container.apparmor.security.beta.kubernetes.io/b=""x"""", ""container.apparmor.security.beta.kubernetes.io/c=""unconfined""""" /\
  seccompProfileBaseline_1_0 P14_no_lists false P14_pod_rev = seccompProfileBaseline_1_0 P14_no_lists false P14_pod /\
  seccompProfileBaseline_1_0 P14_no_lists false P14_pod =
    CR false "seccompProfile"
       "forbidden annotations container.seccomp.security.alpha.kubernetes.io/a=""localhostx/y"", seccomp.security.alpha.kubernetes.io/pod=""unconfined""" /\
  apparmor_forbidden_annotations P14_pod_rev = rev (apparmor_forbidden_annotations P14_pod) /\
  apparmor_forbidden_annotations P14_pod_rev <> apparmor_forbidden_annotations P14_pod /\
  shipped_eval false Baseline (V 1 0) P14_pod_rev = shipped_eval false Baseline (V 1 0) P14_pod /\
  List.length (filter (fun r => negb (cr_allowed r)) (shipped_eval false Baseline (V 1 0) P14_pod)) = 2.
Proof. exact P14_example. Qed.
Print Assumptions C14_example.

Example C14_set_example :
  sset_of ["b"; "a"; "b"; "c"; "a"] = ["a"; "b"; "c"] /\ sset_of ["c"; "b"; "a"] = ["a"; "b"; "c"] /\
  ssort ["b"; "a"; "b"] = ssort ["b"; "b"; "a"].
Proof. exact P14_set_example. Qed.
Print Assumptions C14_set_example.
