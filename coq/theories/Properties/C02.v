(** Properties/C02.v - property C02: the evaluator decides the Pod Security
    Standards.  For every pod the API server would accept, at every level and
    every version the standard speaks about, the pod is allowed exactly when it
    is compliant with the standard as transcribed in Spec/PSS.v.
    Theorem statements only; the table-parametric proofs live in
    Proofs/StandardFacts.v and Proofs/ChecksFacts.v, the computed side
    conditions on the shipped tables in Proofs/C02_table.v. *)
From Coq Require Import List Bool NArith String.
From PSA Require Import Base.Str Model.Api Model.Pod Model.Checks Model.Registry Model.Shipped
     Spec.PSS Spec.P02 Proofs.ChecksFacts Proofs.StandardFacts Proofs.C02_table.
Import ListNotations.
Local Open Scope string_scope.

(** table-parametric: any allow-lists equal as sets to the published ones, and
    any table whose newest version is the newest published one and whose
    resolution at every published minor names the standard's revisions.
    (No well-formedness hypothesis on the table is needed: [table_ok] already
    pins down everything resolution is asked for.) *)
Theorem C02_standard_generic : forall (al : allowlists) (cs : list named_check) (relax : bool)
                                      (l : level) (v : version) (m : N) (p : pod),
  lists_ok al = true ->
  table_ok (fun l v => map (fun x => vc_fn (snd x)) (resolve cs l v)) (max_version cs) = true ->
  api_valid p = true -> relaxed_for relax p = false -> effective_minor v = Some m ->
  eval_allowed al relax cs l v p = compliant l m p.
Proof. exact standard_generic. Qed.
Print Assumptions C02_standard_generic.

(** the shipped checks and allow-lists *)
Theorem C02_standard : forall relax l v m p,
  api_valid p = true -> relaxed_for relax p = false -> effective_minor v = Some m ->
  eval_allowed shipped_lists relax shipped_checks l v p = compliant l m p.
Proof. exact shipped_standard. Qed.
Print Assumptions C02_standard.

(** API validity is only needed at the Restricted level (where the registered
    table drops the baseline rows its restricted rows imply) *)
Theorem C02_standard_baseline : forall relax v m p,
  relaxed_for relax p = false -> effective_minor v = Some m ->
  eval_allowed shipped_lists relax shipped_checks Baseline v p = baseline_compliant m p.
Proof. exact shipped_standard_baseline. Qed.
Print Assumptions C02_standard_baseline.

(** revision level: each model function decides the row of the standard that
    bears its name, on every pod (valid or not), for any allow-lists equal as
    sets to the published ones *)
Theorem C02_revisions :
  forall (al : allowlists) (fn : string) (f : check_fn) (g : pod -> bool) (relax : bool) (p : pod),
    lists_ok al = true -> lookup_check fn = Some f -> revision_spec fn = Some g ->
    relax_pod relax p = false ->
    cr_allowed (f al relax p) = g p.
Proof. exact revisions_decide_standard. Qed.
Print Assumptions C02_revisions.

(** the relation P_02 holds of the model's own observations *)
Theorem C02_P02_eval : forall relax l v p,
  P02_eval relax l v p (eval_allowed shipped_lists relax shipped_checks l v p) = true.
Proof. exact shipped_P02_eval. Qed.
Print Assumptions C02_P02_eval.

Theorem C02_P02_check : forall relax fn p,
  P02_check relax fn p (cr_allowed (run_check shipped_lists relax fn p)) = true.
Proof. exact shipped_P02_check. Qed.
Print Assumptions C02_P02_check.

(** frame: the verdict depends on the pod only through the abstract pod, by
    construction of the model; the one visible instance is that no revision of
    the shipped table is bound to a function the model does not have *)
Theorem C02_all_bound : all_bound shipped_checks = true.
Proof. exact shipped_all_bound. Qed.
Print Assumptions C02_all_bound.

(** non-vacuity: a valid pod denied at Baseline v1.19 by exactly the
    capabilities and seccomp rows, at v1.18 by capabilities only; its repaired
    version is Baseline-compliant but not Restricted-compliant at latest *)
Example C02_example :
  api_valid example_pod = true /\ api_valid example_pod_fixed = true /\
  denied_reasons Baseline (V 1 19) example_pod = ["non-default capabilities"; "seccompProfile"] /\
  denied_reasons Baseline (V 1 18) example_pod = ["non-default capabilities"] /\
  eval_allowed shipped_lists false shipped_checks Baseline (V 1 19) example_pod = false /\
  compliant Baseline 19 example_pod = false /\
  eval_allowed shipped_lists false shipped_checks Baseline Latest example_pod_fixed = true /\
  compliant Baseline 32 example_pod_fixed = true /\
  denied_reasons Restricted Latest example_pod_fixed
    = ["allowPrivilegeEscalation != false"; "unrestricted capabilities"; "runAsNonRoot != true"] /\
  compliant Restricted 32 example_pod_fixed = false.
Proof. exact shipped_example. Qed.
Print Assumptions C02_example.

(** both hypotheses are the property's own, not slack: an API-invalid pod (one
    volume with two sources) allowed at Restricted v1.0 though not compliant;
    a hostUsers=false pod allowed at Restricted latest without runAsNonRoot
    when the relax switch is on (and denied, as the standard says, when off) *)
Example C02_hypotheses_needed :
  (api_valid example_invalid_volume_pod = false /\
   eval_allowed shipped_lists false shipped_checks Restricted (V 1 0) example_invalid_volume_pod = true /\
   compliant Restricted 0 example_invalid_volume_pod = false) /\
  (api_valid example_userns_pod = true /\ relaxed_for true example_userns_pod = true /\
   eval_allowed shipped_lists true shipped_checks Restricted Latest example_userns_pod = true /\
   compliant Restricted 32 example_userns_pod = false /\
   eval_allowed shipped_lists false shipped_checks Restricted Latest example_userns_pod = false).
Proof. exact shipped_C02_hypotheses_needed. Qed.
Print Assumptions C02_hypotheses_needed.
