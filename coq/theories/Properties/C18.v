(** Properties/C18.v - property C18: every decision is recorded exactly once
    (admission half, restated from Properties/C18adm.v); counts are exact under
    concurrent recording and restart from zero after a reset; the policy_version
    label is only ever "latest", "future" or a version not newer than the
    server's.  Theorem statements only; the proofs live in Proofs/ConcFacts.v
    (recorder) and Proofs/AdmFactsA.v (admission). *)
From Coq Require Import List Bool NArith ZArith String.
From Coq Require Import Sorting.Permutation.
From PSA Require Import Base.Str Model.Api Model.Pod Model.Checks Model.Registry Model.Admission
     Model.Namespace Model.Metrics Spec.P05 Spec.PAdm Spec.P18 Proofs.AdmFactsA Proofs.ConcFacts.
Import ListNotations.
Local Open Scope string_scope.

(** the counter of every series is the number of its recordings since the last reset *)
Theorem C18_get_exact : forall ops k, get k (run_ops ops) = expected_count ops k.
Proof. exact C18_get_exact_proof. Qed.
Print Assumptions C18_get_exact.

(** the relation P18_counts holds of what a scrape gathers (the non-zero series) *)
Theorem C18_counts : forall ops,
  P18_counts ops (filter (fun kv : series * N => negb (N.eqb (snd kv) 0)) (run_ops ops)) = true.
Proof. exact C18_counts_proof. Qed.
Print Assumptions C18_counts.

(** concurrent recording: any order of the same recordings gives the same counts *)
Theorem C18_exact_any_order : forall ks ks' k, Permutation ks ks' ->
  get k (run_ops (map Rec ks)) = get k (run_ops (map Rec ks')).
Proof. exact C18_exact_any_order_proof. Qed.
Print Assumptions C18_exact_any_order.

(** counts restart from zero after a reset *)
Theorem C18_reset : forall ops ops' k, get k (run_ops (ops ++ Reset :: ops')) = get k (run_ops ops').
Proof. exact C18_reset_proof. Qed.
Print Assumptions C18_reset.

(** the policy_version label of a parsed version is "latest", "future" or v1.k with k <= the server's minor *)
Theorem C18_bucket : forall n x, (lv_version x = Latest \/ exists m, lv_version x = V 1 m) ->
  P18_label n (version_label (V 1 n) x) = true.
Proof. exact C18_bucket_proof. Qed.
Print Assumptions C18_bucket.

Theorem C18_bucket_cardinality : forall n, List.length (bounded_version_labels n) = N.to_nat n + 3.
Proof. exact C18_bucket_cardinality_proof. Qed.
Print Assumptions C18_bucket_cardinality.

(** the admission half, restated from Properties/C18adm.v *)
Theorem C18_admission_metrics' : forall c ev r w, P18_adm c r w (validate c ev r w) = true.
Proof. exact P18_adm_model. Qed.
Print Assumptions C18_admission_metrics'.

(** every version a request hands to RecordEvaluation is a parsed version when the
    configured defaults are ([parsed_version], [parsed_policy]: Proofs/ConcFacts.v) ... *)
Theorem C18_trace_versions : forall c ev r w deny x m,
  parsed_policy (cf_defaults c) -> In (MEval deny x m) (snd (validate c ev r w)) -> parsed_version (lv_version x).
Proof. exact C18_trace_versions_proof. Qed.
Print Assumptions C18_trace_versions.

(** ... hence every evaluation series a request increments carries a bounded policy_version label (the third label) *)
Theorem C18_request_labels : forall n c ev r w k,
  parsed_policy (cf_defaults c) ->
  In (Rec k) (request_ops (V 1 n) r (snd (validate c ev r w))) ->
  fst k = "pod_security_evaluations_total" ->
  P18_label n (nth 2 (snd k) "") = true.
Proof. exact C18_request_labels_proof. Qed.
Print Assumptions C18_request_labels.

(** ---- examples: the statements are not vacuous, and the hypotheses are needed ---- *)
Definition ex18_a : series := ("pod_security_exemptions_total", ["create"; "pod"; ""]).
Definition ex18_b : series := ("pod_security_errors_total", ["true"; "create"; "pod"; ""]).

Example C18_ex_counts :
  run_ops [Rec ex18_a; Rec ex18_b; Rec ex18_a] = [(ex18_a, 2%N); (ex18_b, 1%N)] /\
  run_ops [Rec ex18_a; Rec ex18_b; Rec ex18_a; Reset; Rec ex18_b] = [(ex18_b, 1%N)] /\
  expected_count [Rec ex18_a; Rec ex18_b; Rec ex18_a; Reset; Rec ex18_b] ex18_a = 0%N.
Proof. vm_compute. repeat split. Qed.

Example C18_ex_buckets :
  map (version_label (V 1 25))
      [LV Baseline Latest; LV Privileged (V 1 3); LV Baseline (V 1 0); LV Baseline (V 1 25); LV Restricted (V 1 26)]
  = ["latest"; "latest"; "v1.0"; "v1.25"; "future"] /\
  List.length (bounded_version_labels 25) = 28.
Proof. vm_compute. split; reflexivity. Qed.

(** a version that ParseVersion cannot produce (e.g. the Go zero value v0.0 of an unset default) is NOT bucketed *)
Example C18_bucket_needs_hyp :
  version_label (V 1 25) (LV Baseline (V 0 0)) = "v0.0" /\
  P18_label 25 (version_label (V 1 25) (LV Baseline (V 0 0))) = false.
Proof. vm_compute. split; reflexivity. Qed.

(** ... and a configuration whose defaults carry such a version does record it *)
Example C18_request_labels_needs_hyp :
  let c := Config (Policy (LV Baseline (V 0 7)) (LV Privileged Latest) (LV Privileged Latest)) [] [] [] 10 1000 in
  request_ops (V 1 25) cex_req (snd (validate c (fun _ _ => []) cex_req cex_world))
  = [Rec ("pod_security_evaluations_total", ["allow"; "baseline"; "v0.7"; "enforce"; "create"; "pod"; ""])] /\
  P18_label 25 "v0.7" = false.
Proof. vm_compute. split; reflexivity. Qed.

(** the parsed-defaults hypothesis is satisfiable, and then the recorded label is bounded *)
Example C18_ex_request_labels :
  let c := Config (Policy (LV Baseline (V 1 7)) (LV Privileged Latest) (LV Privileged Latest)) [] [] [] 10 1000 in
  parsed_policy (cf_defaults c) /\
  request_ops (V 1 25) cex_req (snd (validate c (fun _ _ => []) cex_req cex_world))
  = [Rec ("pod_security_evaluations_total", ["allow"; "baseline"; "v1.7"; "enforce"; "create"; "pod"; ""])].
Proof.
  split; [|vm_compute; reflexivity].
  repeat split; cbn; [right; now exists 7%N|now left|now left].
Qed.
