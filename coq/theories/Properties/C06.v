(** Properties/C06.v - property C06: exemptions (namespace, user, runtime class)
    match exactly and are the only bypass of evaluation.
    Theorem statements only; every proof lives in Proofs/AdmFactsB.v
    ([no_exemptions] is defined there, equal to Corr.Adm.no_exemptions). *)
From Coq Require Import List Bool NArith ZArith String.
From PSA Require Import Base.Str Model.Api Model.Pod Model.Checks Model.Registry Model.Admission
     Model.Namespace Spec.P05 Spec.PAdm Proofs.AdmFactsB Proofs.AdmFactsD.
Import ListNotations.
Local Open Scope string_scope.

(** the relation P06 holds of every request, against the same request under the
    same configuration with all exemption lists emptied *)
Theorem C06_exemptions : forall c ev r w,
  P06 c r w (validate c ev r w) (validate (no_exemptions c) ev r w) = true.
Proof. exact C06_exemptions_proof. Qed.
Print Assumptions C06_exemptions.

(** dry runs skip exactly the pods with an exempt runtime class *)
Theorem C06_dryrun : forall c ev r w, P06_dryrun c w (validate c ev r w) = true.
Proof. exact C06_dryrun_proof. Qed.
Print Assumptions C06_dryrun.

(** exact matching, stated directly: an exemption test is true iff the value is
    non-empty and is (Leibniz-)equal to a list entry *)
Theorem C06_exact : forall x l, exempt_in x l = true <-> (x <> ""%string /\ In x l).
Proof. exact B_exempt_in_exact. Qed.
Print Assumptions C06_exact.

(** an exempt answer is allowed and unevaluated *)
Theorem C06_exempt_unevaluated : forall c ev r w d,
  ann "exempt" (fst (validate c ev r w)) = Some d ->
  rs_allowed (fst (validate c ev r w)) = true /\ has_eval (snd (validate c ev r w)) = false.
Proof. exact C06_exempt_unevaluated_proof. Qed.
Print Assumptions C06_exempt_unevaluated.

(** ---- examples: the statements are not vacuous ---- *)
Definition ex06_pod (name : string) (rc : option string) : pod :=
  Pod name [] None false false false None None rc [] [Container "c" "img" [] None] [] [] None.
Definition ex06_pol : policy := Policy (LV Restricted Latest) (LV Restricted Latest) (LV Restricted Latest).
Definition ex06_cfg : config := Config ex06_pol ["kube-system"] ["admin"] ["gvisor"] 3000 1000000000.
Definition ex06_deny_all : evaluator := fun _ _ => [CR false "r" "d"].
Definition ex06_req (ns user : string) (p : pod) : request :=
  Request "" "pods" "" ns (pd_name p) user OpCreate (OPod p) ONil None.
Definition ex06_world : world := World (Some []) "" None None 0.

(** each dimension exempts: allowed, marked, unevaluated, although every evaluation would deny *)
Example C06_ex_namespace :
  validate ex06_cfg ex06_deny_all (ex06_req "kube-system" "u" (ex06_pod "p" None)) ex06_world
  = (shared_namespace, [MExempt]).
Proof. vm_compute. reflexivity. Qed.
Example C06_ex_user :
  validate ex06_cfg ex06_deny_all (ex06_req "ns" "admin" (ex06_pod "p" None)) ex06_world
  = (shared_user, [MExempt]).
Proof. vm_compute. reflexivity. Qed.
Example C06_ex_runtimeclass :
  validate ex06_cfg ex06_deny_all (ex06_req "ns" "u" (ex06_pod "p" (Some "gvisor"))) ex06_world
  = (shared_runtimeclass, [EvNsLookup; EvDecode; MExempt]).
Proof. vm_compute. reflexivity. Qed.
(** near misses (prefix, case, empty value) are evaluated and denied exactly as without exemptions *)
Example C06_ex_near_miss :
  let r := ex06_req "kube-system2" "Admin" (ex06_pod "p" (Some "gviso")) in
  let o := validate ex06_cfg ex06_deny_all r ex06_world in
  (rs_allowed (fst o), has_eval (snd o), ann "exempt" (fst o),
   resp_eqb (fst o) (fst (validate (no_exemptions ex06_cfg) ex06_deny_all r ex06_world)))
  = (false, true, None, true).
Proof. vm_compute. reflexivity. Qed.
Example C06_ex_empty_never_matches :
  exempt_in "" [""; "a"] = false.
Proof. reflexivity. Qed.
(** a dry run that skips exactly the exempt-runtime-class pod *)
Example C06_ex_dryrun :
  let pods := [ex06_pod "b" None; ex06_pod "x" (Some "gvisor"); ex06_pod "a" None] in
  let r := Request "" "namespaces" "" "" "ns" "u" OpUpdate
             (ONamespace "ns" [("pod-security.kubernetes.io/enforce", "restricted")])
             (ONamespace "ns" [("pod-security.kubernetes.io/enforce", "privileged")]) None in
  let o := validate (Config (Policy (LV Privileged Latest) (LV Privileged Latest) (LV Privileged Latest))
                            [] [] ["gvisor"] 3000 1000000000)
                    ex06_deny_all r (World None "" (Some pods) None 0) in
  (existsb is_list (snd o), map snd (eval_events (snd o))) = (true, ["b"; "a"]).
Proof. vm_compute. reflexivity. Qed.

(** an exempt request is always allowed and never evaluated: when the namespace
    or the user matches exactly, a pod request (outside the ignored
    subresources) or a controller request (without subresource) is allowed,
    marked, unevaluated, and makes no dependency call, whatever the
    dependencies would answer (proof in Proofs/AdmFactsD.v) *)
Theorem C06_exempt_always_allowed : forall c ev r w, P06_always_allowed c r (validate c ev r w) = true.
Proof. exact C06_exempt_always_allowed_proof. Qed.
Print Assumptions C06_exempt_always_allowed.

(** non-vacuous: an exempt user's pod is allowed although the namespace lookup
    would fail, the object would not decode and every evaluation would deny;
    the premise of the relation holds and no dependency is called *)
Example C06_ex_always_allowed :
  let r := Request "" "pods" "" "ns" "p" "admin" OpCreate (ODecodeErr "bad") ONil None in
  let o := validate ex06_cfg ex06_deny_all r (World None "down" None None 0) in
  (s_exempt (r_user r) (cf_ex_users ex06_cfg), rs_allowed (fst o), ann "exempt" (fst o), snd o)
  = (true, true, Some "user", [MExempt]).
Proof. vm_compute. reflexivity. Qed.
(** ... and likewise a controller in an exempt namespace *)
Example C06_ex_always_allowed_ctrl :
  let r := Request "apps" "deployments" "" "kube-system" "d" "u" OpCreate (OOther "junk") ONil None in
  let o := validate ex06_cfg ex06_deny_all r (World None "down" None None 0) in
  (s_exempt (r_namespace r) (cf_ex_namespaces ex06_cfg), rs_allowed (fst o), ann "exempt" (fst o), snd o)
  = (true, true, Some "namespace", [MExempt]).
Proof. vm_compute. reflexivity. Qed.

(** ---- the request adapter (Model/Wire.v: api.RequestAttributes) ---- *)
From PSA Require Import Model.Wire Proofs.WireFacts Proofs.AdmFactsA.
(** exemptions are decided on the user NAME: two AdmissionRequests that differ only in the review uid, the
    user's uid and groups, the subResource and requestResource fields get the same answer *)
Theorem C06_wire_exempt_by_user_name_only : forall c ev w a b dl, same_view a b ->
  validate c ev (attributes_of a dl) w = validate c ev (attributes_of b dl) w.
Proof. exact validate_same_view. Qed.
Print Assumptions C06_wire_exempt_by_user_name_only.
Theorem C06_wire_user_is_username : forall a dl, r_user (attributes_of a dl) = ar_username a.
Proof. exact wire_username_exact. Qed.
Print Assumptions C06_wire_user_is_username.
(** a request without a user name whose uid and groups spell an exempt user is not exempt: it is evaluated and denied *)
Example C06_wire_uid_is_not_a_name :
  let c := Config (Policy (LV Restricted Latest) (LV Privileged Latest) (LV Privileged Latest)) [] ["exempt-user"%string] [] 10 1000 in
  let ev : evaluator := fun x _ => match lv_level x with Privileged => [] | _ => [CR false "no" ""] end in
  let a := AdmissionRequest "u1" "" "pods" "" "" "pods" "" "p" "ns" "CREATE" "" "exempt-user" ["exempt-user"]
                            (RawObject (OPod cex_pod)) RawAbsent in
  let o := validate c ev (attributes_of a None) (World (Some []) "" None None 0) in
  rs_allowed (fst o) = false /\ ann "exempt" (fst o) = None.
Proof. vm_compute. split; reflexivity. Qed.
