(** Properties/C17.v - property C17: configuration loading, validation and the
    default policy an accepted configuration enforces.
    Theorem statements only; every proof lives in Proofs/ConfigFacts.v.

    [well_tagged d] (Proofs/ConfigFacts.v): no member presented as [MUnknown k]
    carries one of the four known names apiVersion/kind/defaults/exemptions.
    [C17_load] and [C17_accept_iff] are false without it for such adversarial
    abstract documents ([C17_accept_iff_needs_hyp]); the converse direction
    [C17_accepted_only_if] holds unconditionally. *)
From Coq Require Import List Bool NArith Ascii String.
From PSA Require Import Base.Str Model.Api Model.Config Spec.P05 Spec.P17 Proofs.ConfigFacts.
Import ListNotations.

(** the model satisfies the relation P_17 on each observation of LoadFromData *)
Theorem C17_load : forall i, well_tagged_input i -> P17_load i (load i) = true.
Proof. exact C17_load_proof. Qed.
Print Assumptions C17_load.

Theorem C17_accept_iff : forall d, well_tagged d -> is_some (load (InDoc d)) = s_acceptable d.
Proof. exact C17_accept_iff_proof. Qed.
Print Assumptions C17_accept_iff.

(** "accepted only if ..." needs no hypothesis *)
Theorem C17_accepted_only_if : forall d, is_some (load (InDoc d)) = true -> s_acceptable d = true.
Proof. exact load_accept_sound. Qed.
Print Assumptions C17_accepted_only_if.

Theorem C17_loaded_is_spec : forall d c, load (InDoc d) = Some c -> c = s_loaded d.
Proof. exact load_Some_loaded. Qed.
Print Assumptions C17_loaded_is_spec.

Example C17_accept_iff_needs_hyp :
  let d := [MUnknown "defaults"; MApiVersion (config_group ++ "/v1"); MKind config_kind]%string in
  ~ well_tagged d /\ is_some (load (InDoc d)) = false /\ s_acceptable d = true
  /\ P17_load (InDoc d) (load (InDoc d)) = false.
Proof. exact C17_accept_iff_needs_hyp_proof. Qed.
Print Assumptions C17_accept_iff_needs_hyp.

(** same content under any served version: replace the apiVersion member's version *)
Theorem C17_version_independent : forall d v v', In v served_versions -> In v' served_versions ->
  load (InDoc (with_version v d)) = load (InDoc (with_version v' d)).
Proof. exact C17_version_independent_proof. Qed.
Print Assumptions C17_version_independent.

Theorem C17_unserved_rejected : forall d v, ~ In v served_versions ->
  (exists a, In (MApiVersion a) d) -> load (InDoc (with_version v d)) = None.
Proof. exact C17_unserved_rejected_proof. Qed.
Print Assumptions C17_unserved_rejected.

Theorem C17_empty_is_all_defaults :
  load InEmpty = load (InDoc [MApiVersion (config_group ++ "/v1"); MKind config_kind])
  /\ load InEmpty = Some (Loaded "privileged" "latest" "privileged" "latest" "privileged" "latest" [] [] [])%string.
Proof. exact C17_empty_is_all_defaults_proof. Qed.
Print Assumptions C17_empty_is_all_defaults.

(** validation *)
Theorem C17_validate_iff : forall c, validate_config c = [] <-> s_valid c = true.
Proof. exact C17_validate_iff_proof. Qed.
Print Assumptions C17_validate_iff.

Theorem C17_validate : forall c,
  P17_validate c (List.length (validate_config c))
               (if is_nil (validate_config c) then to_policy c else None) = true.
Proof. exact C17_validate_proof. Qed.
Print Assumptions C17_validate.

(** the chain: passes validation => ToPolicy succeeds => an Admission with that
    default policy resolves an unlabelled namespace to exactly it, with no label errors *)
Theorem C17_chain : forall c, validate_config c = [] ->
  exists p, to_policy c = Some p /\ policy_to_evaluate [] p = (p, []) /\
    fst (parse_level (ld_enforce c)) = lv_level (enforce p) /\
    fst (parse_version (ld_enforce_version c)) = lv_version (enforce p).
Proof. exact C17_chain_proof. Qed.
Print Assumptions C17_chain.

(** duplicates and invalid entries are each reported at their index *)
Theorem C17_errors_located : forall c path i k, In (path, i, k) (validate_config c) ->
  (i = 0 /\ In path ["defaults.enforce"; "defaults.enforce-version"; "defaults.warn"; "defaults.warn-version"; "defaults.audit"; "defaults.audit-version"]%string)
  \/ (path = "exemptions.namespaces"%string /\ i < List.length (ld_namespaces c))
  \/ (path = "exemptions.runtimeClasses"%string /\ i < List.length (ld_runtimeclasses c))
  \/ (path = "exemptions.usernames"%string /\ i < List.length (ld_usernames c)).
Proof. exact C17_errors_located_proof. Qed.
Print Assumptions C17_errors_located.

(** non-vacuity: members in an unusual order, a v1beta1 apiVersion, two defaults
    set, a duplicated and an invalid namespace exemption (reported at indices 1
    and 2); the same configuration with a single valid exemption validates; a
    document with a duplicated "enforce" key is rejected *)
Example C17_example :
  well_tagged c17_example_doc
  /\ load (InDoc c17_example_doc) = Some c17_example_loaded
  /\ validate_config c17_example_loaded
     = [("exemptions.namespaces", 1, Duplicate); ("exemptions.namespaces", 2, Invalid)]%string
  /\ validate_config (Loaded "baseline" "latest" "privileged" "latest" "privileged" "v1.25" [] ["kube-system"] [])%string = []
  /\ to_policy c17_example_loaded
     = Some (Policy (LV Baseline Latest) (LV Privileged Latest) (LV Privileged (V 1 25)))
  /\ load (InDoc [MApiVersion "pod-security.admission.config.k8s.io/v1"; MKind "PodSecurityConfiguration";
                  MDefaults [("enforce", "baseline"); ("enforce", "restricted")]]%string) = None.
Proof. exact C17_example_proof. Qed.
Print Assumptions C17_example.

(** ---- side conditions on the constants regenerated from the source (Gen/Constants.v) ---- *)
From PSA Require Import Proofs.Constants_table.
From PSA Require Gen.Constants.
From PSA Require Import Spec.P02.
Theorem C17_served_versions_are_source : same_set Gen.Constants.gen_served_config_versions served_versions = true.
Proof. exact served_versions_are_source. Qed.
Print Assumptions C17_served_versions_are_source.

(** ---- the webhook as deployed (Model/Deploy.v): document -> load -> ToPolicy -> validation ->
    Admission config -> HandleValidate over the real sources ---- *)
From Coq Require Import ZArith.
From PSA Require Import Model.Pod Model.Admission Model.Sources Model.Webhook Model.Deploy Spec.PSS Spec.P02 Spec.PAdm
     Corr.Deploy Proofs.C02_table Proofs.EndToEnd Proofs.DeployFacts.

(** the server comes up exactly for the documents the specification accepts (acceptable shape,
    served version, valid values), and then runs with exactly the default policy and the exemption
    lists the document states, the 3000-pod cap and the 1 s budget ([s_config], Corr/Deploy.v) *)
Theorem C17_deploy_is_spec : forall i, well_tagged_input i -> deploy i = s_config i.
Proof. exact C17_deploy_is_spec_proof. Qed.
Print Assumptions C17_deploy_is_spec.

(** "comes up only if ... and then runs with exactly ..." needs no hypothesis *)
Theorem C17_deploy_sound : forall i c, deploy i = Some c -> s_config i = Some c.
Proof. exact C17_deploy_sound_proof. Qed.
Print Assumptions C17_deploy_sound.

Example C17_deploy_is_spec_needs_hyp :
  let d := [MUnknown "defaults"; MApiVersion (config_group ++ "/v1"); MKind config_kind]%string in
  ~ well_tagged d /\ deploy (InDoc d) = None
  /\ s_config (InDoc d)
     = Some (Config (Policy (LV Privileged Latest) (LV Privileged Latest) (LV Privileged Latest)) [] [] [] 3000 1000000000%Z).
Proof. exact C17_deploy_is_spec_needs_hyp_proof. Qed.
Print Assumptions C17_deploy_is_spec_needs_hyp.

Theorem C17_deploy_defaults_stated : forall d c, deploy (InDoc d) = Some c ->
  cf_ex_namespaces c = s_list "namespaces" d /\ cf_ex_users c = s_list "usernames" d
  /\ cf_ex_rcs c = s_list "runtimeClasses" d
  /\ cf_max_pods c = 3000 /\ cf_timeout c = 1000000000%Z
  /\ spec_level_of (s_value "enforce" "privileged" d) = Some (lv_level (enforce (cf_defaults c)))
  /\ spec_version_of (s_value "enforce-version" "latest" d) = Some (lv_version (enforce (cf_defaults c)))
  /\ spec_level_of (s_value "audit" "privileged" d) = Some (lv_level (audit (cf_defaults c)))
  /\ spec_version_of (s_value "audit-version" "latest" d) = Some (lv_version (audit (cf_defaults c)))
  /\ spec_level_of (s_value "warn" "privileged" d) = Some (lv_level (warn (cf_defaults c)))
  /\ spec_version_of (s_value "warn-version" "latest" d) = Some (lv_version (warn (cf_defaults c))).
Proof. exact C17_deploy_defaults_stated_proof. Qed.
Print Assumptions C17_deploy_defaults_stated.

(** an unlabelled namespace is judged by exactly the stated defaults *)
Theorem C17_deploy_unlabelled_namespace : forall i c, deploy i = Some c ->
  policy_to_evaluate [] (cf_defaults c) = (cf_defaults c, []).
Proof. exact C17_deploy_unlabelled_namespace_proof. Qed.
Print Assumptions C17_deploy_unlabelled_namespace.

(** document in, verdict out: deploy, the sources, the webhook, the admission layer and the standard composed *)
Theorem C17_end_to_end : forall i relax cl f now q uid r w0 c ls p m,
  deploy i = Some c ->
  hq_has_body q = true -> N.ltb (hq_size q) max_request_size = true ->
  hq_ctype q = "application/json"%string -> hq_payload q = Review uid r w0 ->
  evaluated_pod c r (world_of production_wiring cl f (r_namespace r) None now) = Some (ls, p) ->
  api_valid p = true -> relaxed_for relax p = false ->
  effective_minor (lv_version (enforce (spec_policy ls (cf_defaults c)))) = Some m ->
  exists resp, full_stack i (shipped_evaluator relax) cl f now q = Some (HttpResponse 200 (Some (uid, resp)))
               /\ rs_allowed resp = compliant (lv_level (enforce (spec_policy ls (cf_defaults c)))) m p.
Proof. exact C17_end_to_end_proof. Qed.
Print Assumptions C17_end_to_end.

(** the same in an unlabelled namespace, with the level and version read off the document alone *)
Theorem C17_end_to_end_unlabelled : forall d relax cl f now q uid r w0 c p l m,
  deploy (InDoc d) = Some c ->
  hq_has_body q = true -> N.ltb (hq_size q) max_request_size = true ->
  hq_ctype q = "application/json"%string -> hq_payload q = Review uid r w0 ->
  evaluated_pod c r (world_of production_wiring cl f (r_namespace r) None now) = Some ([], p) ->
  api_valid p = true -> relaxed_for relax p = false ->
  spec_level_of (s_value "enforce" "privileged" d) = Some l ->
  (exists v, spec_version_of (s_value "enforce-version" "latest" d) = Some v /\ effective_minor v = Some m) ->
  exists resp, full_stack (InDoc d) (shipped_evaluator relax) cl f now q = Some (HttpResponse 200 (Some (uid, resp)))
               /\ rs_allowed resp = compliant l m p.
Proof. exact C17_end_to_end_unlabelled_proof. Qed.
Print Assumptions C17_end_to_end_unlabelled.

(** non-vacuity: a v1beta1 document with members in an unusual order, enforce baseline, audit
    restricted, kube-system exempt; the live namespace "ns" has no labels and is not cached; no
    faults.  A CREATE of [example_pod] (Proofs/C02_table.v; it violates baseline) in "ns" is
    answered 200 with the review's uid and denied; the same review in "kube-system" is allowed;
    with ("enforce", "bogus") the server does not come up *)
Example C17_end_to_end_in_scope :
  let doc e := InDoc [MKind config_kind; MApiVersion (config_group ++ "/v1beta1");
                      MDefaults [("enforce", e); ("audit", "restricted")];
                      MExemptions [("namespaces", ["kube-system"])]]%string in
  let cl := Cluster [] [("ns", []); ("kube-system", [])]%string [] [] in
  let f := Faults None false in
  let r ns := Request "" "pods" "" ns "p" "u" OpCreate (OPod example_pod) ONil None in
  let q ns := HttpRequest true 2048 "application/json" (Review "uid-17" (r ns) (World None "" None None 0)) in
  let answer e ns :=
    option_map (fun h => (hs_status h, option_map (fun x => (fst x, rs_allowed (snd x))) (hs_review h)))
               (full_stack (doc e) (shipped_evaluator false) cl f 0 (q ns)) in
  well_tagged_input (doc "baseline"%string)
  /\ deploy (doc "baseline"%string)
     = Some (Config (Policy (LV Baseline Latest) (LV Restricted Latest) (LV Privileged Latest))
                    ["kube-system"%string] [] [] 3000 1000000000%Z)
  /\ (forall c, deploy (doc "baseline"%string) = Some c ->
        evaluated_pod c (r "ns"%string) (world_of production_wiring cl f "ns" None 0) = Some ([], example_pod))
  /\ answer "baseline"%string "ns"%string = Some (200%Z, Some ("uid-17"%string, false))
  /\ answer "baseline"%string "kube-system"%string = Some (200%Z, Some ("uid-17"%string, true))
  /\ deploy (doc "bogus"%string) = None
  /\ answer "bogus"%string "ns"%string = None.
Proof. exact C17_end_to_end_in_scope_proof. Qed.
Print Assumptions C17_end_to_end_in_scope.

Example C17_end_to_end_in_scope_hyps :
  api_valid example_pod = true /\ relaxed_for false example_pod = false
  /\ effective_minor Latest = Some newest_published
  /\ compliant Baseline newest_published example_pod = false.
Proof. exact DeployFacts.C17_end_to_end_in_scope_hyps. Qed.
Print Assumptions C17_end_to_end_in_scope_hyps.

(** ---- the whole stack, from the document and the AdmissionRequest as sent (Model/Wire.v) ---- *)
From PSA Require Import Model.Wire.
(** configuration document in, AdmissionRequest in, cluster state in; HTTP answer out: 200, the review's own
    uid, and "allowed" exactly when the pod complies with the Pod Security Standards at the enforce level and
    version that the document's defaults and the namespace's labels resolve to *)
Theorem C17_end_to_end_wire : forall i relax cl f now q a w0 c ls p m,
  deploy i = Some c ->
  hq_has_body q = true -> N.ltb (hq_size q) max_request_size = true ->
  hq_ctype q = "application/json"%string -> hq_payload q = Review (ar_uid a) (attributes_of a None) w0 ->
  evaluated_pod c (attributes_of a None) (world_of production_wiring cl f (ar_namespace a) None now) = Some (ls, p) ->
  api_valid p = true -> relaxed_for relax p = false ->
  effective_minor (lv_version (enforce (spec_policy ls (cf_defaults c)))) = Some m ->
  exists resp, full_stack i (shipped_evaluator relax) cl f now q = Some (HttpResponse 200 (Some (ar_uid a, resp)))
               /\ rs_allowed resp = compliant (lv_level (enforce (spec_policy ls (cf_defaults c)))) m p.
Proof. intros i relax cl f now q a w0 c ls p m. exact (C17_end_to_end i relax cl f now q (ar_uid a) (attributes_of a None) w0 c ls p m). Qed.
Print Assumptions C17_end_to_end_wire.
