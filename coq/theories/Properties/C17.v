(** Properties/C17.v - property C17: configuration loading, validation and the
    default policy an accepted configuration enforces.
    Theorem statements only; every proof lives in Proofs/ConfigFacts.v.

    [well_tagged d] (Proofs/ConfigFacts.v): no member presented as [MUnknown k]
    carries one of the four known names apiVersion/kind/defaults/exemptions.
    [C17_load] and [C17_accept_iff] are false without it for such adversarial
    abstract documents ([C17_accept_iff_needs_hyp]); the converse direction
    [C17_accepted_only_if] holds unconditionally. *)
From Coq Require Import List Bool NArith Ascii String.
From PSA Require Import Base.Str Model.Api Model.Config Spec.P05 Spec.P17 Proofs.ConfigFacts.
Import ListNotations.

(** the model satisfies the relation P_17 on each observation of LoadFromData *)
Theorem C17_load : forall i, well_tagged_input i -> P17_load i (load i) = true.
Proof. exact C17_load_proof. Qed.
Print Assumptions C17_load.

Theorem C17_accept_iff : forall d, well_tagged d -> is_some (load (InDoc d)) = s_acceptable d.
Proof. exact C17_accept_iff_proof. Qed.
Print Assumptions C17_accept_iff.

(** "accepted only if ..." needs no hypothesis *)
Theorem C17_accepted_only_if : forall d, is_some (load (InDoc d)) = true -> s_acceptable d = true.
Proof. exact load_accept_sound. Qed.
Print Assumptions C17_accepted_only_if.

Theorem C17_loaded_is_spec : forall d c, load (InDoc d) = Some c -> c = s_loaded d.
Proof. exact load_Some_loaded. Qed.
Print Assumptions C17_loaded_is_spec.

Example C17_accept_iff_needs_hyp :
  let d := [MUnknown "defaults"; MApiVersion (config_group ++ "/v1"); MKind config_kind]%string in
  ~ well_tagged d /\ is_some (load (InDoc d)) = false /\ s_acceptable d = true
  /\ P17_load (InDoc d) (load (InDoc d)) = false.
Proof. exact C17_accept_iff_needs_hyp_proof. Qed.
Print Assumptions C17_accept_iff_needs_hyp.

(** same content under any served version: replace the apiVersion member's version *)
Theorem C17_version_independent : forall d v v', In v served_versions -> In v' served_versions ->
  load (InDoc (with_version v d)) = load (InDoc (with_version v' d)).
Proof. exact C17_version_independent_proof. Qed.
Print Assumptions C17_version_independent.

Theorem C17_unserved_rejected : forall d v, ~ In v served_versions ->
  (exists a, In (MApiVersion a) d) -> load (InDoc (with_version v d)) = None.
Proof. exact C17_unserved_rejected_proof. Qed.
Print Assumptions C17_unserved_rejected.

Theorem C17_empty_is_all_defaults :
  load InEmpty = load (InDoc [MApiVersion (config_group ++ "/v1"); MKind config_kind])
  /\ load InEmpty = Some (Loaded "privileged" "latest" "privileged" "latest" "privileged" "latest" [] [] [])%string.
Proof. exact C17_empty_is_all_defaults_proof. Qed.
Print Assumptions C17_empty_is_all_defaults.

(** validation *)
Theorem C17_validate_iff : forall c, validate_config c = [] <-> s_valid c = true.
Proof. exact C17_validate_iff_proof. Qed.
Print Assumptions C17_validate_iff.

Theorem C17_validate : forall c,
  P17_validate c (List.length (validate_config c))
               (if is_nil (validate_config c) then to_policy c else None) = true.
Proof. exact C17_validate_proof. Qed.
Print Assumptions C17_validate.

(** the chain: passes validation => ToPolicy succeeds => an Admission with that
    default policy resolves an unlabelled namespace to exactly it, with no label errors *)
Theorem C17_chain : forall c, validate_config c = [] ->
  exists p, to_policy c = Some p /\ policy_to_evaluate [] p = (p, []) /\
    fst (parse_level (ld_enforce c)) = lv_level (enforce p) /\
    fst (parse_version (ld_enforce_version c)) = lv_version (enforce p).
Proof. exact C17_chain_proof. Qed.
Print Assumptions C17_chain.

(** duplicates and invalid entries are each reported at their index *)
Theorem C17_errors_located : forall c path i k, In (path, i, k) (validate_config c) ->
  (i = 0 /\ In path ["defaults.enforce"; "defaults.enforce-version"; "defaults.warn"; "defaults.warn-version"; "defaults.audit"; "defaults.audit-version"]%string)
  \/ (path = "exemptions.namespaces"%string /\ i < List.length (ld_namespaces c))
  \/ (path = "exemptions.runtimeClasses"%string /\ i < List.length (ld_runtimeclasses c))
  \/ (path = "exemptions.usernames"%string /\ i < List.length (ld_usernames c)).
Proof. exact C17_errors_located_proof. Qed.
Print Assumptions C17_errors_located.

(** non-vacuity: members in an unusual order, a v1beta1 apiVersion, two defaults
    set, a duplicated and an invalid namespace exemption (reported at indices 1
    and 2); the same configuration with a single valid exemption validates; a
    document with a duplicated "enforce" key is rejected *)
Example C17_example :
  well_tagged c17_example_doc
  /\ load (InDoc c17_example_doc) = Some c17_example_loaded
  /\ validate_config c17_example_loaded
     = [("exemptions.namespaces", 1, Duplicate); ("exemptions.namespaces", 2, Invalid)]%string
  /\ validate_config (Loaded "baseline" "latest" "privileged" "latest" "privileged" "v1.25" [] ["kube-system"] [])%string = []
  /\ to_policy c17_example_loaded
     = Some (Policy (LV Baseline Latest) (LV Privileged Latest) (LV Privileged (V 1 25)))
  /\ load (InDoc [MApiVersion "pod-security.admission.config.k8s.io/v1"; MKind "PodSecurityConfiguration";
                  MDefaults [("enforce", "baseline"); ("enforce", "restricted")]]%string) = None.
Proof. exact C17_example_proof. Qed.
Print Assumptions C17_example.

(** ---- side conditions on the constants regenerated from the source (Gen/Constants.v) ---- *)
From PSA Require Import Proofs.Constants_table.
From PSA Require Gen.Constants.
From PSA Require Import Spec.P02.
Theorem C17_served_versions_are_source : same_set Gen.Constants.gen_served_config_versions served_versions = true.
Proof. exact served_versions_are_source. Qed.
Print Assumptions C17_served_versions_are_source.
