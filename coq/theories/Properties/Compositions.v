(** Properties/Compositions.v - theorems that compose several properties and
    belong to none of them alone (no check's verdict depends on this file; it is
    built and axiom-checked with the rest of the development).

    1. The transcribed standard itself (Spec/PSS.v) is ordered: at every
       published minor, a pod the API server would accept that complies with a
       level complies with every laxer level.  Proved *through* the model of
       the code: the shipped table implements the standard (C02) and the
       shipped table is ordered (C03).
    2. Advisory findings are antitone in the audit level: the same request
       under two configurations / label sets auditing at the same minor - if
       the stricter audit level records no audit-violations annotation, the
       laxer one records none either (C08 x C02 x C03). *)
From Coq Require Import List Bool NArith ZArith String Lia.
From PSA Require Import Base.Str Model.Api Model.Pod Model.Checks Model.Registry Model.Shipped Model.Admission
     Model.Namespace Spec.PSS Spec.P02 Spec.P05 Spec.PAdm Proofs.StandardFacts Proofs.C02_table Proofs.C03_table
     Proofs.AdmFactsA Proofs.EndToEnd Proofs.EndToEnd2.
Import ListNotations.

Lemma effective_minor_published v m : effective_minor v = Some m -> (m <= newest_published)%N.
Proof.
  destruct v as [|maj mi]; cbn [effective_minor].
  - intros H. injection H as <-. apply N.le_refl.
  - destruct maj as [|q]; [discriminate|]. destruct q; try discriminate.
    intros H. injection H as <-. apply N.le_min_r.
Qed.

Theorem PSS_levels_ordered : forall m p (l l' : level),
  (m <= newest_published)%N -> api_valid p = true -> (strictness l' <= strictness l)%N ->
  compliant l m p = true -> compliant l' m p = true.
Proof.
  intros m p l l' Hm Hv Hs Hc.
  assert (He : effective_minor (V 1 m) = Some m).
  { cbn [effective_minor]. f_equal. apply N.min_l. exact Hm. }
  rewrite <- (shipped_standard false l (V 1 m) m p Hv eq_refl He) in Hc.
  rewrite <- (shipped_standard false l' (V 1 m) m p Hv eq_refl He).
  exact (shipped_relaxation_safe false (V 1 m) p l l' Hv Hs Hc).
Qed.
Print Assumptions PSS_levels_ordered.

Theorem audit_findings_antitone : forall c c' relax r w w' ls ls' p enf enf' ma mw mw',
  let pol := spec_policy ls (cf_defaults c) in
  let pol' := spec_policy ls' (cf_defaults c') in
  evaluated_object c r w = Some (ls, p, enf) -> evaluated_object c' r w' = Some (ls', p, enf') ->
  api_valid p = true -> relaxed_for relax p = false ->
  effective_minor (lv_version (audit pol)) = Some ma -> effective_minor (lv_version (audit pol')) = Some ma ->
  effective_minor (lv_version (warn pol)) = Some mw -> effective_minor (lv_version (warn pol')) = Some mw' ->
  (strictness (lv_level (audit pol')) <= strictness (lv_level (audit pol)))%N ->
  ann "audit-violations" (fst (validate c (shipped_evaluator relax) r w)) = None ->
  ann "audit-violations" (fst (validate c' (shipped_evaluator relax) r w')) = None.
Proof.
  intros c c' relax r w w' ls ls' p enf enf' ma mw mw' pol pol' He He' Hv Hr Hma Hma' Hmw Hmw' Hs Hn.
  destruct (shipped_findings c relax r w ls p enf ma mw He Hv Hr Hma Hmw) as [_ Ha].
  destruct (shipped_findings c' relax r w' ls' p enf' ma mw' He' Hv Hr Hma' Hmw') as [_ Ha'].
  fold pol in Ha. fold pol' in Ha'.
  destruct (compliant (lv_level (audit pol)) ma p) eqn:Hc.
  - rewrite (PSS_levels_ordered ma p _ _ (effective_minor_published _ _ Hma) Hv Hs Hc) in Ha'. exact Ha'.
  - destruct Ha as [t [Ht _]]. rewrite Ht in Hn. discriminate.
Qed.
Print Assumptions audit_findings_antitone.

(** the same for the warning: an allowed request without a warning under the
    stricter warn level has no warning under a laxer one at the same minor *)
Theorem warn_findings_antitone : forall c c' relax r w w' ls ls' p enf enf' ma ma' mw,
  let pol := spec_policy ls (cf_defaults c) in
  let pol' := spec_policy ls' (cf_defaults c') in
  evaluated_object c r w = Some (ls, p, enf) -> evaluated_object c' r w' = Some (ls', p, enf') ->
  api_valid p = true -> relaxed_for relax p = false ->
  effective_minor (lv_version (audit pol)) = Some ma -> effective_minor (lv_version (audit pol')) = Some ma' ->
  effective_minor (lv_version (warn pol)) = Some mw -> effective_minor (lv_version (warn pol')) = Some mw ->
  (strictness (lv_level (warn pol')) <= strictness (lv_level (warn pol)))%N ->
  rs_allowed (fst (validate c (shipped_evaluator relax) r w)) = true ->
  rs_warnings (fst (validate c (shipped_evaluator relax) r w)) = [] ->
  rs_warnings (fst (validate c' (shipped_evaluator relax) r w')) = [].
Proof.
  intros c c' relax r w w' ls ls' p enf enf' ma ma' mw pol pol' He He' Hv Hr Hma Hma' Hmw Hmw' Hs Hal Hn.
  destruct (shipped_findings c relax r w ls p enf ma mw He Hv Hr Hma Hmw) as [Hw _].
  destruct (shipped_findings c' relax r w' ls' p enf' ma' mw He' Hv Hr Hma' Hmw') as [Hw' _].
  fold pol in Hw. fold pol' in Hw'.
  rewrite Hal in Hw. cbn [andb] in Hw.
  destruct (compliant (lv_level (warn pol)) mw p) eqn:Hc.
  - rewrite (PSS_levels_ordered mw p _ _ (effective_minor_published _ _ Hmw) Hv Hs Hc) in Hw'.
    cbn [negb] in Hw'. rewrite andb_false_r in Hw'. exact Hw'.
  - cbn [negb] in Hw. destruct Hw as [t [Ht _]]. rewrite Ht in Hn. discriminate.
Qed.
Print Assumptions warn_findings_antitone.

(** non-vacuity of the first: a valid pod compliant at Baseline (hence Privileged) and not at Restricted, minor 24 *)
Example PSS_levels_ordered_in_scope :
  (24 <= newest_published)%N /\ api_valid example_pod_fixed = true
  /\ compliant Baseline 24 example_pod_fixed = true /\ compliant Restricted 24 example_pod_fixed = false
  /\ compliant Privileged 24 example_pod_fixed = true.
Proof. vm_compute. repeat split; try reflexivity; discriminate. Qed.
