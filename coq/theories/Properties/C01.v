(** Properties/C01.v - property C01: a pod request that reaches evaluation is
    allowed exactly when the pod satisfies the enforce level:version resolved
    for its namespace; a denial is a 403 Forbidden naming that level:version;
    the enforce-policy annotation names the level (and version) enforced.
    Theorem statements only; every proof lives in Proofs/AdmFactsA.v.

    The evaluator is an arbitrary function [ev].  One hypothesis on it is
    needed: [ev_privileged_allows ev], i.e. nothing is forbidden at the
    privileged level (true of every evaluator built by [new_evaluator], see
    C04_privileged).  Without it the statement is false: for a fully privileged
    namespace Validate answers from a shared response without calling the
    evaluator ([C01_verdict_needs_hyp]). *)
From Coq Require Import List Bool NArith ZArith String.
From PSA Require Import Base.Str Model.Api Model.Pod Model.Checks Model.Registry Model.Admission
     Model.Namespace Spec.P05 Spec.PAdm Proofs.AdmFactsA.
Import ListNotations.

(** pod verdict = enforce verdict; 403 naming level:version; enforce-policy annotation *)
Theorem C01_verdict : forall (c : config) (ev : evaluator) (r : request) (w : world),
  ev_privileged_allows ev -> P01 c ev r w (validate c ev r w) = true.
Proof. exact P01_model. Qed.
Print Assumptions C01_verdict.

Example C01_verdict_needs_hyp :
  P01 cex_cfg deny_all cex_req cex_world (validate cex_cfg deny_all cex_req cex_world) = false.
Proof. vm_compute. reflexivity. Qed.

(** readable corollaries, stated directly on the model *)
Theorem C01_allowed_iff : forall c ev r w ls p,
  ev_privileged_allows ev -> evaluated_pod c r w = Some (ls, p) ->
  rs_allowed (fst (validate c ev r w)) = forallb cr_allowed (ev (enforce (spec_policy ls (cf_defaults c))) p).
Proof. exact C01_allowed_iff_proof. Qed.
Print Assumptions C01_allowed_iff.

Theorem C01_denial_is_403 : forall c ev r w ls p,
  evaluated_pod c r w = Some (ls, p) -> rs_allowed (fst (validate c ev r w)) = false ->
  rs_code (fst (validate c ev r w)) = Some 403%Z /\ rs_reason (fst (validate c ev r w)) = "Forbidden"%string.
Proof. exact C01_denial_is_403_proof. Qed.
Print Assumptions C01_denial_is_403.

(** non-vacuity: a request in scope, denied with a 403; the hypothesis on the evaluator is satisfiable *)
Example C01_in_scope :
  let ev : evaluator := fun x _ => match lv_level x with Privileged => [] | _ => [CR false "no" ""] end in
  let w := World (Some [(enforce_level_label, "baseline"%string)]) "" None None 0 in
  evaluated_pod cex_cfg cex_req w = Some ([(enforce_level_label, "baseline"%string)], cex_pod)
  /\ rs_allowed (fst (validate cex_cfg ev cex_req w)) = false
  /\ rs_code (fst (validate cex_cfg ev cex_req w)) = Some 403%Z.
Proof. vm_compute. repeat split. Qed.
Example C01_hyp_satisfiable :
  ev_privileged_allows (fun x _ => match lv_level x with Privileged => [] | _ => [CR false "no" ""] end).
Proof. intros v p. reflexivity. Qed.

(** ---- end to end: admission layer composed with the standard (C02) ---- *)
From PSA Require Import Model.Shipped Spec.PSS Spec.P02 Proofs.EndToEnd Proofs.C02_table.
(** with the shipped checks, a pod request that reaches evaluation is allowed
    exactly when the pod complies with the Pod Security Standards (Spec/PSS.v)
    at the enforce level and version its namespace resolves to *)
Theorem C01_end_to_end : forall c relax r w ls p m,
  evaluated_pod c r w = Some (ls, p) ->
  api_valid p = true -> relaxed_for relax p = false ->
  effective_minor (lv_version (enforce (spec_policy ls (cf_defaults c)))) = Some m ->
  rs_allowed (fst (validate c (shipped_evaluator relax) r w))
  = compliant (lv_level (enforce (spec_policy ls (cf_defaults c)))) m p.
Proof. exact end_to_end_proof. Qed.
Print Assumptions C01_end_to_end.

(** non-vacuity: a valid pod (Proofs/C02_table.v) compliant at Baseline but not at
    Restricted; the same CREATE is allowed under enforce=baseline and denied under
    enforce=restricted, both at v1.24 *)
Example C01_end_to_end_in_scope :
  let lb := [(enforce_level_label, "baseline"%string); (enforce_version_label, "v1.24"%string)] in
  let lr := [(enforce_level_label, "restricted"%string); (enforce_version_label, "v1.24"%string)] in
  let r := Request "" "pods" "" "ns" "p" "u" OpCreate (OPod example_pod_fixed) ONil None in
  evaluated_pod cex_cfg r (World (Some lr) "" None None 0) = Some (lr, example_pod_fixed)
  /\ api_valid example_pod_fixed = true /\ relaxed_for false example_pod_fixed = false
  /\ effective_minor (lv_version (enforce (spec_policy lr (cf_defaults cex_cfg)))) = Some 24%N
  /\ rs_allowed (fst (validate cex_cfg (shipped_evaluator false) r (World (Some lb) "" None None 0))) = true
  /\ rs_allowed (fst (validate cex_cfg (shipped_evaluator false) r (World (Some lr) "" None None 0))) = false.
Proof. vm_compute. repeat split; reflexivity. Qed.
