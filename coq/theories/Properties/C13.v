(** Properties/C13.v - property C13: "Every denial message, warning and audit
    annotation lists each violated control exactly once with a specific
    non-empty reason - never the 'unknown forbidden reason' placeholder for
    built-in controls - in an order that does not depend on the pod.  For
    controls that are about containers or volumes, the per-object detail names
    an offending container or volume by its name and never names a compliant
    one."
    Theorem statements only; the table-parametric proofs live in
    Proofs/MessageFacts.v, the computed side conditions on the shipped table in
    Proofs/C13_table.v. *)
From Coq Require Import List Bool NArith String.
From PSA Require Import Base.Str Model.Api Model.Pod Model.Checks Model.Names Model.Registry Model.Shipped
     Spec.PSS Spec.P02 Spec.P13 Proofs.MessageFacts Proofs.C13_table.
Import ListNotations.
Local Open Scope string_scope.

(** every denying built-in revision gives a specific non-empty reason, never the placeholder *)
Theorem C13_reasons : forall al fn f relax p,
  lookup_check fn = Some f -> P13_reason (f al relax p) = true.
Proof. exact reasons_specific. Qed.
Print Assumptions C13_reasons.

(** the names the detail lists are offenders; every explicit offender is listed,
    implicit ones when they are the only cause; volumes exactly.  For any
    allow-lists equal as sets to the published ones *)
Theorem C13_names : forall al fn relax p, lists_ok al = true -> relax_pod relax p = false ->
  P13_names fn p (negb (cr_allowed (run_check al relax fn p))) (check_names fn al relax p) = true.
Proof. exact names_are_offenders. Qed.
Print Assumptions C13_names.

(** the shipped allow-lists, switch off *)
Theorem C13_names_shipped : forall fn p,
  P13_names fn p (negb (cr_allowed (run_check shipped_lists false fn p)))
            (check_names fn shipped_lists false p) = true.
Proof. exact shipped_P13_names. Qed.
Print Assumptions C13_names_shipped.

(** the twin is what the text says: the rendered detail contains the quoted list of the names ... *)
Theorem C13_detail_lists_names : forall al fn f relax p, lookup_check fn = Some f ->
  fn <> "capabilitiesRestricted_1_22" -> fn <> "capabilitiesRestricted_1_25" ->
  check_names fn al relax p <> [] ->
  contains (join_quote (check_names fn al relax p)) (cr_detail (f al relax p)) = true.
Proof. exact detail_lists_names. Qed.
Print Assumptions C13_detail_lists_names.

(** ... introduced as container(s) / volume(s) *)
Theorem C13_detail_contains_phrase : forall al fn f relax p, lookup_check fn = Some f ->
  fn <> "capabilitiesRestricted_1_22" -> fn <> "capabilitiesRestricted_1_25" ->
  check_names fn al relax p <> [] ->
  contains (phrase_of fn (check_names fn al relax p)) (cr_detail (f al relax p)) = true.
Proof. exact detail_contains_phrase. Qed.
Print Assumptions C13_detail_contains_phrase.

(** capabilitiesRestricted_* has two phrases, each quoting its own list; the twin is their concatenation *)
Theorem C13_detail_lists_names_caps : forall al fn f relax p, lookup_check fn = Some f ->
  fn = "capabilitiesRestricted_1_22" \/ (fn = "capabilitiesRestricted_1_25" /\ is_windows p = false) ->
  (caps_missing p <> [] ->
   contains (join_quote (caps_missing p)) (cr_detail (f al relax p)) = true
   /\ contains (containers_phrase (caps_missing p)) (cr_detail (f al relax p)) = true)
  /\ (caps_adding p <> [] ->
      contains (join_quote (caps_adding p)) (cr_detail (f al relax p)) = true
      /\ contains (containers_phrase (caps_adding p)) (cr_detail (f al relax p)) = true).
Proof. exact detail_lists_names_caps. Qed.
Print Assumptions C13_detail_lists_names_caps.

Theorem C13_caps_names_split : forall al relax p,
  check_names "capabilitiesRestricted_1_22" al relax p = caps_missing p +:+ caps_adding p
  /\ (is_windows p = false ->
      check_names "capabilitiesRestricted_1_25" al relax p = caps_missing p +:+ caps_adding p).
Proof. exact caps_names_split. Qed.
Print Assumptions C13_caps_names_split.

(** the two exclusions above are needed: the concatenated list is not quoted as one list *)
Example C13_detail_lists_names_needs_hyp :
  check_names "capabilitiesRestricted_1_22" shipped_lists false c13_example_pod = ["a"; "ab"; "a"]
  /\ caps_missing c13_example_pod = ["a"; "ab"] /\ caps_adding c13_example_pod = ["a"]
  /\ contains (join_quote (check_names "capabilitiesRestricted_1_22" shipped_lists false c13_example_pod))
              (cr_detail (capabilitiesRestricted_1_22 shipped_lists false c13_example_pod)) = false.
Proof. exact shipped_c13_caps_two_phrases. Qed.

(** aggregation lists each denying result once, in order, with the placeholder only for an empty reason *)
Theorem C13_aggregate : forall rs,
  ag_reasons (aggregate_results rs)
  = map (fun r => if String.eqb (cr_reason r) "" then unknown_reason else cr_reason r)
        (filter (fun r => negb (cr_allowed r)) rs)
  /\ ag_details (aggregate_results rs) = map cr_detail (filter (fun r => negb (cr_allowed r)) rs).
Proof. exact aggregate_lists_denying. Qed.
Print Assumptions C13_aggregate.

(** the evaluator runs, for (level, version), exactly the standard's revisions for
    that version in the fixed table order, whatever the pod; the aggregate
    texts follow and never show the placeholder.  Table-parametric: *)
Theorem C13_eval_generic : forall al relax (cs : list named_check) l v p,
  order_ok cs = true ->
  let rs := evaluate_pod al relax cs l v p in
  P13_eval l v (fun fn => run_check al relax fn p) rs
           (forbidden_reason (aggregate_results rs)) (forbidden_detail (aggregate_results rs)) = true.
Proof. exact eval_generic. Qed.
Print Assumptions C13_eval_generic.

(** the shipped table *)
Theorem C13_eval : forall l v p,
  let rs := evaluate_pod shipped_lists false shipped_checks l v p in
  P13_eval l v (fun fn => run_check shipped_lists false fn p) rs
           (forbidden_reason (aggregate_results rs)) (forbidden_detail (aggregate_results rs)) = true.
Proof. exact shipped_P13_eval. Qed.
Print Assumptions C13_eval.

(** each control once: the standard's revision lists (which C13_eval shows are what runs) have no repetition *)
Theorem C13_revisions_once : forall v m, effective_minor v = Some m ->
  NoDup (pss_baseline_revisions m) /\ NoDup (pss_restricted_revisions m).
Proof. exact revisions_once. Qed.
Print Assumptions C13_revisions_once.

(** the order of controls in any message depends only on (level, version): the
    same function names run, in the same order, on any two pods *)
Theorem C13_order_independent_of_pod : forall al relax (cs : list named_check) l v p p',
  List.length (evaluate_pod al relax cs l v p) = List.length (evaluate_pod al relax cs l v p')
  /\ exists fns, evaluate_pod al relax cs l v p = map (fun fn => run_check al relax fn p) fns
              /\ evaluate_pod al relax cs l v p' = map (fun fn => run_check al relax fn p') fns.
Proof. exact order_independent. Qed.
Print Assumptions C13_order_independent_of_pod.

(** a concrete pod: containers "a" (privileged, adds NET_RAW) and "ab", hostPath volume "v" *)
Example C13_example :
  c13_example_reason Baseline = "non-default capabilities, hostPath volumes, privileged"
  /\ c13_example_detail Baseline =
     "non-default capabilities (container ""a"" must not include ""NET_RAW"" in securityContext.capabilities.add), hostPath volumes (volume ""v""), privileged (container ""a"" must not set securityContext.privileged=true)"
  /\ c13_example_detail Restricted =
     "privileged (container ""a"" must not set securityContext.privileged=true), allowPrivilegeEscalation != false (containers ""a"", ""ab"" must set securityContext.allowPrivilegeEscalation=false), unrestricted capabilities (containers ""a"", ""ab"" must set securityContext.capabilities.drop=[""ALL""]; container ""a"" must not include ""NET_RAW"" in securityContext.capabilities.add), restricted volume types (volume ""v"" uses restricted volume type ""hostPath""), runAsNonRoot != true (pod or containers ""a"", ""ab"" must set securityContext.runAsNonRoot=true), seccompProfile (pod or containers ""a"", ""ab"" must set securityContext.seccompProfile.type to ""RuntimeDefault"" or ""Localhost"")"
  /\ check_names "privileged_1_0" shipped_lists false c13_example_pod = ["a"]
  /\ check_names "hostPathVolumes_1_0" shipped_lists false c13_example_pod = ["v"]
  /\ check_names "runAsNonRoot_1_0" shipped_lists false c13_example_pod = ["a"; "ab"].
Proof. exact shipped_c13_example. Qed.

(** the hypotheses of C13_names are satisfiable, and the detail theorem is not vacuous *)
Example C13_hypotheses_satisfiable :
  lists_ok shipped_lists = true /\ relax_pod false c13_example_pod = false
  /\ lookup_check "privileged_1_0" = Some privileged_1_0
  /\ check_names "privileged_1_0" shipped_lists false c13_example_pod <> []
  /\ order_ok shipped_checks = true.
Proof. repeat split; try (vm_compute; reflexivity). vm_compute. discriminate. Qed.

(** ---- admission texts (relation [P13_adm] of Spec/PAdm.v) ---- *)
From Coq Require Import ZArith.
From PSA Require Import Model.Admission Model.Namespace Spec.P05 Spec.PAdm Proofs.AdmFactsA Proofs.AdmFactsE.

(** the denial message, the warning and the audit annotation of every
    observation of the model list every violated control of their own
    level:version - each reason at least as often as controls carry it - and
    never show the placeholder, for evaluators whose denying results carry a
    non-empty reason and whose reasons and details do not contain the
    placeholder.  (The hypothesis [ev_privileged_allows] of the first
    formulation is kept but not used.) *)
Theorem C13_admission_texts : forall c ev r w,
  ev_reasons_specific ev -> ev_privileged_allows ev -> P13_adm c ev r w (validate c ev r w) = true.
Proof. exact P13_adm_model. Qed.
Print Assumptions C13_admission_texts.

(** the hypothesis is only needed of the pod (or template) the request evaluates *)
Theorem C13_admission_texts_on : forall c ev r w,
  (forall ls p enforced, evaluated_object c r w = Some (ls, p, enforced) -> ev_reasons_specific_on ev p) ->
  P13_adm c ev r w (validate c ev r w) = true.
Proof. exact P13_adm_model_on. Qed.
Print Assumptions C13_admission_texts_on.

(** the shipped registry: reasons are always specific (C13_reasons); what is
    left is that the details - which quote container, volume, capability ...
    names taken from the pod - do not spell the placeholder *)
Theorem C13_admission_texts_shipped : forall c r w,
  (forall ls p enforced, evaluated_object c r w = Some (ls, p, enforced) -> ev_details_plain_on shipped_ev p) ->
  P13_adm c shipped_ev r w (validate c shipped_ev r w) = true.
Proof. exact P13_adm_model_shipped. Qed.
Print Assumptions C13_admission_texts_shipped.

(** the listing clause alone ([P13_adm] without "never the placeholder") holds
    of every observation of the model with no hypothesis at all, and is implied
    by [P13_adm] *)
Theorem C13_admission_texts_core : forall c ev r w, P13_adm_core c ev r w (validate c ev r w) = true.
Proof. exact P13_adm_core_model. Qed.
Print Assumptions C13_admission_texts_core.
Theorem C13_admission_core_of : forall c ev r w o, P13_adm c ev r w o = true -> P13_adm_core c ev r w o = true.
Proof. exact P13_adm_core_of. Qed.
Print Assumptions C13_admission_core_of.

(** the hypothesis on reasons is needed: a denial without reason shows the placeholder *)
Example C13_admission_texts_needs_hyp :
  ev_privileged_allows no_reason_ev
  /\ rs_message (fst (validate cex_cfg no_reason_ev cex_req e13_world))
     = "violates PodSecurity ""baseline:latest"": unknown forbidden reason"
  /\ P13_adm cex_cfg no_reason_ev cex_req e13_world (validate cex_cfg no_reason_ev cex_req e13_world) = false
  /\ P13_adm_core cex_cfg no_reason_ev cex_req e13_world (validate cex_cfg no_reason_ev cex_req e13_world) = true.
Proof. exact P13_adm_needs_reasons. Qed.
(** the hypothesis on details is needed, even for the shipped registry: a
    privileged container NAMED "unknown forbidden reason" *)
Example C13_admission_texts_needs_plain_details :
  rs_message (fst (validate cex_cfg shipped_ev odd_req e13_world))
  = "violates PodSecurity ""baseline:latest"": privileged (container ""unknown forbidden reason"" must not set securityContext.privileged=true)"
  /\ P13_adm cex_cfg shipped_ev odd_req e13_world (validate cex_cfg shipped_ev odd_req e13_world) = false
  /\ P13_adm_core cex_cfg shipped_ev odd_req e13_world (validate cex_cfg shipped_ev odd_req e13_world) = true.
Proof. exact P13_adm_needs_plain_details. Qed.
(** the hypotheses are satisfiable and the relation is not vacuous: a denial that lists its control *)
Example C13_admission_texts_satisfiable :
  (ev_reasons_specific cex_ev /\ ev_privileged_allows cex_ev)
  /\ evaluated_object cex_cfg cex_req e13_world = Some ([(enforce_level_label, "baseline")], cex_pod, true)
  /\ rs_allowed (fst (validate cex_cfg cex_ev cex_req e13_world)) = false
  /\ rs_message (fst (validate cex_cfg cex_ev cex_req e13_world)) = "violates PodSecurity ""baseline:latest"": no"
  /\ lists_controls cex_ev (LV Baseline Latest) cex_pod
       (rs_message (fst (validate cex_cfg cex_ev cex_req e13_world))) = true.
Proof. exact (conj cex_ev_reasons_specific P13_adm_example). Qed.
