(** Spec/P18.v - the recorder half of C18. *)
From Coq Require Import List Bool NArith String.
From PSA Require Import Base.Str Model.Api Model.Admission Model.Metrics.
Import ListNotations.
Local Open Scope string_scope.

(** recordings of [k] since the last reset *)
Fixpoint since_reset (ops : list rec_op) (acc : list series) : list series :=
  match ops with
  | [] => acc
  | Rec k :: r => since_reset r (k :: acc)
  | Reset :: r => since_reset r []
  end.
Definition expected_count (ops : list rec_op) (k : series) : N :=
  N.of_nat (List.length (filter (series_eqb k) (since_reset ops []))).

(** [gathered]: the non-zero series the implementation reports after the history *)
Definition P18_counts (ops : list rec_op) (gathered : list (series * N)) : bool :=
  (* every gathered series has exactly the number of recordings since the last reset *)
  forallb (fun kv : series * N => N.eqb (snd kv) (expected_count ops (fst kv))) gathered
  (* and every recorded series is reported *)
  && forallb (fun k => negb (N.eqb (expected_count ops k) 0) && existsb (fun kv : series * N => series_eqb k (fst kv)) gathered
                       || N.eqb (expected_count ops k) 0)
             (since_reset ops []).

(** bounded label values: latest, future, or v1.k with k not newer than the server's minor *)
Definition bounded_version_labels (server_minor : N) : list string :=
  "latest" :: "future" :: map (fun k => version_string (V 1 (N.of_nat k))) (seq 0 (S (N.to_nat server_minor))).
Definition P18_label (server_minor : N) (label : string) : bool := mem label (bounded_version_labels server_minor).
