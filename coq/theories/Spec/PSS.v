(** Spec/PSS.v - the Pod Security Standards, v1.0 .. latest, written as
    declarative boolean predicates over the abstract pod.

    Source: https://kubernetes.io/docs/concepts/security/pod-security-standards/
    (the "Baseline" and "Restricted" tables, with the per-version history kept in
    the policy documentation comments of each control).  Each clause below cites
    the row it transcribes.  Everything is stated as "every init, regular and
    ephemeral container ..." / "the pod-level field ...".

    Interpretation choices (also listed in DESIGN.md):
    * R4: up to v1.18 seccomp is governed by annotations; the per-container key
      container.seccomp.security.alpha.kubernetes.io/<name> is defined per
      container *name*, so the wildcard ranges over the pod's containers.
    * an empty AppArmor annotation value counts as "undefined".
    * a version newer than every published one means the newest published rules.
    * "restricted" is "baseline plus the restricted table" (the standard's own
      definition: "Everything from the Baseline policy" + ...). *)
From Coq Require Import List Bool NArith ZArith String.
From PSA Require Import Base.Str Model.Api Model.Pod.
Import ListNotations.
Local Open Scope string_scope.

Definition every_container (f : container -> bool) (p : pod) : bool := forallb f (all_containers p).

(* ------------------------------------------------------------- allow-lists *)

(** Baseline / Capabilities *)
Definition pss_capabilities : list string :=
  ["AUDIT_WRITE"; "CHOWN"; "DAC_OVERRIDE"; "FOWNER"; "FSETID"; "KILL"; "MKNOD"; "NET_BIND_SERVICE";
   "SETFCAP"; "SETGID"; "SETPCAP"; "SETUID"; "SYS_CHROOT"].

(** Baseline / Sysctls, by version *)
Definition pss_sysctls_base : list string :=
  ["kernel.shm_rmid_forced"; "net.ipv4.ip_local_port_range"; "net.ipv4.ip_unprivileged_port_start";
   "net.ipv4.tcp_syncookies"; "net.ipv4.ping_group_range"].
Definition pss_sysctls (minor : N) : list string :=
  pss_sysctls_base
  +:+ (if N.leb 27 minor then ["net.ipv4.ip_local_reserved_ports"] else [])
  +:+ (if N.leb 29 minor then ["net.ipv4.tcp_keepalive_time"; "net.ipv4.tcp_fin_timeout";
                              "net.ipv4.tcp_keepalive_intvl"; "net.ipv4.tcp_keepalive_probes"] else [])
  +:+ (if N.leb 32 minor then ["net.ipv4.tcp_rmem"; "net.ipv4.tcp_wmem"] else []).

(** Baseline / SELinux types, by version ("" = undefined) *)
Definition pss_selinux_types (minor : N) : list string :=
  [""; "container_t"; "container_init_t"; "container_kvm_t"]
  +:+ (if N.leb 31 minor then ["container_engine_t"] else []).

(** Restricted / Volume Types *)
Definition pss_volume_types : list string :=
  ["configMap"; "csi"; "downwardAPI"; "emptyDir"; "ephemeral"; "persistentVolumeClaim"; "projected"; "secret"].

(* ---------------------------------------------------------------- baseline *)

(** HostProcess: windowsOptions.hostProcess in {undefined, false} at pod and container level *)
Definition not_host_process (o : option (option bool)) : bool :=
  match o with Some (Some true) => false | _ => true end.
Definition ok_hostProcess (p : pod) : bool :=
  not_host_process (psc p_winHP p) && every_container (fun c => not_host_process (csc sc_winHP c)) p.

(** Host Namespaces *)
Definition ok_hostNamespaces (p : pod) : bool :=
  negb (pd_hostNetwork p) && negb (pd_hostPID p) && negb (pd_hostIPC p).

(** Privileged Containers *)
Definition ok_privileged (p : pod) : bool :=
  every_container (fun c => match csc sc_privileged c with Some true => false | _ => true end) p.

(** Capabilities (baseline): every added capability is in the default set *)
Definition ok_capabilities_baseline (p : pod) : bool :=
  every_container (fun c => match csc sc_caps c with
                            | Some (add, _) => forallb (fun x => mem x pss_capabilities) add
                            | None => true end) p.

(** HostPath Volumes *)
Definition ok_hostPath (p : pod) : bool :=
  forallb (fun v => negb (mem "hostPath" (v_sources v))) (pd_volumes p).

(** Host Ports: undefined or 0 *)
Definition ok_hostPorts (p : pod) : bool :=
  every_container (fun c => forallb (fun z => Z.eqb z 0) (c_hostPorts c)) p.

(** AppArmor: annotation values runtime/default, localhost/*, empty; field types RuntimeDefault, Localhost *)
Definition ok_apparmor_type (o : option string) : bool :=
  match o with
  | Some t => String.eqb t "RuntimeDefault" || String.eqb t "Localhost"
  | None => true
  end.
Definition ok_appArmor (p : pod) : bool :=
  forallb (fun kv : string * string =>
             negb (has_prefix "container.apparmor.security.beta.kubernetes.io/" (fst kv))
             || String.eqb (snd kv) "" || String.eqb (snd kv) "runtime/default"
             || has_prefix "localhost/" (snd kv)) (pd_annotations p)
  && ok_apparmor_type (psc p_apparmor p)
  && every_container (fun c => ok_apparmor_type (csc sc_apparmor c)) p.

(** SELinux *)
Definition ok_selinux_opts (minor : N) (o : option selinux) : bool :=
  match o with
  | Some s => mem (se_type s) (pss_selinux_types minor) && String.eqb (se_user s) ""
              && String.eqb (se_role s) ""
  | None => true
  end.
Definition ok_seLinux (minor : N) (p : pod) : bool :=
  ok_selinux_opts minor (psc p_selinux p) && every_container (fun c => ok_selinux_opts minor (csc sc_selinux c)) p.

(** /proc Mount Type *)
Definition ok_procMount (p : pod) : bool :=
  every_container (fun c => match csc sc_procMount c with
                            | Some t => String.eqb t "Default" | None => true end) p.

(** Seccomp (baseline) *)
Definition ok_seccomp_type_or_undefined (o : option string) : bool :=
  match o with
  | Some t => String.eqb t "RuntimeDefault" || String.eqb t "Localhost"
  | None => true
  end.
Definition ok_seccomp_annotation (p : pod) (key : string) : bool :=
  match lookup key (pd_annotations p) with
  | Some v => String.eqb v "runtime/default" || String.eqb v "docker/default" || has_prefix "localhost/" v
  | None => true
  end.
Definition ok_seccomp_baseline (minor : N) (p : pod) : bool :=
  if N.ltb minor 19 then
    ok_seccomp_annotation p "seccomp.security.alpha.kubernetes.io/pod"
    && every_container (fun c => ok_seccomp_annotation p
                                   ("container.seccomp.security.alpha.kubernetes.io/" ++ c_name c)) p
  else
    ok_seccomp_type_or_undefined (psc p_seccomp p)
    && every_container (fun c => ok_seccomp_type_or_undefined (csc sc_seccomp c)) p.

(** Sysctls *)
Definition ok_sysctls (minor : N) (p : pod) : bool :=
  match pd_sc p with
  | Some s => forallb (fun n => mem n (pss_sysctls minor)) (p_sysctls s)
  | None => true
  end.

Definition baseline_compliant (minor : N) (p : pod) : bool :=
  ok_hostProcess p && ok_hostNamespaces p && ok_privileged p && ok_capabilities_baseline p
  && ok_hostPath p && ok_hostPorts p && ok_appArmor p && ok_seLinux minor p && ok_procMount p
  && ok_seccomp_baseline minor p && ok_sysctls minor p.

(* -------------------------------------------------------------- restricted *)

(** from v1.25 pods declaring os=windows are exempt from the Linux-only restricted controls *)
Definition windows_exempt (minor : N) (p : pod) : bool := N.leb 25 minor && is_windows p.

(** Volume Types: every volume uses one of the allowed kinds *)
Definition ok_volumeTypes (p : pod) : bool :=
  forallb (fun v => existsb (fun k => mem k pss_volume_types) (v_sources v)) (pd_volumes p).

(** Privilege Escalation (v1.8+): allowPrivilegeEscalation = false on every container *)
Definition ok_allowPrivilegeEscalation (minor : N) (p : pod) : bool :=
  N.ltb minor 8 || windows_exempt minor p ||
  every_container (fun c => match csc sc_allowPE c with Some false => true | _ => false end) p.

(** Running as Non-root: no level sets false; a container that leaves it unset is covered only by pod-level true *)
Definition ok_runAsNonRoot (p : pod) : bool :=
  let pod_v := psc p_runAsNonRoot p in
  match pod_v with Some false => false | _ => true end &&
  every_container (fun c => match csc sc_runAsNonRoot c with
                            | Some b => b
                            | None => match pod_v with Some true => true | _ => false end
                            end) p.

(** Running as Non-root user (v1.23+): runAsUser is never 0 *)
Definition nonzero_user (o : option Z) : bool := match o with Some z => negb (Z.eqb z 0) | None => true end.
Definition ok_runAsUser (minor : N) (p : pod) : bool :=
  N.ltb minor 23 ||
  (nonzero_user (psc p_runAsUser p) && every_container (fun c => nonzero_user (csc sc_runAsUser c)) p).

(** Seccomp (restricted, v1.19+): RuntimeDefault or Localhost; a container that leaves it unset is covered by a valid pod-level profile *)
Definition valid_seccomp (t : string) : bool := String.eqb t "RuntimeDefault" || String.eqb t "Localhost".
Definition ok_seccomp_restricted (minor : N) (p : pod) : bool :=
  N.ltb minor 19 || windows_exempt minor p ||
  (let pod_v := psc p_seccomp p in
   match pod_v with Some t => valid_seccomp t | None => true end &&
   every_container (fun c => match csc sc_seccomp c with
                             | Some t => valid_seccomp t
                             | None => match pod_v with Some t => valid_seccomp t | None => false end
                             end) p).

(** Capabilities (restricted, v1.22+): drop ALL, add nothing but NET_BIND_SERVICE *)
Definition ok_capabilities_restricted (minor : N) (p : pod) : bool :=
  N.ltb minor 22 || windows_exempt minor p ||
  every_container (fun c => match csc sc_caps c with
                            | Some (add, drop) => mem "ALL" drop && forallb (fun x => String.eqb x "NET_BIND_SERVICE") add
                            | None => false end) p.

Definition restricted_controls (minor : N) (p : pod) : bool :=
  ok_volumeTypes p && ok_allowPrivilegeEscalation minor p && ok_runAsNonRoot p && ok_runAsUser minor p
  && ok_seccomp_restricted minor p && ok_capabilities_restricted minor p.

(** "Restricted: everything from the baseline profile" plus the restricted table *)
Definition compliant (l : level) (minor : N) (p : pod) : bool :=
  match l with
  | Privileged => true
  | Baseline => baseline_compliant minor p
  | Restricted => baseline_compliant minor p && restricted_controls minor p
  end.

(** the minor a version stands for; latest and anything beyond the newest
    published version (v1.32) mean the newest published rules *)
Definition newest_published : N := 32.
Definition effective_minor (v : version) : option N :=
  match v with
  | Latest => Some newest_published
  | V 1 m => Some (N.min m newest_published)
  | V _ _ => None
  end.

(* --------------------------- the published revision history, per control *)

(** which control revision the standard has in force at a level and minor, named
    as the policy package names its revisions (this is the table
    https://kubernetes.io/docs/concepts/security/pod-security-standards/ carries
    in its "changed in version" notes) *)
Definition pss_baseline_revisions (minor : N) : list string :=
  ["appArmorProfile_1_0"; "capabilitiesBaseline_1_0"; "hostNamespaces_1_0"; "hostPathVolumes_1_0";
   "hostPorts_1_0"; "privileged_1_0"; "procMount_1_0";
   (if N.leb 31 minor then "seLinuxOptions1_31" else "seLinuxOptions1_0");
   (if N.leb 19 minor then "seccompProfileBaseline_1_19" else "seccompProfileBaseline_1_0");
   (if N.leb 32 minor then "sysctlsV1Dot32" else if N.leb 29 minor then "sysctlsV1Dot29"
    else if N.leb 27 minor then "sysctlsV1Dot27" else "sysctlsV1Dot0");
   "windowsHostProcess_1_0"].

Definition pss_restricted_revisions (minor : N) : list string :=
  filter (fun n => negb ((String.eqb n "hostPathVolumes_1_0")
                         || (N.leb 22 minor && String.eqb n "capabilitiesBaseline_1_0")
                         || (N.leb 19 minor && has_prefix "seccompProfileBaseline" n)))
         (pss_baseline_revisions minor)
  +:+ (if N.leb 25 minor then ["allowPrivilegeEscalation_1_25"]
       else if N.leb 8 minor then ["allowPrivilegeEscalation_1_8"] else [])
  +:+ (if N.leb 25 minor then ["capabilitiesRestricted_1_25"]
       else if N.leb 22 minor then ["capabilitiesRestricted_1_22"] else [])
  +:+ ["restrictedVolumes_1_0"; "runAsNonRoot_1_0"]
  +:+ (if N.leb 23 minor then ["runAsUser_1_23"] else [])
  +:+ (if N.leb 25 minor then ["seccompProfileRestricted_1_25"]
       else if N.leb 19 minor then ["seccompProfileRestricted_1_19"] else []).

(** what each named revision must decide, in terms of the predicates above *)
Definition revision_spec (name : string) : option (pod -> bool) :=
  let is s := String.eqb name s in
  if is "appArmorProfile_1_0" then Some ok_appArmor
  else if is "capabilitiesBaseline_1_0" then Some ok_capabilities_baseline
  else if is "hostNamespaces_1_0" then Some ok_hostNamespaces
  else if is "hostPathVolumes_1_0" then Some ok_hostPath
  else if is "hostPorts_1_0" then Some ok_hostPorts
  else if is "privileged_1_0" then Some ok_privileged
  else if is "procMount_1_0" then Some ok_procMount
  else if is "seLinuxOptions1_0" then Some (ok_seLinux 0)
  else if is "seLinuxOptions1_31" then Some (ok_seLinux 31)
  else if is "seccompProfileBaseline_1_0" then Some (ok_seccomp_baseline 0)
  else if is "seccompProfileBaseline_1_19" then Some (ok_seccomp_baseline 19)
  else if is "sysctlsV1Dot0" then Some (ok_sysctls 0)
  else if is "sysctlsV1Dot27" then Some (ok_sysctls 27)
  else if is "sysctlsV1Dot29" then Some (ok_sysctls 29)
  else if is "sysctlsV1Dot32" then Some (ok_sysctls 32)
  else if is "windowsHostProcess_1_0" then Some ok_hostProcess
  else if is "allowPrivilegeEscalation_1_8" then Some (ok_allowPrivilegeEscalation 8)
  else if is "allowPrivilegeEscalation_1_25" then Some (ok_allowPrivilegeEscalation 25)
  else if is "capabilitiesRestricted_1_22" then Some (ok_capabilities_restricted 22)
  else if is "capabilitiesRestricted_1_25" then Some (ok_capabilities_restricted 25)
  else if is "restrictedVolumes_1_0" then Some ok_volumeTypes
  else if is "runAsNonRoot_1_0" then Some ok_runAsNonRoot
  else if is "runAsUser_1_23" then Some (ok_runAsUser 23)
  else if is "seccompProfileRestricted_1_19" then Some (ok_seccomp_restricted 19)
  else if is "seccompProfileRestricted_1_25" then Some (ok_seccomp_restricted 25)
  else None.
