(** Spec/P16.v - what C16 demands of one HTTP exchange, and of a concurrent run. *)
From Coq Require Import List Bool NArith ZArith String.
From PSA Require Import Base.Str Model.Api Model.Admission Model.Webhook.
Import ListNotations.
Local Open Scope string_scope.

Definition well_formed_review (q : http_request) : bool :=
  hq_has_body q && N.ltb (hq_size q) 3145728 && String.eqb (hq_ctype q) "application/json"
  && match hq_payload q with Review _ _ _ => true | _ => false end.

(** [lib] is the admission library's own decision for the review's request (allow bit) *)
Definition P16 (q : http_request) (lib_allowed : option bool) (status : Z) (uid : option string) (allowed : option bool) : bool :=
  if well_formed_review q then
    Z.eqb status 200
    && match hq_payload q with
       | Review u _ _ => opt_eqb String.eqb uid (Some u) && opt_eqb Bool.eqb allowed lib_allowed
       | _ => false
       end
  else
    (* an HTTP error status, never an allow *)
    Z.leb 400 status && Z.ltb status 600 && negb (is_some allowed)
    && (negb (hq_has_body q) || negb (N.leb 3145728 (hq_size q)) || Z.eqb status 413).
