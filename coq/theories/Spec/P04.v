(** Spec/P04.v - what property C04 demands of version resolution, written from
    the property text, for check sets whose revisions carry an opaque payload. *)
From Coq Require Import List Bool NArith String.
From PSA Require Import Base.Str Model.Api Model.Registry.
Import ListNotations.
Local Open Scope string_scope.

Section P04.
  Variable F : Type.
  Notation check := (check F).
  Notation vcheck := (vcheck F).

  Definition count_id (id : string) (cs : list check) : nat :=
    List.length (filter (fun c => String.eqb (ck_id c) id) cs).

  Fixpoint strictly_increasing (vs : list version) : bool :=
    match vs with
    | a :: (b :: _) as r => older a b && strictly_increasing r
    | _ => true
    end.

  Definition level_of_id (cs : list check) (id : string) : list string :=
    map (@ck_level F) (filter (fun c => String.eqb (ck_id c) id) cs).

  (** "malformed check sets (duplicate ids, unset/'latest'/non-increasing versions,
      invalid level, overrides by or of a non-baseline check) are refused" *)
  Definition wf_check (cs : list check) (c : check) : bool :=
    Nat.eqb (count_id (ck_id c) cs) 1
    && (String.eqb (ck_level c) "baseline" || String.eqb (ck_level c) "restricted")
    && negb (is_nil (ck_versions c))
    && forallb (fun r => negb (version_eqb (vc_min r) (V 0 0)) &&
                         negb (version_eqb (vc_min r) Latest)) (ck_versions c)
    && strictly_increasing (map (@vc_min F) (ck_versions c))
    && forallb (fun r => is_nil (vc_overrides r) ||
                         (String.eqb (ck_level c) "restricted" &&
                          forallb (fun o => forallb (fun l => String.eqb l "baseline") (level_of_id cs o))
                                  (vc_overrides r)))
               (ck_versions c).
  Definition well_formed (cs : list check) : bool := forallb (wf_check cs) cs.

  (** R1: the registry assumes a single major version *)
  Definition majors_one (cs : list check) : bool :=
    forallb (fun c => forallb (fun r => match vc_min r with V 1 _ => true | _ => false end) (ck_versions c)) cs.

  (** newest MinimumVersion over all registered revisions *)
  Definition newest (cs : list check) : version :=
    fold_right (fun v acc => if older acc v then v else acc) (V 0 0)
               (flat_map (fun c => map (@vc_min F) (ck_versions c)) cs).

  (** "'latest' and any version newer than every registered revision behave as the newest registered version" *)
  Definition clamp (cs : list check) (v : version) : version :=
    if older (newest cs) v then newest cs else v.

  (** "the revision with the greatest minimum version not newer than V" *)
  Definition active_rev (c : check) (v : version) : option vcheck :=
    fold_left (fun acc r => if older v (vc_min r) then acc else Some r) (ck_versions c) None.

  Definition part (restricted : bool) (cs : list check) (v : version) : list (string * vcheck) :=
    flat_map (fun id =>
                flat_map (fun c => if String.eqb (ck_id c) id && Bool.eqb (String.eqb (ck_level c) "restricted") restricted
                                   then match active_rev c v with Some r => [(id, r)] | None => [] end
                                   else []) cs)
             (ssort (map (@ck_id F) (filter (fun c => Bool.eqb (String.eqb (ck_level c) "restricted") restricted) cs))).

  Definition expected (cs : list check) (l : level) (v : version) : list (string * vcheck) :=
    let v' := clamp cs v in
    let b := part false cs v' in
    let r := part true cs v' in
    let overridden := flat_map (fun x => vc_overrides (snd x)) r in
    match l with
    | Privileged => []
    | Baseline => b
    | Restricted => filter (fun x => negb (mem (fst x) overridden)) b +:+ r
    end.
End P04.

Arguments well_formed {F}. Arguments majors_one {F}. Arguments expected {F}. Arguments newest {F}.
Arguments clamp {F}. Arguments active_rev {F}. Arguments part {F}. Arguments wf_check {F}.

(** P_04 on the observation of a marker check set: whether NewEvaluator
    returned an error, and for each (level, version) the markers returned. *)
Definition P04 (cs : list (check string)) (err : bool) (rows : list (level * version * list string)) : bool :=
  if negb (well_formed cs) then err
  else if negb (majors_one cs) then true
  else negb err &&
       forallb (fun row : level * version * list string =>
                  let '(l, v, got) := row in
                  list_eqb String.eqb got (map (fun x => vc_fn (snd x)) (expected cs l v))) rows.
