(** Spec/PAdm.v - the relations P_01, P_06 .. P_12 (and the admission half of
    P_18): what the properties demand of one admission request, as boolean
    relations over  configuration x request x oracle answers  and the observed
    response + effect trace (+ the observations of a few related requests).
    Written from the property texts.  Shares with the model only datatypes,
    label resolution *spec* (Spec/P05.v), and small list helpers. *)
From Coq Require Import List Bool NArith ZArith String.
From PSA Require Import Base.Str Model.Api Model.Pod Model.Checks Model.Registry Model.Admission Spec.P05.
Import ListNotations.
Local Open Scope string_scope.

Definition obs := (response * list event)%type.
Definition imp (a b : bool) : bool := negb a || b.

Definition ann (k : string) (r : response) : option string := lookup k (rs_audit r).
Definition is_eval (e : event) : bool := match e with EvEval _ _ => true | _ => false end.
Definition eval_events (tr : list event) : list (lv * string) :=
  flat_map (fun e => match e with EvEval x n => [(x, n)] | _ => [] end) tr.
Definition has_eval (tr : list event) : bool := existsb is_eval tr.
Definition count_ev (f : event -> bool) (tr : list event) : nat := List.length (filter f tr).
Definition is_list (e : event) : bool := match e with EvList _ => true | _ => false end.
Definition is_mexempt (e : event) : bool := match e with MExempt => true | _ => false end.
Definition is_merror (fatal : bool) (e : event) : bool :=
  match e with MError f => Bool.eqb f fatal | _ => false end.
Definition is_meval (m : emode) (e : event) : bool :=
  match e, m with
  | MEval _ _ ModeEnforce, ModeEnforce | MEval _ _ ModeAudit, ModeAudit | MEval _ _ ModeWarn, ModeWarn => true
  | _, _ => false
  end.

Definition violates (ev : evaluator) (x : lv) (p : pod) : bool := negb (forallb cr_allowed (ev x p)).
Definition detail_of (ev : evaluator) (x : lv) (p : pod) : string :=
  forbidden_detail (aggregate_results (ev x p)).

(** "exactly equal to an entry of the corresponding configured exemption list; empty values never match" *)
Definition s_exempt (x : string) (l : list string) : bool := negb (String.eqb x "") && existsb (String.eqb x) l.
Definition s_exempt_rc (c : config) (p : pod) : bool :=
  match pd_runtimeClass p with Some s => s_exempt s (cf_ex_rcs c) | None => false end.

Definition is_pods (r : request) : bool := String.eqb (r_group r) "" && String.eqb (r_resource r) "pods".
Definition is_namespaces (r : request) : bool := String.eqb (r_group r) "" && String.eqb (r_resource r) "namespaces".
Definition is_controller (r : request) : bool := negb (is_pods r) && negb (is_namespaces r).
Definition s_ignored_sub (s : string) : bool :=
  existsb (String.eqb s) ["exec"; "attach"; "binding"; "eviction"; "log"; "portforward"; "proxy"; "status"].

(** "changes any init, regular or ephemeral container image, or adds a container" *)
Fixpoint s_images_same (a b : list container) : bool :=
  match a, b with
  | [], [] => true
  | x :: a', y :: b' => String.eqb (c_image x) (c_image y) && s_images_same a' b'
  | _, _ => false
  end.
Definition s_significant (new old : pod) : bool :=
  negb (s_images_same (pd_containers new) (pd_containers old) && s_images_same (pd_init new) (pd_init old)
        && forallb (fun c => existsb (fun oc => String.eqb (c_name oc) (c_name c)) (pd_ephemeral old)
                             && match find (fun oc => String.eqb (c_name oc) (c_name c)) (pd_ephemeral old) with
                                | Some oc => String.eqb (c_image oc) (c_image c) | None => false end)
                   (pd_ephemeral new)).

(** the pod a pod request asks to evaluate, if the request is a non-exempt pod
    CREATE or significant UPDATE whose dependencies all answer *)
Definition evaluated_pod (c : config) (r : request) (w : world) : option (labels * pod) :=
  if is_pods r && negb (s_ignored_sub (r_subresource r))
     && negb (s_exempt (r_namespace r) (cf_ex_namespaces c)) && negb (s_exempt (r_user r) (cf_ex_users c))
  then match w_ns w, r_object r with
       | Some ls, OPod p =>
           if s_exempt_rc c p then None
           else match r_op r with
                | OpUpdate => match r_old r with
                              | OPod o => if s_significant p o then Some (ls, p) else None
                              | _ => None end
                | _ => Some (ls, p)
                end
       | _, _ => None
       end
  else None.

Definition s_fully_privileged (p : policy) : bool :=
  level_eqb (lv_level (enforce p)) Privileged && level_eqb (lv_level (audit p)) Privileged
  && level_eqb (lv_level (warn p)) Privileged.

(* ---------------------------------------------------------------- P_01 *)
(** allowed iff the pod satisfies the resolved enforce policy; a denial is a 403
    Forbidden naming level:version; the enforce-policy annotation names the level
    (and below privileged the version) actually enforced *)
Definition P01 (c : config) (ev : evaluator) (r : request) (w : world) (o : obs) : bool :=
  match evaluated_pod c r w with
  | None => true
  | Some (ls, p) =>
      let pol := spec_policy ls (cf_defaults c) in
      let e := enforce pol in
      let resp := fst o in
      Bool.eqb (rs_allowed resp) (negb (violates ev e p))
      && imp (negb (rs_allowed resp))
             (opt_eqb Z.eqb (rs_code resp) (Some 403%Z) && String.eqb (rs_reason resp) "Forbidden"
              && contains (go_quote (lv_string e)) (rs_message resp))
      && match ann "enforce-policy" resp with
         | Some s => if level_eqb (lv_level e) Privileged then has_prefix "privileged:" s
                     else String.eqb s (lv_string e)
         | None => false
         end
  end.

(* ---------------------------------------------------------------- P_06 *)
Definition dimension_matches (c : config) (r : request) (p : option pod) (d : string) : bool :=
  (String.eqb d "namespace" && s_exempt (r_namespace r) (cf_ex_namespaces c))
  || (String.eqb d "user" && s_exempt (r_user r) (cf_ex_users c))
  || (String.eqb d "runtimeClass" && match p with Some p => s_exempt_rc c p | None => false end).
Definition request_pod (r : request) : option pod :=
  match r_object r with
  | OPod p => Some p
  | OController _ (Some p) => Some p
  | _ => None
  end.
Definition any_dimension_matches (c : config) (r : request) : bool :=
  s_exempt (r_namespace r) (cf_ex_namespaces c) || s_exempt (r_user r) (cf_ex_users c)
  || match request_pod r with Some p => s_exempt_rc c p | None => false end.
Definition resp_eqb (a b : response) : bool :=
  Bool.eqb (rs_allowed a) (rs_allowed b) && opt_eqb Z.eqb (rs_code a) (rs_code b)
  && String.eqb (rs_reason a) (rs_reason b) && String.eqb (rs_message a) (rs_message b)
  && list_eqb String.eqb (rs_warnings a) (rs_warnings b)
  && list_eqb (fun x y : string * string => String.eqb (fst x) (fst y) && String.eqb (snd x) (snd y))
              (rs_audit a) (rs_audit b).
(** [o0] is the observation of the same request under the same configuration with all exemption lists emptied *)
Definition P06 (c : config) (r : request) (w : world) (o o0 : obs) : bool :=
  if is_namespaces r then true else
  let resp := fst o in
  (* an exempt marking names a dimension that matched exactly, is allowed and unevaluated *)
  match ann "exempt" resp with
  | Some d => dimension_matches c r (request_pod r) d && rs_allowed resp && negb (has_eval (snd o))
              && Nat.eqb (count_ev is_mexempt (snd o)) 1
  | None => true
  end
  (* the only bypass: evaluated without exemptions but not with them => marked exempt *)
  && imp (has_eval (snd o0) && negb (has_eval (snd o))) (is_some (ann "exempt" resp) && rs_allowed resp)
  (* no near-miss: when no dimension matches exactly, exemptions change nothing *)
  && imp (negb (any_dimension_matches c r)) (resp_eqb resp (fst o0) && Nat.eqb (count_ev is_mexempt (snd o)) 0).

(** "An exempt request is always allowed and never evaluated": when the request's
    namespace or user matches exactly, a pod request (outside the ignored
    subresources) or controller request (without subresource) is allowed, marked,
    and unevaluated whatever its dependencies answer.  (The runtime-class
    dimension is consulted only once the pod is decoded - remark R3 - and is
    covered by P06.) *)
Definition P06_always_allowed (c : config) (r : request) (o : obs) : bool :=
  if is_namespaces r then true else
  if (is_pods r && s_ignored_sub (r_subresource r)) || (is_controller r && negb (String.eqb (r_subresource r) ""))
  then true else
  imp (s_exempt (r_namespace r) (cf_ex_namespaces c) || s_exempt (r_user r) (cf_ex_users c))
      (rs_allowed (fst o) && is_some (ann "exempt" (fst o)) && negb (has_eval (snd o))
       && is_nil (filter (fun e => match e with EvNsLookup | EvDecode | EvDecodeOld => true | _ => false end) (snd o))).

(** dry runs skip exactly the pods with an exempt runtime class (no cap, no expiry in force) *)
Definition P06_dryrun (c : config) (w : world) (o : obs) : bool :=
  match w_pods w with
  | Some pods =>
      let keep := filter (fun p => negb (s_exempt_rc c p)) pods in
      imp (existsb is_list (snd o) && Nat.leb (List.length keep) (cf_max_pods c) && negb (is_some (w_expire_after w)))
          (list_eqb String.eqb (ssort (map snd (eval_events (snd o)))) (ssort (map pd_name keep)))
  | None => true
  end.

(* ---------------------------------------------------------------- P_07 *)
Definition has_error_ann (r : response) : bool := is_some (ann "error" r).
Definition P07 (c : config) (ev : evaluator) (r : request) (w : world) (o : obs) : bool :=
  let resp := fst o in
  let not_exempt := negb (s_exempt (r_namespace r) (cf_ex_namespaces c)) && negb (s_exempt (r_user r) (cf_ex_users c)) in
  if is_pods r then
    if s_ignored_sub (r_subresource r) || negb not_exempt then true else
    match w_ns w with
    | None => negb (rs_allowed resp) && opt_eqb Z.eqb (rs_code resp) (Some 500%Z) && has_error_ann resp
              && Nat.eqb (count_ev (is_merror true) (snd o)) 1
    | Some ls =>
        let pol := spec_policy ls (cf_defaults c) in
        let errs := spec_errs ls in
        if is_nil errs && s_fully_privileged pol then rs_allowed resp && negb (has_eval (snd o)) else
        let decode_ok := match r_object r with OPod _ => true | _ => false end
                         && match r_op r with
                            | OpUpdate => match r_old r with OPod _ => true | _ => false end
                            | _ => true end in
        if negb decode_ok then
          negb (rs_allowed resp) && opt_eqb Z.eqb (rs_code resp) (Some 400%Z) && has_error_ann resp
          && negb (has_eval (snd o)) && Nat.eqb (count_ev (is_merror true) (snd o)) 1
        else
          (* never let through unevaluated: allowed only if insignificant, exempt by runtime class, or compliant *)
          match r_object r with
          | OPod p =>
              let insignificant := match r_op r, r_old r with
                                   | OpUpdate, OPod old => negb (s_significant p old) | _, _ => false end in
              imp (rs_allowed resp) (insignificant || s_exempt_rc c p || negb (violates ev (enforce pol) p))
              (* malformed labels never skip evaluation and are flagged *)
              && imp (negb (is_nil errs) && negb insignificant && negb (s_exempt_rc c p))
                     (existsb (fun e => lv_eqb (fst e) (enforce pol)) (eval_events (snd o)) && has_error_ann resp
                      && Nat.eqb (count_ev (is_merror false) (snd o)) 1)
          | _ => true
          end
    end
  else if is_controller r then
    rs_allowed resp &&
    (if negb (String.eqb (r_subresource r) "") || negb not_exempt then true else
     match w_ns w with
     | None => has_error_ann resp && Nat.eqb (count_ev (is_merror true) (snd o)) 1
     | Some ls =>
         let pol := spec_policy ls (cf_defaults c) in
         let errs := spec_errs ls in
         if is_nil errs && level_eqb (lv_level (warn pol)) Privileged && level_eqb (lv_level (audit pol)) Privileged
         then true
         else match r_object r with
              | OPod p | OController _ (Some p) =>
                  imp (negb (is_nil errs) && negb (s_exempt_rc c p))
                      (has_eval (snd o) && has_error_ann resp && Nat.eqb (count_ev (is_merror false) (snd o)) 1)
              | OController _ None => true
              | _ => has_error_ann resp && Nat.eqb (count_ev (is_merror true) (snd o)) 1
              end
     end)
  else
    (* namespace requests *)
    if negb (String.eqb (r_subresource r) "") then true else
    match r_object r with
    | ODecodeErr _ => negb (rs_allowed resp) && opt_eqb Z.eqb (rs_code resp) (Some 400%Z)
    | ONamespace _ _ =>
        match r_op r, r_old r with
        | OpUpdate, ODecodeErr _ => negb (rs_allowed resp) && opt_eqb Z.eqb (rs_code resp) (Some 400%Z)
        | _, _ =>
            (* listing failure or expiry never blocks; list failure is reported as a warning *)
            imp (existsb is_list (snd o))
                (rs_allowed resp &&
                 match w_pods w with
                 | None => list_eqb String.eqb (rs_warnings resp)
                                    ["failed to list pods while checking new PodSecurity enforce level"]
                 | Some _ => true
                 end)
        end
    | _ => true
    end.

(** "cancellation, or running out of time during a namespace update never blocks
    the update and is reported as a warning": when the context expires after pod
    #k and pods remain unchecked, the update is allowed and a warning says so *)
Definition P07_expiry_reported (c : config) (r : request) (w : world) (o : obs) : bool :=
  if negb (is_namespaces r) then true else
  match w_pods w, w_expire_after w with
  | Some pods, Some k =>
      imp (existsb is_list (snd o)
           && Nat.ltb (S k) (List.length (firstn (cf_max_pods c) (filter (fun p => negb (s_exempt_rc c p)) pods))))
          (rs_allowed (fst o)
           && existsb (has_prefix "new PodSecurity enforce level only checked against the first ") (rs_warnings (fst o))
           && Nat.eqb (List.length (eval_events (snd o))) (S k))
  | _, _ => true
  end.

(* ---------------------------------------------------------------- P_08 *)
(** the pod (or template) a request evaluates, with the labels of its namespace, and whether enforce applies *)
Definition evaluated_object (c : config) (r : request) (w : world) : option (labels * pod * bool) :=
  match evaluated_pod c r w with
  | Some (ls, p) => Some (ls, p, true)
  | None =>
      if is_controller r && String.eqb (r_subresource r) ""
         && negb (s_exempt (r_namespace r) (cf_ex_namespaces c)) && negb (s_exempt (r_user r) (cf_ex_users c))
      then match w_ns w, r_object r with
           | Some ls, OPod p | Some ls, OController _ (Some p) =>
               if s_exempt_rc c p then None else Some (ls, p, false)
           | _, _ => None
           end
      else None
  end.

Definition P08 (c : config) (ev : evaluator) (r : request) (w : world) (o : obs) : bool :=
  match evaluated_object c r w with
  | None => true
  | Some (ls, p, enforced) =>
      let pol := spec_policy ls (cf_defaults c) in
      let errs := spec_errs ls in
      let resp := fst o in
      (* short circuits that return before evaluation carry no findings *)
      if is_nil errs && (if enforced then s_fully_privileged pol
                         else level_eqb (lv_level (warn pol)) Privileged && level_eqb (lv_level (audit pol)) Privileged)
      then is_nil (rs_warnings resp) && negb (is_some (ann "audit-violations" resp))
      else
        (* audit/warn never decide: the allow bit is the enforce verdict alone (controllers: always allowed) *)
        Bool.eqb (rs_allowed resp) (if enforced then negb (violates ev (enforce pol) p) else true)
        && list_eqb String.eqb (rs_warnings resp)
             (if rs_allowed resp && violates ev (warn pol) p
              then ["would violate PodSecurity " ++ go_quote (lv_string (warn pol)) ++ ": " ++ detail_of ev (warn pol) p]
              else [])
        && opt_eqb String.eqb (ann "audit-violations" resp)
             (if violates ev (audit pol) p
              then Some ("would violate PodSecurity " ++ go_quote (lv_string (audit pol)) ++ ": " ++ detail_of ev (audit pol) p)
              else None)
  end.

(** P_08 as evaluated on the implementation's observations: the same clauses, but
    the texts are only required to *name their own level:version* (the property's
    wording), not to be byte-identical to today's sentences; the per-control
    content of the messages is C13's subject.  [P08] above (exact text) is what
    the model is proved to satisfy; it implies this relation. *)
Definition names_policy (x : lv) (text : string) : bool := contains (lv_string x) text.
Definition P08_obs (c : config) (ev : evaluator) (r : request) (w : world) (o : obs) : bool :=
  match evaluated_object c r w with
  | None => true
  | Some (ls, p, enforced) =>
      let pol := spec_policy ls (cf_defaults c) in
      let errs := spec_errs ls in
      let resp := fst o in
      if is_nil errs && (if enforced then s_fully_privileged pol
                         else level_eqb (lv_level (warn pol)) Privileged && level_eqb (lv_level (audit pol)) Privileged)
      then is_nil (rs_warnings resp) && negb (is_some (ann "audit-violations" resp))
      else
        Bool.eqb (rs_allowed resp) (if enforced then negb (violates ev (enforce pol) p) else true)
        && (if rs_allowed resp && violates ev (warn pol) p
            then match rs_warnings resp with [t] => names_policy (warn pol) t | _ => false end
            else is_nil (rs_warnings resp))
        && (if violates ev (audit pol) p
            then match ann "audit-violations" resp with Some t => names_policy (audit pol) t | None => false end
            else negb (is_some (ann "audit-violations" resp)))
  end.

(** C13 on admission texts: the denial message, the warning and the audit annotation each list every
    violated control of their own level:version - each reason as often as controls carry it *)
Fixpoint count_sub (sub s : string) : nat :=
  match s with
  | EmptyString => if String.eqb sub "" then 1 else 0
  | String _ rest => (if String.prefix sub s then 1 else 0) + count_sub sub rest
  end.
Definition lists_controls (ev : evaluator) (x : lv) (p : pod) (text : string) : bool :=
  let reasons := ag_reasons (aggregate_results (ev x p)) in
  forallb (fun r => negb (String.eqb r "") &&
                    Nat.leb (List.length (filter (String.eqb r) reasons)) (count_sub r text)) reasons
  && negb (contains "unknown forbidden reason" text).
Definition P13_adm (c : config) (ev : evaluator) (r : request) (w : world) (o : obs) : bool :=
  match evaluated_object c r w with
  | None => true
  | Some (ls, p, enforced) =>
      let pol := spec_policy ls (cf_defaults c) in
      let resp := fst o in
      imp (enforced && negb (rs_allowed resp) && opt_eqb Z.eqb (rs_code resp) (Some 403%Z))
          (lists_controls ev (enforce pol) p (rs_message resp))
      && forallb (lists_controls ev (warn pol) p) (rs_warnings resp)
      && match ann "audit-violations" resp with Some t => lists_controls ev (audit pol) p t | None => true end
  end.

(* ---------------------------------------------------------------- P_09 *)
(** [o_pod]: observation of the bare-pod CREATE of the same template in a
    namespace with the same labels except enforce := privileged (if any) *)
Definition P09 (c : config) (ev : evaluator) (r : request) (w : world) (o : obs) (o_pod : option obs) : bool :=
  if negb (is_controller r) then true else
  let resp := fst o in
  rs_allowed resp
  && negb (existsb (is_meval ModeEnforce) (snd o)) && negb (is_some (ann "enforce-policy" resp))
  && imp (negb (String.eqb (r_subresource r) "") ||
          match r_object r with OController _ None => true | _ => false end)
         (is_nil (rs_warnings resp) && negb (is_some (ann "audit-violations" resp)) && negb (has_eval (snd o)))
  && match o_pod with
     | Some op => imp (rs_allowed (fst op))
                      (list_eqb String.eqb (rs_warnings resp) (rs_warnings (fst op))
                       && opt_eqb String.eqb (ann "audit-violations" resp) (ann "audit-violations" (fst op)))
     | None => true
     end.

(* ---------------------------------------------------------------- P_10 *)
(** [o_create]: the same request as a CREATE; [o_nosub]: the same request with subresource "" *)
Definition P10 (c : config) (r : request) (w : world) (o : obs) (o_create o_nosub : option obs) : bool :=
  if negb (is_pods r) then true else
  let resp := fst o in
  if s_ignored_sub (r_subresource r) then rs_allowed resp && is_nil (snd o) else
  match o_nosub with Some o2 => resp_eqb resp (fst o2) | None => true end
  && match r_op r, r_object r, r_old r with
     | OpUpdate, OPod p, OPod old =>
         if s_significant p old
         then match o_create with Some o2 => resp_eqb resp (fst o2) | None => true end
         else
           (* insignificant: allowed whatever the policy says, unless a dependency failed or an exemption answered first *)
           imp (is_some (w_ns w)) (rs_allowed resp && negb (has_eval (snd o)))
     | _, _, _ => true
     end.

(* ---------------------------------------------------------- P_11 / P_12 *)
Definition s_ferrs_eqb (a b : list ferr) : bool :=
  list_eqb (fun x y : ferr => String.eqb (fst x) (fst y) && String.eqb (snd x) (snd y)) a b.

(** is the dry run required? *)
Definition dry_run_required (c : config) (r : request) (new_ls old_ls : labels) : bool :=
  let np := spec_policy new_ls (cf_defaults c) in
  let op := spec_policy old_ls (cf_defaults c) in
  negb (lv_eqb (enforce np) (enforce op))
  && negb (level_eqb (lv_level (enforce np)) Privileged)
  && negb (version_eqb (lv_version (enforce np)) (lv_version (enforce op))
           && N.leb (strictness (lv_level (enforce np))) (strictness (lv_level (enforce op))))
  && negb (s_exempt (r_namespace r) (cf_ex_namespaces c)).

(** one owning controller's first pod before any of its siblings, order otherwise kept *)
Fixpoint s_first_of_each (seen : list string) (pods : list pod) : list pod :=
  match pods with
  | [] => []
  | p :: rest => match pd_ownerUID p with
                 | Some u => if existsb (String.eqb u) seen then s_first_of_each seen rest
                             else p :: s_first_of_each (u :: seen) rest
                 | None => p :: s_first_of_each seen rest
                 end
  end.
Fixpoint s_siblings (seen : list string) (pods : list pod) : list pod :=
  match pods with
  | [] => []
  | p :: rest => match pd_ownerUID p with
                 | Some u => if existsb (String.eqb u) seen then p :: s_siblings seen rest
                             else s_siblings (u :: seen) rest
                 | None => s_siblings seen rest
                 end
  end.
Definition s_prioritized (c : config) (pods : list pod) : list pod :=
  let keep := filter (fun p => negb (s_exempt_rc c p)) pods in
  s_first_of_each [] keep +:+ s_siblings [] keep.

(** the report over a list of checked pods: one line per distinct violation
    text, with the least pod name and the exact count, sorted *)
Definition s_reason (ev : evaluator) (x : lv) (p : pod) : string :=
  forbidden_reason (aggregate_results (ev x p)).
Fixpoint s_distinct (l : list string) : list string :=
  match l with
  | [] => []
  | x :: r => x :: filter (fun y => negb (String.eqb x y)) (s_distinct r)
  end.
Definition s_min_name (l : list string) : string :=
  match l with
  | [] => ""
  | x :: r => fold_left (fun m y => if String.ltb y m then y else m) r x
  end.
Definition s_line (first : string) (n : nat) (w : string) : string :=
  match n with
  | 0 => w
  | 1 => first ++ ": " ++ w
  | 2 => first ++ " (and 1 other pod): " ++ w
  | S k => first ++ " (and " ++ nat_to_string k ++ " other pods): " ++ w
  end.
Definition s_report (ev : evaluator) (x : lv) (checked : list pod) : list string :=
  let bad := filter (violates ev x) checked in
  let texts := s_distinct (map (s_reason ev x) bad) in
  ssort (map (fun t => let group := filter (fun p => String.eqb (s_reason ev x p) t) bad in
                       s_line (s_min_name (map pd_name group)) (List.length group) t) texts).

Definition s_dry_run_warnings (c : config) (ev : evaluator) (nsname : string) (x : lv) (w : world) : list string :=
  match w_pods w with
  | None => ["failed to list pods while checking new PodSecurity enforce level"]
  | Some pods =>
      let pr := s_prioritized c pods in
      let total := List.length pr in
      let capped := firstn (cf_max_pods c) pr in
      let checked := match w_expire_after w with
                     | Some k => firstn (S k) capped
                     | None => capped end in
      let n := List.length checked in
      (if Nat.ltb n total
       then ["new PodSecurity enforce level only checked against the first " ++ nat_to_string n ++ " of "
             ++ nat_to_string total ++ " existing pods"] else [])
      +:+ (if existsb (violates ev x) checked
           then ["existing pods in namespace " ++ go_quote nsname ++ " violate the new PodSecurity enforce level "
                 ++ go_quote (lv_string x)] else [])
      +:+ s_report ev x checked
  end.

Definition P11 (c : config) (ev : evaluator) (r : request) (w : world) (o : obs) : bool :=
  if negb (is_namespaces r) || negb (String.eqb (r_subresource r) "") then true else
  let resp := fst o in
  match r_object r with
  | ONamespace name ls =>
      let errs := spec_errs ls in
      let rejected := negb (rs_allowed resp) in
      let invalid_422 := opt_eqb Z.eqb (rs_code resp) (Some 422%Z) && String.eqb (rs_reason resp) "Invalid"
                         && list_eqb String.eqb (map fst (rs_causes resp)) (map fst errs) in
      match r_op r with
      | OpCreate => Bool.eqb rejected (negb (is_nil errs)) && imp rejected invalid_422
                    && negb (existsb is_list (snd o))
      | OpUpdate =>
          match r_old r with
          | ONamespace _ old_ls =>
              let old_errs := spec_errs old_ls in
              let must_reject := negb (is_nil errs) && (is_nil old_errs || negb (s_ferrs_eqb errs old_errs)) in
              Bool.eqb rejected must_reject && imp rejected invalid_422
              && Bool.eqb (existsb is_list (snd o)) (negb must_reject && dry_run_required c r ls old_ls)
              && imp (existsb is_list (snd o))
                     (list_eqb String.eqb (rs_warnings resp)
                        (s_dry_run_warnings c ev name (enforce (spec_policy ls (cf_defaults c))) w))
          | _ => true
          end
      | OpOther _ => rs_allowed resp
      end
  | _ => true
  end.

(** "one line per distinct set of violated controls": the number of pod lines
    equals the number of distinct control sets among the violating checked pods.
    A control is identified by its reason up to the singular/plural wording of
    the AppArmor control (the only built-in reason that varies with the pod).
    This clause is NOT implied by P11: the implementation groups by reason
    text (finding F3, DESIGN.md section 1); it is evaluated separately. *)
Definition norm_reason (r : string) : string :=
  if String.eqb r "forbidden AppArmor profiles" then "forbidden AppArmor profile" else r.
Definition s_control_set (ev : evaluator) (x : lv) (p : pod) : string :=
  join ", " (map norm_reason (ag_reasons (aggregate_results (ev x p)))).
Definition is_pod_line (w : string) : bool :=
  negb (has_prefix "new PodSecurity enforce level only checked" w) && negb (has_prefix "existing pods in namespace" w)
  && negb (has_prefix "failed to list pods" w).
Definition P11_control_sets (c : config) (ev : evaluator) (r : request) (w : world) (o : obs) : bool :=
  if negb (is_namespaces r) then true else
  match r_object r, w_pods w with
  | ONamespace name ls, Some pods =>
      imp (existsb is_list (snd o))
          (let x := enforce (spec_policy ls (cf_defaults c)) in
           let pr := s_prioritized c pods in
           let capped := firstn (cf_max_pods c) pr in
           let checked := match w_expire_after w with Some k => firstn (S k) capped | None => capped end in
           let bad := filter (violates ev x) checked in
           Nat.eqb (List.length (filter is_pod_line (rs_warnings (fst o))))
                   (List.length (s_distinct (map (s_control_set ev x) bad))))
  | _, _ => true
  end.

(** bounded and honest: at most cap evaluations, in prioritised order, and the
    warnings are exactly the report of the pods actually checked *)
Definition P12 (c : config) (ev : evaluator) (r : request) (w : world) (o : obs) : bool :=
  if negb (is_namespaces r) then true else
  match r_object r, w_pods w with
  | ONamespace name ls, Some pods =>
      imp (existsb is_list (snd o))
          (let names := map snd (eval_events (snd o)) in
           let pr := s_prioritized c pods in
           let capped := firstn (cf_max_pods c) pr in
           let expected := match w_expire_after w with Some k => firstn (S k) capped | None => capped end in
           Nat.leb (List.length names) (cf_max_pods c)
           && list_eqb String.eqb names (map pd_name expected)
           && list_eqb String.eqb (rs_warnings (fst o))
                (s_dry_run_warnings c ev name (enforce (spec_policy ls (cf_defaults c))) w))
  | _, _ => true
  end.

(** the deadline handed to the lister: min(request deadline, now + min(timeout, remaining/2)) *)
Definition s_deadline (c : config) (deadline : option Z) (now : Z) : Z :=
  match deadline with
  | None => (now + cf_timeout c)%Z
  | Some d => Z.min d (now + Z.min (cf_timeout c) (Z.quot (d - now) 2))%Z
  end.

(* ------------------------------------------------------- P_18 (admission) *)
(** every evaluated pod request adds exactly one enforce evaluation matching the
    response; every exempted request exactly one exemption and nothing else;
    every failed request one error; ignored requests nothing; audit/warn denials
    counted iff reported *)
Definition P18_adm (c : config) (r : request) (w : world) (o : obs) : bool :=
  let resp := fst o in
  let tr := snd o in
  let n_enf := count_ev (is_meval ModeEnforce) tr in
  let n_aud := count_ev (is_meval ModeAudit) tr in
  let n_warn := count_ev (is_meval ModeWarn) tr in
  let n_ex := count_ev is_mexempt tr in
  let n_fatal := count_ev (is_merror true) tr in
  let n_metrics := n_enf + n_aud + n_warn + n_ex + n_fatal + count_ev (is_merror false) tr in
  if is_namespaces r then Nat.eqb n_metrics 0 else
  (* exempted: one exemption and nothing else *)
  imp (is_some (ann "exempt" resp)) (Nat.eqb n_ex 1 && Nat.eqb n_metrics 1)
  && imp (negb (is_some (ann "exempt" resp))) (Nat.eqb n_ex 0)
  (* an enforce-policy annotation marks an evaluated pod request: exactly one enforce evaluation, decision = response *)
  && Bool.eqb (is_some (ann "enforce-policy" resp)) (Nat.eqb n_enf 1) && Nat.leb n_enf 1
  && forallb (fun e => match e with
                       | MEval deny _ ModeEnforce => Bool.eqb deny (negb (rs_allowed resp))
                       | _ => true end) tr
  (* audit / warn denials counted when and only when reported *)
  && Bool.eqb (is_some (ann "audit-violations" resp)) (Nat.eqb n_aud 1) && Nat.leb n_aud 1
  && Bool.eqb (negb (is_nil (rs_warnings resp))) (Nat.eqb n_warn 1) && Nat.leb n_warn 1
  (* failed at a call site: one fatal error; ignored requests: nothing *)
  && imp (Nat.eqb n_fatal 1) (has_error_ann resp && negb (has_eval tr))
  && Nat.leb n_fatal 1
  && imp ((is_pods r && s_ignored_sub (r_subresource r)) || (is_controller r && negb (String.eqb (r_subresource r) "")))
         (Nat.eqb n_metrics 0).
