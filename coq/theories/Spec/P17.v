(** Spec/P17.v - what C17 demands of configuration loading and validation. *)
From Coq Require Import List Bool NArith Ascii String.
From PSA Require Import Base.Str Model.Api Model.Config Spec.P05.
Import ListNotations.
Local Open Scope string_scope.

Definition count_key (k : string) (l : list string) : nat := List.length (filter (String.eqb k) l).

(** "accepted only if it is a PodSecurityConfiguration of a served version with no unknown or duplicated fields" *)
Definition s_acceptable (d : list member) : bool :=
  let keys := map member_key d in
  forallb (fun k => mem k ["apiVersion"; "kind"; "defaults"; "exemptions"] && Nat.eqb (count_key k keys) 1) keys
  && existsb (fun m => match m with
                       | MApiVersion v => existsb (fun sv => String.eqb v ("pod-security.admission.config.k8s.io/" ++ sv)) ["v1"; "v1beta1"; "v1alpha1"]
                       | _ => false end) d
  && existsb (fun m => match m with MKind k => String.eqb k "PodSecurityConfiguration" | _ => false end) d
  && forallb (fun m => match m with
                       | MDefaults es => forallb (fun e => mem (fst e) ["enforce"; "enforce-version"; "audit"; "audit-version"; "warn"; "warn-version"]
                                                           && Nat.eqb (count_key (fst e) (map fst es)) 1) es
                       | MExemptions es => forallb (fun e => mem (fst e) ["usernames"; "namespaces"; "runtimeClasses"]
                                                             && Nat.eqb (count_key (fst e) (map fst es)) 1) es
                       | _ => true end) d.

(** "omitted defaults become privileged/latest" *)
Definition s_value (k : string) (fallback : string) (d : list member) : string :=
  match flat_map (fun m => match m with MDefaults es => es | _ => [] end) d with
  | es => match find (fun e : string * string => String.eqb (fst e) k) es with
          | Some (_, v) => if String.eqb v "" then fallback else v
          | None => fallback end
  end.
Definition s_list (k : string) (d : list member) : list string :=
  match find (fun e : string * list string => String.eqb (fst e) k)
             (flat_map (fun m => match m with MExemptions es => es | _ => [] end) d) with
  | Some (_, v) => v | None => [] end.
Definition s_loaded (d : list member) : loaded :=
  Loaded (s_value "enforce" "privileged" d) (s_value "enforce-version" "latest" d)
         (s_value "audit" "privileged" d) (s_value "audit-version" "latest" d)
         (s_value "warn" "privileged" d) (s_value "warn-version" "latest" d)
         (s_list "usernames" d) (s_list "namespaces" d) (s_list "runtimeClasses" d).

Definition loaded_eqb (a b : loaded) : bool :=
  String.eqb (ld_enforce a) (ld_enforce b) && String.eqb (ld_enforce_version a) (ld_enforce_version b)
  && String.eqb (ld_audit a) (ld_audit b) && String.eqb (ld_audit_version a) (ld_audit_version b)
  && String.eqb (ld_warn a) (ld_warn b) && String.eqb (ld_warn_version a) (ld_warn_version b)
  && list_eqb String.eqb (ld_usernames a) (ld_usernames b) && list_eqb String.eqb (ld_namespaces a) (ld_namespaces b)
  && list_eqb String.eqb (ld_runtimeclasses a) (ld_runtimeclasses b).

(** observation of LoadFromData: None = error *)
Definition P17_load (i : input) (o : option loaded) : bool :=
  match i with
  | InEmpty => match o with Some c => loaded_eqb c (s_loaded []) | None => false end    (* empty input = the all-defaults document *)
  | InMalformed => negb (is_some o)
  | InDoc d => if s_acceptable d then match o with Some c => loaded_eqb c (s_loaded d) | None => false end
               else negb (is_some o)
  end.

(** well-formed exemption entries *)
Definition s_label (s : string) : bool :=
  negb (String.eqb s "") && Nat.leb (String.length s) 63
  && all_chars (fun c => is_lower_alnum c || Ascii.eqb c "-"%char) s
  && match s with String c _ => is_lower_alnum c | _ => false end
  && match last_char s with Some c => is_lower_alnum c | None => false end.
Definition s_subdomain (s : string) : bool :=
  Nat.leb (String.length s) 253
  && forallb (fun l => negb (String.eqb l "") && all_chars (fun c => is_lower_alnum c || Ascii.eqb c "-"%char) l
                       && match l with String c _ => is_lower_alnum c | _ => false end
                       && match last_char l with Some c => is_lower_alnum c | None => false end)
             (split_dots s EmptyString).
Fixpoint s_unique (l : list string) : bool := match l with [] => true | x :: r => negb (mem x r) && s_unique r end.

(** "validation accepts exactly the configurations whose six defaults parse and whose exemption entries are well-formed and unique" *)
Definition s_valid (c : loaded) : bool :=
  is_some (spec_level_of (ld_enforce c)) && is_some (spec_version_of (ld_enforce_version c))
  && is_some (spec_level_of (ld_audit c)) && is_some (spec_version_of (ld_audit_version c))
  && is_some (spec_level_of (ld_warn c)) && is_some (spec_version_of (ld_warn_version c))
  && forallb s_label (ld_namespaces c) && s_unique (ld_namespaces c)
  && forallb s_subdomain (ld_runtimeclasses c) && s_unique (ld_runtimeclasses c)
  && forallb (fun u => negb (String.eqb u "")) (ld_usernames c) && s_unique (ld_usernames c).

Definition imp_valid (a b : bool) : bool := negb a || b.
(** observation of validation (number of errors) and, for accepted configurations, of the policy an
    Admission built from it enforces on a namespace without labels (None = construction failed) *)
Definition P17_validate (c : loaded) (n_errors : nat) (enforced : option policy) : bool :=
  Bool.eqb (Nat.eqb n_errors 0) (s_valid c)
  && imp_valid (s_valid c)
       (match enforced, spec_level_of (ld_enforce c), spec_version_of (ld_enforce_version c),
              spec_level_of (ld_audit c), spec_version_of (ld_audit_version c),
              spec_level_of (ld_warn c), spec_version_of (ld_warn_version c) with
        | Some p, Some el, Some ev, Some al, Some av, Some wl, Some wv =>
            policy_eqb p (Policy (LV el ev) (LV al av) (LV wl wv))
        | _, _, _, _, _, _, _ => false
        end).
