(** Spec/P13.v - what C13 demands of violation messages. *)
From Coq Require Import List Bool NArith ZArith String.
From PSA Require Import Base.Str Model.Api Model.Pod Model.Checks Spec.PSS.
Import ListNotations.
Local Open Scope string_scope.

(** who a control is about: containers (explicit offenders set a bad value
    themselves; implicit offenders leave the field unset where the pod level does
    not cover them), volumes, or neither *)
Inductive subject :=
| Containers (explicit implicit : pod -> container -> bool) (pod_level : pod -> bool)
| Volumes (bad : volume -> bool)
| NoSubject.

Definition never (_ : pod) (_ : container) : bool := false.
Definition no_pod (_ : pod) : bool := false.

Definition bad_seccomp_explicit (_ : pod) (c : container) : bool :=
  match csc sc_seccomp c with Some t => negb (valid_seccomp t) | None => false end.
Definition pod_seccomp_bad (p : pod) : bool :=
  match psc p_seccomp p with Some t => negb (valid_seccomp t) | None => false end.

Definition subject_of (fn : string) : subject :=
  let is s := String.eqb fn s in
  if is "privileged_1_0" then
    Containers (fun _ c => match csc sc_privileged c with Some true => true | _ => false end) never no_pod
  else if is "capabilitiesBaseline_1_0" then
    Containers (fun _ c => match csc sc_caps c with
                           | Some (add, _) => negb (forallb (fun x => mem x pss_capabilities) add)
                           | None => false end) never no_pod
  else if is "hostPorts_1_0" then
    Containers (fun _ c => negb (forallb (fun z => Z.eqb z 0) (c_hostPorts c))) never no_pod
  else if is "procMount_1_0" then
    Containers (fun _ c => match csc sc_procMount c with Some t => negb (String.eqb t "Default") | None => false end) never no_pod
  else if is "seLinuxOptions1_0" then
    Containers (fun _ c => negb (ok_selinux_opts 0 (csc sc_selinux c))) never (fun p => negb (ok_selinux_opts 0 (psc p_selinux p)))
  else if is "seLinuxOptions1_31" then
    Containers (fun _ c => negb (ok_selinux_opts 31 (csc sc_selinux c))) never (fun p => negb (ok_selinux_opts 31 (psc p_selinux p)))
  else if is "seccompProfileBaseline_1_19" then Containers bad_seccomp_explicit never pod_seccomp_bad
  else if is "appArmorProfile_1_0" then
    Containers (fun _ c => negb (ok_apparmor_type (csc sc_apparmor c))) never (fun _ => true)
  else if is "windowsHostProcess_1_0" then
    Containers (fun _ c => negb (not_host_process (csc sc_winHP c))) never (fun p => negb (not_host_process (psc p_winHP p)))
  else if is "allowPrivilegeEscalation_1_8" || is "allowPrivilegeEscalation_1_25" then
    Containers (fun _ c => match csc sc_allowPE c with Some false => false | _ => true end) never no_pod
  else if is "capabilitiesRestricted_1_22" || is "capabilitiesRestricted_1_25" then
    Containers (fun _ c => match csc sc_caps c with
                           | Some (add, drop) => negb (mem "ALL" drop && forallb (fun x => String.eqb x "NET_BIND_SERVICE") add)
                           | None => true end) never no_pod
  else if is "runAsNonRoot_1_0" then
    Containers (fun _ c => match csc sc_runAsNonRoot c with Some false => true | _ => false end)
               (fun p c => match csc sc_runAsNonRoot c, psc p_runAsNonRoot p with
                           | None, Some true => false | None, _ => true | Some _, _ => false end)
               (fun p => match psc p_runAsNonRoot p with Some false => true | _ => false end)
  else if is "runAsUser_1_23" then
    Containers (fun _ c => negb (nonzero_user (csc sc_runAsUser c))) never (fun p => negb (nonzero_user (psc p_runAsUser p)))
  else if is "seccompProfileRestricted_1_19" || is "seccompProfileRestricted_1_25" then
    Containers bad_seccomp_explicit
               (fun p c => match csc sc_seccomp c with
                           | None => match psc p_seccomp p with Some t => negb (valid_seccomp t) | None => true end
                           | Some _ => false end)
               pod_seccomp_bad
  else if is "hostPathVolumes_1_0" then Volumes (fun v => mem "hostPath" (v_sources v))
  else if is "restrictedVolumes_1_0" then
    Volumes (fun v => negb (existsb (fun k => mem k pss_volume_types) (v_sources v)))
  else NoSubject.

(** names listed in a denial of revision [fn]: never a compliant object's name;
    every explicit offender is named; when only implicit offenders exist (and the
    pod level sets nothing bad) they are all named; volumes: exactly the offending ones *)
Definition P13_names (fn : string) (p : pod) (denied : bool) (names : list string) : bool :=
  if negb denied then is_nil names else
  match subject_of fn with
  | Containers ex im pl =>
      forallb (fun n => existsb (fun c => String.eqb (c_name c) n && (ex p c || im p c)) (all_containers p)) names
      && forallb (fun c => negb (ex p c) || mem (c_name c) names) (all_containers p)
      && (existsb (ex p) (all_containers p) || pl p
          || forallb (fun c => negb (im p c) || mem (c_name c) names) (all_containers p))
  | Volumes bad => list_eqb String.eqb names (map v_name (filter bad (pd_volumes p)))
  | NoSubject => is_nil names
  end.

(** a denying built-in revision gives a specific, non-empty reason *)
Definition P13_reason (r : check_result) : bool :=
  cr_allowed r || (negb (String.eqb (cr_reason r) "") && negb (String.eqb (cr_reason r) "unknown forbidden reason")).

(** the assembled evaluator returns, for (level, version), exactly the results of
    the standard's revisions for that version, each once, in the fixed order of
    the revision table - hence an order independent of the pod - and the
    aggregate texts list the denying ones in that order *)
Definition cr_same (a b : check_result) : bool :=
  Bool.eqb (cr_allowed a) (cr_allowed b) && String.eqb (cr_reason a) (cr_reason b) && String.eqb (cr_detail a) (cr_detail b).
Definition P13_eval (l : level) (v : version) (direct : string -> check_result)
           (results : list check_result) (agg_reason agg_detail : string) : bool :=
  match effective_minor v with
  | None => true
  | Some m =>
      let expected := match l with
                      | Privileged => []
                      | Baseline => map direct (pss_baseline_revisions m)
                      | Restricted => map direct (pss_restricted_revisions m) end in
      let denied := filter (fun r => negb (cr_allowed r)) results in
      list_eqb cr_same results expected
      && String.eqb agg_reason (join ", " (map cr_reason denied))
      && String.eqb agg_detail
           (join ", " (map (fun r => if String.eqb (cr_detail r) "" then cr_reason r
                                      else cr_reason r ++ " (" ++ cr_detail r ++ ")") denied))
      && negb (contains "unknown forbidden reason" agg_reason)
  end.
