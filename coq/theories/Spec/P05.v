(** Spec/P05.v - what property C05 demands, written from the property text.
    Independent of Model/Api.v's control flow: it shares only the datatypes
    [level], [version], [policy], the label-key constants and [lookup]. *)
From Coq Require Import List Bool NArith Ascii String.
From PSA Require Import Base.Str Model.Api.
Import ListNotations.
Local Open Scope string_scope.

(** "levels parse only as the three exact names" *)
Definition spec_level_of (s : string) : option level :=
  if String.eqb s "privileged" then Some Privileged
  else if String.eqb s "baseline" then Some Baseline
  else if String.eqb s "restricted" then Some Restricted
  else None.

(** "versions parse only as 'latest' or canonical 'v1.N'" - an independent
    recogniser: value of a non-empty ASCII digit string, no leading zero unless
    the string is exactly "0", value representable as a 64-bit int. *)
Definition digit_val (c : ascii) : option N :=
  let n := N_of_ascii c in
  if (N.leb 48 n && N.leb n 57)%bool then Some (n - 48)%N else None.
Fixpoint digits_val (acc : N) (s : string) : option N :=
  match s with
  | EmptyString => Some acc
  | String c r => match digit_val c with
                  | Some d => digits_val (acc * 10 + d)%N r
                  | None => None
                  end
  end.
Definition canonical_digits (s : string) : option N :=
  match s with
  | EmptyString => None
  | String c r =>
      if (Ascii.eqb c "0"%char && negb (String.eqb r ""))%bool then None
      else digits_val 0 s
  end.
Definition spec_version_of (s : string) : option version :=
  if String.eqb s "latest" then Some Latest
  else match strip_prefix "v1." s with
       | Some r => match canonical_digits r with
                   | Some n => if N.ltb n 9223372036854775808%N then Some (V 1 n) else None
                   | None => None
                   end
       | None => None
       end.

Inductive mode := MEnforce | MAudit | MWarn.
Definition level_key (m : mode) :=
  match m with MEnforce => enforce_level_label | MAudit => audit_level_label | MWarn => warn_level_label end.
Definition version_key (m : mode) :=
  match m with MEnforce => enforce_version_label | MAudit => audit_version_label | MWarn => warn_version_label end.
Definition default_of (m : mode) (d : policy) : lv :=
  match m with MEnforce => enforce d | MAudit => audit d | MWarn => warn d end.

(** absent -> default; unparsable enforce level -> restricted (fail closed);
    unparsable audit/warn level -> privileged (fail open) *)
Definition spec_level (m : mode) (ls : labels) (d : policy) : level :=
  match lookup (level_key m) ls with
  | None => lv_level (default_of m d)
  | Some s => match spec_level_of s with
              | Some l => l
              | None => match m with MEnforce => Restricted | _ => Privileged end
              end
  end.
(** absent -> default; unparsable -> latest *)
Definition spec_version (m : mode) (ls : labels) (d : policy) : version :=
  match lookup (version_key m) ls with
  | None => lv_version (default_of m d)
  | Some s => match spec_version_of s with Some v => v | None => Latest end
  end.

Definition strictness (l : level) : N :=
  match l with Privileged => 0 | Baseline => 1 | Restricted => 2 end%N.

(** "When a valid enforce level label is stricter than the default warn level
    and no warn level label exists, warn follows enforce (and its version unless
    a warn version label exists)." *)
Definition warn_follows (ls : labels) (d : policy) : bool :=
  match lookup enforce_level_label ls, lookup warn_level_label ls with
  | Some s, None =>
      match spec_level_of s with
      | Some l => N.ltb (strictness (lv_level (warn d))) (strictness l)
      | None => false
      end
  | _, _ => false
  end.

Definition spec_policy (ls : labels) (d : policy) : policy :=
  let e := LV (spec_level MEnforce ls d) (spec_version MEnforce ls d) in
  let a := LV (spec_level MAudit ls d) (spec_version MAudit ls d) in
  let w :=
    if warn_follows ls d then
      LV (lv_level e)
         (match lookup warn_version_label ls with
          | Some _ => spec_version MWarn ls d
          | None => lv_version e
          end)
    else LV (spec_level MWarn ls d) (spec_version MWarn ls d) in
  Policy e a w.

(** "each bad label is reported as a field error on exactly that label" *)
Definition spec_label_err (is_level : bool) (key : string) (ls : labels) : list ferr :=
  match lookup key ls with
  | None => []
  | Some s =>
      if (if is_level then is_some (spec_level_of s) else is_some (spec_version_of s))
      then [] else [(key, s)]
  end.
Definition spec_errs (ls : labels) : list ferr :=
  spec_label_err true enforce_level_label ls ++ spec_label_err false enforce_version_label ls ++
  spec_label_err true audit_level_label ls ++ spec_label_err false audit_version_label ls ++
  spec_label_err true warn_level_label ls ++ spec_label_err false warn_version_label ls.

Definition policy_eqb (p q : policy) : bool :=
  lv_eqb (enforce p) (enforce q) && lv_eqb (audit p) (audit q) && lv_eqb (warn p) (warn q).

(** ---- the relation P_05 over observations ---- *)

(** observation of PolicyToEvaluate *)
Definition P05_policy (ls : labels) (d : policy) (o : policy * list ferr) : bool :=
  policy_eqb (fst o) (spec_policy ls d) && list_eqb ferr_eqb (snd o) (spec_errs ls).

(** observation of ParseVersion s: (ok, the returned version, String() of it) *)
Definition P05_version (s : string) (o : bool * version * string) : bool :=
  let '(ok, v, printed) := o in
  match spec_version_of s with
  | Some v' => ok && version_eqb v v' && String.eqb printed s
  | None => negb ok && version_eqb v Latest
  end.

(** observation of ParseLevel s: (ok, returned level) *)
Definition P05_level (s : string) (o : bool * level) : bool :=
  let '(ok, l) := o in
  match spec_level_of s with
  | Some l' => ok && level_eqb l l' && String.eqb (level_string l) s
  | None => negb ok && level_eqb l Restricted
  end.

(** observation of Version.String then ParseVersion, for a constructed version:
    (printed, reparsed ok, reparsed version) *)
Definition P05_print (v : version) (o : string * bool * version) : bool :=
  let '(printed, ok, v') := o in
  match v with
  | Latest => String.eqb printed "latest" && ok && version_eqb v' Latest
  | V 1 n => if N.ltb n 9223372036854775808%N then ok && version_eqb v' v else true
  | _ => true
  end.
