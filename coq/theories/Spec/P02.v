(** Spec/P02.v, P03, P19: relations over observations of the shipped checks. *)
From Coq Require Import List Bool NArith String.
From PSA Require Import Base.Str Model.Api Model.Pod Model.Checks Spec.PSS.
Import ListNotations.
Local Open Scope string_scope.

Definition relaxed_for (relax : bool) (p : pod) : bool :=
  relax && match pd_hostUsers p with Some false => true | _ => false end.

(** C02, evaluator level: the aggregate verdict equals the standard *)
Definition P02_eval (relax : bool) (l : level) (v : version) (p : pod) (allowed : bool) : bool :=
  if negb (api_valid p) || relaxed_for relax p then true
  else match effective_minor v with
       | Some m => Bool.eqb allowed (compliant l m p)
       | None => true
       end.

(** C02, revision level: each named revision decides its row of the standard
    (no validity hypothesis is needed at this level) *)
Definition P02_check (relax : bool) (fn : string) (p : pod) (allowed : bool) : bool :=
  if relaxed_for relax p then true
  else match revision_spec fn with
       | Some f => Bool.eqb allowed (f p)
       | None => true   (* a revision the standard's transcription does not know: reported through the table obligation *)
       end.

(** C03: on an API-valid pod, restricted allowed implies baseline allowed *)
Definition P03 (p : pod) (restricted_allowed baseline_allowed : bool) : bool :=
  negb (api_valid p) || negb restricted_allowed || baseline_allowed.

(** C19: results per control id with the switch off/on for hostUsers nil/true/false.
    [res h relax] is the list of (control id, result text) in a fixed order. *)
Definition waived_controls : list string := ["runAsNonRoot"; "runAsUser"; "procMount"].

(** with the switch off, hostUsers changes nothing; with it on, only pods with
    hostUsers=false change, and for them only the three controls, which allow.
    [obs] lists, for hostUsers value h and switch r, the per-revision results in
    the order of [ids] (the control id of each revision). *)
Definition cr_eqb (a b : check_result) : bool :=
  Bool.eqb (cr_allowed a) (cr_allowed b) && String.eqb (cr_reason a) (cr_reason b)
  && String.eqb (cr_detail a) (cr_detail b).
Definition hu_eqb (a b : option bool) : bool := opt_eqb Bool.eqb a b.
Fixpoint obs_get (h : option bool) (r : bool) (obs : list (option bool * bool * list check_result)) : list check_result :=
  match obs with
  | [] => []
  | (h', r', l) :: rest => if hu_eqb h h' && Bool.eqb r r' then l else obs_get h r rest
  end.
Definition P19 (ids : list string) (obs : list (option bool * bool * list check_result)) : bool :=
  let R := fun h r => obs_get h r obs in
  let same := list_eqb cr_eqb in
  same (R (Some true) false) (R None false) && same (R (Some false) false) (R None false)
  && same (R None true) (R None false) && same (R (Some true) true) (R (Some true) false)
  && same (R (Some false) true)
          (map (fun x : string * check_result => if mem (fst x) waived_controls then cr_ok else snd x)
               (combine ids (R (Some false) false)))
  && Nat.eqb (List.length (R None false)) (List.length ids).

(** C02 side conditions on the tables regenerated from the source *)
Definition same_set (a b : list string) : bool :=
  forallb (fun x => mem x b) a && forallb (fun x => mem x a) b.
Definition lists_ok (al : allowlists) : bool :=
  same_set (al_caps al) pss_capabilities
  && same_set (al_sysctls_0 al) (pss_sysctls 0) && same_set (al_sysctls_27 al) (pss_sysctls 27)
  && same_set (al_sysctls_29 al) (pss_sysctls 29) && same_set (al_sysctls_32 al) (pss_sysctls 32)
  && same_set (al_selinux_0 al) (pss_selinux_types 0) && same_set (al_selinux_31 al) (pss_selinux_types 31).
Definition same_names (a b : list string) : bool := list_eqb String.eqb (ssort a) (ssort b).
(** the revisions the registered table resolves at every published minor are the standard's *)
Definition table_ok (resolve_names : level -> version -> list string) (maxv : version) : bool :=
  version_eqb maxv (V 1 newest_published) &&
  forallb (fun k => let m := N.of_nat k in
                    same_names (resolve_names Baseline (V 1 m)) (pss_baseline_revisions m) &&
                    same_names (resolve_names Restricted (V 1 m)) (pss_restricted_revisions m))
          (seq 0 33).
