(** Spec/P20.v - what C20 demands of one fixture, given the per-control results
    at the fixture's level and version. *)
From Coq Require Import List Bool NArith Ascii String.
From PSA Require Import Base.Str Model.Api Model.Pod.
Import ListNotations.
Local Open Scope string_scope.

(** ASCII lower-casing (fixture files are named after strings.ToLower(checkID)) *)
Definition lower_ascii (c : ascii) : ascii :=
  let n := N_of_ascii c in
  if (N.leb 65 n && N.leb n 90)%bool then ascii_of_N (n + 32) else c.
Fixpoint lower (s : string) : string :=
  match s with EmptyString => EmptyString | String c r => String (lower_ascii c) (lower r) end.

(** the API-server defaulting that matters to verdicts: a volume without any source is an emptyDir
    (k8s.io/kubernetes/pkg/apis/core/v1/defaults.go: SetDefaults_Volume) *)
Definition default_volumes (p : pod) : pod :=
  set_volumes p (map (fun v => if is_nil (v_sources v) then Volume (v_name v) ["emptyDir"] else v) (pd_volumes p)).

(** [ran]: for every control run at the fixture's level and version: (id, ids its active revision overrides, allowed?) *)
Definition P20 (pass : bool) (check_name : string) (ran : list (string * list string * bool)) : bool :=
  let allowed := forallb (fun x => snd x) ran in
  if pass then allowed
  else negb allowed &&
       existsb (fun x : string * list string * bool =>
                  let '(id, overrides, ok) := x in
                  negb ok && (String.eqb (lower id) check_name
                              || existsb (fun o => String.eqb (lower o) check_name) overrides)) ran.
