(** Proofs/Constants_table.v - the literals the model mirrors are the source's:
    computed side conditions over Gen/Constants.v (regenerated from /repo on every
    run through hooks H2/H3 and the exported api constants). *)
From Coq Require Import List Bool NArith ZArith String.
From PSA Require Import Base.Str Model.Api Model.Admission Model.Namespace Model.Webhook Model.Config Spec.P02 Spec.PAdm.
From PSA Require Gen.Constants.
Import ListNotations.
Local Open Scope string_scope.

(** C10: the ignored pod subresources of the source are the model's and the specification's eight names *)
Lemma ignored_subresources_are_source :
  same_set Gen.Constants.gen_ignored_pod_subresources ignored_pod_subresources = true
  /\ forallb (fun s => s_ignored_sub s) Gen.Constants.gen_ignored_pod_subresources = true
  /\ List.length Gen.Constants.gen_ignored_pod_subresources = 8.
Proof. vm_compute. repeat split; reflexivity. Qed.

(** C09: the pod-bearing resources registered in the source are pods and the eight controller kinds *)
Definition pss_pod_spec_resources : list string :=
  ["/pods"; "/podtemplates"; "/replicationcontrollers"; "apps/daemonsets"; "apps/deployments"; "apps/replicasets";
   "apps/statefulsets"; "batch/cronjobs"; "batch/jobs"].
Lemma pod_spec_resources_are_source : same_set Gen.Constants.gen_pod_spec_resources pss_pod_spec_resources = true.
Proof. vm_compute. reflexivity. Qed.

(** C12: the production cap and timeout *)
Lemma dry_run_defaults_are_source :
  Gen.Constants.gen_default_max_pods = 3000%N /\ Gen.Constants.gen_default_timeout_ns = 1000000000%Z.
Proof. vm_compute. split; reflexivity. Qed.

(** C16: the body limit *)
Lemma max_request_size_is_source : Gen.Constants.gen_max_request_size = max_request_size.
Proof. vm_compute. reflexivity. Qed.

(** C05 / C01: label and annotation keys *)
Lemma label_keys_are_source :
  Gen.Constants.gen_label_keys = [enforce_level_label; enforce_version_label; audit_level_label; audit_version_label;
                                  warn_level_label; warn_version_label].
Proof. vm_compute. reflexivity. Qed.
Lemma annotation_keys_are_source : Gen.Constants.gen_annotation_keys = ["exempt"; "audit-violations"; "enforce-policy"].
Proof. vm_compute. reflexivity. Qed.

(** C17: the versions the scheme serves *)
Lemma served_versions_are_source : same_set Gen.Constants.gen_served_config_versions served_versions = true.
Proof. vm_compute. reflexivity. Qed.
