(** Proofs/AdmFactsB.v - proofs of C06 (exemptions), C07 (dependency failures)
    and C10 (updates and subresources) about Model/Admission.v and
    Model/Namespace.v, against the relations of Spec/PAdm.v. *)
From Coq Require Import List Bool NArith ZArith String Lia Btauto.
From Coq Require Import Sorting.Sorted Sorting.Permutation.
From PSA Require Import Base.Str Model.Api Model.Pod Model.Checks Model.Registry
     Model.Admission Model.Namespace Spec.P05 Spec.PAdm Proofs.ApiFacts Proofs.StrFacts.
Import ListNotations.
Local Open Scope string_scope.

Definition no_exemptions (c : config) : config :=
  Config (cf_defaults c) [] [] [] (cf_max_pods c) (cf_timeout c).

(* ------------------------------------------------------------ small facts *)

Lemma B_imp_true_r a : imp a true = true.
Proof. now destruct a. Qed.

Lemma B_let_pair {A B C} (x : A * B) (f : A -> B -> C) :
  (let '(a, b) := x in f a b) = f (fst x) (snd x).
Proof. now destruct x. Qed.

Lemma B_opt_Z_eqb_refl o : opt_eqb Z.eqb o o = true.
Proof. destruct o; simpl; [apply Z.eqb_refl|reflexivity]. Qed.

Lemma B_pair_eqb_refl l :
  list_eqb (fun x y : string * string => String.eqb (fst x) (fst y) && String.eqb (snd x) (snd y)) l l = true.
Proof. apply list_eqb_refl. intros [a b]; simpl. now rewrite !String.eqb_refl. Qed.

Lemma B_resp_eqb_refl a : resp_eqb a a = true.
Proof.
  unfold resp_eqb.
  rewrite Bool.eqb_reflx, B_opt_Z_eqb_refl, !String.eqb_refl, B_pair_eqb_refl.
  rewrite (list_eqb_refl String.eqb String.eqb_refl). reflexivity.
Qed.

Lemma B_ag_allowed rs : ag_allowed (aggregate_results rs) = forallb cr_allowed rs.
Proof.
  unfold aggregate_results; cbn [ag_allowed].
  induction rs as [|x rs IH]; [reflexivity|].
  cbn [filter forallb]. destruct (cr_allowed x); cbn [negb andb map is_nil]; [exact IH|reflexivity].
Qed.

(* ------------------------------------------------------------ dispatch *)

Lemma B_pods_not_ns r : is_pods r = true -> is_namespaces r = false.
Proof.
  unfold is_pods, is_namespaces. intros H. apply andb_true_iff in H. destruct H as [_ H].
  apply String.eqb_eq in H. rewrite H. apply andb_false_r.
Qed.

Lemma B_validate_ns c ev r w : is_namespaces r = true -> validate c ev r w = validate_namespace c ev r w.
Proof. unfold validate, is_namespaces. now intros ->. Qed.

Lemma B_validate_pods c ev r w : is_pods r = true -> validate c ev r w = validate_pod c ev r w.
Proof.
  intros H. pose proof (B_pods_not_ns r H) as H'. unfold validate, is_pods, is_namespaces in *.
  now rewrite H', H.
Qed.

Lemma B_validate_ctrl c ev r w : is_controller r = true -> validate c ev r w = validate_controller c ev r w.
Proof.
  unfold is_controller, validate, is_pods, is_namespaces. intros H.
  apply andb_true_iff in H. destruct H as [H1 H2].
  apply negb_true_iff in H1, H2. now rewrite H1, H2.
Qed.

Lemma B_kinds r : is_namespaces r = true \/ is_pods r = true \/ is_controller r = true.
Proof. unfold is_controller. destruct (is_namespaces r), (is_pods r); auto. Qed.

(* ------------------------------------------------- guards: model = spec *)

Lemma B_exempt_in_spec x l : exempt_in x l = s_exempt x l.
Proof. reflexivity. Qed.
Lemma B_exempt_ns_spec c r : exempt_namespace c (r_namespace r) = s_exempt (r_namespace r) (cf_ex_namespaces c).
Proof. reflexivity. Qed.
Lemma B_exempt_user_spec c r : exempt_user c (r_user r) = s_exempt (r_user r) (cf_ex_users c).
Proof. reflexivity. Qed.
Lemma B_exempt_rc_spec c p : exempt_runtimeclass c (pd_runtimeClass p) = s_exempt_rc c p.
Proof. reflexivity. Qed.
Lemma B_ignored_spec s : mem s ignored_pod_subresources = s_ignored_sub s.
Proof. reflexivity. Qed.
Lemma B_fully_priv_spec p : fully_privileged p = s_fully_privileged p.
Proof. reflexivity. Qed.

Lemma B_exempt_in_exact x l : exempt_in x l = true <-> (x <> "" /\ In x l).
Proof.
  unfold exempt_in. rewrite andb_true_iff, negb_true_iff, String.eqb_neq, mem_In. tauto.
Qed.

Lemma B_noex_ns c x : exempt_namespace (no_exemptions c) x = false.
Proof. unfold exempt_namespace, exempt_in. cbn. apply andb_false_r. Qed.
Lemma B_noex_user c x : exempt_user (no_exemptions c) x = false.
Proof. unfold exempt_user, exempt_in. cbn. apply andb_false_r. Qed.
Lemma B_noex_rc c x : exempt_runtimeclass (no_exemptions c) x = false.
Proof. destruct x; [|reflexivity]. unfold exempt_runtimeclass, exempt_in. cbn. apply andb_false_r. Qed.

(* ------------------------------------------------ significant updates *)

Lemma B_images_same a : forall b,
  s_images_same a b = Nat.eqb (List.length a) (List.length b) && negb (images_differ a b).
Proof.
  induction a as [|x a IH]; intros [|y b]; cbn [s_images_same images_differ List.length Nat.eqb]; try reflexivity.
  rewrite IH. destruct (String.eqb (c_image x) (c_image y)); cbn [negb orb andb]; [reflexivity|].
  apply eq_sym, andb_false_r.
Qed.

Lemma B_ephemeral new old :
  ephemeral_significant new old =
  negb (forallb (fun c => existsb (fun oc => String.eqb (c_name oc) (c_name c)) old
                          && match find (fun oc => String.eqb (c_name oc) (c_name c)) old with
                             | Some oc => String.eqb (c_image oc) (c_image c) | None => false end) new).
Proof.
  unfold ephemeral_significant.
  induction new as [|c new IH]; [reflexivity|].
  cbn [existsb forallb]. rewrite IH, negb_andb. f_equal.
  destruct (find (fun oc => String.eqb (c_name oc) (c_name c)) old) as [oc|] eqn:F.
  - apply find_some in F. destruct F as [Hin Hn].
    assert (E : existsb (fun oc => String.eqb (c_name oc) (c_name c)) old = true).
    { apply existsb_exists. now exists oc. }
    rewrite E. cbn [andb]. now rewrite (String.eqb_sym (c_image c)).
  - now rewrite andb_false_r.
Qed.

Lemma B_significant_spec p old : significant_update p old = s_significant p old.
Proof.
  unfold significant_update, s_significant.
  rewrite !B_images_same, B_ephemeral.
  destruct (Nat.eqb (List.length (pd_containers p)) (List.length (pd_containers old)));
  destruct (Nat.eqb (List.length (pd_init p)) (List.length (pd_init old)));
  destruct (images_differ (pd_containers p) (pd_containers old));
  destruct (images_differ (pd_init p) (pd_init old)); reflexivity.
Qed.
