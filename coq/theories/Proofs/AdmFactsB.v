(** Proofs/AdmFactsB.v - proofs of C06 (exemptions), C07 (dependency failures)
    and C10 (updates and subresources) about Model/Admission.v and
    Model/Namespace.v, against the relations of Spec/PAdm.v. *)
From Coq Require Import List Bool NArith ZArith String Lia Btauto.
From Coq Require Import Sorting.Sorted Sorting.Permutation.
From PSA Require Import Base.Str Model.Api Model.Pod Model.Checks Model.Registry
     Model.Admission Model.Namespace Spec.P05 Spec.PAdm Proofs.ApiFacts Proofs.StrFacts.
Import ListNotations.
Local Open Scope string_scope.

Definition no_exemptions (c : config) : config :=
  Config (cf_defaults c) [] [] [] (cf_max_pods c) (cf_timeout c).

(* ------------------------------------------------------------ small facts *)

Lemma B_imp_true_r a : imp a true = true.
Proof. now destruct a. Qed.

Lemma B_let_pair {A B C} (x : A * B) (f : A -> B -> C) :
  (let '(a, b) := x in f a b) = f (fst x) (snd x).
Proof. now destruct x. Qed.

Lemma B_opt_Z_eqb_refl o : opt_eqb Z.eqb o o = true.
Proof. destruct o; simpl; [apply Z.eqb_refl|reflexivity]. Qed.

Lemma B_pair_eqb_refl l :
  list_eqb (fun x y : string * string => String.eqb (fst x) (fst y) && String.eqb (snd x) (snd y)) l l = true.
Proof. apply list_eqb_refl. intros [a b]; simpl. now rewrite !String.eqb_refl. Qed.

Lemma B_resp_eqb_refl a : resp_eqb a a = true.
Proof.
  unfold resp_eqb.
  rewrite Bool.eqb_reflx, B_opt_Z_eqb_refl, !String.eqb_refl, B_pair_eqb_refl.
  rewrite (list_eqb_refl String.eqb String.eqb_refl). reflexivity.
Qed.

Lemma B_ag_allowed rs : ag_allowed (aggregate_results rs) = forallb cr_allowed rs.
Proof.
  unfold aggregate_results; cbn [ag_allowed].
  induction rs as [|x rs IH]; [reflexivity|].
  cbn [filter forallb]. destruct (cr_allowed x); cbn [negb andb map is_nil]; [exact IH|reflexivity].
Qed.

(* ------------------------------------------------------------ dispatch *)

Lemma B_pods_not_ns r : is_pods r = true -> is_namespaces r = false.
Proof.
  unfold is_pods, is_namespaces. intros H. apply andb_true_iff in H. destruct H as [_ H].
  apply String.eqb_eq in H. rewrite H. apply andb_false_r.
Qed.

Lemma B_validate_ns c ev r w : is_namespaces r = true -> validate c ev r w = validate_namespace c ev r w.
Proof. unfold validate, is_namespaces. now intros ->. Qed.

Lemma B_validate_pods c ev r w : is_pods r = true -> validate c ev r w = validate_pod c ev r w.
Proof.
  intros H. pose proof (B_pods_not_ns r H) as H'. unfold validate, is_pods, is_namespaces in *.
  now rewrite H', H.
Qed.

Lemma B_validate_ctrl c ev r w : is_controller r = true -> validate c ev r w = validate_controller c ev r w.
Proof.
  unfold is_controller, validate, is_pods, is_namespaces. intros H.
  apply andb_true_iff in H. destruct H as [H1 H2].
  apply negb_true_iff in H1, H2. now rewrite H1, H2.
Qed.

Lemma B_kinds r : is_namespaces r = true \/ is_pods r = true \/ is_controller r = true.
Proof. unfold is_controller. destruct (is_namespaces r), (is_pods r); auto. Qed.

(* ------------------------------------------------- guards: model = spec *)

Lemma B_exempt_in_spec x l : exempt_in x l = s_exempt x l.
Proof. reflexivity. Qed.
Lemma B_exempt_ns_spec c r : exempt_namespace c (r_namespace r) = s_exempt (r_namespace r) (cf_ex_namespaces c).
Proof. reflexivity. Qed.
Lemma B_exempt_user_spec c r : exempt_user c (r_user r) = s_exempt (r_user r) (cf_ex_users c).
Proof. reflexivity. Qed.
Lemma B_exempt_rc_spec c p : exempt_runtimeclass c (pd_runtimeClass p) = s_exempt_rc c p.
Proof. reflexivity. Qed.
Lemma B_ignored_spec s : mem s ignored_pod_subresources = s_ignored_sub s.
Proof. reflexivity. Qed.
Lemma B_fully_priv_spec p : fully_privileged p = s_fully_privileged p.
Proof. reflexivity. Qed.

Lemma B_exempt_in_exact x l : exempt_in x l = true <-> (x <> "" /\ In x l).
Proof.
  unfold exempt_in. rewrite andb_true_iff, negb_true_iff, String.eqb_neq, mem_In. tauto.
Qed.

Lemma B_noex_ns c x : exempt_namespace (no_exemptions c) x = false.
Proof. unfold exempt_namespace, exempt_in. cbn. apply andb_false_r. Qed.
Lemma B_noex_user c x : exempt_user (no_exemptions c) x = false.
Proof. unfold exempt_user, exempt_in. cbn. apply andb_false_r. Qed.
Lemma B_noex_rc c x : exempt_runtimeclass (no_exemptions c) x = false.
Proof. destruct x; [|reflexivity]. unfold exempt_runtimeclass, exempt_in. cbn. apply andb_false_r. Qed.

(* ------------------------------------------------ significant updates *)

Lemma B_images_same a : forall b,
  s_images_same a b = Nat.eqb (List.length a) (List.length b) && negb (images_differ a b).
Proof.
  induction a as [|x a IH]; intros [|y b]; cbn [s_images_same images_differ List.length Nat.eqb]; try reflexivity.
  rewrite IH. destruct (String.eqb (c_image x) (c_image y)); cbn [negb orb andb]; [reflexivity|].
  apply eq_sym, andb_false_r.
Qed.

Lemma B_ephemeral new old :
  ephemeral_significant new old =
  negb (forallb (fun c => existsb (fun oc => String.eqb (c_name oc) (c_name c)) old
                          && match find (fun oc => String.eqb (c_name oc) (c_name c)) old with
                             | Some oc => String.eqb (c_image oc) (c_image c) | None => false end) new).
Proof.
  unfold ephemeral_significant.
  induction new as [|c new IH]; [reflexivity|].
  cbn [existsb forallb]. rewrite IH, negb_andb. f_equal.
  destruct (find (fun oc => String.eqb (c_name oc) (c_name c)) old) as [oc|] eqn:F.
  - apply find_some in F. destruct F as [Hin Hn].
    assert (E : existsb (fun oc => String.eqb (c_name oc) (c_name c)) old = true).
    { apply existsb_exists. now exists oc. }
    rewrite E. cbn [andb]. now rewrite (String.eqb_sym (c_image c)).
  - now rewrite andb_false_r.
Qed.

Lemma B_significant_spec p old : significant_update p old = s_significant p old.
Proof.
  unfold significant_update, s_significant.
  rewrite !B_images_same, B_ephemeral.
  destruct (Nat.eqb (List.length (pd_containers p)) (List.length (pd_containers old)));
  destruct (Nat.eqb (List.length (pd_init p)) (List.length (pd_init old)));
  destruct (images_differ (pd_containers p) (pd_containers old));
  destruct (images_differ (pd_init p) (pd_init old)); reflexivity.
Qed.

(* ------------------------------------------------ trace observation helpers *)

Lemma B_has_eval_app a b : has_eval (a +:+ b) = has_eval a || has_eval b.
Proof. apply existsb_app. Qed.
Lemma B_count_ev_app f a b : count_ev f (a +:+ b) = count_ev f a + count_ev f b.
Proof. unfold count_ev. now rewrite filter_app, app_length. Qed.
Lemma B_eval_events_app a b : eval_events (a +:+ b) = eval_events a +:+ eval_events b.
Proof. apply flat_map_app. Qed.

(* ------------------------------------------------ Admission.EvaluatePod *)

Ltac B_split_ifs :=
  repeat (cbv beta iota zeta; cbn [cache_get app rs_allowed allowed_fresh forbidden negb];
          match goal with
          | |- context[if ?b then _ else _] => destruct b eqn:?
          end).

Definition epr_tr0 (errs : list ferr) : list event := if is_nil errs then [] else [MError false].

Lemma B_epr_exempt c ev pol errs p m :
  s_exempt_rc c p = true -> evaluate_pod_request c ev pol errs p m = (shared_runtimeclass, [MExempt]).
Proof. intros E. unfold evaluate_pod_request. rewrite B_exempt_rc_spec, E. reflexivity. Qed.

Lemma B_epr_noex c ev pol errs p m :
  s_exempt_rc c p = false ->
  evaluate_pod_request c ev pol errs p m = evaluate_pod_request (no_exemptions c) ev pol errs p m.
Proof. intros E. unfold evaluate_pod_request. rewrite B_exempt_rc_spec, E, B_noex_rc. reflexivity. Qed.

Lemma B_epr_char c ev pol errs p m :
  s_exempt_rc c p = false ->
  let o := evaluate_pod_request c ev pol errs p m in
  rs_allowed (fst o) = negb m || forallb cr_allowed (ev (enforce pol) p)
  /\ ann "exempt" (fst o) = None
  /\ has_error_ann (fst o) = negb (is_nil errs)
  /\ (m = true -> exists tr', snd o = epr_tr0 errs +:+ EvEval (enforce pol) (pd_name p) :: tr')
  /\ count_ev (is_merror false) (snd o) = (if is_nil errs then 0 else 1)
  /\ count_ev is_mexempt (snd o) = 0
  /\ count_ev (is_merror true) (snd o) = 0
  /\ has_eval (snd o) = true
  /\ existsb is_list (snd o) = false.
Proof.
  intros E o. subst o. unfold evaluate_pod_request, epr_tr0. rewrite B_exempt_rc_spec, E.
  rewrite <- B_ag_allowed.
  B_split_ifs; cbv beta iota zeta; cbn [cache_get app rs_allowed allowed_fresh forbidden negb].
  all: repeat split; try reflexivity; try discriminate; try (intros _; eexists; reflexivity).
Qed.

Lemma B_epr_enforce_evaluated c ev pol errs p :
  s_exempt_rc c p = false ->
  existsb (fun e => lv_eqb (fst e) (enforce pol))
          (eval_events (snd (evaluate_pod_request c ev pol errs p true))) = true.
Proof.
  intros E. destruct (B_epr_char c ev pol errs p true E) as (_ & _ & _ & H & _).
  destruct (H eq_refl) as [tr' ->]. rewrite B_eval_events_app, existsb_app.
  cbn [eval_events flat_map app existsb fst]. now rewrite lv_eqb_refl, orb_true_r.
Qed.

(* ------------------------------------------------ outcomes of ValidatePod *)

Definition pod_guards (c : config) (r : request) : Prop :=
  s_ignored_sub (r_subresource r) = false
  /\ s_exempt (r_namespace r) (cf_ex_namespaces c) = false
  /\ s_exempt (r_user r) (cf_ex_users c) = false.

Definition pod_priv (c : config) (ls : labels) : bool :=
  is_nil (spec_errs ls) && s_fully_privileged (spec_policy ls (cf_defaults c)).

(** the trace prefix before evaluation, and the facts that lead there *)
Definition pod_pre (r : request) (p : pod) (pre : list event) : Prop :=
  match r_op r with
  | OpUpdate => exists old, r_old r = OPod old /\ s_significant p old = true
                            /\ pre = [EvNsLookup; EvDecode; EvDecodeOld]
  | _ => pre = [EvNsLookup; EvDecode]
  end.

Inductive pod_outcome (c : config) (ev : evaluator) (r : request) (w : world) : obs -> Prop :=
| PO_ignored : s_ignored_sub (r_subresource r) = true -> pod_outcome c ev r w (shared_allowed, [])
| PO_exns : s_ignored_sub (r_subresource r) = false ->
    s_exempt (r_namespace r) (cf_ex_namespaces c) = true ->
    pod_outcome c ev r w (shared_namespace, [MExempt])
| PO_exuser : s_ignored_sub (r_subresource r) = false ->
    s_exempt (r_namespace r) (cf_ex_namespaces c) = false ->
    s_exempt (r_user r) (cf_ex_users c) = true ->
    pod_outcome c ev r w (shared_user, [MExempt])
| PO_nons : pod_guards c r -> w_ns w = None ->
    pod_outcome c ev r w (internal_error ("failed to lookup namespace " ++ go_quote (r_namespace r)),
                          [EvNsLookup; MError true])
| PO_priv ls : pod_guards c r -> w_ns w = Some ls -> pod_priv c ls = true ->
    pod_outcome c ev r w (shared_privileged,
                          [EvNsLookup; MEval false (enforce (spec_policy ls (cf_defaults c))) ModeEnforce])
| PO_badobj ls msg : pod_guards c r -> w_ns w = Some ls -> pod_priv c ls = false ->
    match r_object r with OPod _ => False | _ => True end ->
    pod_outcome c ev r w (bad_request msg, [EvNsLookup; EvDecode; MError true])
| PO_badold ls p msg : pod_guards c r -> w_ns w = Some ls -> pod_priv c ls = false ->
    r_object r = OPod p -> r_op r = OpUpdate ->
    match r_old r with OPod _ => False | _ => True end ->
    pod_outcome c ev r w (bad_request msg, [EvNsLookup; EvDecode; EvDecodeOld; MError true])
| PO_insig ls p old : pod_guards c r -> w_ns w = Some ls -> pod_priv c ls = false ->
    r_object r = OPod p -> r_op r = OpUpdate -> r_old r = OPod old -> s_significant p old = false ->
    pod_outcome c ev r w (shared_allowed, [EvNsLookup; EvDecode; EvDecodeOld])
| PO_rc ls p pre : pod_guards c r -> w_ns w = Some ls -> pod_priv c ls = false ->
    r_object r = OPod p -> pod_pre r p pre -> s_exempt_rc c p = true ->
    pod_outcome c ev r w (shared_runtimeclass, pre +:+ [MExempt])
| PO_eval ls p pre : pod_guards c r -> w_ns w = Some ls -> pod_priv c ls = false ->
    r_object r = OPod p -> pod_pre r p pre -> s_exempt_rc c p = false ->
    pod_outcome c ev r w
      (fst (evaluate_pod_request c ev (spec_policy ls (cf_defaults c)) (spec_errs ls) p true),
       pre +:+ snd (evaluate_pod_request c ev (spec_policy ls (cf_defaults c)) (spec_errs ls) p true)).

Lemma B_pod_eval_outcome c ev r w ls p pre :
  pod_guards c r -> w_ns w = Some ls -> pod_priv c ls = false -> r_object r = OPod p -> pod_pre r p pre ->
  pod_outcome c ev r w
    (fst (evaluate_pod_request c ev (spec_policy ls (cf_defaults c)) (spec_errs ls) p true),
     pre +:+ snd (evaluate_pod_request c ev (spec_policy ls (cf_defaults c)) (spec_errs ls) p true)).
Proof.
  intros G Hw Hp Ho Hpre. destruct (s_exempt_rc c p) eqn:Erc.
  - rewrite (B_epr_exempt _ _ _ _ _ _ Erc). cbn [fst snd]. eapply PO_rc; eauto.
  - eapply PO_eval; eauto.
Qed.

Lemma B_pod_outcome c ev r w : pod_outcome c ev r w (validate_pod c ev r w).
Proof.
  unfold validate_pod. rewrite B_ignored_spec, B_exempt_ns_spec, B_exempt_user_spec.
  destruct (s_ignored_sub (r_subresource r)) eqn:Hi; [now apply PO_ignored|].
  destruct (s_exempt (r_namespace r) (cf_ex_namespaces c)) eqn:Hn; [now apply PO_exns|].
  destruct (s_exempt (r_user r) (cf_ex_users c)) eqn:Hu; [now apply PO_exuser|].
  assert (G : pod_guards c r) by (repeat split; assumption).
  destruct (w_ns w) as [ls|] eqn:Hw; [|now apply PO_nons].
  rewrite policy_to_evaluate_spec. cbv beta iota zeta. rewrite B_fully_priv_spec.
  fold (pod_priv c ls).
  destruct (pod_priv c ls) eqn:Hp; [eapply PO_priv; eauto|].
  destruct (r_object r) as [m| |p|n l|k t|s] eqn:Ho;
    try (eapply PO_badobj; eauto; rewrite Ho; exact I).
  rewrite !B_let_pair.
  destruct (r_op r) as [| |raw] eqn:Hop; cbn [is_update].
  - eapply B_pod_eval_outcome; eauto. unfold pod_pre. now rewrite Hop.
  - destruct (r_old r) as [m| |old|n l|k t|s] eqn:Hold;
      try (eapply PO_badold; eauto; rewrite Hold; exact I).
    rewrite B_significant_spec.
    destruct (s_significant p old) eqn:Hs.
    + eapply B_pod_eval_outcome; eauto. unfold pod_pre. rewrite Hop. eauto.
    + eapply PO_insig; eauto.
  - eapply B_pod_eval_outcome; eauto. unfold pod_pre. now rewrite Hop.
Qed.

(* ------------------------------------------ outcomes of ValidatePodController *)

Definition ctrl_guards (c : config) (r : request) : Prop :=
  String.eqb (r_subresource r) "" = true
  /\ s_exempt (r_namespace r) (cf_ex_namespaces c) = false
  /\ s_exempt (r_user r) (cf_ex_users c) = false.

Definition ctrl_priv (c : config) (ls : labels) : bool :=
  is_nil (spec_errs ls) && level_eqb (lv_level (warn (spec_policy ls (cf_defaults c)))) Privileged
  && level_eqb (lv_level (audit (spec_policy ls (cf_defaults c)))) Privileged.

Inductive ctrl_outcome (c : config) (ev : evaluator) (r : request) (w : world) : obs -> Prop :=
| CO_sub : String.eqb (r_subresource r) "" = false -> ctrl_outcome c ev r w (shared_allowed, [])
| CO_exns : String.eqb (r_subresource r) "" = true ->
    s_exempt (r_namespace r) (cf_ex_namespaces c) = true ->
    ctrl_outcome c ev r w (shared_namespace, [MExempt])
| CO_exuser : String.eqb (r_subresource r) "" = true ->
    s_exempt (r_namespace r) (cf_ex_namespaces c) = false ->
    s_exempt (r_user r) (cf_ex_users c) = true ->
    ctrl_outcome c ev r w (shared_user, [MExempt])
| CO_nons msg : ctrl_guards c r -> w_ns w = None ->
    ctrl_outcome c ev r w (allowed_with_error msg, [EvNsLookup; MError true])
| CO_priv ls : ctrl_guards c r -> w_ns w = Some ls -> ctrl_priv c ls = true ->
    ctrl_outcome c ev r w (shared_allowed, [EvNsLookup])
| CO_bad ls msg : ctrl_guards c r -> w_ns w = Some ls -> ctrl_priv c ls = false ->
    match r_object r with OPod _ | OController _ _ => False | _ => True end ->
    ctrl_outcome c ev r w (allowed_with_error msg, [EvNsLookup; EvDecode; MError true])
| CO_notmpl ls k : ctrl_guards c r -> w_ns w = Some ls -> ctrl_priv c ls = false ->
    r_object r = OController k None ->
    ctrl_outcome c ev r w (shared_allowed, [EvNsLookup; EvDecode])
| CO_rc ls p : ctrl_guards c r -> w_ns w = Some ls -> ctrl_priv c ls = false ->
    request_pod r = Some p -> s_exempt_rc c p = true ->
    ctrl_outcome c ev r w (shared_runtimeclass, [EvNsLookup; EvDecode] +:+ [MExempt])
| CO_eval ls p : ctrl_guards c r -> w_ns w = Some ls -> ctrl_priv c ls = false ->
    request_pod r = Some p -> s_exempt_rc c p = false ->
    ctrl_outcome c ev r w
      (fst (evaluate_pod_request c ev (spec_policy ls (cf_defaults c)) (spec_errs ls) p false),
       [EvNsLookup; EvDecode] +:+
       snd (evaluate_pod_request c ev (spec_policy ls (cf_defaults c)) (spec_errs ls) p false)).

Lemma B_ctrl_eval_outcome c ev r w ls p :
  ctrl_guards c r -> w_ns w = Some ls -> ctrl_priv c ls = false -> request_pod r = Some p ->
  ctrl_outcome c ev r w
    (fst (evaluate_pod_request c ev (spec_policy ls (cf_defaults c)) (spec_errs ls) p false),
     [EvNsLookup; EvDecode] +:+
     snd (evaluate_pod_request c ev (spec_policy ls (cf_defaults c)) (spec_errs ls) p false)).
Proof.
  intros G Hw Hp Ho. destruct (s_exempt_rc c p) eqn:Erc.
  - rewrite (B_epr_exempt _ _ _ _ _ _ Erc). cbn [fst snd]. eapply CO_rc; eauto.
  - eapply CO_eval; eauto.
Qed.

Lemma B_ctrl_outcome c ev r w : ctrl_outcome c ev r w (validate_controller c ev r w).
Proof.
  unfold validate_controller. rewrite B_exempt_ns_spec, B_exempt_user_spec.
  destruct (String.eqb (r_subresource r) "") eqn:Hi; cbn [negb]; [|now apply CO_sub].
  destruct (s_exempt (r_namespace r) (cf_ex_namespaces c)) eqn:Hn; [now apply CO_exns|].
  destruct (s_exempt (r_user r) (cf_ex_users c)) eqn:Hu; [now apply CO_exuser|].
  assert (G : ctrl_guards c r) by (repeat split; assumption).
  destruct (w_ns w) as [ls|] eqn:Hw; [|now apply CO_nons].
  rewrite policy_to_evaluate_spec. cbv beta iota zeta.
  fold (ctrl_priv c ls).
  destruct (ctrl_priv c ls) eqn:Hp; [eapply CO_priv; eauto|].
  destruct (r_object r) as [m| |p|n l|k [t|]|s] eqn:Ho; cbn [extract_pod_spec];
    try (eapply CO_bad; eauto; rewrite Ho; exact I).
  - rewrite B_let_pair. eapply B_ctrl_eval_outcome; eauto. unfold request_pod. now rewrite Ho.
  - rewrite B_let_pair. eapply B_ctrl_eval_outcome; eauto. unfold request_pod. now rewrite Ho.
  - eapply CO_notmpl; eauto.
Qed.

(* ------------------------------------------------------------------ C10 *)

Definition as_create (r : request) : request :=
  Request (r_group r) (r_resource r) (r_subresource r) (r_namespace r) (r_name r) (r_user r)
          OpCreate (r_object r) (r_old r) (r_deadline r).
Definition without_sub (r : request) : request :=
  Request (r_group r) (r_resource r) "" (r_namespace r) (r_name r) (r_user r)
          (r_op r) (r_object r) (r_old r) (r_deadline r).

Ltac B_norm_hyps :=
  repeat match goal with
  | H : pod_pre _ _ _ |- _ => unfold pod_pre in H
  | H : context[match r_op ?r with _ => _ end], E : r_op ?r = _ |- _ => rewrite E in H
  | H : context[match r_object ?r with _ => _ end], E : r_object ?r = _ |- _ => rewrite E in H
  | H : context[match r_old ?r with _ => _ end], E : r_old ?r = _ |- _ => rewrite E in H
  | H : False |- _ => destruct H
  | H : exists _, _ |- _ => destruct H
  | H : _ /\ _ |- _ => destruct H
  end.
Ltac B_contra := B_norm_hyps; try congruence.

Ltac B_pod_out c ev r w :=
  let o := fresh "o" in let O := fresh "O" in
  generalize (B_pod_outcome c ev r w); generalize (validate_pod c ev r w); intros o O; destruct O.

Lemma B_vp_without_sub c ev r w :
  s_ignored_sub (r_subresource r) = false -> validate_pod c ev (without_sub r) w = validate_pod c ev r w.
Proof.
  intros H. unfold validate_pod.
  cbn [without_sub r_subresource r_namespace r_user r_op r_object r_old].
  rewrite (B_ignored_spec (r_subresource r)), H. reflexivity.
Qed.

Lemma B_vp_as_create c ev r w p old :
  r_op r = OpUpdate -> r_object r = OPod p -> r_old r = OPod old -> s_significant p old = true ->
  fst (validate_pod c ev (as_create r) w) = fst (validate_pod c ev r w).
Proof.
  intros Hop Ho Hold Hs. unfold validate_pod.
  cbn [as_create r_subresource r_namespace r_user r_op r_object r_old].
  rewrite Hop, Ho, Hold. cbn [is_update]. rewrite B_significant_spec, Hs.
  destruct (mem (r_subresource r) ignored_pod_subresources); [reflexivity|].
  destruct (exempt_namespace c (r_namespace r)); [reflexivity|].
  destruct (exempt_user c (r_user r)); [reflexivity|].
  destruct (w_ns w) as [ls|]; [|reflexivity].
  destruct (policy_to_evaluate ls (cf_defaults c)) as [pol errs].
  destruct (is_nil errs && fully_privileged pol); [reflexivity|].
  rewrite !B_let_pair. reflexivity.
Qed.

Lemma C10_updates_and_subresources_proof c ev r w :
  P10 c r w (validate c ev r w) (Some (validate c ev (as_create r) w))
      (Some (validate c ev (without_sub r) w)) = true.
Proof.
  unfold P10. destruct (is_pods r) eqn:Hp; cbn [negb]; [|reflexivity].
  rewrite (B_validate_pods c ev r w Hp), (B_validate_pods c ev (as_create r) w Hp),
          (B_validate_pods c ev (without_sub r) w Hp).
  destruct (s_ignored_sub (r_subresource r)) eqn:Hi.
  - unfold validate_pod. rewrite B_ignored_spec, Hi. reflexivity.
  - rewrite (B_vp_without_sub c ev r w Hi), B_resp_eqb_refl. cbn [andb].
    destruct (r_op r) eqn:Hop; try reflexivity.
    destruct (r_object r) as [| |p| | |] eqn:Ho; try reflexivity.
    destruct (r_old r) as [| |old| | |] eqn:Hold; try reflexivity.
    destruct (s_significant p old) eqn:Hs.
    + rewrite <- (B_vp_as_create c ev r w p old Hop Ho Hold Hs). apply B_resp_eqb_refl.
    + destruct (w_ns w) as [ls0|] eqn:Hw; [|reflexivity]. cbn [is_some imp negb orb].
      B_pod_out c ev r w; try reflexivity; B_contra.
Qed.

Lemma C10_insignificant_allowed_proof c ev r w ls p old :
  is_pods r = true -> r_op r = OpUpdate -> r_object r = OPod p -> r_old r = OPod old ->
  w_ns w = Some ls -> s_significant p old = false ->
  rs_allowed (fst (validate c ev r w)) = true /\ has_eval (snd (validate c ev r w)) = false.
Proof.
  intros Hp Hop Ho Hold Hw Hs. rewrite (B_validate_pods c ev r w Hp).
  B_pod_out c ev r w; try (split; reflexivity); B_contra.
Qed.

(* ------------------------------------------------------------------ C06 *)

Ltac B_ctrl_out c ev r w :=
  let o := fresh "o" in let O := fresh "O" in
  generalize (B_ctrl_outcome c ev r w); generalize (validate_controller c ev r w); intros o O; destruct O.

Definition exempt_marked_ok (c : config) (r : request) (o : obs) (d : string) : Prop :=
  dimension_matches c r (request_pod r) d = true /\ rs_allowed (fst o) = true
  /\ has_eval (snd o) = false /\ count_ev is_mexempt (snd o) = 1 /\ any_dimension_matches c r = true.

Lemma B_P06_from c r w o o0 :
  is_namespaces r = false ->
  (forall d, ann "exempt" (fst o) = Some d -> exempt_marked_ok c r o d) ->
  (ann "exempt" (fst o) = None -> o = o0 /\ count_ev is_mexempt (snd o) = 0) ->
  P06 c r w o o0 = true.
Proof.
  intros Hn Hs Hnone. unfold P06. rewrite Hn.
  destruct (ann "exempt" (fst o)) as [d|] eqn:Ha.
  - destruct (Hs d eq_refl) as (H1 & H2 & H3 & H4 & H5).
    rewrite H1, H2, H3, H4, H5. cbn [negb andb Nat.eqb is_some]. now rewrite B_imp_true_r.
  - destruct (Hnone eq_refl) as [<- H0]. rewrite H0, B_resp_eqb_refl, andb_negb_r.
    cbn [is_some andb imp negb orb Nat.eqb]. now rewrite B_imp_true_r.
Qed.

Lemma B_epr_noex' c ev pol errs p m :
  ann "exempt" (fst (evaluate_pod_request c ev pol errs p m)) = None ->
  evaluate_pod_request c ev pol errs p m = evaluate_pod_request (no_exemptions c) ev pol errs p m.
Proof.
  destruct (s_exempt_rc c p) eqn:E; [rewrite (B_epr_exempt _ _ _ _ _ _ E); discriminate|].
  intros _. now apply B_epr_noex.
Qed.

Lemma B_vp_noex c ev r w :
  ann "exempt" (fst (validate_pod c ev r w)) = None ->
  validate_pod c ev r w = validate_pod (no_exemptions c) ev r w.
Proof.
  unfold validate_pod. rewrite B_noex_ns, B_noex_user. cbn [no_exemptions cf_defaults].
  destruct (mem (r_subresource r) ignored_pod_subresources); [reflexivity|].
  destruct (exempt_namespace c (r_namespace r)); [discriminate|].
  destruct (exempt_user c (r_user r)); [discriminate|].
  destruct (w_ns w) as [ls|]; [|reflexivity].
  destruct (policy_to_evaluate ls (cf_defaults c)) as [pol errs].
  destruct (is_nil errs && fully_privileged pol); [reflexivity|].
  destruct (r_object r) as [m| |p|n l|k t|s]; try reflexivity.
  rewrite !B_let_pair.
  destruct (is_update (r_op r)); [destruct (r_old r) as [m| |old|n l|k t|s]; try reflexivity;
                                  destruct (significant_update p old); [|reflexivity]|];
    cbn [fst]; intros H; now rewrite (B_epr_noex' _ _ _ _ _ _ H).
Qed.

Lemma B_vc_noex c ev r w :
  ann "exempt" (fst (validate_controller c ev r w)) = None ->
  validate_controller c ev r w = validate_controller (no_exemptions c) ev r w.
Proof.
  unfold validate_controller. rewrite B_noex_ns, B_noex_user. cbn [no_exemptions cf_defaults].
  destruct (negb (String.eqb (r_subresource r) "")); [reflexivity|].
  destruct (exempt_namespace c (r_namespace r)); [discriminate|].
  destruct (exempt_user c (r_user r)); [discriminate|].
  destruct (w_ns w) as [ls|]; [|reflexivity].
  destruct (policy_to_evaluate ls (cf_defaults c)) as [pol errs].
  destruct (is_nil errs && level_eqb (lv_level (warn pol)) Privileged && level_eqb (lv_level (audit pol)) Privileged);
    [reflexivity|].
  destruct (r_object r) as [m| |p|n l|k [t|]|s]; try reflexivity; cbn [extract_pod_spec];
    rewrite !B_let_pair; cbn [fst]; intros H; now rewrite (B_epr_noex' _ _ _ _ _ _ H).
Qed.

Lemma B_pre_facts r p pre :
  pod_pre r p pre -> has_eval pre = false /\ existsb is_list pre = false
  /\ forall f, (f EvNsLookup = false) -> f EvDecode = false -> f EvDecodeOld = false -> count_ev f pre = 0.
Proof.
  unfold pod_pre. destruct (r_op r); [intros ->|intros (old & _ & _ & ->)|intros ->];
    (split; [reflexivity|split; [reflexivity|]]); intros f H1 H2 H3; unfold count_ev; cbn [filter];
    now rewrite ?H1, ?H2, ?H3.
Qed.

Lemma B_pod_marked c ev r w d :
  ann "exempt" (fst (validate_pod c ev r w)) = Some d -> exempt_marked_ok c r (validate_pod c ev r w) d.
Proof.
  B_pod_out c ev r w; intros Ha; try discriminate Ha.
  - injection Ha as <-. unfold exempt_marked_ok, dimension_matches, any_dimension_matches.
    rewrite H0. repeat split; reflexivity.
  - injection Ha as <-. unfold exempt_marked_ok, dimension_matches, any_dimension_matches.
    rewrite H1. cbn [fst snd]. rewrite !orb_true_r. repeat split; reflexivity.
  - injection Ha as <-. unfold exempt_marked_ok, dimension_matches, any_dimension_matches, request_pod.
    rewrite H2, H4. cbn [fst snd]. destruct (B_pre_facts _ _ _ H3) as (P1 & _ & P3).
    rewrite B_has_eval_app, B_count_ev_app, P1, (P3 is_mexempt) by reflexivity.
    rewrite !orb_true_r. repeat split; reflexivity.
  - destruct (B_epr_char c ev (spec_policy ls (cf_defaults c)) (spec_errs ls) p true H4) as (_ & E & _).
    cbn [fst] in Ha. congruence.
Qed.

Lemma B_pod_unmarked c ev r w :
  ann "exempt" (fst (validate_pod c ev r w)) = None -> count_ev is_mexempt (snd (validate_pod c ev r w)) = 0.
Proof.
  B_pod_out c ev r w; intros Ha; try discriminate Ha; try reflexivity.
  destruct (B_epr_char c ev (spec_policy ls (cf_defaults c)) (spec_errs ls) p true H4) as (_ & _ & _ & _ & _ & E & _).
  destruct (B_pre_facts _ _ _ H3) as (_ & _ & P3). cbn [snd].
  now rewrite B_count_ev_app, E, (P3 is_mexempt) by reflexivity.
Qed.

Lemma B_ctrl_marked c ev r w d :
  ann "exempt" (fst (validate_controller c ev r w)) = Some d ->
  exempt_marked_ok c r (validate_controller c ev r w) d.
Proof.
  B_ctrl_out c ev r w; intros Ha; try discriminate Ha.
  - injection Ha as <-. unfold exempt_marked_ok, dimension_matches, any_dimension_matches.
    rewrite H0. repeat split; reflexivity.
  - injection Ha as <-. unfold exempt_marked_ok, dimension_matches, any_dimension_matches.
    rewrite H1. cbn [fst snd]. rewrite !orb_true_r. repeat split; reflexivity.
  - injection Ha as <-. unfold exempt_marked_ok, dimension_matches, any_dimension_matches.
    rewrite H2, H3. cbn [fst snd]. rewrite !orb_true_r. repeat split; reflexivity.
  - destruct (B_epr_char c ev (spec_policy ls (cf_defaults c)) (spec_errs ls) p false H3) as (_ & E & _).
    cbn [fst] in Ha. congruence.
Qed.

Lemma B_ctrl_unmarked c ev r w :
  ann "exempt" (fst (validate_controller c ev r w)) = None ->
  count_ev is_mexempt (snd (validate_controller c ev r w)) = 0.
Proof.
  B_ctrl_out c ev r w; intros Ha; try discriminate Ha; try reflexivity.
  destruct (B_epr_char c ev (spec_policy ls (cf_defaults c)) (spec_errs ls) p false H3) as (_ & _ & _ & _ & _ & E & _).
  cbn [snd]. now rewrite B_count_ev_app, E.
Qed.

Lemma C06_exemptions_proof c ev r w :
  P06 c r w (validate c ev r w) (validate (no_exemptions c) ev r w) = true.
Proof.
  destruct (B_kinds r) as [Hn|[Hp|Hc]].
  - unfold P06. now rewrite Hn.
  - rewrite !(B_validate_pods _ _ _ _ Hp). apply B_P06_from.
    + now apply B_pods_not_ns.
    + apply B_pod_marked.
    + intros Ha. split; [now apply B_vp_noex|now apply B_pod_unmarked].
  - rewrite !(B_validate_ctrl _ _ _ _ Hc). apply B_P06_from.
    + unfold is_controller in Hc. apply andb_true_iff in Hc. now apply negb_true_iff, Hc.
    + apply B_ctrl_marked.
    + intros Ha. split; [now apply B_vc_noex|now apply B_ctrl_unmarked].
Qed.

(* ------------------------------------------------------- C06: dry runs *)

Lemma B_sorted_perm_eq l1 : forall l2,
  StronglySorted sle l1 -> StronglySorted sle l2 -> Permutation l1 l2 -> l1 = l2.
Proof.
  induction l1 as [|a l1 IH]; intros l2 S1 S2 P.
  - apply Permutation_nil in P. now subst.
  - destruct l2 as [|b l2]; [apply Permutation_sym, Permutation_nil in P; discriminate|].
    inversion S1 as [|? ? S1' F1]; inversion S2 as [|? ? S2' F2]; subst.
    assert (E : a = b).
    { rewrite Forall_forall in F1, F2.
      assert (Ia : In a (b :: l2)) by (eapply Permutation_in; [exact P|now left]).
      assert (Ib : In b (a :: l1)) by (eapply Permutation_in; [apply Permutation_sym; exact P|now left]).
      destruct Ia as [->|Ia]; [reflexivity|]. destruct Ib as [->|Ib]; [reflexivity|].
      apply String.leb_antisym; [apply F1, Ib|apply F2, Ia]. }
    subst b. f_equal. apply IH; auto. eapply Permutation_cons_inv; eauto.
Qed.

Lemma B_ssort_perm_eq l l' : Permutation l l' -> ssort l = ssort l'.
Proof.
  intros P. apply B_sorted_perm_eq; try apply ssort_sorted.
  eapply Permutation_trans; [apply ssort_perm|].
  eapply Permutation_trans; [exact P|apply Permutation_sym, ssort_perm].
Qed.

Lemma B_prioritize_aux_perm c pods : forall seen a b,
  prioritize_aux c seen pods = (a, b) ->
  Permutation (a +:+ b) (filter (fun p => negb (s_exempt_rc c p)) pods).
Proof.
  induction pods as [|p rest IH]; intros seen a b H; cbn [prioritize_aux filter] in H |- *.
  - injection H as <- <-. constructor.
  - rewrite B_exempt_rc_spec in H. destruct (s_exempt_rc c p); cbn [negb].
    + eapply IH; eauto.
    + destruct (pd_ownerUID p) as [u|].
      * destruct (mem u seen).
        -- destruct (prioritize_aux c seen rest) as [a' b'] eqn:E. injection H as <- <-.
           apply Permutation_sym, Permutation_cons_app, Permutation_sym. eapply IH; eauto.
        -- destruct (prioritize_aux c (u :: seen) rest) as [a' b'] eqn:E. injection H as <- <-.
           cbn [app]. apply perm_skip. eapply IH; eauto.
      * destruct (prioritize_aux c seen rest) as [a' b'] eqn:E. injection H as <- <-.
        cbn [app]. apply perm_skip. eapply IH; eauto.
Qed.

Lemma B_prioritize_perm c pods :
  Permutation (prioritize_pods c pods) (filter (fun p => negb (s_exempt_rc c p)) pods).
Proof.
  unfold prioritize_pods. destruct (prioritize_aux c [] pods) as [a b] eqn:E.
  eapply B_prioritize_aux_perm; eauto.
Qed.

Lemma B_eval_loop_names ev x pods : forall i m,
  snd (eval_loop ev x None i pods m) = map pd_name pods.
Proof.
  induction pods as [|p rest IH]; intros i m; cbn [eval_loop]; [reflexivity|].
  cbv zeta.
  match goal with |- context[eval_loop ev x None (S i) rest ?m'] =>
    specialize (IH (S i) m'); destruct (eval_loop ev x None (S i) rest m') as [[mm n] names] end.
  cbn [snd map] in *. now rewrite IH.
Qed.

Lemma B_eval_events_map x names :
  map snd (eval_events (map (fun n => EvEval x n) names)) = names.
Proof. unfold eval_events. induction names as [|n names IH]; [reflexivity|]. cbn [map flat_map app snd]. now rewrite IH. Qed.

Lemma B_epin_dry c ev r w name x pods :
  w_pods w = Some pods -> w_expire_after w = None ->
  List.length (filter (fun p => negb (s_exempt_rc c p)) pods) <= cf_max_pods c ->
  exists dl, snd (evaluate_pods_in_namespace c ev r w name x)
             = EvList dl :: map (fun n => EvEval x n) (map pd_name (prioritize_pods c pods)).
Proof.
  intros Hp He Hl. unfold evaluate_pods_in_namespace. rewrite Hp, He.
  rewrite firstn_all2 by (now rewrite (Permutation_length (B_prioritize_perm c pods))).
  pose proof (B_eval_loop_names ev x (prioritize_pods c pods) 0 []) as N.
  destruct (eval_loop ev x None 0 (prioritize_pods c pods) []) as [[m checked] names].
  cbn [snd] in *. subst names. eexists. reflexivity.
Qed.

(** every observation of ValidateNamespace either lists no pods or is the dry run *)
Ltac B_ns_cases :=
  repeat (cbv beta iota zeta;
          match goal with
          | |- context[match ?x with _ => _ end] => destruct x eqn:?
          end).

Lemma B_vn_shape c ev r w :
  existsb is_list (snd (validate_namespace c ev r w)) = false
  \/ exists name x,
       validate_namespace c ev r w =
       (with_warnings allowed_fresh (fst (evaluate_pods_in_namespace c ev r w name x)),
        [EvDecode; EvDecodeOld] +:+ snd (evaluate_pods_in_namespace c ev r w name x)).
Proof.
  unfold validate_namespace. B_ns_cases; try (left; reflexivity).
  match goal with E : evaluate_pods_in_namespace _ _ _ _ ?n ?x = _ |- _ =>
    right; exists n, x; rewrite E; reflexivity end.
Qed.

Lemma B_no_list_pod c ev r w : existsb is_list (snd (validate_pod c ev r w)) = false.
Proof.
  B_pod_out c ev r w; try reflexivity; cbn [snd]; rewrite existsb_app;
    destruct (B_pre_facts _ _ _ H3) as (_ & -> & _); [reflexivity|].
  now destruct (B_epr_char c ev (spec_policy ls (cf_defaults c)) (spec_errs ls) p true H4)
    as (_ & _ & _ & _ & _ & _ & _ & _ & ->).
Qed.

Lemma B_no_list_ctrl c ev r w : existsb is_list (snd (validate_controller c ev r w)) = false.
Proof.
  B_ctrl_out c ev r w; try reflexivity; cbn [snd]; rewrite existsb_app.
  now destruct (B_epr_char c ev (spec_policy ls (cf_defaults c)) (spec_errs ls) p false H3)
    as (_ & _ & _ & _ & _ & _ & _ & _ & ->).
Qed.

Lemma C06_dryrun_proof c ev r w : P06_dryrun c w (validate c ev r w) = true.
Proof.
  unfold P06_dryrun. destruct (w_pods w) as [pods|] eqn:Hp; [|reflexivity].
  destruct (B_kinds r) as [Hn|[Hpo|Hc]].
  - rewrite (B_validate_ns _ _ _ _ Hn).
    destruct (B_vn_shape c ev r w) as [->|(name & x & ->)]; [reflexivity|].
    cbn [snd].
    destruct (Nat.leb (List.length (filter (fun p => negb (s_exempt_rc c p)) pods)) (cf_max_pods c)) eqn:Hl;
      [|now rewrite andb_false_r].
    destruct (w_expire_after w) as [k|] eqn:He; [now rewrite andb_false_r|].
    apply Nat.leb_le in Hl.
    destruct (B_epin_dry c ev r w name x pods Hp He Hl) as [dl ->].
    cbn [app eval_events flat_map]. fold (eval_events (map (fun n => EvEval x n) (map pd_name (prioritize_pods c pods)))).
    rewrite B_eval_events_map.
    rewrite (B_ssort_perm_eq _ _ (Permutation_map pd_name (B_prioritize_perm c pods))).
    rewrite (list_eqb_refl String.eqb String.eqb_refl). apply B_imp_true_r.
  - rewrite (B_validate_pods _ _ _ _ Hpo), B_no_list_pod. reflexivity.
  - rewrite (B_validate_ctrl _ _ _ _ Hc), B_no_list_ctrl. reflexivity.
Qed.

Lemma B_vn_no_exempt c ev r w : ann "exempt" (fst (validate_namespace c ev r w)) = None.
Proof. unfold validate_namespace. B_ns_cases; reflexivity. Qed.

Lemma C06_exempt_unevaluated_proof c ev r w d :
  ann "exempt" (fst (validate c ev r w)) = Some d ->
  rs_allowed (fst (validate c ev r w)) = true /\ has_eval (snd (validate c ev r w)) = false.
Proof.
  destruct (B_kinds r) as [Hn|[Hp|Hc]].
  - rewrite (B_validate_ns _ _ _ _ Hn), B_vn_no_exempt. discriminate.
  - rewrite (B_validate_pods _ _ _ _ Hp). intros H. now destruct (B_pod_marked _ _ _ _ _ H) as (_ & ? & ? & _).
  - rewrite (B_validate_ctrl _ _ _ _ Hc). intros H. now destruct (B_ctrl_marked _ _ _ _ _ H) as (_ & ? & ? & _).
Qed.

(* ------------------------------------------------------------------ C07 *)

Ltac B_guards G :=
  let G1 := fresh "G1" in let G2 := fresh "G2" in let G3 := fresh "G3" in
  destruct G as (G1 & G2 & G3); rewrite ?G1, ?G2, ?G3; cbn [negb andb orb].

Lemma B_P07_pods c ev r w : is_pods r = true -> P07 c ev r w (validate_pod c ev r w) = true.
Proof.
  intros Hp. unfold P07. rewrite Hp. cbv zeta.
  B_pod_out c ev r w.
  - rewrite H. reflexivity.
  - rewrite H0. cbn [negb andb]. now rewrite orb_true_r.
  - rewrite H1. cbn [negb andb]. now rewrite andb_false_r, orb_true_r.
  - B_guards H. rewrite H0. reflexivity.
  - B_guards H. rewrite H0. unfold pod_priv in H1. rewrite H1. reflexivity.
  - B_guards H. rewrite H0. unfold pod_priv in H1. rewrite H1.
    destruct (r_object r); try destruct H2; reflexivity.
  - B_guards H. rewrite H0. unfold pod_priv in H1. rewrite H1, H2, H3.
    destruct (r_old r); try destruct H4; reflexivity.
  - B_guards H. rewrite H0. unfold pod_priv in H1. rewrite H1, H2, H3, H4, H5.
    destruct (is_nil (spec_errs ls)); reflexivity.
  - B_guards H. rewrite H0. unfold pod_priv in H1. rewrite H1, H2, H4.
    assert (D : match r_op r with
                | OpUpdate => match r_old r with OPod _ => true | _ => false end
                | _ => true end = true).
    { unfold pod_pre in H3. destruct (r_op r); try reflexivity. now destruct H3 as (old & -> & _). }
    rewrite D. cbn [negb andb fst snd rs_allowed shared_runtimeclass].
    rewrite !orb_true_r, !andb_false_r. reflexivity.
  - B_guards H. rewrite H0. unfold pod_priv in H1. rewrite H1, H2, H4.
    destruct (B_pre_facts _ _ _ H3) as (P1 & _ & P3).
    pose proof (B_epr_enforce_evaluated c ev (spec_policy ls (cf_defaults c)) (spec_errs ls) p H4) as EE.
    destruct (B_epr_char c ev (spec_policy ls (cf_defaults c)) (spec_errs ls) p true H4)
      as (E1 & _ & E3 & _ & E5 & _).
    set (o := evaluate_pod_request c ev (spec_policy ls (cf_defaults c)) (spec_errs ls) p true) in *.
    assert (D : match r_op r with
                | OpUpdate => match r_old r with OPod _ => true | _ => false end
                | _ => true end = true).
    { unfold pod_pre in H3. destruct (r_op r); try reflexivity. now destruct H3 as (old & -> & _). }
    assert (I : match r_op r with
                | OpUpdate => match r_old r with OPod old => negb (s_significant p old) | _ => false end
                | _ => false end = false).
    { unfold pod_pre in H3. destruct (r_op r); try reflexivity. destruct H3 as (old & -> & -> & _). reflexivity. }
    rewrite D, I. cbn [negb andb orb fst snd].
    rewrite B_eval_events_app, existsb_app, EE, orb_true_r, E1, E3, B_count_ev_app, E5.
    rewrite (P3 (is_merror false)) by reflexivity.
    unfold violates. cbn [negb orb andb].
    destruct (forallb cr_allowed (ev (enforce (spec_policy ls (cf_defaults c))) p));
      destruct (is_nil (spec_errs ls)); reflexivity.
Qed.

Lemma B_ctrl_kinds r : is_controller r = true -> is_pods r = false /\ is_namespaces r = false.
Proof.
  unfold is_controller. intros H. apply andb_true_iff in H. destruct H as [H1 H2].
  now apply negb_true_iff in H1, H2.
Qed.

Lemma B_request_pod_cases r p :
  request_pod r = Some p -> r_object r = OPod p \/ exists k, r_object r = OController k (Some p).
Proof.
  unfold request_pod. destruct (r_object r) as [m| |q|n l|k [t|]|s]; try discriminate; intros [= ->]; eauto.
Qed.

Lemma B_P07_ctrl c ev r w : is_controller r = true -> P07 c ev r w (validate_controller c ev r w) = true.
Proof.
  intros Hc. destruct (B_ctrl_kinds r Hc) as [Hp _]. unfold P07. rewrite Hp, Hc. cbv zeta.
  B_ctrl_out c ev r w.
  - rewrite H. reflexivity.
  - rewrite H, H0. reflexivity.
  - rewrite H, H0, H1. reflexivity.
  - B_guards H. rewrite H0. reflexivity.
  - B_guards H. rewrite H0. unfold ctrl_priv in H1. rewrite H1. reflexivity.
  - B_guards H. rewrite H0. unfold ctrl_priv in H1. rewrite H1.
    destruct (r_object r); try destruct H2; reflexivity.
  - B_guards H. rewrite H0. unfold ctrl_priv in H1. rewrite H1, H2. reflexivity.
  - B_guards H. rewrite H0. unfold ctrl_priv in H1. rewrite H1.
    destruct (B_request_pod_cases r p H2) as [->|[k ->]]; rewrite H3;
      cbn [negb andb fst snd rs_allowed shared_runtimeclass]; now rewrite andb_false_r.
  - B_guards H. rewrite H0. unfold ctrl_priv in H1. rewrite H1.
    destruct (B_epr_char c ev (spec_policy ls (cf_defaults c)) (spec_errs ls) p false H3)
      as (E1 & _ & E3 & _ & E5 & _ & _ & E8 & _).
    set (o := evaluate_pod_request c ev (spec_policy ls (cf_defaults c)) (spec_errs ls) p false) in *.
    cbn [fst snd].
    destruct (B_request_pod_cases r p H2) as [->|[k ->]]; rewrite H3, E1, B_has_eval_app, E8, E3, B_count_ev_app, E5;
      destruct (is_nil (spec_errs ls)); reflexivity.
Qed.

Lemma B_P07_ns c ev r w : is_namespaces r = true -> P07 c ev r w (validate_namespace c ev r w) = true.
Proof.
  intros Hn. unfold P07.
  assert (Hp : is_pods r = false).
  { destruct (is_pods r) eqn:E; [|reflexivity]. apply B_pods_not_ns in E. congruence. }
  assert (Hc : is_controller r = false) by (unfold is_controller; now rewrite Hn, andb_false_r).
  rewrite Hp, Hc. cbv zeta.
  destruct (negb (String.eqb (r_subresource r) "")) eqn:Hs; [reflexivity|].
  destruct (r_object r) as [m| |q|name ls|k t|s] eqn:Ho; try reflexivity.
  - unfold validate_namespace. rewrite Hs, Ho. reflexivity.
  - assert (K : imp (existsb is_list (snd (validate_namespace c ev r w)))
                    (rs_allowed (fst (validate_namespace c ev r w)) &&
                     match w_pods w with
                     | None => list_eqb String.eqb (rs_warnings (fst (validate_namespace c ev r w)))
                                 ["failed to list pods while checking new PodSecurity enforce level"]
                     | Some _ => true
                     end) = true).
    { destruct (B_vn_shape c ev r w) as [->|(nm & x & ->)]; [reflexivity|].
      cbn [fst snd rs_allowed rs_warnings with_warnings allowed_fresh andb].
      destruct (w_pods w) as [pods|] eqn:Hw; [apply B_imp_true_r|].
      unfold evaluate_pods_in_namespace. rewrite Hw. reflexivity. }
    destruct (r_op r) as [| |raw] eqn:Hop; try exact K.
    destruct (r_old r) as [m| |q|oname ols|k t|s] eqn:Hold; try exact K.
    unfold validate_namespace. rewrite Hs, Ho, Hop, Hold.
    destruct (policy_to_evaluate ls (cf_defaults c)) as [np ne]. reflexivity.
Qed.

Lemma C07_faults_proof c ev r w : P07 c ev r w (validate c ev r w) = true.
Proof.
  destruct (B_kinds r) as [Hn|[Hp|Hc]].
  - rewrite (B_validate_ns _ _ _ _ Hn). now apply B_P07_ns.
  - rewrite (B_validate_pods _ _ _ _ Hp). now apply B_P07_pods.
  - rewrite (B_validate_ctrl _ _ _ _ Hc). now apply B_P07_ctrl.
Qed.

Lemma C07_controller_fail_open_proof c ev r w :
  is_controller r = true -> rs_allowed (fst (validate c ev r w)) = true.
Proof.
  intros Hc. pose proof (C07_faults_proof c ev r w) as H. unfold P07 in H.
  destruct (B_ctrl_kinds r Hc) as [Hp _]. rewrite Hp, Hc in H.
  apply andb_true_iff in H. apply H.
Qed.

Lemma B_vn_allowed_indep c ev ev' r w w' :
  rs_allowed (fst (validate_namespace c ev r w)) = rs_allowed (fst (validate_namespace c ev' r w')).
Proof. unfold validate_namespace. B_ns_cases; reflexivity. Qed.

(** the admission decision on a namespace request reads no oracle answer and no evaluator at all *)
Lemma C07_namespace_allow_independent_proof c ev ev' r w w' :
  is_namespaces r = true ->
  rs_allowed (fst (validate c ev r w)) = rs_allowed (fst (validate c ev' r w')).
Proof. intros Hn. rewrite !(B_validate_ns _ _ _ _ Hn). apply B_vn_allowed_indep. Qed.

Lemma C07_namespace_never_blocked_by_pods_proof c ev ev' r w w' :
  is_namespaces r = true -> w_ns w = w_ns w' -> w_now w = w_now w' ->
  rs_allowed (fst (validate c ev r w)) = rs_allowed (fst (validate c ev' r w')).
Proof. intros Hn _ _. now apply C07_namespace_allow_independent_proof. Qed.

Lemma C07_pod_unevaluated_proof c ev r w :
  is_pods r = true -> rs_allowed (fst (validate c ev r w)) = true ->
  s_ignored_sub (r_subresource r) = true \/ is_some (ann "exempt" (fst (validate c ev r w))) = true
  \/ (exists ls, w_ns w = Some ls /\ spec_errs ls = [] /\ s_fully_privileged (spec_policy ls (cf_defaults c)) = true)
  \/ (exists ls p old, w_ns w = Some ls /\ r_object r = OPod p /\ r_old r = OPod old /\ r_op r = OpUpdate
                       /\ s_significant p old = false)
  \/ (exists ls p, w_ns w = Some ls /\ r_object r = OPod p
                   /\ violates ev (enforce (spec_policy ls (cf_defaults c))) p = false).
Proof.
  intros Hp. rewrite (B_validate_pods _ _ _ _ Hp).
  B_pod_out c ev r w; intros Ha; try discriminate Ha.
  - now left.
  - right; left; reflexivity.
  - right; left; reflexivity.
  - right; right; left. exists ls. unfold pod_priv in H1. apply andb_true_iff in H1. destruct H1 as [N F].
    apply is_nil_true in N. auto.
  - right; right; right; left. exists ls, p, old. auto.
  - right; left; reflexivity.
  - right; right; right; right. exists ls, p. repeat split; try assumption.
    destruct (B_epr_char c ev (spec_policy ls (cf_defaults c)) (spec_errs ls) p true H4) as (E1 & _).
    cbn [fst] in Ha. rewrite Ha in E1. unfold violates. cbn [negb orb] in E1. now rewrite <- E1.
Qed.
