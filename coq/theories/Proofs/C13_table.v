(** Proofs/C13_table.v - the side condition of C13 computed on the check table
    regenerated from the source, and the shipped instances of the
    table-parametric theorems of Proofs/MessageFacts.v. *)
From Coq Require Import List Bool NArith ZArith String.
From PSA Require Import Base.Str Model.Api Model.Pod Model.Checks Model.Names Model.Registry Model.Shipped
     Spec.PSS Spec.P02 Spec.P13 Proofs.MessageFacts.
Import ListNotations.
Local Open Scope string_scope.

(** the newest registered version is the newest published one, and at every
    published minor the registered table resolves, at both levels, to the
    standard's revisions IN THE ORDER of the standard's revision lists *)
Lemma shipped_order_ok : order_ok shipped_checks = true.
Proof. vm_compute. reflexivity. Qed.

Lemma shipped_lists_ok13 : lists_ok shipped_lists = true.
Proof. vm_compute. reflexivity. Qed.

Theorem shipped_P13_eval : forall l v p,
  let rs := evaluate_pod shipped_lists false shipped_checks l v p in
  P13_eval l v (fun fn => run_check shipped_lists false fn p) rs
           (forbidden_reason (aggregate_results rs)) (forbidden_detail (aggregate_results rs)) = true.
Proof. intros l v p. exact (eval_generic shipped_lists false shipped_checks l v p shipped_order_ok). Qed.

Theorem shipped_P13_names : forall fn p,
  P13_names fn p (negb (cr_allowed (run_check shipped_lists false fn p)))
            (check_names fn shipped_lists false p) = true.
Proof. intros fn p. exact (names_are_offenders shipped_lists fn false p shipped_lists_ok13 eq_refl). Qed.

(** a worked example: containers "a" (privileged, adds NET_RAW) and "ab"
    (compliant at baseline; its name extends the offender's), a hostPath volume "v" *)
Definition c13_example_pod : pod :=
  Pod "p" [] None false false false None None None []
      [Container "a" "img" []
         (Some (SecCtx (Some true) None None None None (Some (["NET_RAW"], [])) None None None None));
       Container "ab" "img" [] None]
      [] [Volume "v" ["hostPath"]] None.

Definition c13_example_detail (l : level) : string :=
  forbidden_detail (aggregate_results (evaluate_pod shipped_lists false shipped_checks l Latest c13_example_pod)).
Definition c13_example_reason (l : level) : string :=
  forbidden_reason (aggregate_results (evaluate_pod shipped_lists false shipped_checks l Latest c13_example_pod)).

Example shipped_c13_example :
  c13_example_reason Baseline = "non-default capabilities, hostPath volumes, privileged"
  /\ c13_example_detail Baseline =
     "non-default capabilities (container ""a"" must not include ""NET_RAW"" in securityContext.capabilities.add), hostPath volumes (volume ""v""), privileged (container ""a"" must not set securityContext.privileged=true)"
  /\ c13_example_detail Restricted =
     "privileged (container ""a"" must not set securityContext.privileged=true), allowPrivilegeEscalation != false (containers ""a"", ""ab"" must set securityContext.allowPrivilegeEscalation=false), unrestricted capabilities (containers ""a"", ""ab"" must set securityContext.capabilities.drop=[""ALL""]; container ""a"" must not include ""NET_RAW"" in securityContext.capabilities.add), restricted volume types (volume ""v"" uses restricted volume type ""hostPath""), runAsNonRoot != true (pod or containers ""a"", ""ab"" must set securityContext.runAsNonRoot=true), seccompProfile (pod or containers ""a"", ""ab"" must set securityContext.seccompProfile.type to ""RuntimeDefault"" or ""Localhost"")"
  /\ check_names "privileged_1_0" shipped_lists false c13_example_pod = ["a"]
  /\ check_names "hostPathVolumes_1_0" shipped_lists false c13_example_pod = ["v"]
  /\ check_names "runAsNonRoot_1_0" shipped_lists false c13_example_pod = ["a"; "ab"].
Proof. vm_compute. repeat split. Qed.

(** capabilitiesRestricted lists a container once per phrase: the twin is the
    concatenation of the two lists, which the text does not quote as ONE list *)
Example shipped_c13_caps_two_phrases :
  check_names "capabilitiesRestricted_1_22" shipped_lists false c13_example_pod = ["a"; "ab"; "a"]
  /\ caps_missing c13_example_pod = ["a"; "ab"] /\ caps_adding c13_example_pod = ["a"]
  /\ contains (join_quote (check_names "capabilitiesRestricted_1_22" shipped_lists false c13_example_pod))
              (cr_detail (capabilitiesRestricted_1_22 shipped_lists false c13_example_pod)) = false.
Proof. vm_compute. repeat split. Qed.
