(** Proofs/MessageFacts.v - C13: what violation messages list.
    Reasons of the built-in revisions are specific, aggregation lists each
    denying result once and in order, the evaluator runs the standard's
    revisions in the fixed table order, and the names a detail lists are the
    names of offenders.  Table-parametric: the shipped table enters only in
    Proofs/C13_table.v. *)
From Coq Require Import List Bool NArith Arith ZArith Ascii String Lia Btauto.
From PSA Require Import Base.Str Model.Api Model.Pod Model.Checks Model.Names Model.Registry Model.Shipped
     Spec.PSS Spec.P02 Spec.P13
     Proofs.StrFacts Proofs.RegistryFacts Proofs.ChecksFacts Proofs.StandardFacts.
Import ListNotations.
Local Open Scope string_scope.

(** * Strings *)

Lemma append_assoc (a b c : string) : (a ++ b) ++ c = a ++ (b ++ c).
Proof. induction a as [|x a IH]; [reflexivity|]. cbn [append]. rewrite IH. reflexivity. Qed.

Lemma prefix_append s b : String.prefix s (s ++ b) = true.
Proof.
  induction s as [|c s IH]; [now destruct b|]. cbn [append String.prefix].
  destruct (Ascii.ascii_dec c c) as [_|N]; [exact IH|now elim N].
Qed.

Lemma contains_mid s a b : contains s (a ++ s ++ b) = true.
Proof.
  induction a as [|c a IH].
  - cbn [append]. destruct (s ++ b) eqn:E; cbn [contains]; rewrite <- E, prefix_append; reflexivity.
  - cbn [append contains]. rewrite IH. now destruct (String.prefix s (String c (a ++ s ++ b))).
Qed.

Lemma contains_refl s : contains s s = true.
Proof.
  assert (H : String.prefix s s = true).
  { induction s as [|c s IH]; [reflexivity|]. cbn [String.prefix].
    destruct (Ascii.ascii_dec c c) as [_|N]; [exact IH|now elim N]. }
  destruct s; cbn [contains]; rewrite H; reflexivity.
Qed.

Fixpoint has_char (c : ascii) (s : string) : bool :=
  match s with
  | EmptyString => false
  | String x r => Ascii.eqb x c || has_char c r
  end.

(** a text without the character [c] cannot straddle an occurrence of [c] *)
Lemma prefix_sep u c : has_char c u = false ->
  forall a b, String.prefix u (a ++ String c b) = String.prefix u a.
Proof.
  induction u as [|x u IH]; intros H a b.
  - destruct a; reflexivity.
  - cbn [has_char] in H. apply orb_false_iff in H. destruct H as [Hx Hu].
    destruct a as [|h a]; cbn [append String.prefix].
    + destruct (Ascii.ascii_dec x c) as [E|_]; [|reflexivity].
      subst x. rewrite Ascii.eqb_refl in Hx. discriminate Hx.
    + destruct (Ascii.ascii_dec x h); [apply IH, Hu|reflexivity].
Qed.

Lemma contains_sep u c : has_char c u = false ->
  forall a b, contains u (a ++ String c b) = contains u a || contains u b.
Proof.
  intros H a b. induction a as [|h a IH].
  - change ("" ++ String c b) with (String c b). cbn [contains].
    rewrite <- (prefix_sep u c H "" b). cbn [append].
    destruct (String.prefix u (String c b)); reflexivity.
  - change (String h a ++ String c b) with (String h (a ++ String c b)). cbn [contains].
    change (String h (a ++ String c b)) with (String h a ++ String c b).
    rewrite (prefix_sep u c H (String h a) b), IH.
    destruct (String.prefix u (String h a)); reflexivity.
Qed.

Lemma join_cons sep x y l : join sep (x :: y :: l) = x ++ sep ++ join sep (y :: l).
Proof. reflexivity. Qed.

Lemma unknown_not_in_join l :
  Forall (fun x => contains unknown_reason x = false) l ->
  contains unknown_reason (join ", " l) = false.
Proof.
  induction 1 as [|x l Hx Hl IH]; [reflexivity|].
  destruct l as [|y l]; [exact Hx|].
  rewrite join_cons. change (", " ++ join ", " (y :: l)) with (String "," (String " " (join ", " (y :: l)))).
  rewrite contains_sep by reflexivity. rewrite Hx. cbn [orb].
  remember (join ", " (y :: l)) as s. unfold unknown_reason in *.
  cbn [contains]. exact IH.
Qed.

(** * Reasons *)

(** specific: not empty, and the placeholder does not even occur inside it *)
Definition reason_ok (r : check_result) : bool :=
  cr_allowed r || (negb (String.eqb (cr_reason r) "") && negb (contains unknown_reason (cr_reason r))).

Lemma reason_ok_P13 r : reason_ok r = true -> P13_reason r = true.
Proof.
  unfold reason_ok, P13_reason. destruct (cr_allowed r); [reflexivity|]. cbn [orb].
  destruct (String.eqb (cr_reason r) ""); [discriminate|]. cbn [negb andb]. intros H.
  destruct (String.eqb_spec (cr_reason r) "unknown forbidden reason") as [E|_]; [|reflexivity].
  rewrite E in H. vm_compute in H. discriminate H.
Qed.

Lemma reason_ok_if (b : bool) (r d : string) :
  (negb (String.eqb r "") && negb (contains unknown_reason r)) = true ->
  reason_ok (if b then cr_ok else CR false r d) = true.
Proof. intros H. destruct b; [reflexivity|exact H]. Qed.

Lemma reason_ok_ok : reason_ok cr_ok = true.
Proof. reflexivity. Qed.

Ltac reason_tac :=
  repeat first
    [ reflexivity
    | match goal with
      | |- reason_ok (if ?b then _ else _) = true => destruct b
      | |- context [pluralize _ _ ?n] => unfold pluralize; destruct (Nat.eqb n 1)
      end ].

Lemma dictionary_reasons :
  Forall (fun nf : string * check_fn => forall al r p, reason_ok (snd nf al r p) = true) check_dictionary.
Proof.
  unfold check_dictionary.
  repeat (apply Forall_cons; [cbn [snd]; intros al r p|]); [..|apply Forall_nil].
  all: try (cbv beta zeta delta [appArmorProfile_1_0 capabilitiesBaseline_1_0 hostNamespaces_1_0
              hostPathVolumes_1_0 hostPorts_1_0 privileged_1_0 procMount_1_0 seLinuxOptions1_0
              seLinuxOptions1_31 seLinuxOptions seccompProfileBaseline_1_0 seccompProfileBaseline_1_19
              sysctlsV1Dot0 sysctlsV1Dot27 sysctlsV1Dot29 sysctlsV1Dot32 sysctls windowsHostProcess_1_0
              allowPrivilegeEscalation_1_8 allowPrivilegeEscalation_1_25 capabilitiesRestricted_1_22
              capabilitiesRestricted_1_25 restrictedVolumes_1_0 runAsNonRoot_1_0 runAsUser_1_23
              seccompProfileRestricted_1_19 seccompProfileRestricted_1_25]).
  all: reason_tac.
Qed.

Lemma lookup_check_reason fn f al r p : lookup_check fn = Some f -> reason_ok (f al r p) = true.
Proof.
  intros H. apply lookup_In in H.
  pose proof dictionary_reasons as D. rewrite Forall_forall in D.
  exact (D (fn, f) H al r p).
Qed.

Lemma run_check_reason al r fn p : reason_ok (run_check al r fn p) = true.
Proof.
  unfold run_check. destruct (lookup_check fn) as [f|] eqn:E.
  - exact (lookup_check_reason fn f al r p E).
  - reflexivity.
Qed.

Theorem reasons_specific : forall al fn f relax p,
  lookup_check fn = Some f -> P13_reason (f al relax p) = true.
Proof. intros al fn f relax p H. apply reason_ok_P13. exact (lookup_check_reason fn f al relax p H). Qed.

(** * Aggregation *)

Definition denying (rs : list check_result) : list check_result := filter (fun r => negb (cr_allowed r)) rs.

Theorem aggregate_lists_denying : forall rs,
  ag_reasons (aggregate_results rs)
  = map (fun r => if String.eqb (cr_reason r) "" then unknown_reason else cr_reason r)
        (filter (fun r => negb (cr_allowed r)) rs)
  /\ ag_details (aggregate_results rs) = map cr_detail (filter (fun r => negb (cr_allowed r)) rs).
Proof. intros rs. split; reflexivity. Qed.

Lemma map_combine_map {A B C D} (F : B * C -> D) (g : A -> B) (h : A -> C) (l : list A) :
  map F (combine (map g l) (map h l)) = map (fun x => F (g x, h x)) l.
Proof. induction l as [|a l IH]; [reflexivity|]. cbn [map combine]. rewrite IH. reflexivity. Qed.

Lemma reason_ok_denied r : reason_ok r = true -> cr_allowed r = false ->
  String.eqb (cr_reason r) "" = false /\ contains unknown_reason (cr_reason r) = false.
Proof.
  unfold reason_ok. intros H Hd. rewrite Hd in H. cbn [orb] in H.
  apply andb_true_iff in H. destruct H as [H1 H2].
  apply negb_true_iff in H1. apply negb_true_iff in H2. split; assumption.
Qed.

(** when every denying result has a specific reason, the aggregate texts are the
    denying results' own texts, in order, and nowhere show the placeholder *)
Lemma aggregate_texts rs : Forall (fun r => reason_ok r = true) rs ->
  forbidden_reason (aggregate_results rs) = join ", " (map cr_reason (denying rs))
  /\ forbidden_detail (aggregate_results rs)
     = join ", " (map (fun r => if String.eqb (cr_detail r) "" then cr_reason r
                                else cr_reason r ++ " (" ++ cr_detail r ++ ")") (denying rs))
  /\ contains unknown_reason (forbidden_reason (aggregate_results rs)) = false.
Proof.
  intros Hok.
  assert (Hd : forall r, In r (denying rs) ->
                 String.eqb (cr_reason r) "" = false /\ contains unknown_reason (cr_reason r) = false).
  { intros r Hr. unfold denying in Hr. apply filter_In in Hr. destruct Hr as [Hin Hden].
    apply negb_true_iff in Hden. rewrite Forall_forall in Hok. exact (reason_ok_denied r (Hok r Hin) Hden). }
  assert (E1 : forbidden_reason (aggregate_results rs) = join ", " (map cr_reason (denying rs))).
  { unfold forbidden_reason, aggregate_results. cbn [ag_reasons]. fold (denying rs). f_equal.
    apply map_ext_in. intros r Hr. rewrite (proj1 (Hd r Hr)). reflexivity. }
  split; [exact E1|]. split.
  - unfold forbidden_detail, aggregate_results. cbn [ag_reasons ag_details]. fold (denying rs). f_equal.
    rewrite map_combine_map. apply map_ext_in. intros r Hr. rewrite (proj1 (Hd r Hr)). reflexivity.
  - rewrite E1. apply unknown_not_in_join. apply Forall_forall. intros x Hx.
    apply in_map_iff in Hx. destruct Hx as [r [<- Hr]]. exact (proj2 (Hd r Hr)).
Qed.

(** * The evaluator runs the standard's revisions, in the table order *)

Definition resolved_names (cs : list named_check) (l : level) (v : version) : list string :=
  map (fun x => vc_fn (snd x)) (resolve cs l v).

(** computed side condition (stronger than [table_ok]: equality IN ORDER) *)
Definition order_ok (cs : list named_check) : bool :=
  version_eqb (max_version cs) (V 1 newest_published) &&
  forallb (fun k => let m := N.of_nat k in
                    list_eqb String.eqb (resolved_names cs Baseline (V 1 m)) (pss_baseline_revisions m) &&
                    list_eqb String.eqb (resolved_names cs Restricted (V 1 m)) (pss_restricted_revisions m))
          (seq 0 33).

Lemma order_ok_inv cs : order_ok cs = true ->
  max_version cs = V 1 32 /\
  forall m, (m <= 32)%N ->
    resolved_names cs Baseline (V 1 m) = pss_baseline_revisions m /\
    resolved_names cs Restricted (V 1 m) = pss_restricted_revisions m.
Proof.
  unfold order_ok. intros H. apply andb_true_iff in H. destruct H as [Hv H].
  apply version_eqb_eq in Hv. split; [exact Hv|]. intros m Hm.
  rewrite forallb_forall in H. specialize (H (N.to_nat m)). cbv zeta in H.
  rewrite N2Nat.id in H. assert (Hin : In (N.to_nat m) (seq 0 33)) by (apply in_seq; lia).
  specialize (H Hin). apply andb_true_iff in H. destruct H as [Hb Hr].
  apply list_eqb_string_eq in Hb. apply list_eqb_string_eq in Hr. split; assumption.
Qed.

Lemma evaluate_pod_names al relax cs l v p :
  evaluate_pod al relax cs l v p = map (fun fn => run_check al relax fn p) (resolved_names cs l v).
Proof. unfold evaluate_pod, resolved_names. rewrite map_map. reflexivity. Qed.

Lemma cr_same_refl r : cr_same r r = true.
Proof.
  unfold cr_same. rewrite eqb_reflx, !String.eqb_refl. reflexivity.
Qed.

Lemma list_eqb_cr_same_refl l : list_eqb cr_same l l = true.
Proof. induction l as [|r l IH]; [reflexivity|]. cbn [list_eqb]. rewrite cr_same_refl, IH. reflexivity. Qed.

Lemma evaluate_pod_reasons al relax cs l v p :
  Forall (fun r => reason_ok r = true) (evaluate_pod al relax cs l v p).
Proof.
  rewrite evaluate_pod_names. apply Forall_forall. intros r Hr.
  apply in_map_iff in Hr. destruct Hr as [fn [<- _]]. apply run_check_reason.
Qed.

Theorem eval_generic : forall al relax (cs : list named_check) l v p,
  order_ok cs = true ->
  let rs := evaluate_pod al relax cs l v p in
  P13_eval l v (fun fn => run_check al relax fn p) rs
           (forbidden_reason (aggregate_results rs)) (forbidden_detail (aggregate_results rs)) = true.
Proof.
  intros al relax cs l v p Hok rs. unfold P13_eval.
  destruct (effective_minor v) as [m|] eqn:Hm; [|reflexivity].
  destruct (order_ok_inv cs Hok) as [Emx Hnames].
  destruct (resolve_effective cs l v m Emx Hm) as [Hle Hres].
  destruct (Hnames m Hle) as [Hb Hr].
  destruct (aggregate_texts rs (evaluate_pod_reasons al relax cs l v p)) as (E1 & E2 & E3).
  cbv zeta. fold (denying rs). change "unknown forbidden reason" with unknown_reason.
  rewrite E3, E2, E1, !String.eqb_refl. cbn [negb andb]. rewrite !andb_true_r.
  assert (Ers : rs = map (fun fn => run_check al relax fn p) (resolved_names cs l (V 1 m))).
  { unfold rs. rewrite evaluate_pod_names. unfold resolved_names. rewrite Hres. reflexivity. }
  rewrite Ers. destruct l.
  - apply list_eqb_cr_same_refl.
  - rewrite Hb. apply list_eqb_cr_same_refl.
  - rewrite Hr. apply list_eqb_cr_same_refl.
Qed.

Theorem order_independent_of_pod : forall al relax (cs : list named_check) l v p p',
  List.length (evaluate_pod al relax cs l v p) = List.length (evaluate_pod al relax cs l v p').
Proof. intros. unfold evaluate_pod. rewrite !map_length. reflexivity. Qed.

(** * The names a detail lists *)

Definition names_ok (s : subject) (p : pod) (denied : bool) (names : list string) : bool :=
  if negb denied then is_nil names else
  match s with
  | Containers ex im pl =>
      forallb (fun n => existsb (fun c => String.eqb (c_name c) n && (ex p c || im p c)) (all_containers p)) names
      && forallb (fun c => negb (ex p c) || mem (c_name c) names) (all_containers p)
      && (existsb (ex p) (all_containers p) || pl p
          || forallb (fun c => negb (im p c) || mem (c_name c) names) (all_containers p))
  | Volumes bad => list_eqb String.eqb names (map v_name (filter bad (pd_volumes p)))
  | NoSubject => is_nil names
  end.

Lemma P13_names_unfold fn p d n : P13_names fn p d n = names_ok (subject_of fn) p d n.
Proof. reflexivity. Qed.

Lemma In_names_where f p n :
  In n (names_where f p) <-> exists c, In c (all_containers p) /\ f c = true /\ c_name c = n.
Proof.
  unfold names_where. rewrite in_map_iff. split.
  - intros [c [E Hc]]. apply filter_In in Hc. destruct Hc as [Hin Hf]. exists c. repeat split; assumption.
  - intros [c [Hin [Hf E]]]. exists c. split; [exact E|]. apply filter_In. split; assumption.
Qed.

Lemma names_where_ext f g p : (forall c, In c (all_containers p) -> f c = g c) ->
  names_where f p = names_where g p.
Proof.
  intros H. unfold names_where. f_equal. induction (all_containers p) as [|c l IH]; [reflexivity|].
  cbn [filter]. rewrite (H c (or_introl eq_refl)), IH; [reflexivity|].
  intros x Hx. apply H. right. exact Hx.
Qed.

Lemma names_where_nil_existsb f p :
  is_nil (names_where f p) = negb (existsb f (all_containers p)).
Proof.
  rewrite names_where_nil. induction (all_containers p) as [|c l IH]; [reflexivity|].
  cbn [forallb existsb]. rewrite IH. destruct (f c); reflexivity.
Qed.

Lemma names_ok_allowed s p : names_ok s p false [] = true.
Proof. reflexivity. Qed.

Lemma names_ok_containers ex im pl p denied names :
  (denied = false -> names = []) ->
  (forall n, In n names -> exists c, In c (all_containers p) /\ c_name c = n /\ (ex p c || im p c) = true) ->
  (forall c, In c (all_containers p) -> ex p c = true -> In (c_name c) names) ->
  (existsb (ex p) (all_containers p) = false -> pl p = false ->
   forall c, In c (all_containers p) -> im p c = true -> In (c_name c) names) ->
  names_ok (Containers ex im pl) p denied names = true.
Proof.
  intros Hnil H1 H2 H3. unfold names_ok. destruct denied; cbn [negb].
  2: { rewrite (Hnil eq_refl). reflexivity. }
  apply andb_true_iff; split; [apply andb_true_iff; split|].
  - apply forallb_forall. intros n Hn. destruct (H1 n Hn) as (c & Hc & En & Hb).
    apply existsb_exists. exists c. split; [exact Hc|]. rewrite En, String.eqb_refl, Hb. reflexivity.
  - apply forallb_forall. intros c Hc. destruct (ex p c) eqn:E; [|reflexivity]. cbn [negb orb].
    apply mem_true_iff. apply H2; assumption.
  - destruct (existsb (ex p) (all_containers p)) eqn:Ee; [reflexivity|].
    destruct (pl p) eqn:Ep; [reflexivity|]. cbn [orb].
    apply forallb_forall. intros c Hc. destruct (im p c) eqn:Ei; [|reflexivity]. cbn [negb orb].
    apply mem_true_iff. apply H3; auto.
Qed.

(** controls without implicit offenders: the listed names are those of the containers with [bad] *)
Lemma names_ok_explicit (ex : pod -> container -> bool) pl p denied (bad : container -> bool) :
  (forall c, In c (all_containers p) -> bad c = ex p c) ->
  (denied = false -> names_where bad p = []) ->
  names_ok (Containers ex never pl) p denied (names_where bad p) = true.
Proof.
  intros Hb Hnil. apply names_ok_containers.
  - exact Hnil.
  - intros n Hn. apply In_names_where in Hn. destruct Hn as (c & Hc & Hf & En).
    exists c. repeat split; try assumption. rewrite <- (Hb c Hc), Hf. reflexivity.
  - intros c Hc He. apply In_names_where. exists c. repeat split; [exact Hc|]. rewrite (Hb c Hc). exact He.
  - intros _ _ c _ Hi. discriminate Hi.
Qed.

Lemma denied_false_allowed (b : bool) : negb b = false -> b = true.
Proof. destruct b; [reflexivity|discriminate]. Qed.

Ltac allowed_nil f :=
  let H := fresh "H" in
  intros H; apply denied_false_allowed in H; revert H;
  cbv beta zeta delta [f seccomp_bad_setters]; rewrite ?cr_allowed_if, ?cr_allowed_if2;
  rewrite ?is_nil_app, ?is_nil_opt_list, ?negb_involutive;
  intros H;
  repeat match type of H with (_ && _ = true) => apply andb_true_iff in H; destruct H as [? H] end;
  apply is_nil_true; assumption.

(** ** Baseline *)

Lemma names_privileged al r p :
  names_ok (Containers (fun _ c => match csc sc_privileged c with Some true => true | _ => false end) never no_pod)
           p (negb (cr_allowed (privileged_1_0 al r p))) (n_privileged al r p) = true.
Proof.
  unfold n_privileged. apply names_ok_explicit; [reflexivity|]. allowed_nil privileged_1_0.
Qed.

Lemma names_capsBaseline al r p : same_set (al_caps al) pss_capabilities = true ->
  names_ok (Containers (fun _ c => match csc sc_caps c with
                                   | Some (add, _) => negb (forallb (fun x => mem x pss_capabilities) add)
                                   | None => false end) never no_pod)
           p (negb (cr_allowed (capabilitiesBaseline_1_0 al r p))) (n_capsBaseline al r p) = true.
Proof.
  intros Hs. unfold n_capsBaseline. apply names_ok_explicit; [|allowed_nil capabilitiesBaseline_1_0].
  intros c _. unfold caps_bad_adds. destruct (csc sc_caps c) as [[add drop]|]; [|reflexivity].
  rewrite is_nil_filter. f_equal. apply ChecksFacts.forallb_ext. intros x. rewrite negb_involutive.
  apply same_set_mem, Hs.
Qed.

Lemma names_hostPorts al r p :
  names_ok (Containers (fun _ c => negb (forallb (fun z => Z.eqb z 0) (c_hostPorts c))) never no_pod)
           p (negb (cr_allowed (hostPorts_1_0 al r p))) (n_hostPorts al r p) = true.
Proof.
  unfold n_hostPorts. apply names_ok_explicit; [|allowed_nil hostPorts_1_0].
  intros c _. unfold bad_ports. rewrite is_nil_filter. f_equal.
  apply ChecksFacts.forallb_ext. intros z. apply negb_involutive.
Qed.

Lemma names_procMount al r p : relax_pod r p = false ->
  names_ok (Containers (fun _ c => match csc sc_procMount c with
                                   | Some t => negb (String.eqb t "Default") | None => false end) never no_pod)
           p (negb (cr_allowed (procMount_1_0 al r p))) (n_procMount al r p) = true.
Proof.
  intros Hr. unfold n_procMount. rewrite Hr. apply names_ok_explicit.
  - intros c _. unfold procmount_bad. destruct (csc sc_procMount c) as [t|]; [|reflexivity].
    destruct (String.eqb t "Default"); reflexivity.
  - intros H. apply denied_false_allowed in H. revert H.
    cbv beta zeta delta [procMount_1_0]. rewrite Hr, cr_allowed_if. apply is_nil_true.
Qed.

Lemma names_seLinux allowed m p : (forall x, mem x allowed = mem x (pss_selinux_types m)) ->
  names_ok (Containers (fun _ c => negb (ok_selinux_opts m (csc sc_selinux c))) never
                       (fun p => negb (ok_selinux_opts m (psc p_selinux p))))
           p (negb (cr_allowed (seLinuxOptions allowed p))) (n_seLinux allowed p) = true.
Proof.
  intros Hs. unfold n_seLinux. apply names_ok_explicit; [|allowed_nil seLinuxOptions].
  intros c _. unfold ok_selinux_opts, selinux_valid. destruct (csc sc_selinux c) as [o|]; [|reflexivity].
  rewrite Hs. reflexivity.
Qed.

Lemma bad_seccomp_explicit_spec p c : seccomp_bad_container c = bad_seccomp_explicit p c.
Proof.
  unfold seccomp_bad_container, bad_seccomp_explicit. destruct (csc sc_seccomp c) as [t|]; [|reflexivity].
  rewrite valid_seccomp_type_comm. reflexivity.
Qed.

Lemma pod_seccomp_bad_spec p : is_some (seccomp_bad_pod p) = pod_seccomp_bad p.
Proof.
  unfold seccomp_bad_pod, pod_seccomp_bad. destruct (psc p_seccomp p) as [t|]; [|reflexivity].
  rewrite valid_seccomp_type_comm. destruct (valid_seccomp t); reflexivity.
Qed.

Lemma names_seccompBaseline_1_19 al r p :
  names_ok (Containers bad_seccomp_explicit never pod_seccomp_bad)
           p (negb (cr_allowed (seccompProfileBaseline_1_19 al r p))) (n_seccomp_explicit al r p) = true.
Proof.
  unfold n_seccomp_explicit. apply names_ok_explicit.
  - intros c _. apply bad_seccomp_explicit_spec.
  - allowed_nil seccompProfileBaseline_1_19.
Qed.

Lemma names_appArmor al r p :
  names_ok (Containers (fun _ c => negb (ok_apparmor_type (csc sc_apparmor c))) never (fun _ => true))
           p (negb (cr_allowed (appArmorProfile_1_0 al r p))) (n_appArmor al r p) = true.
Proof.
  unfold n_appArmor. apply names_ok_explicit; [|allowed_nil appArmorProfile_1_0].
  intros c _. unfold apparmor_bad_container. rewrite apparmor_type_ok.
  destruct (csc sc_apparmor c); reflexivity.
Qed.

Lemma names_winHP al r p :
  names_ok (Containers (fun _ c => negb (not_host_process (csc sc_winHP c))) never
                       (fun p => negb (not_host_process (psc p_winHP p))))
           p (negb (cr_allowed (windowsHostProcess_1_0 al r p))) (n_winHP al r p) = true.
Proof.
  unfold n_winHP. apply names_ok_explicit; [|allowed_nil windowsHostProcess_1_0].
  intros c _. destruct (csc sc_winHP c) as [[[|]|]|]; reflexivity.
Qed.

Lemma names_none s al r p f : (s = NoSubject) ->
  names_ok s p (negb (cr_allowed (f al r p))) (n_none al r p) = true.
Proof. intros ->. unfold names_ok, n_none. destruct (negb _); reflexivity. Qed.

Lemma list_eqb_string_refl l : list_eqb String.eqb l l = true.
Proof. apply list_eqb_string_eq. reflexivity. Qed.

Lemma names_hostPath al r p :
  names_ok (Volumes (fun v => mem "hostPath" (v_sources v)))
           p (negb (cr_allowed (hostPathVolumes_1_0 al r p))) (n_hostPath al r p) = true.
Proof.
  unfold names_ok, n_hostPath. destruct (negb (cr_allowed (hostPathVolumes_1_0 al r p))) eqn:E; cbn [negb].
  - apply list_eqb_string_refl.
  - apply denied_false_allowed in E. revert E. cbv beta zeta delta [hostPathVolumes_1_0].
    rewrite cr_allowed_if. exact (fun H => H).
Qed.

(** ** Restricted *)

Lemma names_allowPE_8 al r p :
  names_ok (Containers (fun _ c => match csc sc_allowPE c with Some false => false | _ => true end) never no_pod)
           p (negb (cr_allowed (allowPrivilegeEscalation_1_8 al r p))) (n_allowPE al r p) = true.
Proof.
  unfold n_allowPE. apply names_ok_explicit; [reflexivity|]. allowed_nil allowPrivilegeEscalation_1_8.
Qed.

Lemma names_allowPE_25 al r p :
  names_ok (Containers (fun _ c => match csc sc_allowPE c with Some false => false | _ => true end) never no_pod)
           p (negb (cr_allowed (allowPrivilegeEscalation_1_25 al r p))) (windows_none n_allowPE al r p) = true.
Proof.
  unfold windows_none, allowPrivilegeEscalation_1_25. destruct (is_windows p); [reflexivity|].
  apply names_allowPE_8.
Qed.

Definition caps_restricted_bad (c : container) : bool :=
  match csc sc_caps c with
  | Some (add, drop) => negb (mem "ALL" drop && forallb (fun x => String.eqb x "NET_BIND_SERVICE") add)
  | None => true
  end.

Lemma caps_restricted_bad_split c :
  caps_restricted_bad c = missing_drop_all c || negb (is_nil (forbidden_adds c)).
Proof.
  unfold caps_restricted_bad, missing_drop_all, forbidden_adds.
  destruct (csc sc_caps c) as [[add drop]|]; [|reflexivity].
  rewrite is_nil_filter, negb_andb. f_equal. f_equal.
  apply ChecksFacts.forallb_ext. intros x. symmetry. apply negb_involutive.
Qed.

Lemma names_capsRestricted_22 al r p :
  names_ok (Containers (fun _ c => match csc sc_caps c with
                                   | Some (add, drop) => negb (mem "ALL" drop && forallb (fun x => String.eqb x "NET_BIND_SERVICE") add)
                                   | None => true end) never no_pod)
           p (negb (cr_allowed (capabilitiesRestricted_1_22 al r p))) (n_capsRestricted al r p) = true.
Proof.
  change (fun (_ : pod) c => match csc sc_caps c with
                   | Some (add, drop) => negb (mem "ALL" drop && forallb (fun x => String.eqb x "NET_BIND_SERVICE") add)
                   | None => true end) with (fun (_ : pod) c => caps_restricted_bad c).
  unfold n_capsRestricted. apply names_ok_containers.
  - intros H. apply denied_false_allowed in H. revert H.
    cbv beta zeta delta [capabilitiesRestricted_1_22]. rewrite cr_allowed_if.
    rewrite is_nil_app, !is_nil_opt_list, !negb_involutive. intros H.
    apply andb_true_iff in H. destruct H as [Ha Hb].
    apply is_nil_true in Ha. apply is_nil_true in Hb. rewrite Ha, Hb. reflexivity.
  - intros n Hn. apply in_app_or in Hn.
    destruct Hn as [Hn|Hn]; apply In_names_where in Hn; destruct Hn as (c & Hc & Hf & En);
      exists c; (repeat split; try assumption); rewrite caps_restricted_bad_split, Hf.
    + reflexivity.
    + rewrite orb_true_r. reflexivity.
  - intros c Hc He. rewrite caps_restricted_bad_split in He. apply orb_true_iff in He.
    apply in_or_app. destruct He as [He|He]; [left|right]; apply In_names_where; exists c; repeat split; assumption.
  - intros _ _ c _ Hi. discriminate Hi.
Qed.

Lemma names_capsRestricted_25 al r p :
  names_ok (Containers (fun _ c => match csc sc_caps c with
                                   | Some (add, drop) => negb (mem "ALL" drop && forallb (fun x => String.eqb x "NET_BIND_SERVICE") add)
                                   | None => true end) never no_pod)
           p (negb (cr_allowed (capabilitiesRestricted_1_25 al r p))) (windows_none n_capsRestricted al r p) = true.
Proof.
  unfold windows_none, capabilitiesRestricted_1_25. destruct (is_windows p); [reflexivity|].
  apply names_capsRestricted_22.
Qed.

Lemma names_restrictedVolumes al r p :
  names_ok (Volumes (fun v => negb (existsb (fun k => mem k pss_volume_types) (v_sources v))))
           p (negb (cr_allowed (restrictedVolumes_1_0 al r p))) (n_restrictedVolumes al r p) = true.
Proof.
  unfold names_ok, n_restrictedVolumes.
  destruct (negb (cr_allowed (restrictedVolumes_1_0 al r p))) eqn:E; cbn [negb].
  - apply list_eqb_string_eq. f_equal. apply filter_ext. intros v. rewrite volume_allowed_spec. reflexivity.
  - apply denied_false_allowed in E. revert E. cbv beta zeta delta [restrictedVolumes_1_0].
    rewrite cr_allowed_if. exact (fun H => H).
Qed.

Lemma names_runAsUser al r p : relax_pod r p = false ->
  names_ok (Containers (fun _ c => negb (nonzero_user (csc sc_runAsUser c))) never
                       (fun p => negb (nonzero_user (psc p_runAsUser p))))
           p (negb (cr_allowed (runAsUser_1_23 al r p))) (n_runAsUser al r p) = true.
Proof.
  intros Hr. unfold n_runAsUser. rewrite Hr. apply names_ok_explicit.
  - intros c _. rewrite <- nonzero_user_spec. symmetry. apply negb_involutive.
  - intros H. apply denied_false_allowed in H. revert H.
    cbv beta zeta delta [runAsUser_1_23]. rewrite Hr, cr_allowed_if.
    rewrite is_nil_app, !is_nil_opt_list, negb_involutive. intros H.
    apply andb_true_iff in H. apply is_nil_true. exact (proj2 H).
Qed.

Lemma nonempty_not_nil {A} (x : A) l : In x l -> is_nil l = false.
Proof. destruct l; [intros []|reflexivity]. Qed.

Lemma names_runAsNonRoot al r p : relax_pod r p = false ->
  names_ok (Containers (fun _ c => match csc sc_runAsNonRoot c with Some false => true | _ => false end)
               (fun p c => match csc sc_runAsNonRoot c, psc p_runAsNonRoot p with
                           | None, Some true => false | None, _ => true | Some _, _ => false end)
               (fun p => match psc p_runAsNonRoot p with Some false => true | _ => false end))
           p (negb (cr_allowed (runAsNonRoot_1_0 al r p))) (n_runAsNonRoot al r p) = true.
Proof.
  intros Hr.
  set (exf := fun c => match csc sc_runAsNonRoot c with Some false => true | _ => false end).
  set (imf := fun c => match csc sc_runAsNonRoot c with
                       | None => match psc p_runAsNonRoot p with Some true => false | _ => true end
                       | Some _ => false end).
  set (plb := match psc p_runAsNonRoot p with Some false => true | _ => false end).
  assert (En : n_runAsNonRoot al r p
               = if plb || negb (is_nil (names_where exf p)) then names_where exf p else names_where imf p).
  { unfold n_runAsNonRoot. rewrite Hr. reflexivity. }
  assert (Ea : cr_allowed (runAsNonRoot_1_0 al r p)
               = negb plb && is_nil (names_where exf p) && is_nil (names_where imf p)).
  { cbv beta zeta delta [runAsNonRoot_1_0]. rewrite Hr, cr_allowed_if2.
    rewrite is_nil_app, !is_nil_opt_list, negb_involutive. f_equal. f_equal.
    apply names_where_ext. intros c _. unfold imf.
    destruct (csc sc_runAsNonRoot c); [reflexivity|].
    destruct (psc p_runAsNonRoot p) as [[|]|]; reflexivity. }
  rewrite En, Ea. apply names_ok_containers.
  - intros H. apply denied_false_allowed in H.
    apply andb_true_iff in H. destruct H as [H Hi]. apply andb_true_iff in H. destruct H as [Hp He].
    apply negb_true_iff in Hp. rewrite Hp, He. cbn [negb orb]. apply is_nil_true. exact Hi.
  - intros n Hn. destruct (plb || negb (is_nil (names_where exf p)));
      apply In_names_where in Hn; destruct Hn as (c & Hc & Hf & E); exists c; repeat split; try assumption.
    + fold (exf c). rewrite Hf. reflexivity.
    + apply orb_true_iff. right. unfold imf in Hf.
      destruct (csc sc_runAsNonRoot c); [discriminate Hf|].
      destruct (psc p_runAsNonRoot p) as [[|]|]; first [discriminate Hf|reflexivity].
  - intros c Hc He. fold (exf c) in He.
    assert (Hin : In (c_name c) (names_where exf p)).
    { apply In_names_where. exists c. repeat split; assumption. }
    rewrite (nonempty_not_nil _ _ Hin), orb_true_r. exact Hin.
  - intros Hex Hpl c Hc Hi. fold plb in Hpl. change (existsb exf (all_containers p) = false) in Hex.
    rewrite names_where_nil_existsb, Hex, Hpl. cbn [negb orb].
    apply In_names_where. exists c. repeat split; [exact Hc|]. unfold imf.
    destruct (csc sc_runAsNonRoot c); [discriminate Hi|].
    destruct (psc p_runAsNonRoot p) as [[|]|]; first [discriminate Hi|reflexivity].
Qed.

Lemma names_seccompRestricted_19 al r p :
  names_ok (Containers bad_seccomp_explicit
               (fun p c => match csc sc_seccomp c with
                           | None => match psc p_seccomp p with Some t => negb (valid_seccomp t) | None => true end
                           | Some _ => false end)
               pod_seccomp_bad)
           p (negb (cr_allowed (seccompProfileRestricted_1_19 al r p))) (n_seccompRestricted al r p) = true.
Proof.
  set (imf := fun c => match csc sc_seccomp c with
                       | None => negb (match psc p_seccomp p with Some t => valid_seccomp_type t | None => false end)
                       | Some _ => false end).
  assert (Es : is_nil (seccomp_bad_setters p)
               = negb (pod_seccomp_bad p) && is_nil (names_where seccomp_bad_container p)).
  { cbv beta zeta delta [seccomp_bad_setters].
    rewrite is_nil_app, !is_nil_opt_list, negb_involutive, pod_seccomp_bad_spec. reflexivity. }
  assert (En : n_seccompRestricted al r p
               = if pod_seccomp_bad p || negb (is_nil (names_where seccomp_bad_container p))
                 then names_where seccomp_bad_container p else names_where imf p).
  { cbv beta zeta delta [n_seccompRestricted]. rewrite Es. fold imf.
    destruct (pod_seccomp_bad p), (is_nil (names_where seccomp_bad_container p)); reflexivity. }
  assert (Ea : cr_allowed (seccompProfileRestricted_1_19 al r p)
               = negb (pod_seccomp_bad p) && is_nil (names_where seccomp_bad_container p)
                 && is_nil (names_where imf p)).
  { cbv beta zeta delta [seccompProfileRestricted_1_19]. rewrite cr_allowed_if2, Es. reflexivity. }
  assert (Him : forall c, imf c = match csc sc_seccomp c with
                           | None => match psc p_seccomp p with Some t => negb (valid_seccomp t) | None => true end
                           | Some _ => false end).
  { intros c. unfold imf. destruct (csc sc_seccomp c); [reflexivity|].
    destruct (psc p_seccomp p) as [t|]; [rewrite valid_seccomp_type_comm|]; reflexivity. }
  rewrite En, Ea. apply names_ok_containers.
  - intros H. apply denied_false_allowed in H.
    apply andb_true_iff in H. destruct H as [H Hi]. apply andb_true_iff in H. destruct H as [Hp He].
    apply negb_true_iff in Hp. rewrite Hp, He. cbn [negb orb]. apply is_nil_true. exact Hi.
  - intros n Hn. destruct (pod_seccomp_bad p || negb (is_nil (names_where seccomp_bad_container p)));
      apply In_names_where in Hn; destruct Hn as (c & Hc & Hf & E); exists c; repeat split; try assumption.
    + rewrite <- bad_seccomp_explicit_spec, Hf. reflexivity.
    + rewrite <- Him, Hf. apply orb_true_r.
  - intros c Hc He. rewrite <- bad_seccomp_explicit_spec in He.
    assert (Hin : In (c_name c) (names_where seccomp_bad_container p)).
    { apply In_names_where. exists c. repeat split; assumption. }
    rewrite (nonempty_not_nil _ _ Hin), orb_true_r. exact Hin.
  - intros Hex Hpl c Hc Hi.
    assert (Hex' : existsb seccomp_bad_container (all_containers p) = false).
    { rewrite <- Hex. clear. induction (all_containers p) as [|c l IH]; [reflexivity|].
      cbn [existsb]. rewrite IH, (bad_seccomp_explicit_spec p). reflexivity. }
    rewrite names_where_nil_existsb, Hex', Hpl. cbn [negb orb].
    apply In_names_where. exists c. repeat split; [exact Hc|]. rewrite Him. exact Hi.
Qed.

Lemma names_seccompRestricted_25 al r p :
  names_ok (Containers bad_seccomp_explicit
               (fun p c => match csc sc_seccomp c with
                           | None => match psc p_seccomp p with Some t => negb (valid_seccomp t) | None => true end
                           | Some _ => false end)
               pod_seccomp_bad)
           p (negb (cr_allowed (seccompProfileRestricted_1_25 al r p))) (windows_none n_seccompRestricted al r p) = true.
Proof.
  unfold windows_none, seccompProfileRestricted_1_25. destruct (is_windows p); [reflexivity|].
  apply names_seccompRestricted_19.
Qed.

(** ** all revisions *)

Ltac subject_compute :=
  lazy beta zeta iota delta [subject_of String.eqb Ascii.eqb Bool.eqb orb].

Theorem names_are_offenders : forall al fn relax p,
  lists_ok al = true -> relax_pod relax p = false ->
  P13_names fn p (negb (cr_allowed (run_check al relax fn p))) (check_names fn al relax p) = true.
Proof.
  intros al fn relax p Hl Hr. rewrite P13_names_unfold.
  apply lists_ok_inv in Hl. destruct Hl as (Hc & _ & _ & _ & _ & Hs0 & Hs31).
  unfold check_names. destruct (lookup fn names_dictionary) as [nf|] eqn:E.
  - apply lookup_In in E. unfold names_dictionary in E. cbn [In] in E.
    repeat (destruct E as [E|E];
            [ injection E as E1 E2; subst fn nf; subject_compute;
              first [ exact (names_appArmor al relax p)
                    | exact (names_capsBaseline al relax p Hc)
                    | exact (names_none _ al relax p hostNamespaces_1_0 eq_refl)
                    | exact (names_hostPath al relax p)
                    | exact (names_hostPorts al relax p)
                    | exact (names_privileged al relax p)
                    | exact (names_procMount al relax p Hr)
                    | exact (names_seLinux (al_selinux_0 al) 0 p (same_set_mem _ _ Hs0))
                    | exact (names_seLinux (al_selinux_31 al) 31 p (same_set_mem _ _ Hs31))
                    | exact (names_none _ al relax p seccompProfileBaseline_1_0 eq_refl)
                    | exact (names_seccompBaseline_1_19 al relax p)
                    | exact (names_none _ al relax p sysctlsV1Dot0 eq_refl)
                    | exact (names_none _ al relax p sysctlsV1Dot27 eq_refl)
                    | exact (names_none _ al relax p sysctlsV1Dot29 eq_refl)
                    | exact (names_none _ al relax p sysctlsV1Dot32 eq_refl)
                    | exact (names_winHP al relax p)
                    | exact (names_allowPE_8 al relax p)
                    | exact (names_allowPE_25 al relax p)
                    | exact (names_capsRestricted_22 al relax p)
                    | exact (names_capsRestricted_25 al relax p)
                    | exact (names_restrictedVolumes al relax p)
                    | exact (names_runAsNonRoot al relax p Hr)
                    | exact (names_runAsUser al relax p Hr)
                    | exact (names_seccompRestricted_19 al relax p)
                    | exact (names_seccompRestricted_25 al relax p) ]
            | ]).
    destruct E.
  - (* a name outside the dictionary: no subject, nothing listed *)
    unfold names_dictionary in E. cbn [lookup] in E.
    repeat match type of E with
           | (if String.eqb fn ?s then _ else _) = None =>
               destruct (String.eqb fn s) eqn:?; [discriminate E|]
           end.
    unfold subject_of. cbv zeta.
    repeat match goal with
           | H : String.eqb fn ?s = false |- _ => rewrite H; clear H
           end.
    cbn [orb]. unfold names_ok. destruct (negb _); reflexivity.
Qed.

(** * The twin is what the text says *)

(** [shows ph d]: the text [d] has the phrase [ph] as a contiguous part *)
Definition shows (ph d : string) : Prop := exists a b, d = a ++ ph ++ b.

Lemma append_nil_r s : s ++ "" = s.
Proof. induction s as [|c s IH]; [reflexivity|]. cbn [append]. rewrite IH. reflexivity. Qed.

Lemma shows_here ph b : shows ph (ph ++ b).
Proof. exists "", b. reflexivity. Qed.
Lemma shows_exact ph : shows ph ph.
Proof. exists "", "". cbn [append]. symmetry. apply append_nil_r. Qed.
Lemma shows_prefix x ph d : shows ph d -> shows ph (x ++ d).
Proof. intros [a [b ->]]. exists (x ++ a), b. symmetry. apply append_assoc. Qed.
Lemma shows_suffix y ph d : shows ph d -> shows ph (d ++ y).
Proof. intros [a [b ->]]. exists a, (b ++ y). rewrite !append_assoc. reflexivity. Qed.
Lemma shows_trans s ph d : shows s ph -> shows ph d -> shows s d.
Proof.
  intros [a [b ->]] [a' [b' ->]]. exists (a' ++ a), (b ++ b'). rewrite !append_assoc. reflexivity.
Qed.
Lemma shows_contains ph d : shows ph d -> contains ph d = true.
Proof. intros [a [b ->]]. apply contains_mid. Qed.

Lemma containers_phrase_shows names : shows (join_quote names) (containers_phrase names).
Proof. unfold containers_phrase. apply shows_prefix, shows_prefix, shows_exact. Qed.
Lemma volumes_phrase_shows names : shows (join_quote names) (volumes_phrase names).
Proof. unfold volumes_phrase. apply shows_prefix, shows_prefix, shows_exact. Qed.

Lemma not_nil_false {A} (l : list A) : l <> [] -> is_nil l = false.
Proof. apply is_nil_false_iff. Qed.

Lemma opt_list_true {A} (x : A) : opt_list true x = [x].
Proof. reflexivity. Qed.

(** "pod and container(s) ..." / "container(s) ..." *)
Lemma shows_setters (b : bool) ph :
  shows ph (join " and " (opt_list b "pod" +:+ [ph])).
Proof.
  destruct b; cbn [opt_list app join String.concat]; [apply shows_prefix, shows_prefix|]; apply shows_exact.
Qed.

Lemma setters_not_nil (b : bool) (ph : string) l : is_nil (opt_list b "pod" +:+ ph :: l) = false.
Proof. destruct b; reflexivity. Qed.

(** ** per revision *)

Lemma detail_privileged al r p : n_privileged al r p <> [] ->
  shows (containers_phrase (n_privileged al r p)) (cr_detail (privileged_1_0 al r p)).
Proof.
  unfold n_privileged. intros Hn. cbv beta zeta delta [privileged_1_0].
  rewrite (not_nil_false _ Hn). cbn [cr_detail]. apply shows_here.
Qed.

Lemma detail_capsBaseline al r p : n_capsBaseline al r p <> [] ->
  shows (containers_phrase (n_capsBaseline al r p)) (cr_detail (capabilitiesBaseline_1_0 al r p)).
Proof.
  unfold n_capsBaseline. intros Hn. cbv beta zeta delta [capabilitiesBaseline_1_0].
  rewrite (not_nil_false _ Hn). cbn [cr_detail]. apply shows_here.
Qed.

Lemma detail_hostPath al r p : n_hostPath al r p <> [] ->
  shows (volumes_phrase (n_hostPath al r p)) (cr_detail (hostPathVolumes_1_0 al r p)).
Proof.
  unfold n_hostPath. intros Hn. cbv beta zeta delta [hostPathVolumes_1_0].
  rewrite (not_nil_false _ Hn). cbn [cr_detail]. apply shows_exact.
Qed.

Lemma detail_hostPorts al r p : n_hostPorts al r p <> [] ->
  shows (containers_phrase (n_hostPorts al r p)) (cr_detail (hostPorts_1_0 al r p)).
Proof.
  unfold n_hostPorts. intros Hn. cbv beta zeta delta [hostPorts_1_0].
  rewrite (not_nil_false _ Hn). cbn [cr_detail]. apply shows_here.
Qed.

Lemma detail_procMount al r p : n_procMount al r p <> [] ->
  shows (containers_phrase (n_procMount al r p)) (cr_detail (procMount_1_0 al r p)).
Proof.
  unfold n_procMount. cbv beta zeta delta [procMount_1_0].
  destruct (relax_pod r p); [intros Hn; elim Hn; reflexivity|]. intros Hn.
  rewrite (not_nil_false _ Hn). cbn [cr_detail]. apply shows_here.
Qed.

Lemma detail_seLinux allowed p : n_seLinux allowed p <> [] ->
  shows (containers_phrase (n_seLinux allowed p)) (cr_detail (seLinuxOptions allowed p)).
Proof.
  unfold n_seLinux. intros Hn. cbv beta zeta delta [seLinuxOptions].
  rewrite (not_nil_false _ Hn). cbn [negb]. rewrite !opt_list_true, setters_not_nil. cbn [cr_detail]. apply shows_suffix, shows_setters.
Qed.

Lemma detail_seccompBaseline_1_19 al r p : n_seccomp_explicit al r p <> [] ->
  shows (containers_phrase (n_seccomp_explicit al r p)) (cr_detail (seccompProfileBaseline_1_19 al r p)).
Proof.
  unfold n_seccomp_explicit. intros Hn. cbv beta zeta delta [seccompProfileBaseline_1_19 seccomp_bad_setters].
  rewrite (not_nil_false _ Hn). cbn [negb]. rewrite !opt_list_true, setters_not_nil.
  cbn [cr_detail]. apply shows_suffix, shows_setters.
Qed.

Lemma detail_appArmor al r p : n_appArmor al r p <> [] ->
  shows (containers_phrase (n_appArmor al r p)) (cr_detail (appArmorProfile_1_0 al r p)).
Proof.
  unfold n_appArmor. intros Hn. cbv beta zeta delta [appArmorProfile_1_0].
  rewrite (not_nil_false _ Hn). cbn [negb]. rewrite !opt_list_true.
  change ([containers_phrase (names_where apparmor_bad_container p)] +:+
          opt_list (negb (is_nil (apparmor_forbidden_annotations p)))
            (pluralize "annotation" "annotations" (List.length (apparmor_forbidden_annotations p))))
    with (containers_phrase (names_where apparmor_bad_container p) ::
          opt_list (negb (is_nil (apparmor_forbidden_annotations p)))
            (pluralize "annotation" "annotations" (List.length (apparmor_forbidden_annotations p)))).
  rewrite setters_not_nil. cbn [cr_detail]. apply shows_suffix.
  destruct (is_some (apparmor_bad_pod p)), (negb (is_nil (apparmor_forbidden_annotations p)));
    cbn [opt_list app join String.concat];
    repeat first [apply shows_exact | apply shows_here | apply shows_prefix].
Qed.

Lemma detail_winHP al r p : n_winHP al r p <> [] ->
  shows (containers_phrase (n_winHP al r p)) (cr_detail (windowsHostProcess_1_0 al r p)).
Proof.
  unfold n_winHP. intros Hn. cbv beta zeta delta [windowsHostProcess_1_0].
  rewrite (not_nil_false _ Hn). cbn [negb]. rewrite !opt_list_true, setters_not_nil.
  cbn [cr_detail]. apply shows_suffix, shows_setters.
Qed.

Lemma detail_allowPE_8 al r p : n_allowPE al r p <> [] ->
  shows (containers_phrase (n_allowPE al r p)) (cr_detail (allowPrivilegeEscalation_1_8 al r p)).
Proof.
  unfold n_allowPE. intros Hn. cbv beta zeta delta [allowPrivilegeEscalation_1_8].
  rewrite (not_nil_false _ Hn). cbn [cr_detail]. apply shows_here.
Qed.

Lemma detail_allowPE_25 al r p : windows_none n_allowPE al r p <> [] ->
  shows (containers_phrase (windows_none n_allowPE al r p)) (cr_detail (allowPrivilegeEscalation_1_25 al r p)).
Proof.
  unfold windows_none, allowPrivilegeEscalation_1_25.
  destruct (is_windows p); [intros Hn; elim Hn; reflexivity|]. apply detail_allowPE_8.
Qed.

Lemma detail_restrictedVolumes al r p : n_restrictedVolumes al r p <> [] ->
  shows (volumes_phrase (n_restrictedVolumes al r p)) (cr_detail (restrictedVolumes_1_0 al r p)).
Proof.
  unfold n_restrictedVolumes. intros Hn. cbv beta zeta delta [restrictedVolumes_1_0].
  rewrite (not_nil_false _ Hn). cbn [cr_detail]. apply shows_here.
Qed.

Lemma detail_runAsUser al r p : n_runAsUser al r p <> [] ->
  shows (containers_phrase (n_runAsUser al r p)) (cr_detail (runAsUser_1_23 al r p)).
Proof.
  unfold n_runAsUser. cbv beta zeta delta [runAsUser_1_23].
  destruct (relax_pod r p); [intros Hn; elim Hn; reflexivity|]. intros Hn.
  rewrite (not_nil_false _ Hn). cbn [negb]. rewrite !opt_list_true, setters_not_nil.
  cbn [cr_detail]. apply shows_suffix, shows_setters.
Qed.

Lemma detail_runAsNonRoot al r p : n_runAsNonRoot al r p <> [] ->
  shows (containers_phrase (n_runAsNonRoot al r p)) (cr_detail (runAsNonRoot_1_0 al r p)).
Proof.
  cbv beta zeta delta [n_runAsNonRoot runAsNonRoot_1_0].
  destruct (relax_pod r p); [intros Hn; elim Hn; reflexivity|].
  set (explicit := names_where (fun c => match csc sc_runAsNonRoot c with Some false => true | _ => false end) p).
  set (plb := match psc p_runAsNonRoot p with Some false => true | _ => false end).
  assert (Ei : names_where (fun c => match csc sc_runAsNonRoot c with
                                     | None => negb match psc p_runAsNonRoot p with Some true => true | _ => false end
                                     | Some _ => false end) p
               = names_where (fun c => match csc sc_runAsNonRoot c with
                                       | None => match psc p_runAsNonRoot p with Some true => false | _ => true end
                                       | Some _ => false end) p).
  { apply names_where_ext. intros c _. destruct (csc sc_runAsNonRoot c); [reflexivity|].
    destruct (psc p_runAsNonRoot p) as [[|]|]; reflexivity. }
  rewrite Ei. clear Ei.
  set (implicit := names_where (fun c => match csc sc_runAsNonRoot c with
                                       | None => match psc p_runAsNonRoot p with Some true => false | _ => true end
                                       | Some _ => false end) p).
  rewrite is_nil_app, !is_nil_opt_list, negb_involutive, negb_andb, negb_involutive.
  destruct (is_nil explicit) eqn:Ee; cbn [negb].
  - destruct plb; cbn [orb negb opt_list app].
    + (* only the pod level sets false: no container is listed *)
      intros Hn. destruct explicit; [elim Hn; reflexivity|discriminate Ee].
    + intros Hn. rewrite (not_nil_false _ Hn). cbn [negb cr_detail]. apply shows_prefix, shows_here.
  - rewrite orb_true_r. intros _. cbn [cr_detail]. rewrite opt_list_true. apply shows_suffix, shows_setters.
Qed.

Lemma detail_seccompRestricted_19 al r p : n_seccompRestricted al r p <> [] ->
  shows (containers_phrase (n_seccompRestricted al r p)) (cr_detail (seccompProfileRestricted_1_19 al r p)).
Proof.
  cbv beta zeta delta [n_seccompRestricted seccompProfileRestricted_1_19].
  destruct (negb (is_nil (seccomp_bad_setters p))) eqn:Es.
  - intros Hn. cbn [cr_detail]. apply shows_suffix. unfold seccomp_bad_setters.
    rewrite (not_nil_false _ Hn). cbn [negb]. rewrite opt_list_true. apply shows_setters.
  - intros Hn. rewrite (not_nil_false _ Hn). cbn [negb cr_detail]. apply shows_prefix, shows_here.
Qed.

Lemma detail_seccompRestricted_25 al r p : windows_none n_seccompRestricted al r p <> [] ->
  shows (containers_phrase (windows_none n_seccompRestricted al r p))
        (cr_detail (seccompProfileRestricted_1_25 al r p)).
Proof.
  unfold windows_none, seccompProfileRestricted_1_25.
  destruct (is_windows p); [intros Hn; elim Hn; reflexivity|]. apply detail_seccompRestricted_19.
Qed.

(** capabilitiesRestricted has two phrases, one per list *)
Lemma detail_capsRestricted_22 al r p :
  (names_where missing_drop_all p <> [] ->
   shows (containers_phrase (names_where missing_drop_all p)) (cr_detail (capabilitiesRestricted_1_22 al r p)))
  /\ (names_where (fun c => negb (is_nil (forbidden_adds c))) p <> [] ->
      shows (containers_phrase (names_where (fun c => negb (is_nil (forbidden_adds c))) p))
            (cr_detail (capabilitiesRestricted_1_22 al r p))).
Proof.
  cbv beta zeta delta [capabilitiesRestricted_1_22].
  set (missing := names_where missing_drop_all p).
  set (adding := names_where (fun c => negb (is_nil (forbidden_adds c))) p).
  split; intros Hn; rewrite is_nil_app, !is_nil_opt_list, !negb_involutive, (not_nil_false _ Hn).
  - cbn [andb negb cr_detail opt_list app]. destruct (is_nil adding); cbn [negb opt_list join String.concat].
    + apply shows_here.
    + apply shows_suffix, shows_here.
  - rewrite andb_false_r. cbn [negb cr_detail opt_list]. destruct (is_nil missing); cbn [negb opt_list app join String.concat].
    + apply shows_here.
    + apply shows_prefix, shows_prefix, shows_here.
Qed.

Lemma detail_capsRestricted_25 al r p : is_windows p = false ->
  (names_where missing_drop_all p <> [] ->
   shows (containers_phrase (names_where missing_drop_all p)) (cr_detail (capabilitiesRestricted_1_25 al r p)))
  /\ (names_where (fun c => negb (is_nil (forbidden_adds c))) p <> [] ->
      shows (containers_phrase (names_where (fun c => negb (is_nil (forbidden_adds c))) p))
            (cr_detail (capabilitiesRestricted_1_25 al r p))).
Proof. intros Hw. unfold capabilitiesRestricted_1_25. rewrite Hw. apply detail_capsRestricted_22. Qed.

(** ** all revisions *)

(** the phrase a revision's detail uses for its list *)
Definition phrase_of (fn : string) (names : list string) : string :=
  if String.eqb fn "hostPathVolumes_1_0" || String.eqb fn "restrictedVolumes_1_0"
  then volumes_phrase names else containers_phrase names.

Lemma phrase_of_shows fn names : shows (join_quote names) (phrase_of fn names).
Proof.
  unfold phrase_of. destruct (_ || _); [apply volumes_phrase_shows|apply containers_phrase_shows].
Qed.

Ltac names_compute :=
  lazy beta iota zeta delta [check_names names_dictionary lookup phrase_of String.eqb Ascii.eqb Bool.eqb orb].

Lemma detail_shows_phrase al fn f relax p : lookup_check fn = Some f ->
  fn <> "capabilitiesRestricted_1_22" -> fn <> "capabilitiesRestricted_1_25" ->
  check_names fn al relax p <> [] ->
  shows (phrase_of fn (check_names fn al relax p)) (cr_detail (f al relax p)).
Proof.
  intros Hf N22 N25. apply lookup_In in Hf. unfold check_dictionary in Hf. cbn [In] in Hf.
  Local Ltac dcase Hf tac :=
    destruct Hf as [Hf|Hf]; [injection Hf as <- <-; names_compute; tac|].
  Local Ltac no_names := let Hn := fresh in intros Hn; elim Hn; reflexivity.
  dcase Hf ltac:(exact (detail_appArmor al relax p)).
  dcase Hf ltac:(exact (detail_capsBaseline al relax p)).
  dcase Hf no_names.
  dcase Hf ltac:(exact (detail_hostPath al relax p)).
  dcase Hf ltac:(exact (detail_hostPorts al relax p)).
  dcase Hf ltac:(exact (detail_privileged al relax p)).
  dcase Hf ltac:(exact (detail_procMount al relax p)).
  dcase Hf ltac:(exact (detail_seLinux (al_selinux_0 al) p)).
  dcase Hf ltac:(exact (detail_seLinux (al_selinux_31 al) p)).
  dcase Hf no_names.
  dcase Hf ltac:(exact (detail_seccompBaseline_1_19 al relax p)).
  dcase Hf no_names.
  dcase Hf no_names.
  dcase Hf no_names.
  dcase Hf no_names.
  dcase Hf ltac:(exact (detail_winHP al relax p)).
  dcase Hf ltac:(exact (detail_allowPE_8 al relax p)).
  dcase Hf ltac:(exact (detail_allowPE_25 al relax p)).
  dcase Hf ltac:(elim N22; reflexivity).
  dcase Hf ltac:(elim N25; reflexivity).
  dcase Hf ltac:(exact (detail_restrictedVolumes al relax p)).
  dcase Hf ltac:(exact (detail_runAsNonRoot al relax p)).
  dcase Hf ltac:(exact (detail_runAsUser al relax p)).
  dcase Hf ltac:(exact (detail_seccompRestricted_19 al relax p)).
  dcase Hf ltac:(exact (detail_seccompRestricted_25 al relax p)).
  destruct Hf.
Qed.

Theorem detail_lists_names : forall al fn f relax p, lookup_check fn = Some f ->
  fn <> "capabilitiesRestricted_1_22" -> fn <> "capabilitiesRestricted_1_25" ->
  check_names fn al relax p <> [] ->
  contains (join_quote (check_names fn al relax p)) (cr_detail (f al relax p)) = true.
Proof.
  intros al fn f relax p Hf N22 N25 Hn. apply shows_contains.
  apply shows_trans with (phrase_of fn (check_names fn al relax p)); [apply phrase_of_shows|].
  exact (detail_shows_phrase al fn f relax p Hf N22 N25 Hn).
Qed.

Theorem detail_contains_phrase : forall al fn f relax p, lookup_check fn = Some f ->
  fn <> "capabilitiesRestricted_1_22" -> fn <> "capabilitiesRestricted_1_25" ->
  check_names fn al relax p <> [] ->
  contains (phrase_of fn (check_names fn al relax p)) (cr_detail (f al relax p)) = true.
Proof.
  intros al fn f relax p Hf N22 N25 Hn. apply shows_contains.
  exact (detail_shows_phrase al fn f relax p Hf N22 N25 Hn).
Qed.

(** capabilitiesRestricted: the twin is the concatenation of the two lists the
    two phrases carry, and each phrase quotes its own list *)
Definition caps_missing (p : pod) : list string := names_where missing_drop_all p.
Definition caps_adding (p : pod) : list string := names_where (fun c => negb (is_nil (forbidden_adds c))) p.

Lemma caps_names_split al relax p :
  check_names "capabilitiesRestricted_1_22" al relax p = caps_missing p +:+ caps_adding p
  /\ (is_windows p = false ->
      check_names "capabilitiesRestricted_1_25" al relax p = caps_missing p +:+ caps_adding p).
Proof.
  split.
  - reflexivity.
  - intros Hw. change (check_names "capabilitiesRestricted_1_25" al relax p)
      with (windows_none n_capsRestricted al relax p). unfold windows_none. rewrite Hw. reflexivity.
Qed.

Theorem detail_lists_names_caps : forall al fn f relax p, lookup_check fn = Some f ->
  fn = "capabilitiesRestricted_1_22" \/ (fn = "capabilitiesRestricted_1_25" /\ is_windows p = false) ->
  (caps_missing p <> [] ->
   contains (join_quote (caps_missing p)) (cr_detail (f al relax p)) = true
   /\ contains (containers_phrase (caps_missing p)) (cr_detail (f al relax p)) = true)
  /\ (caps_adding p <> [] ->
      contains (join_quote (caps_adding p)) (cr_detail (f al relax p)) = true
      /\ contains (containers_phrase (caps_adding p)) (cr_detail (f al relax p)) = true).
Proof.
  intros al fn f relax p Hf Hfn.
  assert (H : (caps_missing p <> [] -> shows (containers_phrase (caps_missing p)) (cr_detail (f al relax p)))
              /\ (caps_adding p <> [] -> shows (containers_phrase (caps_adding p)) (cr_detail (f al relax p)))).
  { destruct Hfn as [->|[-> Hw]];
      lazy beta iota delta [lookup_check check_dictionary lookup String.eqb Ascii.eqb Bool.eqb] in Hf;
      injection Hf as <-.
    - exact (detail_capsRestricted_22 al relax p).
    - exact (detail_capsRestricted_25 al relax p Hw). }
  destruct H as [Hm Ha]. split; intros Hn; split; apply shows_contains.
  - eapply shows_trans; [apply containers_phrase_shows|exact (Hm Hn)].
  - exact (Hm Hn).
  - eapply shows_trans; [apply containers_phrase_shows|exact (Ha Hn)].
  - exact (Ha Hn).
Qed.

(** * Each control once: the standard's revision lists have no repetition *)

Fixpoint nodupb (l : list string) : bool :=
  match l with
  | [] => true
  | x :: r => negb (mem x r) && nodupb r
  end.

Lemma nodupb_NoDup l : nodupb l = true -> NoDup l.
Proof.
  induction l as [|x l IH]; intros H; [constructor|].
  cbn [nodupb] in H. apply andb_true_iff in H. destruct H as [Hx Hl]. constructor; [|exact (IH Hl)].
  apply negb_true_iff in Hx. intros Hin. apply mem_true_iff in Hin. congruence.
Qed.

Lemma revision_lists_nodup_computed :
  forallb (fun k => let m := N.of_nat k in
                    nodupb (pss_baseline_revisions m) && nodupb (pss_restricted_revisions m)) (seq 0 33) = true.
Proof. vm_compute. reflexivity. Qed.

Lemma effective_minor_le v m : effective_minor v = Some m -> (m <= 32)%N.
Proof.
  destruct v as [|ma mi]; cbn [effective_minor].
  - intros H. injection H as <-. unfold newest_published. lia.
  - destruct ma as [|[q|q|]]; try discriminate. intros H. injection H as <-.
    unfold newest_published. apply N.le_min_r.
Qed.

Theorem revisions_once : forall v m, effective_minor v = Some m ->
  NoDup (pss_baseline_revisions m) /\ NoDup (pss_restricted_revisions m).
Proof.
  intros v m Hm. apply effective_minor_le in Hm.
  pose proof revision_lists_nodup_computed as H. rewrite forallb_forall in H.
  specialize (H (N.to_nat m)). cbv zeta in H. rewrite N2Nat.id in H.
  assert (Hin : In (N.to_nat m) (seq 0 33)) by (apply in_seq; lia).
  specialize (H Hin). apply andb_true_iff in H. destruct H as [Hb Hr].
  split; apply nodupb_NoDup; assumption.
Qed.

Theorem order_independent : forall al relax (cs : list named_check) l v p p',
  List.length (evaluate_pod al relax cs l v p) = List.length (evaluate_pod al relax cs l v p')
  /\ exists fns, evaluate_pod al relax cs l v p = map (fun fn => run_check al relax fn p) fns
              /\ evaluate_pod al relax cs l v p' = map (fun fn => run_check al relax fn p') fns.
Proof.
  intros al relax cs l v p p'. split; [apply order_independent_of_pod|].
  exists (resolved_names cs l v). split; apply evaluate_pod_names.
Qed.
