(** Proofs/C20_table.v - C20 is a statement over a finite domain (the published
    fixtures, regenerated from /repo/test on every run): proved by computation,
    with the bound in the statement. *)
From Coq Require Import List Bool NArith String.
From PSA Require Import Base.Str Model.Api Model.Pod Model.Checks Model.Registry Model.Shipped Spec.P20.
From PSA Require Gen.Fixtures.
Import ListNotations.
Local Open Scope string_scope.

Definition fixture_entry := (level * N * bool * string * string * nat)%type.
Definition entries : list fixture_entry := Gen.Fixtures.fixtures_serialized.

Definition empty_pod : pod := Pod "" [] None false false false None None None [] [] [] [] None.
Definition fixture_pod (e : fixture_entry) : pod := nth (snd e) Gen.Fixtures.fixture_pods empty_pod.

(** the controls the model evaluator runs at (level, v1.minor) on p, with overrides and verdicts *)
Definition ran_with (rs : list (string * vcheck string)) (p : pod) : list (string * list string * bool) :=
  map (fun x : string * vcheck string =>
         (fst x, vc_overrides (snd x), cr_allowed (run_check shipped_lists false (vc_fn (snd x)) p))) rs.
Definition ran_on (l : level) (minor : N) (p : pod) : list (string * list string * bool) :=
  ran_with (resolve shipped_checks l (V 1 minor)) p.

Definition fixture_ok (defaulting : bool) (e : fixture_entry) : bool :=
  let '(l, minor, pass, cname, fname, idx) := e in
  let p := fixture_pod e in
  P20 pass cname (ran_on l minor (if defaulting then default_volumes p else p)).

(** computation is organised per (level, minor) group so that version resolution
    is evaluated once per group rather than once per fixture *)
Definition groups : list (level * N) :=
  flat_map (fun k => [(Baseline, N.of_nat k); (Restricted, N.of_nat k)]) (seq 0 48).
Definition in_group (g : level * N) (e : fixture_entry) : bool :=
  let '(l, m, _, _, _, _) := e in level_eqb l (fst g) && N.eqb m (snd g).
Definition group_ok (defaulting : bool) (g : level * N) : bool :=
  let rs := resolve shipped_checks (fst g) (V 1 (snd g)) in
  forallb (fun e : fixture_entry =>
             if in_group g e then
               (let '(_, _, pass, cname, _, _) := e in
                let p := fixture_pod e in
                P20 pass cname (ran_with rs (if defaulting then default_volumes p else p)))
             else true) entries.

Lemma all_groups_ok : forallb (group_ok true) groups = true.
Proof. vm_compute. reflexivity. Qed.
Lemma entries_in_range : forallb (fun e => existsb (fun g => in_group g e) groups) entries = true.
Proof. vm_compute. reflexivity. Qed.

Lemma level_eqb_eq : forall a b, level_eqb a b = true -> a = b.
Proof. destruct a, b; simpl; intros; congruence. Qed.

(** every published fixture agrees with the evaluator once defaulting is applied *)
Lemma fixtures_serialized_ok : forall e, In e entries -> fixture_ok true e = true.
Proof.
  intros e He.
  pose proof (proj1 (forallb_forall _ _) entries_in_range e He) as Hg.
  apply existsb_exists in Hg as [g [Hgin Hge]].
  pose proof (proj1 (forallb_forall _ _) all_groups_ok g Hgin) as Hok.
  unfold group_ok in Hok.
  pose proof (proj1 (forallb_forall _ _) Hok e He) as H1.
  cbv beta in H1. rewrite Hge in H1.
  destruct e as [[[[[l m] ps] cn] fn] i]. destruct g as [gl gm].
  unfold in_group in Hge. cbn [fst snd] in *.
  apply Bool.andb_true_iff in Hge as [Hl Hm].
  apply level_eqb_eq in Hl. apply N.eqb_eq in Hm. subst gl gm.
  unfold fixture_ok, ran_on. exact H1.
Qed.

(** the defaulting clause is not vacuous: some fixtures are judged differently as serialized *)
Lemma needs_defaulting_nonempty : existsb (fun g => negb (group_ok false g)) groups = true.
Proof. vm_compute. reflexivity. Qed.

(** serialized testdata and in-memory generators describe the same pods *)
Definition entry_eqb (a b : fixture_entry) : bool :=
  let '(l, m, ps, c, f, i) := a in let '(l', m', ps', c', f', i') := b in
  level_eqb l l' && N.eqb m m' && Bool.eqb ps ps' && String.eqb c c' && String.eqb f f' && Nat.eqb i i'.
Lemma same_pods : list_eqb entry_eqb Gen.Fixtures.fixtures_serialized Gen.Fixtures.fixtures_generated = true.
Proof. vm_compute. reflexivity. Qed.

(** completeness: for every level, every minor up to the newest tested one and every control in
    force there (introduced at or before the minor; restricted also carries the baseline controls),
    there is at least one fail fixture named for it *)
Definition newest_tested : N :=
  fold_left (fun m e => N.max m (snd (fst (fst (fst (fst e)))))) entries 0%N.
Definition in_force (l : level) (minor : N) (c : named_check) : bool :=
  match ck_versions c with
  | r :: _ => negb (older (V 1 minor) (vc_min r))
              && (match l with Restricted => true | Baseline => String.eqb (ck_level c) "baseline" | Privileged => false end)
  | [] => false
  end.
Definition fail_names (l : level) (minor : N) : list string :=
  flat_map (fun e : fixture_entry =>
              let '(l', m', pass, cname, _, _) := e in
              if level_eqb l l' && N.eqb minor m' && negb pass then [cname] else []) entries.
Definition complete : bool :=
  forallb (fun l =>
    forallb (fun k => let m := N.of_nat k in
      let names := fail_names l m in
      forallb (fun c => negb (in_force l m c) || mem (lower (ck_id c)) names) shipped_checks)
      (seq 0 (S (N.to_nat newest_tested))))
    [Baseline; Restricted].
Lemma fixtures_complete : complete = true.
Proof. vm_compute. reflexivity. Qed.
Lemma newest_tested_covers_table : N.leb (minor_of (max_version shipped_checks)) newest_tested = true.
Proof. vm_compute. reflexivity. Qed.
