(** Proofs/StandardFacts.v - C02 (the evaluator decides the Pod Security
    Standards) and C03 (restricted is at least as strict as baseline), proved
    for ANY named check table [cs] and allow-lists [al] that satisfy explicit
    boolean side conditions.  The shipped table enters only in
    Proofs/C02_table.v and Proofs/C03_table.v, where those side conditions are
    computed.  This file must not mention the generated tables. *)
From Coq Require Import List Bool NArith Arith ZArith String Lia Permutation.
From PSA Require Import Base.Str Model.Api Model.Pod Model.Checks Model.Registry Model.Shipped
     Spec.P05 Spec.PSS Spec.P02 Spec.P04
     Proofs.StrFacts Proofs.RegistryFacts Proofs.ChecksFacts.
Import ListNotations.
Local Open Scope string_scope.

(** * The evaluator as a conjunction over the resolved function names *)

Definition allowed_by (al : allowlists) (relax : bool) (p : pod) (fn : string) : bool :=
  cr_allowed (run_check al relax fn p).

Lemma forallb_map' {A B} (f : B -> bool) (g : A -> B) (l : list A) :
  forallb f (map g l) = forallb (fun x => f (g x)) l.
Proof. induction l as [|a l IH]; [reflexivity|]. cbn [map forallb]. rewrite IH. reflexivity. Qed.

Lemma eval_allowed_names al relax cs l v p :
  eval_allowed al relax cs l v p =
  forallb (allowed_by al relax p) (map (fun x => vc_fn (snd x)) (resolve cs l v)).
Proof.
  unfold eval_allowed, evaluate_pod. rewrite !forallb_map'. reflexivity.
Qed.

Lemma eval_allowed_true_iff al relax cs l v p :
  eval_allowed al relax cs l v p = true <->
  forall id r, In (id, r) (resolve cs l v) -> cr_allowed (run_check al relax (vc_fn r) p) = true.
Proof.
  unfold eval_allowed, evaluate_pod. rewrite forallb_forall. split.
  - intros H id r Hin. apply H. apply in_map_iff. exists (id, r). split; [reflexivity|exact Hin].
  - intros H x Hx. apply in_map_iff in Hx. destruct Hx as [[id r] [<- Hin]]. exact (H id r Hin).
Qed.

(** * C03, table-parametric *)

Definition implies_on_valid (al : allowlists) (relax : bool) (fr fb : string) : Prop :=
  forall p, api_valid p = true ->
            cr_allowed (run_check al relax fr p) = true -> cr_allowed (run_check al relax fb p) = true.

Theorem restricted_implies_baseline_generic : forall al relax (cs : list named_check) v p,
  well_formed cs = true -> majors_one cs = true -> api_valid p = true ->
  (forall id r id' r', In (id, r) (resolve cs Baseline v) -> In (id', r') (resolve cs Restricted v) ->
                       In id (vc_overrides r') -> implies_on_valid al relax (vc_fn r') (vc_fn r)) ->
  eval_allowed al relax cs Restricted v p = true -> eval_allowed al relax cs Baseline v p = true.
Proof.
  intros al relax cs v p W M Hv Himp HR.
  rewrite eval_allowed_true_iff in *. intros id r Hb.
  destruct (resolve_baseline_covered string cs v id r W M Hb) as [Hin|[id' [r' [Hin Ho]]]].
  - exact (HR id r Hin).
  - apply (Himp id r id' r' Hb Hin Ho p Hv). exact (HR id' r' Hin).
Qed.

Theorem evaluate_pod_privileged : forall al relax (cs : list named_check) v p,
  evaluate_pod al relax cs Privileged v p = [].
Proof. reflexivity. Qed.

(** ** every version resolves like one of the populated minors, or to nothing *)

Lemma resolve_cases (cs : list named_check) (v : version) :
  (forall l, resolve cs l v = []) \/
  exists k, (k <= minor_of (max_version cs))%N /\ forall l, resolve cs l v = resolve cs l (V 1 k).
Proof.
  set (mx := max_version cs).
  set (v' := if older mx v then mx else v).
  destruct (in_populated_range mx v') eqn:R.
  - right. destruct (in_populated_range_inv mx v' R) as [mm [m [Emx [Ev' Hle]]]].
    exists m. split; [fold mx; rewrite Emx; exact Hle|].
    intros l. unfold resolve. cbv zeta. fold mx. fold v'. rewrite Ev', Emx.
    rewrite older_V1. destruct (N.ltb_spec mm m) as [Hlt|_]; [lia|]. reflexivity.
  - left. intros l. unfold resolve. cbv zeta. fold mx. fold v'.
    destruct l; [reflexivity| |].
    + unfold baseline_at. cbv zeta. fold mx. rewrite R. reflexivity.
    + unfold restricted_at. cbv zeta. fold mx. rewrite R. reflexivity.
Qed.

(** ** the override pairs that can be simultaneously active, as a computed condition *)

Definition pair_mem (x : string * string) (l : list (string * string)) : bool :=
  existsb (fun y => String.eqb (fst x) (fst y) && String.eqb (snd x) (snd y)) l.

Lemma pair_mem_In x l : pair_mem x l = true -> In x l.
Proof.
  unfold pair_mem. rewrite existsb_exists. intros [y [Hy E]].
  apply andb_true_iff in E. destruct E as [E1 E2].
  apply String.eqb_eq in E1. apply String.eqb_eq in E2.
  destruct x, y. cbn in *. subst. exact Hy.
Qed.

(** at version [v]: every (restricted revision, baseline revision it overrides) is in [known] *)
Definition pairs_ok_at (known : list (string * string)) (cs : list named_check) (v : version) : bool :=
  forallb (fun xb : string * vcheck string =>
    forallb (fun xr : string * vcheck string =>
               negb (mem (fst xb) (vc_overrides (snd xr)))
               || pair_mem (vc_fn (snd xr), vc_fn (snd xb)) known)
            (resolve cs Restricted v))
    (resolve cs Baseline v).

Definition pairs_ok (known : list (string * string)) (cs : list named_check) : bool :=
  forallb (fun k => pairs_ok_at known cs (V 1 (N.of_nat k)))
          (seq 0 (S (N.to_nat (minor_of (max_version cs))))).

Lemma pairs_ok_at_spec known cs v id r id' r' :
  pairs_ok_at known cs v = true ->
  In (id, r) (resolve cs Baseline v) -> In (id', r') (resolve cs Restricted v) ->
  In id (vc_overrides r') -> In (vc_fn r', vc_fn r) known.
Proof.
  unfold pairs_ok_at. rewrite forallb_forall. intros H Hb Hr Ho.
  specialize (H (id, r) Hb). rewrite forallb_forall in H. specialize (H (id', r') Hr).
  cbn [fst snd] in H. apply (proj2 (mem_In id (vc_overrides r'))) in Ho. rewrite Ho in H.
  cbn [negb orb] in H. apply pair_mem_In. exact H.
Qed.

Lemma pairs_ok_all_versions known cs v id r id' r' :
  pairs_ok known cs = true ->
  In (id, r) (resolve cs Baseline v) -> In (id', r') (resolve cs Restricted v) ->
  In id (vc_overrides r') -> In (vc_fn r', vc_fn r) known.
Proof.
  intros H. destruct (resolve_cases cs v) as [Hnil|[k [Hk Hres]]].
  - rewrite (Hnil Baseline). intros [].
  - rewrite !Hres. apply pairs_ok_at_spec.
    unfold pairs_ok in H. rewrite forallb_forall in H.
    specialize (H (N.to_nat k)). rewrite N2Nat.id in H. apply H.
    apply in_seq. lia.
Qed.

(** ** the override pairs for which Proofs/ChecksFacts.v has an implication lemma *)

Definition known_pairs : list (string * string) :=
  [("restrictedVolumes_1_0", "hostPathVolumes_1_0");
   ("capabilitiesRestricted_1_22", "capabilitiesBaseline_1_0");
   ("capabilitiesRestricted_1_25", "capabilitiesBaseline_1_0");
   ("seccompProfileRestricted_1_19", "seccompProfileBaseline_1_19");
   ("seccompProfileRestricted_1_25", "seccompProfileBaseline_1_19")].

Lemma api_valid_inv p : api_valid p = true ->
  one_source_per_volume p = true /\ windows_no_linux_fields p = true.
Proof. unfold api_valid. intros H. apply andb_true_iff in H. exact H. Qed.

Lemma known_pairs_imply al relax fr fb :
  mem "NET_BIND_SERVICE" (al_caps al) = true ->
  In (fr, fb) known_pairs -> implies_on_valid al relax fr fb.
Proof.
  intros Hn Hin p Hv. destruct (api_valid_inv p Hv) as [H1 Hw].
  unfold known_pairs in Hin. cbn [In] in Hin.
  destruct Hin as [E|[E|[E|[E|[E|[]]]]]]; injection E as <- <-.
  - exact (restrictedVolumes_implies_hostPath al relax p H1).
  - exact (capabilitiesRestricted_1_22_implies_baseline al relax p Hn).
  - exact (capabilitiesRestricted_1_25_implies_baseline al relax p Hn Hw).
  - exact (seccompRestricted_1_19_implies_baseline_1_19 al relax p).
  - exact (seccompRestricted_1_25_implies_baseline_1_19 al relax p Hw).
Qed.

(** ** C03 for any table whose simultaneously active override pairs are known *)

Theorem levels_ordered_known_pairs : forall al relax (cs : list named_check) v p,
  well_formed cs = true -> majors_one cs = true ->
  mem "NET_BIND_SERVICE" (al_caps al) = true -> pairs_ok known_pairs cs = true ->
  api_valid p = true ->
  eval_allowed al relax cs Restricted v p = true -> eval_allowed al relax cs Baseline v p = true.
Proof.
  intros al relax cs v p W M Hn Hp Hv.
  apply restricted_implies_baseline_generic; try assumption.
  intros id r id' r' Hb Hr Ho. apply known_pairs_imply; [exact Hn|].
  exact (pairs_ok_all_versions known_pairs cs v id r id' r' Hp Hb Hr Ho).
Qed.

Lemma eval_allowed_privileged al relax cs v p : eval_allowed al relax cs Privileged v p = true.
Proof. reflexivity. Qed.

Theorem relaxation_safe_known_pairs : forall al relax (cs : list named_check) v p (l l' : level),
  well_formed cs = true -> majors_one cs = true ->
  mem "NET_BIND_SERVICE" (al_caps al) = true -> pairs_ok known_pairs cs = true ->
  api_valid p = true -> (strictness l' <= strictness l)%N ->
  eval_allowed al relax cs l v p = true -> eval_allowed al relax cs l' v p = true.
Proof.
  intros al relax cs v p l l' W M Hn Hp Hv Hs H.
  destruct l'; [reflexivity| |].
  - destruct l; cbn in Hs; [lia|exact H|].
    exact (levels_ordered_known_pairs al relax cs v p W M Hn Hp Hv H).
  - destruct l; cbn in Hs; [lia|lia|exact H].
Qed.

Lemma P03_generic al relax (cs : list named_check) v p :
  well_formed cs = true -> majors_one cs = true ->
  mem "NET_BIND_SERVICE" (al_caps al) = true -> pairs_ok known_pairs cs = true ->
  P03 p (eval_allowed al relax cs Restricted v p) (eval_allowed al relax cs Baseline v p) = true.
Proof.
  intros W M Hn Hp. unfold P03.
  destruct (api_valid p) eqn:Hv; [|reflexivity]. cbn [negb orb].
  destruct (eval_allowed al relax cs Restricted v p) eqn:HR; [|reflexivity]. cbn [negb orb].
  exact (levels_ordered_known_pairs al relax cs v p W M Hn Hp Hv HR).
Qed.
