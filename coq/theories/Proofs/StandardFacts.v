(** Proofs/StandardFacts.v - C02 (the evaluator decides the Pod Security
    Standards) and C03 (restricted is at least as strict as baseline), proved
    for ANY named check table [cs] and allow-lists [al] that satisfy explicit
    boolean side conditions.  The shipped table enters only in
    Proofs/C02_table.v and Proofs/C03_table.v, where those side conditions are
    computed.  This file must not mention the generated tables. *)
From Coq Require Import List Bool NArith Arith ZArith String Lia Permutation Btauto.
From PSA Require Import Base.Str Model.Api Model.Pod Model.Checks Model.Registry Model.Shipped
     Spec.P05 Spec.PSS Spec.P02 Spec.P04
     Proofs.StrFacts Proofs.RegistryFacts Proofs.ChecksFacts.
Import ListNotations.
Local Open Scope string_scope.

(** * The evaluator as a conjunction over the resolved function names *)

Definition allowed_by (al : allowlists) (relax : bool) (p : pod) (fn : string) : bool :=
  cr_allowed (run_check al relax fn p).

Lemma forallb_map' {A B} (f : B -> bool) (g : A -> B) (l : list A) :
  forallb f (map g l) = forallb (fun x => f (g x)) l.
Proof. induction l as [|a l IH]; [reflexivity|]. cbn [map forallb]. rewrite IH. reflexivity. Qed.

Lemma eval_allowed_names al relax cs l v p :
  eval_allowed al relax cs l v p =
  forallb (allowed_by al relax p) (map (fun x => vc_fn (snd x)) (resolve cs l v)).
Proof.
  unfold eval_allowed, evaluate_pod. rewrite !forallb_map'. reflexivity.
Qed.

Lemma eval_allowed_true_iff al relax cs l v p :
  eval_allowed al relax cs l v p = true <->
  forall id r, In (id, r) (resolve cs l v) -> cr_allowed (run_check al relax (vc_fn r) p) = true.
Proof.
  unfold eval_allowed, evaluate_pod. rewrite forallb_forall. split.
  - intros H id r Hin. apply H. apply in_map_iff. exists (id, r). split; [reflexivity|exact Hin].
  - intros H x Hx. apply in_map_iff in Hx. destruct Hx as [[id r] [<- Hin]]. exact (H id r Hin).
Qed.

(** * C03, table-parametric *)

Definition implies_on_valid (al : allowlists) (relax : bool) (fr fb : string) : Prop :=
  forall p, api_valid p = true ->
            cr_allowed (run_check al relax fr p) = true -> cr_allowed (run_check al relax fb p) = true.

Theorem restricted_implies_baseline_generic : forall al relax (cs : list named_check) v p,
  well_formed cs = true -> majors_one cs = true -> api_valid p = true ->
  (forall id r id' r', In (id, r) (resolve cs Baseline v) -> In (id', r') (resolve cs Restricted v) ->
                       In id (vc_overrides r') -> implies_on_valid al relax (vc_fn r') (vc_fn r)) ->
  eval_allowed al relax cs Restricted v p = true -> eval_allowed al relax cs Baseline v p = true.
Proof.
  intros al relax cs v p W M Hv Himp HR.
  rewrite eval_allowed_true_iff in *. intros id r Hb.
  destruct (resolve_baseline_covered string cs v id r W M Hb) as [Hin|[id' [r' [Hin Ho]]]].
  - exact (HR id r Hin).
  - apply (Himp id r id' r' Hb Hin Ho p Hv). exact (HR id' r' Hin).
Qed.

Theorem evaluate_pod_privileged : forall al relax (cs : list named_check) v p,
  evaluate_pod al relax cs Privileged v p = [].
Proof. reflexivity. Qed.

(** ** every version resolves like one of the populated minors, or to nothing *)

Lemma resolve_cases (cs : list named_check) (v : version) :
  (forall l, resolve cs l v = []) \/
  exists k, (k <= minor_of (max_version cs))%N /\ forall l, resolve cs l v = resolve cs l (V 1 k).
Proof.
  set (mx := max_version cs).
  set (v' := if older mx v then mx else v).
  destruct (in_populated_range mx v') eqn:R.
  - right. destruct (in_populated_range_inv mx v' R) as [mm [m [Emx [Ev' Hle]]]].
    exists m. split; [fold mx; rewrite Emx; exact Hle|].
    intros l. unfold resolve. cbv zeta. fold mx. fold v'. rewrite Ev', Emx.
    rewrite older_V1. destruct (N.ltb_spec mm m) as [Hlt|_]; [lia|]. reflexivity.
  - left. intros l. unfold resolve. cbv zeta. fold mx. fold v'.
    destruct l; [reflexivity| |].
    + unfold baseline_at. cbv zeta. fold mx. rewrite R. reflexivity.
    + unfold restricted_at. cbv zeta. fold mx. rewrite R. reflexivity.
Qed.

(** ** the override pairs that can be simultaneously active, as a computed condition *)

Definition pair_mem (x : string * string) (l : list (string * string)) : bool :=
  existsb (fun y => String.eqb (fst x) (fst y) && String.eqb (snd x) (snd y)) l.

Lemma pair_mem_In x l : pair_mem x l = true -> In x l.
Proof.
  unfold pair_mem. rewrite existsb_exists. intros [y [Hy E]].
  apply andb_true_iff in E. destruct E as [E1 E2].
  apply String.eqb_eq in E1. apply String.eqb_eq in E2.
  destruct x, y. cbn in *. subst. exact Hy.
Qed.

(** at version [v]: every (restricted revision, baseline revision it overrides) is in [known] *)
Definition pairs_ok_at (known : list (string * string)) (cs : list named_check) (v : version) : bool :=
  forallb (fun xb : string * vcheck string =>
    forallb (fun xr : string * vcheck string =>
               negb (mem (fst xb) (vc_overrides (snd xr)))
               || pair_mem (vc_fn (snd xr), vc_fn (snd xb)) known)
            (resolve cs Restricted v))
    (resolve cs Baseline v).

Definition pairs_ok (known : list (string * string)) (cs : list named_check) : bool :=
  forallb (fun k => pairs_ok_at known cs (V 1 (N.of_nat k)))
          (seq 0 (S (N.to_nat (minor_of (max_version cs))))).

Lemma pairs_ok_at_spec known cs v id r id' r' :
  pairs_ok_at known cs v = true ->
  In (id, r) (resolve cs Baseline v) -> In (id', r') (resolve cs Restricted v) ->
  In id (vc_overrides r') -> In (vc_fn r', vc_fn r) known.
Proof.
  unfold pairs_ok_at. rewrite forallb_forall. intros H Hb Hr Ho.
  specialize (H (id, r) Hb). rewrite forallb_forall in H. specialize (H (id', r') Hr).
  cbn [fst snd] in H. apply (proj2 (mem_In id (vc_overrides r'))) in Ho. rewrite Ho in H.
  cbn [negb orb] in H. apply pair_mem_In. exact H.
Qed.

Lemma pairs_ok_all_versions known cs v id r id' r' :
  pairs_ok known cs = true ->
  In (id, r) (resolve cs Baseline v) -> In (id', r') (resolve cs Restricted v) ->
  In id (vc_overrides r') -> In (vc_fn r', vc_fn r) known.
Proof.
  intros H. destruct (resolve_cases cs v) as [Hnil|[k [Hk Hres]]].
  - rewrite (Hnil Baseline). intros [].
  - rewrite !Hres. apply pairs_ok_at_spec.
    unfold pairs_ok in H. rewrite forallb_forall in H.
    specialize (H (N.to_nat k)). rewrite N2Nat.id in H. apply H.
    apply in_seq. lia.
Qed.

(** ** the override pairs for which Proofs/ChecksFacts.v has an implication lemma *)

Definition known_pairs : list (string * string) :=
  [("restrictedVolumes_1_0", "hostPathVolumes_1_0");
   ("capabilitiesRestricted_1_22", "capabilitiesBaseline_1_0");
   ("capabilitiesRestricted_1_25", "capabilitiesBaseline_1_0");
   ("seccompProfileRestricted_1_19", "seccompProfileBaseline_1_19");
   ("seccompProfileRestricted_1_25", "seccompProfileBaseline_1_19")].

Lemma api_valid_inv p : api_valid p = true ->
  one_source_per_volume p = true /\ windows_no_linux_fields p = true.
Proof. unfold api_valid. intros H. apply andb_true_iff in H. exact H. Qed.

Lemma known_pairs_imply al relax fr fb :
  mem "NET_BIND_SERVICE" (al_caps al) = true ->
  In (fr, fb) known_pairs -> implies_on_valid al relax fr fb.
Proof.
  intros Hn Hin p Hv. destruct (api_valid_inv p Hv) as [H1 Hw].
  unfold known_pairs in Hin. cbn [In] in Hin.
  destruct Hin as [E|[E|[E|[E|[E|[]]]]]]; injection E as <- <-.
  - exact (restrictedVolumes_implies_hostPath al relax p H1).
  - exact (capabilitiesRestricted_1_22_implies_baseline al relax p Hn).
  - exact (capabilitiesRestricted_1_25_implies_baseline al relax p Hn Hw).
  - exact (seccompRestricted_1_19_implies_baseline_1_19 al relax p).
  - exact (seccompRestricted_1_25_implies_baseline_1_19 al relax p Hw).
Qed.

(** ** C03 for any table whose simultaneously active override pairs are known *)

Theorem levels_ordered_known_pairs : forall al relax (cs : list named_check) v p,
  well_formed cs = true -> majors_one cs = true ->
  mem "NET_BIND_SERVICE" (al_caps al) = true -> pairs_ok known_pairs cs = true ->
  api_valid p = true ->
  eval_allowed al relax cs Restricted v p = true -> eval_allowed al relax cs Baseline v p = true.
Proof.
  intros al relax cs v p W M Hn Hp Hv.
  apply restricted_implies_baseline_generic; try assumption.
  intros id r id' r' Hb Hr Ho. apply known_pairs_imply; [exact Hn|].
  exact (pairs_ok_all_versions known_pairs cs v id r id' r' Hp Hb Hr Ho).
Qed.

Lemma eval_allowed_privileged al relax cs v p : eval_allowed al relax cs Privileged v p = true.
Proof. reflexivity. Qed.

Theorem relaxation_safe_known_pairs : forall al relax (cs : list named_check) v p (l l' : level),
  well_formed cs = true -> majors_one cs = true ->
  mem "NET_BIND_SERVICE" (al_caps al) = true -> pairs_ok known_pairs cs = true ->
  api_valid p = true -> (strictness l' <= strictness l)%N ->
  eval_allowed al relax cs l v p = true -> eval_allowed al relax cs l' v p = true.
Proof.
  intros al relax cs v p l l' W M Hn Hp Hv Hs H.
  destruct l'; [reflexivity| |].
  - destruct l; cbn in Hs; [lia|exact H|].
    exact (levels_ordered_known_pairs al relax cs v p W M Hn Hp Hv H).
  - destruct l; cbn in Hs; [lia|lia|exact H].
Qed.

Lemma P03_generic al relax (cs : list named_check) v p :
  well_formed cs = true -> majors_one cs = true ->
  mem "NET_BIND_SERVICE" (al_caps al) = true -> pairs_ok known_pairs cs = true ->
  P03 p (eval_allowed al relax cs Restricted v p) (eval_allowed al relax cs Baseline v p) = true.
Proof.
  intros W M Hn Hp. unfold P03.
  destruct (api_valid p) eqn:Hv; [|reflexivity]. cbn [negb orb].
  destruct (eval_allowed al relax cs Restricted v p) eqn:HR; [|reflexivity]. cbn [negb orb].
  exact (levels_ordered_known_pairs al relax cs v p W M Hn Hp Hv HR).
Qed.

(** * C02, table-parametric *)

(** ** the conjunction over the resolved names only depends on the multiset of names *)

Lemma forallb_perm {A} (f : A -> bool) (l l' : list A) :
  Permutation l l' -> forallb f l = forallb f l'.
Proof.
  induction 1 as [|x l l' _ IH|x y l|l l' l'' _ IH1 _ IH2]; cbn [forallb].
  - reflexivity.
  - rewrite IH. reflexivity.
  - destruct (f x), (f y); reflexivity.
  - rewrite IH1. exact IH2.
Qed.

Lemma same_names_perm a b : same_names a b = true -> Permutation a b.
Proof.
  unfold same_names. intros H. apply list_eqb_string_eq in H.
  apply perm_trans with (ssort a); [apply Permutation_sym, ssort_perm|].
  rewrite H. apply ssort_perm.
Qed.

Lemma table_ok_inv rn mx : table_ok rn mx = true ->
  mx = V 1 32 /\
  forall m, (m <= 32)%N ->
    same_names (rn Baseline (V 1 m)) (pss_baseline_revisions m) = true /\
    same_names (rn Restricted (V 1 m)) (pss_restricted_revisions m) = true.
Proof.
  unfold table_ok. intros H. apply andb_true_iff in H. destruct H as [Hv H].
  apply version_eqb_eq in Hv. split; [exact Hv|]. intros m Hm.
  rewrite forallb_forall in H. specialize (H (N.to_nat m)). cbv zeta in H.
  rewrite N2Nat.id in H. apply andb_true_iff. apply H. apply in_seq. lia.
Qed.

(** ** every version the standard speaks about resolves like its effective minor *)

Lemma resolve_effective (cs : list named_check) l v m :
  max_version cs = V 1 32 -> effective_minor v = Some m ->
  (m <= 32)%N /\ resolve cs l v = resolve cs l (V 1 m).
Proof.
  intros Emx Hm. unfold resolve. cbv zeta. rewrite Emx.
  destruct v as [|ma mi].
  - injection Hm as <-. split; [unfold newest_published; lia|]. destruct l; reflexivity.
  - destruct ma as [|[q|q|]]; try discriminate Hm.
    injection Hm as <-. unfold newest_published. split; [apply N.le_min_r|].
    rewrite !older_V1.
    destruct (N.ltb_spec 32 mi) as [Hlt|Hge].
    + rewrite N.min_r by lia. destruct l; reflexivity.
    + rewrite N.min_l by lia. destruct (N.ltb_spec 32 mi); [lia|]. reflexivity.
Qed.

(** ** each named revision decides its row *)

Lemma allowed_by_spec al relax p fn f g :
  lists_ok al = true -> relaxed_for relax p = false ->
  lookup_check fn = Some f -> revision_spec fn = Some g ->
  allowed_by al relax p fn = g p.
Proof.
  intros Hl Hr Hf Hg. unfold allowed_by, run_check. rewrite Hf.
  exact (revisions_decide_standard al fn f g relax p Hl Hf Hg Hr).
Qed.

(** ** the version history of the standard's rows has finitely many steps *)

Ltac split_leb k m :=
  let E := fresh "E" in
  destruct (N.leb k m) eqn:E; [apply N.leb_le in E | apply N.leb_gt in E]; try (exfalso; lia).

Lemma pss_selinux_types_th m :
  pss_selinux_types m = pss_selinux_types (if N.leb 31 m then 31 else 0).
Proof. unfold pss_selinux_types. split_leb 31%N m; reflexivity. Qed.

Lemma ok_seLinux_th m p : ok_seLinux m p = ok_seLinux (if N.leb 31 m then 31 else 0) p.
Proof.
  unfold ok_seLinux, ok_selinux_opts. rewrite <- (pss_selinux_types_th m). reflexivity.
Qed.

Lemma ok_seccomp_baseline_th m p :
  ok_seccomp_baseline m p = ok_seccomp_baseline (if N.leb 19 m then 19 else 0) p.
Proof.
  unfold ok_seccomp_baseline. rewrite !N.ltb_antisym. split_leb 19%N m; reflexivity.
Qed.

Lemma pss_sysctls_th m :
  pss_sysctls m = pss_sysctls (if N.leb 32 m then 32 else if N.leb 29 m then 29
                               else if N.leb 27 m then 27 else 0).
Proof.
  unfold pss_sysctls. split_leb 27%N m; split_leb 29%N m; split_leb 32%N m; reflexivity.
Qed.

Lemma ok_sysctls_th m p :
  ok_sysctls m p = ok_sysctls (if N.leb 32 m then 32 else if N.leb 29 m then 29
                               else if N.leb 27 m then 27 else 0) p.
Proof. unfold ok_sysctls. rewrite <- (pss_sysctls_th m). reflexivity. Qed.

Lemma ok_allowPrivilegeEscalation_th m p :
  ok_allowPrivilegeEscalation m p =
  if N.leb 25 m then ok_allowPrivilegeEscalation 25 p
  else if N.leb 8 m then ok_allowPrivilegeEscalation 8 p else true.
Proof.
  unfold ok_allowPrivilegeEscalation, windows_exempt. rewrite !N.ltb_antisym.
  split_leb 8%N m; split_leb 25%N m; reflexivity.
Qed.

Lemma ok_runAsUser_th m p :
  ok_runAsUser m p = if N.leb 23 m then ok_runAsUser 23 p else true.
Proof. unfold ok_runAsUser. rewrite !N.ltb_antisym. split_leb 23%N m; reflexivity. Qed.

Lemma ok_seccomp_restricted_th m p :
  ok_seccomp_restricted m p =
  if N.leb 25 m then ok_seccomp_restricted 25 p
  else if N.leb 19 m then ok_seccomp_restricted 19 p else true.
Proof.
  unfold ok_seccomp_restricted, windows_exempt. rewrite !N.ltb_antisym.
  split_leb 19%N m; split_leb 25%N m; reflexivity.
Qed.

Lemma ok_capabilities_restricted_th m p :
  ok_capabilities_restricted m p =
  if N.leb 25 m then ok_capabilities_restricted 25 p
  else if N.leb 22 m then ok_capabilities_restricted 22 p else true.
Proof.
  unfold ok_capabilities_restricted, windows_exempt. rewrite !N.ltb_antisym.
  split_leb 22%N m; split_leb 25%N m; reflexivity.
Qed.

(** ** the rows the restricted table leaves out are implied by the rows it adds *)

Lemma lists_ok_net_bind al : lists_ok al = true -> mem "NET_BIND_SERVICE" (al_caps al) = true.
Proof.
  intros Hl. apply lists_ok_inv in Hl. destruct Hl as [Hc _].
  rewrite (same_set_mem _ _ Hc). reflexivity.
Qed.

Lemma ok_volumeTypes_hostPath p : one_source_per_volume p = true ->
  ok_volumeTypes p = true -> ok_hostPath p = true.
Proof.
  intros H1. rewrite <- (restrictedVolumes_1_0_spec example_allowlists false p).
  rewrite <- (hostPathVolumes_1_0_spec example_allowlists false p).
  apply restrictedVolumes_implies_hostPath. exact H1.
Qed.

Lemma example_allowlists_ok : lists_ok example_allowlists = true.
Proof. vm_compute. reflexivity. Qed.

Lemma ok_caps_22_baseline p :
  ok_capabilities_restricted 22 p = true -> ok_capabilities_baseline p = true.
Proof.
  pose proof (lists_ok_inv _ example_allowlists_ok) as [Hc _].
  rewrite <- (capabilitiesRestricted_1_22_spec example_allowlists false p).
  rewrite <- (capabilitiesBaseline_1_0_spec example_allowlists false p Hc).
  apply capabilitiesRestricted_1_22_implies_baseline. reflexivity.
Qed.

Lemma ok_caps_25_baseline p : windows_no_linux_fields p = true ->
  ok_capabilities_restricted 25 p = true -> ok_capabilities_baseline p = true.
Proof.
  intros Hw. pose proof (lists_ok_inv _ example_allowlists_ok) as [Hc _].
  rewrite <- (capabilitiesRestricted_1_25_spec example_allowlists false p).
  rewrite <- (capabilitiesBaseline_1_0_spec example_allowlists false p Hc).
  apply capabilitiesRestricted_1_25_implies_baseline; [reflexivity|exact Hw].
Qed.

Lemma ok_seccomp_19_baseline p :
  ok_seccomp_restricted 19 p = true -> ok_seccomp_baseline 19 p = true.
Proof.
  rewrite <- (seccompProfileRestricted_1_19_spec example_allowlists false p).
  rewrite <- (seccompProfileBaseline_1_19_spec example_allowlists false p).
  apply seccompRestricted_1_19_implies_baseline_1_19.
Qed.

Lemma ok_seccomp_25_baseline p : windows_no_linux_fields p = true ->
  ok_seccomp_restricted 25 p = true -> ok_seccomp_baseline 19 p = true.
Proof.
  intros Hw.
  rewrite <- (seccompProfileRestricted_1_25_spec example_allowlists false p).
  rewrite <- (seccompProfileBaseline_1_19_spec example_allowlists false p).
  apply seccompRestricted_1_25_implies_baseline_1_19. exact Hw.
Qed.

(** ** the standard's revision lists decide the standard *)

(** replace every [allowed_by al relax p "name"] by the row of the standard it decides *)
Ltac rows Hl Hr :=
  repeat match goal with
         | |- context [allowed_by ?al ?relax ?p ?fn] =>
             rewrite (allowed_by_spec al relax p fn _ _ Hl Hr eq_refl eq_refl)
         end.

Ltac names_compute :=
  match goal with
  | |- forallb _ ?L = _ => let L' := eval vm_compute in L in change L with L'
  end; cbn [forallb].

Lemma baseline_revisions_decide al relax p m :
  lists_ok al = true -> relaxed_for relax p = false ->
  forallb (allowed_by al relax p) (pss_baseline_revisions m) = baseline_compliant m p.
Proof.
  intros Hl Hr. unfold baseline_compliant, pss_baseline_revisions.
  rewrite (ok_seLinux_th m p), (ok_seccomp_baseline_th m p), (ok_sysctls_th m p).
  split_leb 19%N m; split_leb 27%N m; split_leb 29%N m; split_leb 31%N m; split_leb 32%N m;
    cbv beta iota; cbn [forallb]; rows Hl Hr; btauto.
Qed.

Lemma restricted_revisions_decide al relax p m :
  lists_ok al = true -> relaxed_for relax p = false -> api_valid p = true ->
  forallb (allowed_by al relax p) (pss_restricted_revisions m)
  = baseline_compliant m p && restricted_controls m p.
Proof.
  intros Hl Hr Hv. destruct (api_valid_inv p Hv) as [H1 Hw].
  unfold baseline_compliant, restricted_controls, pss_restricted_revisions, pss_baseline_revisions.
  rewrite (ok_seLinux_th m p), (ok_seccomp_baseline_th m p), (ok_sysctls_th m p),
    (ok_allowPrivilegeEscalation_th m p), (ok_runAsUser_th m p), (ok_seccomp_restricted_th m p),
    (ok_capabilities_restricted_th m p).
  split_leb 8%N m; split_leb 19%N m; split_leb 22%N m; split_leb 23%N m; split_leb 25%N m;
    split_leb 27%N m; split_leb 29%N m; split_leb 31%N m; split_leb 32%N m;
    cbv beta iota; names_compute; rows Hl Hr;
    (destruct (ok_volumeTypes p) eqn:EV; [rewrite (ok_volumeTypes_hostPath p H1 EV)|]);
    try (destruct (ok_capabilities_restricted 22 p) eqn:EC22; [rewrite (ok_caps_22_baseline p EC22)|]);
    try (destruct (ok_capabilities_restricted 25 p) eqn:EC25; [rewrite (ok_caps_25_baseline p Hw EC25)|]);
    try (destruct (ok_seccomp_restricted 19 p) eqn:ES19; [rewrite (ok_seccomp_19_baseline p ES19)|]);
    try (destruct (ok_seccomp_restricted 25 p) eqn:ES25; [rewrite (ok_seccomp_25_baseline p Hw ES25)|]);
    btauto.
Qed.

(** ** C02: the evaluator decides the standard, for any table naming the standard's revisions *)

Theorem standard_generic : forall (al : allowlists) (cs : list named_check) (relax : bool)
                                  (l : level) (v : version) (m : N) (p : pod),
  lists_ok al = true ->
  table_ok (fun l v => map (fun x => vc_fn (snd x)) (resolve cs l v)) (max_version cs) = true ->
  api_valid p = true -> relaxed_for relax p = false -> effective_minor v = Some m ->
  eval_allowed al relax cs l v p = compliant l m p.
Proof.
  intros al cs relax l v m p Hl Ht Hv Hr Hm.
  destruct (table_ok_inv _ _ Ht) as [Emx Hnames].
  destruct (resolve_effective cs l v m Emx Hm) as [Hle Hres].
  destruct (Hnames m Hle) as [Hb Hrs].
  rewrite eval_allowed_names, Hres.
  destruct l.
  - reflexivity.
  - rewrite (forallb_perm _ _ _ (same_names_perm _ _ Hb)).
    exact (baseline_revisions_decide al relax p m Hl Hr).
  - rewrite (forallb_perm _ _ _ (same_names_perm _ _ Hrs)).
    exact (restricted_revisions_decide al relax p m Hl Hr Hv).
Qed.

(** at the Baseline level no validity hypothesis is needed *)
Theorem standard_generic_baseline : forall (al : allowlists) (cs : list named_check) (relax : bool)
                                           (v : version) (m : N) (p : pod),
  lists_ok al = true ->
  table_ok (fun l v => map (fun x => vc_fn (snd x)) (resolve cs l v)) (max_version cs) = true ->
  relaxed_for relax p = false -> effective_minor v = Some m ->
  eval_allowed al relax cs Baseline v p = baseline_compliant m p.
Proof.
  intros al cs relax v m p Hl Ht Hr Hm.
  destruct (table_ok_inv _ _ Ht) as [Emx Hnames].
  destruct (resolve_effective cs Baseline v m Emx Hm) as [Hle Hres].
  destruct (Hnames m Hle) as [Hb _].
  rewrite eval_allowed_names, Hres, (forallb_perm _ _ _ (same_names_perm _ _ Hb)).
  exact (baseline_revisions_decide al relax p m Hl Hr).
Qed.

(** ** P_02 on the model's own observations *)

Lemma P02_eval_generic al (cs : list named_check) relax l v p :
  lists_ok al = true ->
  table_ok (fun l v => map (fun x => vc_fn (snd x)) (resolve cs l v)) (max_version cs) = true ->
  P02_eval relax l v p (eval_allowed al relax cs l v p) = true.
Proof.
  intros Hl Ht. unfold P02_eval.
  destruct (api_valid p) eqn:Hv; [|reflexivity].
  destruct (relaxed_for relax p) eqn:Hr; [reflexivity|]. cbn [negb orb].
  destruct (effective_minor v) as [m|] eqn:Hm; [|reflexivity].
  rewrite (standard_generic al cs relax l v m p Hl Ht Hv Hr Hm). apply eqb_reflx.
Qed.

(** the rows of the standard's transcription are exactly the dictionary's names *)
Lemma revision_spec_bound fn g : revision_spec fn = Some g -> exists f, lookup_check fn = Some f.
Proof.
  unfold revision_spec. cbv zeta.
  repeat match goal with
         | |- (if String.eqb fn ?s then _ else _) = _ -> _ =>
             destruct (String.eqb_spec fn s) as [->|_]; [intros _; eexists; reflexivity|]
         end.
  discriminate.
Qed.

Lemma P02_check_generic al relax fn p : lists_ok al = true ->
  P02_check relax fn p (cr_allowed (run_check al relax fn p)) = true.
Proof.
  intros Hl. unfold P02_check.
  destruct (relaxed_for relax p) eqn:Hr; [reflexivity|].
  destruct (revision_spec fn) as [g|] eqn:Hg; [|reflexivity].
  destruct (revision_spec_bound fn g Hg) as [f Hf].
  change (cr_allowed (run_check al relax fn p)) with (allowed_by al relax p fn).
  rewrite (allowed_by_spec al relax p fn f g Hl Hr Hf Hg). apply eqb_reflx.
Qed.
