(** Proofs/EndToEnd.v - composition of the admission layer (C01) with the
    standard (C02): with the shipped evaluator, a pod request that reaches
    evaluation is allowed exactly when the pod complies with the Pod Security
    Standards at the namespace's enforce level and version, as transcribed in
    Spec/PSS.v.  Nothing here is about one layer alone. *)
From Coq Require Import List Bool NArith ZArith String.
From PSA Require Import Base.Str Model.Api Model.Pod Model.Checks Model.Registry Model.Shipped Model.Admission
     Model.Namespace Spec.PSS Spec.P02 Spec.P05 Spec.PAdm Proofs.AdmFactsA Proofs.StandardFacts Proofs.C02_table.
Import ListNotations.

Definition shipped_evaluator (relax : bool) : evaluator :=
  fun x p => shipped_eval relax (lv_level x) (lv_version x) p.

Lemma shipped_privileged_allows relax : ev_privileged_allows (shipped_evaluator relax).
Proof. intros v p. reflexivity. Qed.

Lemma end_to_end_proof : forall c relax r w ls p m,
  evaluated_pod c r w = Some (ls, p) ->
  api_valid p = true -> relaxed_for relax p = false ->
  effective_minor (lv_version (enforce (spec_policy ls (cf_defaults c)))) = Some m ->
  rs_allowed (fst (validate c (shipped_evaluator relax) r w))
  = compliant (lv_level (enforce (spec_policy ls (cf_defaults c)))) m p.
Proof.
  intros c relax r w ls p m He Hv Hr Hm.
  rewrite (C01_allowed_iff_proof c (shipped_evaluator relax) r w ls p (shipped_privileged_allows relax) He).
  unfold shipped_evaluator, shipped_eval.
  change (forallb cr_allowed (evaluate_pod shipped_lists relax shipped_checks ?l ?v p))
    with (eval_allowed shipped_lists relax shipped_checks l v p).
  apply shipped_standard; assumption.
Qed.

(** the same through the webhook: a well-formed review below the size limit is answered with 200,
    its own uid, and a verdict that is compliance with the standard *)
From PSA Require Import Model.Webhook.
Lemma webhook_end_to_end_proof : forall c relax q uid r w ls p m,
  hq_has_body q = true -> N.ltb (hq_size q) max_request_size = true ->
  hq_ctype q = "application/json"%string -> hq_payload q = Review uid r w ->
  evaluated_pod c r w = Some (ls, p) ->
  api_valid p = true -> relaxed_for relax p = false ->
  effective_minor (lv_version (enforce (spec_policy ls (cf_defaults c)))) = Some m ->
  exists resp, handle c (shipped_evaluator relax) q = HttpResponse 200 (Some (uid, resp))
               /\ rs_allowed resp = compliant (lv_level (enforce (spec_policy ls (cf_defaults c)))) m p.
Proof.
  intros c relax q uid r w ls p m Hb Hs Hc Hp He Hv Hr Hm.
  exists (fst (validate c (shipped_evaluator relax) r w)). split.
  - unfold handle. rewrite Hb, Hc, Hp. cbn [negb].
    apply N.ltb_lt in Hs. destruct (N.leb_spec max_request_size (hq_size q)) as [Hle|_].
    + exfalso. apply N.lt_nge in Hs. exact (Hs Hle).
    + rewrite String.eqb_refl. reflexivity.
  - exact (end_to_end_proof c relax r w ls p m He Hv Hr Hm).
Qed.
