(** Proofs/ConcFacts.v - proofs for C15 (no cross-request state), C16 (the
    webhook exchange and the action-level concurrency model) and the recorder
    half of C18 (exact counts, reset, bounded version labels). *)
From Coq Require Import List Bool NArith ZArith String Lia PeanoNat.
From Coq Require Import Sorting.Permutation.
From PSA Require Import Base.Str Model.Api Model.Pod Model.Checks Model.Registry
     Model.Admission Model.Namespace Model.Webhook Model.Metrics
     Spec.P05 Spec.PAdm Spec.P16 Spec.P18
     Proofs.ApiFacts Proofs.StrFacts Proofs.RelaxFacts Proofs.AdmFactsA Proofs.AdmFactsB.
Import ListNotations.
Local Open Scope string_scope.

(* ======================================================================= *)
(** * C16: one HTTP exchange *)

Definition lib_allowed (c : config) (ev : evaluator) (q : http_request) : option bool :=
  match hq_payload q with Review _ r w => Some (rs_allowed (fst (validate c ev r w))) | _ => None end.

Lemma C16_exchange_proof c ev q :
  P16 q (lib_allowed c ev q) (hs_status (handle c ev q)) (option_map fst (hs_review (handle c ev q)))
      (option_map (fun x : string * response => rs_allowed (snd x)) (hs_review (handle c ev q))) = true.
Proof.
  unfold P16, well_formed_review, handle, lib_allowed, max_request_size, http_error.
  rewrite N.ltb_antisym.
  destruct (hq_has_body q); cbn [negb andb orb]; [|reflexivity].
  destruct (N.leb 3145728 (hq_size q)); cbn [negb andb orb]; [reflexivity|].
  destruct (String.eqb (hq_ctype q) "application/json"); cbn [negb andb orb]; [|reflexivity].
  destruct (hq_payload q) as [| | |u r w]; try reflexivity.
  cbn [hs_status hs_review option_map fst snd opt_eqb andb Z.eqb Pos.eqb].
  rewrite String.eqb_refl, eqb_reflx. reflexivity.
Qed.

Lemma C16_classify_proof c ev q :
  (hq_has_body q = false -> hs_status (handle c ev q) = 400%Z) /\
  (hq_has_body q = true -> (3145728 <= hq_size q)%N -> hs_status (handle c ev q) = 413%Z) /\
  (hq_has_body q = true -> (hq_size q < 3145728)%N -> hq_ctype q <> "application/json"%string ->
     hs_status (handle c ev q) = 400%Z) /\
  (forall u r w, well_formed_review q = true -> hq_payload q = Review u r w ->
     handle c ev q = HttpResponse 200 (Some (u, fst (validate c ev r w)))).
Proof.
  unfold handle, max_request_size, http_error, well_formed_review.
  repeat split.
  - intros ->. reflexivity.
  - intros -> H. apply N.leb_le in H. rewrite H. reflexivity.
  - intros -> H Hc. apply N.leb_gt in H. rewrite H. apply String.eqb_neq in Hc. rewrite Hc. reflexivity.
  - intros u r w H Hp. rewrite Hp in *.
    rewrite !andb_true_iff in H. destruct H as [[[Hb Hs] Hc] _].
    rewrite Hb, Hc. apply N.ltb_lt, N.leb_gt in Hs. rewrite Hs. reflexivity.
Qed.

(* ======================================================================= *)
(** * C16: the concurrency model *)

Lemma update_nth_Forall {A} (P : A -> Prop) f : (forall x, P x -> P (f x)) ->
  forall n l, Forall P l -> Forall P (update_nth n f l).
Proof.
  intros Hf n l. revert n. induction l as [|x l IH]; intros n H; [destruct n; constructor|].
  inversion H as [|? ? Hx Hl]; subst.
  destruct n as [|n]; cbn [update_nth]; constructor; auto.
Qed.

Lemma nth_error_update_nth_eq {A} (f : A -> A) : forall n l,
  nth_error (update_nth n f l) n = option_map f (nth_error l n).
Proof.
  intros n l. revert n. induction l as [|x l IH]; intros [|n]; cbn [update_nth nth_error option_map]; auto.
Qed.

Lemma nth_error_update_nth_neq {A} (f : A -> A) : forall n m l, n <> m ->
  nth_error (update_nth n f l) m = nth_error l m.
Proof.
  intros n m l. revert n m. induction l as [|x l IH]; intros [|n] [|m] H; cbn [update_nth nth_error]; auto.
  - congruence.
Qed.

(** the invariant of a thread of the fixed handler *)
Definition th_inv (t : thread) : Prop :=
  (2 <= th_pc t -> th_private t = th_uid t) /\
  (3 <= th_pc t -> th_out t = Some (th_uid t)) /\
  (forall o, th_out t = Some o -> o = th_uid t).

Lemma th_inv_new u k : th_inv (new_thread u k).
Proof. unfold th_inv, new_thread; cbn. repeat split; intros; try lia; discriminate. Qed.

Lemma step_fixed_store s t : fst (step_fixed s t) = s.
Proof. unfold step_fixed. destruct (th_pc t) as [|[|[|n]]]; reflexivity. Qed.

Lemma step_fixed_inv s t : th_inv t -> th_inv (snd (step_fixed s t)).
Proof.
  unfold th_inv, step_fixed. destruct t as [u k pc pr out]; cbn [th_pc th_uid th_ref th_private th_out].
  intros (H2 & H3 & Ho).
  destruct pc as [|[|[|n]]]; cbn [snd th_pc th_uid th_ref th_private th_out].
  - repeat split; intros; try lia; discriminate.
  - repeat split; intros; try lia; discriminate.
  - assert (E : pr = u) by (apply H2; lia). subst pr.
    repeat split; intros; try congruence.
  - repeat split; assumption.
Qed.

Lemma step_fixed_pc s t : Nat.min 3 (S (th_pc t)) <= th_pc (snd (step_fixed s t)).
Proof.
  unfold step_fixed. destruct (th_pc t) as [|[|[|n]]] eqn:E; cbn [snd th_pc]; lia.
Qed.

Lemma run_schedule_fixed_inv : forall sched s ts,
  Forall th_inv ts ->
  fst (run_schedule step_fixed sched s ts) = s /\ Forall th_inv (snd (run_schedule step_fixed sched s ts)).
Proof.
  induction sched as [|i rest IH]; intros s ts H; [split; [reflexivity|exact H]|].
  cbn [run_schedule]. destruct (nth_error ts i) as [t|] eqn:E; [|apply IH; exact H].
  pose proof (step_fixed_store s t) as Hs. pose proof (step_fixed_inv s t) as Hi.
  destruct (step_fixed s t) as [s' t']. cbn [fst snd] in Hs, Hi. subst s'.
  apply IH. apply update_nth_Forall; [|exact H].
  intros _ _. apply Hi. rewrite Forall_forall in H. apply H. eapply nth_error_In; eassumption.
Qed.

Lemma new_threads_inv (reqs : list (string * shared_tag)) :
  Forall th_inv (map (fun x => new_thread (fst x) (snd x)) reqs).
Proof. apply Forall_forall. intros t H. apply in_map_iff in H. destruct H as [x [<- _]]. apply th_inv_new. Qed.

Lemma C16_concurrent_proof : forall (reqs : list (string * shared_tag)) (sched : list nat),
  let '(s, ts) := run_schedule step_fixed sched initial_store (map (fun x => new_thread (fst x) (snd x)) reqs) in
  s = initial_store /\ Forall (fun t => forall o, th_out t = Some o -> o = th_uid t) ts.
Proof.
  intros reqs sched.
  destruct (run_schedule_fixed_inv sched initial_store _ (new_threads_inv reqs)) as [Hs Ht].
  destruct (run_schedule step_fixed sched initial_store _) as [s ts]. cbn [fst snd] in Hs, Ht.
  split; [exact Hs|].
  eapply Forall_impl; [|exact Ht]. intros t (_ & _ & H). exact H.
Qed.

Lemma run_schedule_fixed_pc : forall sched s ts i t,
  nth_error (snd (run_schedule step_fixed sched s ts)) i = Some t ->
  exists t0, nth_error ts i = Some t0 /\ Nat.min 3 (th_pc t0 + count_occ Nat.eq_dec sched i) <= th_pc t.
Proof.
  induction sched as [|j rest IH]; intros s ts i t H.
  - cbn [run_schedule snd] in H. exists t. split; [exact H|]. cbn [count_occ]. lia.
  - cbn [run_schedule] in H. destruct (nth_error ts j) as [tj|] eqn:E.
    + pose proof (step_fixed_pc s tj) as Hpc.
      destruct (step_fixed s tj) as [s' tj']. cbn [snd] in Hpc.
      destruct (IH _ _ _ _ H) as [t0 [H0 Hle]].
      destruct (Nat.eq_dec j i) as [->|Hne].
      * rewrite nth_error_update_nth_eq, E in H0. cbn [option_map] in H0. injection H0 as <-.
        exists tj. split; [exact E|]. rewrite count_occ_cons_eq by reflexivity. lia.
      * rewrite nth_error_update_nth_neq in H0 by exact Hne.
        exists t0. split; [exact H0|]. rewrite count_occ_cons_neq by exact Hne. exact Hle.
    + destruct (IH _ _ _ _ H) as [t0 [H0 Hle]].
      exists t0. split; [exact H0|].
      destruct (Nat.eq_dec j i) as [->|Hne]; [congruence|].
      rewrite count_occ_cons_neq by exact Hne. exact Hle.
Qed.

Lemma C16_progress_proof : forall (reqs : list (string * shared_tag)) sched i t,
  3 <= count_occ Nat.eq_dec sched i ->
  nth_error (snd (run_schedule step_fixed sched initial_store (map (fun x => new_thread (fst x) (snd x)) reqs))) i = Some t ->
  th_out t = Some (th_uid t).
Proof.
  intros reqs sched i t Hc H.
  destruct (run_schedule_fixed_pc _ _ _ _ _ H) as [t0 [_ Hle]].
  destruct (run_schedule_fixed_inv sched initial_store _ (new_threads_inv reqs)) as [_ Ht].
  rewrite Forall_forall in Ht. apply nth_error_In in H. destruct (Ht _ H) as (_ & H3 & _).
  apply H3. lia.
Qed.

Lemma C16_unfixed_refuted_proof :
  exists (reqs : list (string * shared_tag)) sched,
  let '(s, ts) := run_schedule step_unfixed sched initial_store (map (fun x => new_thread (fst x) (snd x)) reqs) in
  exists t o, In t ts /\ th_out t = Some o /\ o <> th_uid t.
Proof.
  exists [("A", SharedAllowed); ("B", SharedAllowed)], [0; 1; 0; 1].
  vm_compute. eexists. eexists. split; [left; reflexivity|]. split; [reflexivity|]. cbn. discriminate.
Qed.

Lemma C16_unfixed_dirty_store_proof :
  exists (reqs : list (string * shared_tag)) sched,
  fst (run_schedule step_unfixed sched initial_store (map (fun x => new_thread (fst x) (snd x)) reqs)) <> initial_store.
Proof. exists [("A", SharedAllowed)], [0]. vm_compute. discriminate. Qed.

(* ======================================================================= *)
(** * C18: the recorder *)

Lemma list_string_eqb_eq : forall a b : list string, list_eqb String.eqb a b = true -> a = b.
Proof.
  induction a as [|x a IH]; intros [|y b] H; cbn [list_eqb] in H; try discriminate; [reflexivity|].
  apply andb_true_iff in H. destruct H as [H1 H2]. apply String.eqb_eq in H1. subst. f_equal. now apply IH.
Qed.

Lemma series_eqb_refl k : series_eqb k k = true.
Proof.
  unfold series_eqb. rewrite String.eqb_refl. apply (list_eqb_refl _ String.eqb String.eqb_refl).
Qed.

Lemma series_eqb_eq a b : series_eqb a b = true <-> a = b.
Proof.
  split; [|intros ->; apply series_eqb_refl].
  unfold series_eqb. intros H. apply andb_true_iff in H. destruct H as [H1 H2].
  apply String.eqb_eq in H1. apply list_string_eqb_eq in H2. destruct a, b; cbn [fst snd] in *. congruence.
Qed.

Lemma series_eqb_neq a b : series_eqb a b = false <-> a <> b.
Proof. rewrite <- series_eqb_eq. destruct (series_eqb a b); split; congruence. Qed.

Lemma series_eqb_spec a b : reflect (a = b) (series_eqb a b).
Proof. apply iff_reflect. symmetry. apply series_eqb_eq. Qed.

Lemma get_inc k k' st : get k (inc k' st) = if series_eqb k k' then N.succ (get k st) else get k st.
Proof.
  induction st as [|[k2 n] st IH]; cbn [inc get].
  - destruct (series_eqb k k'); reflexivity.
  - destruct (series_eqb_spec k' k2) as [->|Hne]; cbn [get].
    + destruct (series_eqb k k2); reflexivity.
    + rewrite IH. destruct (series_eqb_spec k k2) as [->|Hne2]; [|reflexivity].
      apply not_eq_sym, series_eqb_neq in Hne. rewrite Hne. reflexivity.
Qed.

(** expected count, with accumulators *)
Definition cnt (k : series) (l : list series) : N := N.of_nat (List.length (filter (series_eqb k) l)).

Lemma cnt_cons k k' l : cnt k (k' :: l) = if series_eqb k k' then N.succ (cnt k l) else cnt k l.
Proof.
  unfold cnt. cbn [filter]. destruct (series_eqb k k'); [|reflexivity].
  cbn [List.length]. apply Nat2N.inj_succ.
Qed.

Lemma get_fold_since k : forall ops st acc,
  get k st = cnt k acc ->
  get k (fold_left apply_op ops st) = cnt k (since_reset ops acc).
Proof.
  induction ops as [|[k'|] ops IH]; intros st acc H; cbn [fold_left since_reset apply_op].
  - exact H.
  - apply IH. rewrite get_inc, cnt_cons, H. reflexivity.
  - apply IH. reflexivity.
Qed.

Lemma C18_get_exact_proof ops k : get k (run_ops ops) = expected_count ops k.
Proof. unfold run_ops, expected_count. apply (get_fold_since k ops [] []). reflexivity. Qed.

(** distinct keys *)
Lemma In_keys_inc x k st : In x (map fst (inc k st)) -> x = k \/ In x (map fst st).
Proof.
  induction st as [|[k2 n] st IH]; cbn [inc map fst In].
  - intros [H|[]]; auto.
  - destruct (series_eqb k k2); cbn [map fst In]; [tauto|].
    intros [H|H]; [tauto|]. destruct (IH H); tauto.
Qed.

Lemma NoDup_keys_inc k st : NoDup (map fst st) -> NoDup (map fst (inc k st)).
Proof.
  induction st as [|[k2 n] st IH]; cbn [inc map fst]; intros H.
  - constructor; [intros []|constructor].
  - inversion H as [|? ? Hn Hd]; subst.
    destruct (series_eqb_spec k k2) as [->|Hne]; cbn [map fst]; [constructor; assumption|].
    constructor; [|now apply IH].
    intros Hin. apply In_keys_inc in Hin. destruct Hin as [->|Hin]; [now apply Hne|now apply Hn].
Qed.

Lemma NoDup_keys_fold ops : forall st, NoDup (map fst st) -> NoDup (map fst (fold_left apply_op ops st)).
Proof.
  induction ops as [|[k|] ops IH]; intros st H; cbn [fold_left apply_op]; [exact H| |].
  - apply IH. now apply NoDup_keys_inc.
  - apply IH. constructor.
Qed.

Lemma get_In k n st : NoDup (map fst st) -> In (k, n) st -> get k st = n.
Proof.
  induction st as [|[k2 n2] st IH]; cbn [map fst get In]; intros Hd H; [destruct H|].
  inversion Hd as [|? ? Hn Hd']; subst.
  destruct H as [H|H].
  - injection H as -> ->. now rewrite series_eqb_refl.
  - destruct (series_eqb_spec k k2) as [->|Hne]; [|now apply IH].
    exfalso. apply Hn. apply in_map_iff. exists (k2, n). split; [reflexivity|exact H].
Qed.

Lemma get_nonzero k st : get k st <> 0%N ->
  exists kv, In kv st /\ series_eqb k (fst kv) = true /\ snd kv = get k st.
Proof.
  induction st as [|[k2 n2] st IH]; cbn [get]; intros H; [congruence|].
  destruct (series_eqb k k2) eqn:E.
  - exists (k2, n2). split; [now left|]. split; [exact E|reflexivity].
  - destruct (IH H) as [kv [Hin Hk]]. exists kv. split; [now right|exact Hk].
Qed.

Lemma C18_counts_proof ops :
  P18_counts ops (filter (fun kv : series * N => negb (N.eqb (snd kv) 0)) (run_ops ops)) = true.
Proof.
  unfold P18_counts. apply andb_true_iff. split.
  - apply forallb_forall. intros [k n] H. apply filter_In in H. destruct H as [H _]. cbn [fst snd].
    apply N.eqb_eq. rewrite <- C18_get_exact_proof. symmetry. apply get_In; [|exact H].
    unfold run_ops. apply NoDup_keys_fold. constructor.
  - apply forallb_forall. intros k _.
    destruct (N.eqb (expected_count ops k) 0) eqn:E; cbn [negb andb orb]; [reflexivity|].
    rewrite orb_false_r. apply existsb_exists.
    apply N.eqb_neq in E. rewrite <- C18_get_exact_proof in E.
    destruct (get_nonzero k _ E) as [kv [Hin [Hk Hv]]].
    exists kv. split; [|exact Hk]. apply filter_In. split; [exact Hin|].
    apply negb_true_iff, N.eqb_neq. now rewrite Hv.
Qed.

(** recordings without reset: counting occurrences *)
Definition is_rec (k : series) (o : rec_op) : bool := match o with Rec k' => series_eqb k k' | Reset => false end.
Definition not_reset (o : rec_op) : bool := match o with Rec _ => true | Reset => false end.
Definition occ (k : series) (ops : list rec_op) : N := N.of_nat (List.length (filter (is_rec k) ops)).

Lemma get_fold_noreset k : forall ops st, forallb not_reset ops = true ->
  get k (fold_left apply_op ops st) = (get k st + occ k ops)%N.
Proof.
  unfold occ. induction ops as [|[k'|] ops IH]; intros st H; cbn [fold_left apply_op filter is_rec forallb not_reset] in *.
  - cbn. now rewrite N.add_0_r.
  - rewrite IH by exact H. rewrite get_inc. destruct (series_eqb k k'); [|reflexivity].
    cbn [List.length]. rewrite Nat2N.inj_succ. lia.
  - discriminate.
Qed.

Lemma filter_length_perm {A} (f : A -> bool) l l' : Permutation l l' ->
  List.length (filter f l) = List.length (filter f l').
Proof.
  induction 1 as [|x l l' _ IH|x y l|l l' l'' _ IH1 _ IH2]; cbn [filter].
  - reflexivity.
  - destruct (f x); cbn [List.length]; now rewrite IH.
  - destruct (f x), (f y); reflexivity.
  - now rewrite IH1.
Qed.

Lemma occ_perm k ops ops' : Permutation ops ops' -> occ k ops = occ k ops'.
Proof. intros H. unfold occ. now rewrite (filter_length_perm _ _ _ H). Qed.

Lemma noreset_map_Rec ks : forallb not_reset (map Rec ks) = true.
Proof. induction ks; [reflexivity|exact IHks]. Qed.

Lemma C18_exact_any_order_proof ks ks' k : Permutation ks ks' ->
  get k (run_ops (map Rec ks)) = get k (run_ops (map Rec ks')).
Proof.
  intros H. unfold run_ops. rewrite !get_fold_noreset by apply noreset_map_Rec.
  f_equal. apply occ_perm. now apply Permutation_map.
Qed.

Lemma C18_reset_proof ops ops' k : get k (run_ops (ops ++ Reset :: ops')) = get k (run_ops ops').
Proof. unfold run_ops. rewrite fold_left_app. reflexivity. Qed.

Lemma C18_bucket_proof n x : (lv_version x = Latest \/ exists m, lv_version x = V 1 m) ->
  P18_label n (version_label (V 1 n) x) = true.
Proof.
  intros H. unfold P18_label, bounded_version_labels, version_label. apply mem_In.
  destruct H as [->|[m ->]]; [left; reflexivity|].
  cbn [orb]. destruct (level_eqb (lv_level x) Privileged); [left; reflexivity|].
  unfold older. rewrite N.eqb_refl.
  destruct (N.ltb n m) eqn:E; cbn [negb]; [right; left; reflexivity|].
  right; right. apply in_map_iff. exists (N.to_nat m). split; [now rewrite N2Nat.id|].
  apply in_seq. apply N.ltb_ge in E. lia.
Qed.

Lemma C18_bucket_cardinality_proof n : List.length (bounded_version_labels n) = N.to_nat n + 3.
Proof.
  unfold bounded_version_labels. cbn [List.length]. rewrite map_length, seq_length. lia.
Qed.

(* ======================================================================= *)
(** * C15: the library has no state that leaks between requests *)

Definition lib_state := (store * counters)%type.
Definition lib_step (server : version) (c : config) (ev : evaluator) (st : lib_state) (rw : request * world)
  : response * lib_state :=
  let '(resp, tr) := validate c ev (fst rw) (snd rw) in
  (resp, (fst st, fold_left apply_op (request_ops server (fst rw) tr) (snd st))).
Fixpoint lib_run server c ev (st : lib_state) (h : list (request * world)) : list response * lib_state :=
  match h with
  | [] => ([], st)
  | rw :: r => let '(resp, st') := lib_step server c ev st rw in
               let '(rs, st'') := lib_run server c ev st' r in (resp :: rs, st'')
  end.

Definition ops_of server c ev (rw : request * world) : list rec_op :=
  request_ops server (fst rw) (snd (validate c ev (fst rw) (snd rw))).

Lemma lib_step_char server c ev st rw :
  lib_step server c ev st rw =
  (fst (validate c ev (fst rw) (snd rw)), (fst st, fold_left apply_op (ops_of server c ev rw) (snd st))).
Proof. unfold lib_step, ops_of. destruct (validate c ev (fst rw) (snd rw)); reflexivity. Qed.

Lemma lib_run_cons server c ev st rw h :
  lib_run server c ev st (rw :: h) =
  (fst (lib_step server c ev st rw) :: fst (lib_run server c ev (snd (lib_step server c ev st rw)) h),
   snd (lib_run server c ev (snd (lib_step server c ev st rw)) h)).
Proof.
  cbn [lib_run]. destruct (lib_step server c ev st rw) as [resp st']. cbn [fst snd].
  destruct (lib_run server c ev st' h); reflexivity.
Qed.

Lemma C15_histories_proof server c ev : forall st h,
  fst (lib_run server c ev st h) = map (fun rw => fst (validate c ev (fst rw) (snd rw))) h /\
  fst (snd (lib_run server c ev st h)) = fst st.
Proof.
  intros st h. revert st. induction h as [|rw h IH]; intros st; [split; reflexivity|].
  rewrite lib_run_cons. cbn [fst snd map]. rewrite lib_step_char. cbn [fst snd].
  destruct (IH (fst st, fold_left apply_op (ops_of server c ev rw) (snd st))) as [H1 H2].
  split; [now rewrite H1|exact H2].
Qed.

Lemma lib_run_counters server c ev : forall h st,
  snd (snd (lib_run server c ev st h)) = fold_left apply_op (flat_map (ops_of server c ev) h) (snd st).
Proof.
  induction h as [|rw h IH]; intros st; [reflexivity|].
  rewrite lib_run_cons. cbn [fst snd flat_map]. rewrite lib_step_char. cbn [fst snd].
  rewrite IH. cbn [snd]. now rewrite fold_left_app.
Qed.

Lemma request_ops_noreset server r tr : forallb not_reset (request_ops server r tr) = true.
Proof.
  unfold request_ops. induction tr as [|e tr IH]; [reflexivity|].
  cbn [flat_map]. rewrite forallb_app, IH. destruct (series_of server r e); reflexivity.
Qed.

Lemma flat_map_noreset {A} (f : A -> list rec_op) l :
  (forall x, forallb not_reset (f x) = true) -> forallb not_reset (flat_map f l) = true.
Proof.
  intros H. induction l as [|x l IH]; [reflexivity|]. cbn [flat_map]. now rewrite forallb_app, H, IH.
Qed.

Lemma flat_map_perm {A B} (f : A -> list B) l l' : Permutation l l' -> Permutation (flat_map f l) (flat_map f l').
Proof.
  induction 1 as [|x l l' _ IH|x y l|l l' l'' _ IH1 _ IH2]; cbn [flat_map].
  - constructor.
  - now apply Permutation_app_head.
  - rewrite !app_assoc. apply Permutation_app_tail, Permutation_app_comm.
  - now transitivity (flat_map f l').
Qed.

Lemma C15_interleavings_proof server c ev h h' k : Permutation h h' ->
  get k (snd (snd (lib_run server c ev (initial_store, []) h))) =
  get k (snd (snd (lib_run server c ev (initial_store, []) h'))).
Proof.
  intros H. rewrite !lib_run_counters. cbn [snd].
  rewrite !get_fold_noreset by (apply flat_map_noreset; intros x; apply request_ops_noreset).
  f_equal. apply occ_perm. now apply flat_map_perm.
Qed.

(** the shared objects are constants *)
Definition shared_objects : list response :=
  [shared_allowed; shared_privileged; shared_user; shared_namespace; shared_runtimeclass].
Definition resp_ok (resp : response) : Prop := rs_shared resp = Fresh \/ In resp shared_objects.

Lemma ok_allowed : resp_ok shared_allowed.                Proof. right; cbn; tauto. Qed.
Lemma ok_privileged : resp_ok shared_privileged.          Proof. right; cbn; tauto. Qed.
Lemma ok_user : resp_ok shared_user.                      Proof. right; cbn; tauto. Qed.
Lemma ok_namespace : resp_ok shared_namespace.            Proof. right; cbn; tauto. Qed.
Lemma ok_runtimeclass : resp_ok shared_runtimeclass.      Proof. right; cbn; tauto. Qed.
Lemma ok_fresh resp : rs_shared resp = Fresh -> resp_ok resp.  Proof. now left. Qed.

Lemma epr_ok c ev pol errs p m : resp_ok (fst (evaluate_pod_request c ev pol errs p m)).
Proof.
  unfold evaluate_pod_request.
  destruct (exempt_runtimeclass c (pd_runtimeClass p)); [apply ok_runtimeclass|].
  apply ok_fresh.
  B_split_ifs; cbv beta iota zeta; cbn [cache_get app rs_allowed allowed_fresh forbidden negb];
    reflexivity.
Qed.

Lemma vp_ok c ev r w : resp_ok (fst (validate_pod c ev r w)).
Proof.
  generalize (B_pod_outcome c ev r w). generalize (validate_pod c ev r w). intros o O.
  destruct O; cbn [fst];
    first [apply ok_allowed|apply ok_namespace|apply ok_user|apply ok_privileged|apply ok_runtimeclass
          |apply epr_ok|apply ok_fresh; reflexivity].
Qed.

Lemma vc_ok c ev r w : resp_ok (fst (validate_controller c ev r w)).
Proof.
  generalize (B_ctrl_outcome c ev r w). generalize (validate_controller c ev r w). intros o O.
  destruct O; cbn [fst];
    first [apply ok_allowed|apply ok_namespace|apply ok_user|apply ok_privileged|apply ok_runtimeclass
          |apply epr_ok|apply ok_fresh; reflexivity].
Qed.

Lemma vn_ok c ev r w : resp_ok (fst (validate_namespace c ev r w)).
Proof.
  unfold validate_namespace.
  destruct (negb (String.eqb (r_subresource r) "")); [apply ok_allowed|].
  destruct (r_object r) as [msg| |p|name ls|k t|what]; try (apply ok_fresh; reflexivity).
  destruct (policy_to_evaluate ls (cf_defaults c)) as [new_pol new_errs].
  assert (Hex : resp_ok (if String.eqb (exempt_namespace_warning c name new_pol ls) ""
                         then shared_allowed
                         else with_warnings allowed_fresh [exempt_namespace_warning c name new_pol ls])).
  { destruct (String.eqb _ ""); [apply ok_allowed|apply ok_fresh; reflexivity]. }
  destruct (r_op r) as [| |raw].
  - destruct (negb (is_nil new_errs)); [apply ok_fresh; reflexivity|].
    destruct (exempt_namespace c (r_namespace r)); [exact Hex|apply ok_allowed].
  - destruct (r_old r) as [msg| |p|oname old_ls|k t|what]; try (apply ok_fresh; reflexivity).
    destruct (policy_to_evaluate old_ls (cf_defaults c)) as [old_pol old_errs].
    destruct (negb (is_nil new_errs) && (is_nil old_errs || negb (ferrs_eqb new_errs old_errs)));
      [apply ok_fresh; reflexivity|].
    destruct (lv_eqb (enforce new_pol) (enforce old_pol)); [apply ok_allowed|].
    destruct (level_eqb (lv_level (enforce new_pol)) Privileged); [apply ok_allowed|].
    destruct (version_eqb (lv_version (enforce new_pol)) (lv_version (enforce old_pol)) && _); [apply ok_allowed|].
    destruct (exempt_namespace c (r_namespace r)); [exact Hex|].
    destruct (evaluate_pods_in_namespace c ev r w name (enforce new_pol)) as [warns tr2].
    apply ok_fresh. reflexivity.
  - apply ok_allowed.
Qed.

Lemma validate_ok c ev r w : resp_ok (fst (validate c ev r w)).
Proof.
  unfold validate.
  destruct (String.eqb (r_group r) "" && String.eqb (r_resource r) "namespaces"); [apply vn_ok|].
  destruct (String.eqb (r_group r) "" && String.eqb (r_resource r) "pods"); [apply vp_ok|apply vc_ok].
Qed.

Lemma C15_shared_constant_proof c ev r w : rs_shared (fst (validate c ev r w)) <> Fresh ->
  In (fst (validate c ev r w)) [shared_allowed; shared_privileged; shared_user; shared_namespace; shared_runtimeclass].
Proof. intros H. destruct (validate_ok c ev r w) as [E|E]; [contradiction|exact E]. Qed.

(* ======================================================================= *)
(** * C18: the version labels a request can record are bounded *)

Definition parsed_version (v : version) : Prop := v = Latest \/ exists m, v = V 1 m.
Definition parsed_policy (d : policy) : Prop :=
  parsed_version (lv_version (enforce d)) /\ parsed_version (lv_version (audit d)) /\
  parsed_version (lv_version (warn d)).

Lemma spec_version_of_parsed s v : spec_version_of s = Some v -> parsed_version v.
Proof.
  unfold spec_version_of, parsed_version.
  destruct (String.eqb s "latest"); [intros H; injection H as <-; now left|].
  destruct (strip_prefix "v1." s) as [r|]; [|discriminate].
  destruct (canonical_digits r) as [n|]; [|discriminate].
  destruct (N.ltb n 9223372036854775808); [|discriminate].
  intros H; injection H as <-. right. now exists n.
Qed.

Lemma spec_version_parsed m ls d : parsed_version (lv_version (default_of m d)) -> parsed_version (spec_version m ls d).
Proof.
  intros H. unfold spec_version. destruct (lookup (version_key m) ls) as [s|]; [|exact H].
  destruct (spec_version_of s) as [v|] eqn:E; [now apply (spec_version_of_parsed s)|now left].
Qed.

Lemma spec_policy_parsed ls d : parsed_policy d -> parsed_policy (spec_policy ls d).
Proof.
  intros (He & Ha & Hw). unfold parsed_policy, spec_policy. cbn [enforce audit warn].
  assert (E : parsed_version (spec_version MEnforce ls d)) by now apply spec_version_parsed.
  assert (A : parsed_version (spec_version MAudit ls d)) by now apply spec_version_parsed.
  assert (W : parsed_version (spec_version MWarn ls d)) by now apply spec_version_parsed.
  repeat split; cbn [lv_version]; try assumption.
  destruct (warn_follows ls d); cbn [lv_version]; [|assumption].
  destruct (lookup warn_version_label ls); assumption.
Qed.

Lemma epr_meval c ev pol errs p mode deny x m :
  In (MEval deny x m) (snd (evaluate_pod_request c ev pol errs p mode)) ->
  x = enforce pol \/ x = audit pol \/ x = warn pol.
Proof.
  unfold evaluate_pod_request.
  destruct (exempt_runtimeclass c (pd_runtimeClass p)); [cbn; intros [H|[]]; discriminate|].
  B_split_ifs; cbv beta iota zeta; cbn [cache_get app rs_allowed allowed_fresh forbidden negb snd In];
    intros H; repeat (destruct H as [H|H]; [try discriminate; injection H; intros; subst; tauto|]);
    destruct H.
Qed.

Definition meval_ok (c : config) (w : world) (tr : list event) : Prop :=
  forall deny x m, In (MEval deny x m) tr ->
  exists ls, w_ns w = Some ls /\
    (x = enforce (spec_policy ls (cf_defaults c)) \/ x = audit (spec_policy ls (cf_defaults c))
     \/ x = warn (spec_policy ls (cf_defaults c))).

Lemma meval_ok_none c w tr : (forall deny x m, ~ In (MEval deny x m) tr) -> meval_ok c w tr.
Proof. intros H deny x m Hin. exfalso. exact (H _ _ _ Hin). Qed.

Ltac in_cases H := cbn [In app] in H; repeat (destruct H as [H|H]; [discriminate|]); exact H.
Ltac no_meval := let H := fresh "Hin" in apply meval_ok_none; intros ? ? ? H; in_cases H.

Lemma meval_ok_epr c ev w ls pre p mode :
  w_ns w = Some ls -> (forall deny x m, ~ In (MEval deny x m) pre) ->
  meval_ok c w (pre +:+ snd (evaluate_pod_request c ev (spec_policy ls (cf_defaults c)) (spec_errs ls) p mode)).
Proof.
  intros Hw Hpre deny x m Hin. apply in_app_or in Hin. destruct Hin as [Hin|Hin]; [exfalso; exact (Hpre _ _ _ Hin)|].
  exists ls. split; [exact Hw|]. eapply epr_meval; eassumption.
Qed.

Lemma vp_meval c ev r w : meval_ok c w (snd (validate_pod c ev r w)).
Proof.
  generalize (B_pod_outcome c ev r w). generalize (validate_pod c ev r w). intros o O.
  destruct O; cbn [snd]; try no_meval.
  - intros deny x m Hin. cbn [In] in Hin. destruct Hin as [Hin|[Hin|[]]]; [discriminate|].
    injection Hin as _ <- _. exists ls. split; [assumption|now left].
  - unfold pod_pre in *. destruct (r_op r); B_norm_hyps; subst pre; no_meval.
  - apply meval_ok_epr; [assumption|].
    unfold pod_pre in *. destruct (r_op r); B_norm_hyps; subst pre;
      intros ? ? ? Hin; in_cases Hin.
Qed.

Lemma vc_meval c ev r w : meval_ok c w (snd (validate_controller c ev r w)).
Proof.
  generalize (B_ctrl_outcome c ev r w). generalize (validate_controller c ev r w). intros o O.
  destruct O; cbn [snd]; try no_meval.
  apply meval_ok_epr; [assumption|].
  intros ? ? ? Hin; in_cases Hin.
Qed.

Lemma count_ev_pos f e tr : In e tr -> f e = true -> 0 < count_ev f tr.
Proof.
  intros Hin Hf. unfold count_ev.
  assert (H : In e (filter f tr)) by (apply filter_In; now split).
  destruct (filter f tr); [destruct H|cbn [List.length]; lia].
Qed.

Lemma validate_meval c ev r w : meval_ok c w (snd (validate c ev r w)).
Proof.
  destruct (is_namespaces r) eqn:Hns.
  - apply meval_ok_none. intros deny x m Hin.
    pose proof (P18_adm_model c ev r w) as H. unfold P18_adm in H. rewrite Hns in H.
    apply Nat.eqb_eq in H.
    assert (Hm : is_meval m (MEval deny x m) = true) by now destruct m.
    pose proof (count_ev_pos _ _ _ Hin Hm) as Hp.
    destruct m; lia.
  - unfold validate. unfold is_namespaces in Hns. rewrite Hns.
    destruct (String.eqb (r_group r) "" && String.eqb (r_resource r) "pods"); [apply vp_meval|apply vc_meval].
Qed.

(** every version a request hands to RecordEvaluation is a parsed version when the defaults are *)
Lemma C18_trace_versions_proof c ev r w deny x m :
  parsed_policy (cf_defaults c) -> In (MEval deny x m) (snd (validate c ev r w)) -> parsed_version (lv_version x).
Proof.
  intros Hd Hin. destruct (validate_meval c ev r w _ _ _ Hin) as [ls [_ H]].
  destruct (spec_policy_parsed ls _ Hd) as (He & Ha & Hw).
  destruct H as [ -> | [ -> | -> ] ]; assumption.
Qed.

(** ... hence every evaluation series a request increments carries a bounded policy_version label *)
Lemma C18_request_labels_proof n c ev r w k :
  parsed_policy (cf_defaults c) ->
  In (Rec k) (request_ops (V 1 n) r (snd (validate c ev r w))) ->
  fst k = "pod_security_evaluations_total" ->
  P18_label n (nth 2 (snd k) "") = true.
Proof.
  intros Hd Hin Hk. unfold request_ops in Hin. apply in_flat_map in Hin. destruct Hin as [e [He Hin]].
  destruct e as [| | |dl|x nm|deny x m| |fatal]; cbn [series_of In] in Hin; try (destruct Hin; fail).
  - destruct Hin as [Hin|[]]. injection Hin as <-. cbn [snd nth].
    apply C18_bucket_proof. eapply C18_trace_versions_proof; eassumption.
  - destruct Hin as [Hin|[]]. injection Hin as <-. discriminate.
  - destruct Hin as [Hin|[]]. injection Hin as <-. discriminate.
Qed.
