(** Proofs/PurityFacts.v - facts needed by property C14: the result of every
    check revision (allow bit, reason and detail text) and of the assembled
    evaluator is independent of the order in which Go maps are iterated and
    in which elements are inserted into [sets.String].
    In the model a Go map is an association list with unique keys, given in
    some arbitrary order; a [sets.String] is [sset_of] of the elements in
    insertion order. *)
From Coq Require Import List Bool NArith String Permutation.
From Coq Require Import Sorting.Sorted.
From PSA Require Import Base.Str Model.Api Model.Pod Model.Checks Model.Registry Model.Shipped.
From PSA Require Import Proofs.StrFacts.
Import ListNotations.
Local Open Scope string_scope.

(** * Sorted lists are determined by their multiset / set of elements *)

Lemma P14_sorted_perm_eq l1 : forall l2,
  StronglySorted sle l1 -> StronglySorted sle l2 -> Permutation l1 l2 -> l1 = l2.
Proof.
  induction l1 as [|a l1 IH]; intros l2 S1 S2 P.
  - now apply Permutation_nil in P.
  - destruct l2 as [|b l2]; [apply Permutation_sym, Permutation_nil in P; discriminate|].
    inversion S1 as [|? ? S1' F1]; inversion S2 as [|? ? S2' F2]; subst.
    rewrite Forall_forall in F1, F2.
    assert (E : a = b).
    { assert (Ha : In a (b :: l2)) by (eapply Permutation_in; [exact P|now left]).
      assert (Hb : In b (a :: l1)) by (eapply Permutation_in; [apply Permutation_sym; exact P|now left]).
      destruct Ha as [Ha|Ha]; [now symmetry|]. destruct Hb as [Hb|Hb]; [assumption|].
      apply String.leb_antisym; [now apply F1|now apply F2]. }
    subst b. f_equal. apply IH; try assumption. eapply Permutation_cons_inv. exact P.
Qed.

Lemma P14_ssort_perm_eq l l' : Permutation l l' -> ssort l = ssort l'.
Proof.
  intros P. apply P14_sorted_perm_eq; try apply ssort_sorted.
  eapply Permutation_trans; [apply ssort_perm|].
  eapply Permutation_trans; [exact P|apply Permutation_sym, ssort_perm].
Qed.

Lemma P14_slt_sle_sorted l : StronglySorted slt l -> StronglySorted sle l.
Proof.
  induction 1 as [|a l S IH Hall]; constructor; [assumption|].
  eapply Forall_impl; [|exact Hall]. intros b Hb. now apply string_ltb_leb.
Qed.

(** two strictly sorted lists with the same elements are equal *)
Lemma P14_strict_sorted_ext l1 l2 :
  StronglySorted slt l1 -> StronglySorted slt l2 ->
  (forall x, In x l1 <-> In x l2) -> l1 = l2.
Proof.
  intros S1 S2 H. apply P14_sorted_perm_eq; try now apply P14_slt_sle_sorted.
  apply NoDup_Permutation; try now apply slt_sorted_NoDup. exact H.
Qed.

Lemma P14_sset_of_ext l l' : (forall x, In x l <-> In x l') -> sset_of l = sset_of l'.
Proof.
  intros H. apply P14_strict_sorted_ext; try apply sset_of_sorted.
  intros x. rewrite !In_sset_of. apply H.
Qed.

(** corollaries: insertion order and multiplicity do not matter *)
Lemma P14_sset_of_perm l l' : Permutation l l' -> sset_of l = sset_of l'.
Proof.
  intros P. apply P14_sset_of_ext. intros x.
  split; apply Permutation_in; [exact P|apply Permutation_sym, P].
Qed.

(** * Map iteration order *)

Lemma P14_perm_NoDup_fst {A} (m m' : list (string * A)) :
  NoDup (map fst m) -> Permutation m m' -> NoDup (map fst m').
Proof.
  intros ND P. eapply Permutation_NoDup; [|exact ND]. now apply Permutation_map.
Qed.

Lemma P14_lookup_perm (A : Type) (m m' : list (string * A)) k :
  NoDup (map fst m) -> Permutation m m' -> lookup k m' = lookup k m.
Proof.
  intros ND P.
  assert (ND' : NoDup (map fst m')) by (eapply P14_perm_NoDup_fst; eassumption).
  destruct (lookup k m) as [v|] eqn:E.
  - apply In_lookup_NoDup; [exact ND'|].
    eapply Permutation_in; [exact P|]. now apply lookup_Some_In.
  - apply lookup_None_iff in E. apply lookup_None_iff. intros Hin. apply E.
    eapply Permutation_in; [|exact Hin]. apply Permutation_map, Permutation_sym, P.
Qed.

(** * The two checks that read the annotation map *)

Lemma P14_annotations_set p a : pd_annotations (set_annotations p a) = a.
Proof. reflexivity. Qed.

Lemma P14_all_containers_set p a : all_containers (set_annotations p a) = all_containers p.
Proof. reflexivity. Qed.

Lemma P14_forbidden_perm p anns' :
  Permutation (pd_annotations p) anns' ->
  Permutation (apparmor_forbidden_annotations (set_annotations p anns'))
              (apparmor_forbidden_annotations p).
Proof.
  intros P. unfold apparmor_forbidden_annotations. rewrite P14_annotations_set.
  apply Permutation_flat_map, Permutation_sym, P.
Qed.

Lemma P14_is_nil_perm {A} (l l' : list A) : Permutation l l' -> is_nil l = is_nil l'.
Proof.
  intros P. destruct l as [|a l]; destruct l' as [|b l']; try reflexivity.
  - apply Permutation_nil in P. discriminate.
  - apply Permutation_sym, Permutation_nil in P. discriminate.
Qed.

Lemma P14_appArmor al relax p anns' :
  Permutation (pd_annotations p) anns' ->
  appArmorProfile_1_0 al relax (set_annotations p anns') = appArmorProfile_1_0 al relax p.
Proof.
  intros P. pose proof (P14_forbidden_perm p anns' P) as PF.
  unfold appArmorProfile_1_0.
  rewrite (P14_ssort_perm_eq _ _ PF), (Permutation_length PF), (P14_is_nil_perm _ _ PF).
  reflexivity.
Qed.

Lemma P14_seccomp_finding p anns' key :
  NoDup (map fst (pd_annotations p)) -> Permutation (pd_annotations p) anns' ->
  seccomp_annotation_finding (set_annotations p anns') key = seccomp_annotation_finding p key.
Proof.
  intros ND P. unfold seccomp_annotation_finding.
  rewrite P14_annotations_set, (P14_lookup_perm _ _ _ key ND P). reflexivity.
Qed.

Lemma P14_seccompBaseline al relax p anns' :
  NoDup (map fst (pd_annotations p)) -> Permutation (pd_annotations p) anns' ->
  seccompProfileBaseline_1_0 al relax (set_annotations p anns') = seccompProfileBaseline_1_0 al relax p.
Proof.
  intros ND P. unfold seccompProfileBaseline_1_0.
  rewrite P14_all_containers_set, (P14_seccomp_finding p anns' _ ND P).
  rewrite (flat_map_ext_in
             (fun c => seccomp_annotation_finding (set_annotations p anns')
                         (seccomp_container_annotation_prefix ++ c_name c))
             (fun c => seccomp_annotation_finding p (seccomp_container_annotation_prefix ++ c_name c)))
    by (intros c _; now apply P14_seccomp_finding).
  reflexivity.
Qed.

(** * Every entry of the dictionary *)

Definition P14_map_order_indep (f : check_fn) : Prop :=
  forall al relax p anns',
    NoDup (map fst (pd_annotations p)) -> Permutation (pd_annotations p) anns' ->
    f al relax (set_annotations p anns') = f al relax p.

Lemma P14_dictionary : Forall (fun kv => P14_map_order_indep (snd kv)) check_dictionary.
Proof.
  unfold check_dictionary.
  repeat (apply Forall_cons; [|]); [..|apply Forall_nil];
    cbn [snd]; intros al relax p anns' ND P.
  - now apply P14_appArmor.
  - reflexivity.
  - reflexivity.
  - reflexivity.
  - reflexivity.
  - reflexivity.
  - reflexivity.
  - reflexivity.
  - reflexivity.
  - now apply P14_seccompBaseline.
  - reflexivity.
  - reflexivity.
  - reflexivity.
  - reflexivity.
  - reflexivity.
  - reflexivity.
  - reflexivity.
  - reflexivity.
  - reflexivity.
  - reflexivity.
  - reflexivity.
  - reflexivity.
  - reflexivity.
  - reflexivity.
  - reflexivity.
Qed.

Lemma P14_revision al fn f relax p anns' :
  lookup_check fn = Some f ->
  NoDup (map fst (pd_annotations p)) -> Permutation (pd_annotations p) anns' ->
  f al relax (set_annotations p anns') = f al relax p.
Proof.
  intros L ND P. unfold lookup_check in L. apply lookup_Some_In in L.
  pose proof P14_dictionary as D. rewrite Forall_forall in D.
  exact (D _ L al relax p anns' ND P).
Qed.

Lemma P14_run_check al relax fn p anns' :
  NoDup (map fst (pd_annotations p)) -> Permutation (pd_annotations p) anns' ->
  run_check al relax fn (set_annotations p anns') = run_check al relax fn p.
Proof.
  intros ND P. unfold run_check.
  destruct (lookup_check fn) as [f|] eqn:L; [|reflexivity].
  now apply (P14_revision al fn).
Qed.

Lemma P14_evaluator al relax cs l v p anns' :
  NoDup (map fst (pd_annotations p)) -> Permutation (pd_annotations p) anns' ->
  evaluate_pod al relax cs l v (set_annotations p anns') = evaluate_pod al relax cs l v p.
Proof.
  intros ND P. unfold evaluate_pod. apply map_ext. intros x. now apply P14_run_check.
Qed.

Lemma P14_eval_allowed al relax cs l v p anns' :
  NoDup (map fst (pd_annotations p)) -> Permutation (pd_annotations p) anns' ->
  eval_allowed al relax cs l v (set_annotations p anns') = eval_allowed al relax cs l v p.
Proof. intros ND P. unfold eval_allowed. now rewrite P14_evaluator. Qed.

(** * Non-vacuity: a pod whose annotation map offends both annotation checks *)

Definition P14_ctr (n : string) : container := Container n "img" [] None.
Definition P14_pod : pod :=
  Pod "p"
      [("container.apparmor.security.beta.kubernetes.io/c", "unconfined");
       ("seccomp.security.alpha.kubernetes.io/pod", "unconfined");
       ("container.apparmor.security.beta.kubernetes.io/a", "bad""profile");
       ("container.seccomp.security.alpha.kubernetes.io/a", "localhostx/y");
       ("container.apparmor.security.beta.kubernetes.io/b", "x")]
      None false false false None None None [] [P14_ctr "a"; P14_ctr "b"] [] [] None.
Definition P14_pod_rev : pod := set_annotations P14_pod (rev (pd_annotations P14_pod)).
Definition P14_no_lists : allowlists := AllowLists [] [] [] [] [] [] [].

Lemma P14_pod_keys_unique : NoDup (map fst (pd_annotations P14_pod)).
Proof.
  apply (NoDup_map_inv (fun s => s)). rewrite map_id.
  eapply Permutation_NoDup; [apply ssort_perm|].
  apply slt_sorted_NoDup.
  replace (ssort (map fst (pd_annotations P14_pod))) with (sset_of (map fst (pd_annotations P14_pod)))
    by (vm_compute; reflexivity).
  apply sset_of_sorted.
Qed.

Lemma P14_pod_rev_perm : Permutation (pd_annotations P14_pod) (pd_annotations P14_pod_rev).
Proof. apply Permutation_rev. Qed.

Lemma P14_example :
  appArmorProfile_1_0 P14_no_lists false P14_pod_rev = appArmorProfile_1_0 P14_no_lists false P14_pod /\
  appArmorProfile_1_0 P14_no_lists false P14_pod =
    CR false "forbidden AppArmor profiles"
       "annotations must not set AppArmor profile type to ""container.apparmor.security.beta.kubernetes.io/a=""bad\""profile"""", ""container.apparmor.security.beta.kubernetes.io/b=""x"""", ""container.apparmor.security.beta.kubernetes.io/c=""unconfined""""" /\
  seccompProfileBaseline_1_0 P14_no_lists false P14_pod_rev = seccompProfileBaseline_1_0 P14_no_lists false P14_pod /\
  seccompProfileBaseline_1_0 P14_no_lists false P14_pod =
    CR false "seccompProfile"
       "forbidden annotations container.seccomp.security.alpha.kubernetes.io/a=""localhostx/y"", seccomp.security.alpha.kubernetes.io/pod=""unconfined""" /\
  (* the raw iteration orders really differ: only the sort makes the text stable *)
  apparmor_forbidden_annotations P14_pod_rev = rev (apparmor_forbidden_annotations P14_pod) /\
  apparmor_forbidden_annotations P14_pod_rev <> apparmor_forbidden_annotations P14_pod /\
  (* the shipped evaluator, at a version where both annotation checks are active *)
  shipped_eval false Baseline (V 1 0) P14_pod_rev = shipped_eval false Baseline (V 1 0) P14_pod /\
  List.length (filter (fun r => negb (cr_allowed r)) (shipped_eval false Baseline (V 1 0) P14_pod)) = 2.
Proof. vm_compute. repeat split; try reflexivity. discriminate. Qed.

Lemma P14_set_example :
  sset_of ["b"; "a"; "b"; "c"; "a"] = ["a"; "b"; "c"] /\ sset_of ["c"; "b"; "a"] = ["a"; "b"; "c"] /\
  ssort ["b"; "a"; "b"] = ssort ["b"; "b"; "a"].
Proof. vm_compute. repeat split. Qed.
