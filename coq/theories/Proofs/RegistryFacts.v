(** Proofs/RegistryFacts.v - facts about Model/Registry.v (policy/registry.go)
    needed by property C04: validation accepts exactly the well-formed check
    sets, and version resolution computes exactly [Spec.P04.expected]. *)
From Coq Require Import List Bool NArith Arith String Lia.
From PSA Require Import Base.Str Model.Api Model.Registry Spec.P04 Proofs.StrFacts.
Import ListNotations.

(** * The order on versions *)

Ltac vcase :=
  repeat match goal with
         | |- context [N.eqb ?a ?b] => destruct (N.eqb_spec a b)
         | H : context [N.eqb ?a ?b] |- _ => destruct (N.eqb_spec a b)
         | |- context [N.ltb ?a ?b] => destruct (N.ltb_spec a b)
         | H : context [N.ltb ?a ?b] |- _ => destruct (N.ltb_spec a b)
         | |- context [N.leb ?a ?b] => destruct (N.leb_spec a b)
         | H : context [N.leb ?a ?b] |- _ => destruct (N.leb_spec a b)
         end.

Ltac vsolve :=
  intros;
  repeat match goal with v : version |- _ => destruct v end;
  unfold older, version_eqb in *; simpl andb in *;
  vcase; subst; simpl in *; try congruence; try lia.

Lemma older_irrefl v : older v v = false.
Proof. vsolve. Qed.

Lemma older_trans a b c : older a b = true -> older b c = true -> older a c = true.
Proof. vsolve. Qed.

Lemma older_asym a b : older a b = true -> older b a = false.
Proof. vsolve. Qed.

(** among proper versions, [older] is total *)
Lemma older_total a b : a <> Latest -> b <> Latest ->
  older a b = false -> older b a = false -> a = b.
Proof. vsolve. f_equal; lia. Qed.

Lemma not_older_trans a b c : b <> Latest ->
  older a b = false -> older b c = false -> older a c = false.
Proof. vsolve. Qed.

Lemma older_zero_min v : older v (V 0 0) = false.
Proof. vsolve. Qed.

Lemma older_zero v : older (V 0 0) v = negb (version_eqb v (V 0 0)).
Proof. vsolve. Qed.

Lemma version_eqb_eq a b : version_eqb a b = true <-> a = b.
Proof. split; [vsolve|intros ->; vsolve]. Qed.

Lemma version_eqb_older a b : version_eqb a b = true -> older a b = false.
Proof. intros H. apply version_eqb_eq in H. subst. apply older_irrefl. Qed.

Lemma version_eqb_Latest v : version_eqb v Latest = is_latest v.
Proof. now destruct v. Qed.

Lemma older_Latest v : v <> Latest -> older v Latest = true.
Proof. destruct v; [congruence|reflexivity]. Qed.

Lemma older_V1 a b : older (V 1 a) (V 1 b) = N.ltb a b.
Proof. reflexivity. Qed.

(** the running maximum used by both [max_version] and [newest] *)
Definition vmax (v acc : version) : version := if older acc v then v else acc.

Definition is_max (m : version) (l : list version) : Prop :=
  (m = V 0 0 \/ In m l) /\ forall x, In x l -> older m x = false.

Lemma fold_vmax_is_max l : is_max (fold_right vmax (V 0 0) l) l.
Proof.
  induction l as [|v l [IH1 IH2]]; simpl.
  - split; [now left|intros x []].
  - unfold vmax at 1. destruct (older (fold_right vmax (V 0 0) l) v) eqn:E.
    + split; [right; now left|]. intros x [<-|Hx]; [apply older_irrefl|].
      destruct (older v x) eqn:E'; [|reflexivity].
      rewrite <- (IH2 x Hx). symmetry. eapply older_trans; eassumption.
    + split; [destruct IH1; [now left|right; now right]|].
      intros x [<-|Hx]; [assumption|now apply IH2].
Qed.

Lemma is_max_unique m m' l :
  (forall x, In x l -> x <> Latest) -> is_max m l -> is_max m' l -> m = m'.
Proof.
  intros NL [H1 H2] [H1' H2'].
  assert (Nm : m <> Latest) by (destruct H1 as [->|H1]; [discriminate|now apply NL]).
  assert (Nm' : m' <> Latest) by (destruct H1' as [->|H1']; [discriminate|now apply NL]).
  apply older_total; try assumption.
  - destruct H1' as [->|H1']; [apply older_zero_min|now apply H2].
  - destruct H1 as [->|H1]; [apply older_zero_min|now apply H2'].
Qed.

Section RegistryFacts.
  Variable F : Type.
  Notation check := (check F).
  Notation vcheck := (vcheck F).
  Implicit Types (cs : list check) (c : check) (vs : list vcheck) (r : vcheck).

  (** * Validation *)

  Definition rev_ok (r : vcheck) : bool :=
    negb (version_eqb (vc_min r) (V 0 0)) && negb (version_eqb (vc_min r) Latest).

  Lemma strictly_increasing_cons2 a b l :
    strictly_increasing (a :: b :: l) = older a b && strictly_increasing (b :: l).
  Proof. reflexivity. Qed.

  Lemma validate_versions_spec vs : forall mx,
    validate_versions mx vs = forallb rev_ok vs && strictly_increasing (mx :: map vc_min vs).
  Proof.
    induction vs as [|c rest IH]; intros mx; [reflexivity|].
    cbn [validate_versions forallb map]. rewrite strictly_increasing_cons2, IH.
    unfold rev_ok, is_zero_version. rewrite version_eqb_Latest.
    destruct (version_eqb (vc_min c) (V 0 0)); [reflexivity|].
    destruct (is_latest (vc_min c)); [reflexivity|].
    destruct (version_eqb mx (vc_min c)) eqn:E.
    - apply version_eqb_older in E. rewrite E. cbn. now rewrite andb_false_r.
    - destruct (older mx (vc_min c)); cbn; [reflexivity|now rewrite andb_false_r].
  Qed.

  Lemma validate_versions_zero vs :
    validate_versions (V 0 0) vs = forallb rev_ok vs && strictly_increasing (map vc_min vs).
  Proof.
    rewrite validate_versions_spec. destruct vs as [|c rest]; [reflexivity|].
    cbn [map]. rewrite strictly_increasing_cons2. cbn [forallb].
    destruct (rev_ok c) eqn:E; [|reflexivity]. cbn [andb].
    unfold rev_ok in E. apply andb_true_iff in E. destruct E as [E _].
    now rewrite older_zero, E.
  Qed.

  Definition local_ok (c : check) : bool :=
    (String.eqb (ck_level c) "baseline" || String.eqb (ck_level c) "restricted")
    && negb (is_nil (ck_versions c))
    && forallb rev_ok (ck_versions c)
    && strictly_increasing (map vc_min (ck_versions c)).

  Lemma local_ok_alt c :
    local_ok c =
    (String.eqb (ck_level c) "baseline" || String.eqb (ck_level c) "restricted")
    && (negb (is_nil (ck_versions c)) && validate_versions (V 0 0) (ck_versions c)).
  Proof. unfold local_ok. now rewrite validate_versions_zero, !andb_assoc. Qed.

  Lemma lookup_cons_None {A} k k' (v : A) m :
    lookup k ((k', v) :: m) = None <-> k <> k' /\ lookup k m = None.
  Proof.
    simpl. destruct (String.eqb_spec k k'); split; try easy; tauto.
  Qed.

  Lemma validate_first_spec cs : forall ids,
    validate_first ids cs = true <->
    (forall c, In c cs -> lookup (ck_id c) ids = None)
    /\ NoDup (map ck_id cs) /\ forallb local_ok cs = true.
  Proof.
    induction cs as [|c rest IH]; intros ids.
    - simpl. split; [intros _; repeat split; [intros ? []|constructor]|reflexivity].
    - cbn [validate_first map forallb].
      destruct (lookup (ck_id c) ids) eqn:El; cbn [is_some].
      { split; [discriminate|]. intros [H _]. specialize (H c (or_introl eq_refl)). congruence. }
      rewrite local_ok_alt.
      destruct (String.eqb (ck_level c) "baseline" || String.eqb (ck_level c) "restricted");
        cbn [negb andb]; [|split; [discriminate|intros [_ [_ H]]; discriminate]].
      destruct (is_nil (ck_versions c));
        cbn [negb andb]; [split; [discriminate|intros [_ [_ H]]; discriminate]|].
      destruct (validate_versions (V 0 0) (ck_versions c));
        cbn [negb andb]; [|split; [discriminate|intros [_ [_ H]]; discriminate]].
      rewrite IH. split.
      + intros [H1 [H2 H3]]. repeat split.
        * intros c' [<-|Hc']; [assumption|]. apply H1 in Hc'. now apply lookup_cons_None in Hc'.
        * constructor; [|assumption]. intros Hin. apply in_map_iff in Hin.
          destruct Hin as [c' [E Hc']]. apply H1 in Hc'. apply lookup_cons_None in Hc'.
          destruct Hc' as [Hc' _]. now apply Hc'.
        * assumption.
      + intros [H1 [H2 H3]]. inversion H2 as [|? ? Hn ND]; subst. repeat split.
        * intros c' Hc'. apply lookup_cons_None. split.
          -- intros E. apply Hn. rewrite <- E. now apply in_map.
          -- apply H1. now right.
        * assumption.
        * assumption.
  Qed.

  Lemma count_id_count_occ id cs :
    count_id F id cs = count_occ string_dec (map ck_id cs) id.
  Proof.
    unfold count_id. induction cs as [|c rest IH]; [reflexivity|].
    cbn [filter map count_occ].
    destruct (String.eqb_spec (ck_id c) id); destruct (string_dec (ck_id c) id); try congruence.
    cbn [List.length]. now rewrite IH.
  Qed.

  Lemma count_id_NoDup cs :
    (forall c, In c cs -> count_id F (ck_id c) cs = 1) <-> NoDup (map ck_id cs).
  Proof.
    rewrite (NoDup_count_occ' string_dec). split.
    - intros H x Hx. apply in_map_iff in Hx. destruct Hx as [c [<- Hc]].
      rewrite <- count_id_count_occ. now apply H.
    - intros H c Hc. rewrite count_id_count_occ. apply H. now apply in_map.
  Qed.

  (** with unique ids, the id-to-level map and the list of levels of an id agree *)
  Lemma level_of_id_notin cs o : ~ In o (map ck_id cs) -> level_of_id F cs o = [].
  Proof.
    unfold level_of_id. induction cs as [|c rest IH]; [reflexivity|].
    cbn [map filter]. intros H.
    destruct (String.eqb_spec (ck_id c) o) as [E|N].
    - exfalso. apply H. now left.
    - apply IH. intros Hin. apply H. now right.
  Qed.

  Lemma lookup_level_of_id cs o : NoDup (map ck_id cs) ->
    match lookup o (ids_of cs) with Some l => String.eqb l "baseline" | None => true end
    = forallb (fun l => String.eqb l "baseline") (level_of_id F cs o).
  Proof.
    induction cs as [|c rest IH]; [reflexivity|].
    cbn [map]. intros ND. inversion ND as [|? ? Hn ND']; subst.
    unfold ids_of, level_of_id in *. cbn [map lookup filter].
    rewrite (String.eqb_sym o (ck_id c)).
    destruct (String.eqb_spec (ck_id c) o) as [E|N].
    - subst o. cbn [map forallb].
      pose proof (level_of_id_notin rest (ck_id c) Hn) as Hl. unfold level_of_id in Hl.
      rewrite Hl. cbn. now rewrite andb_true_r.
    - now apply IH.
  Qed.

  Definition ov_model (cs : list check) (c : check) : bool :=
    forallb (fun v =>
        is_nil (vc_overrides v) ||
        (String.eqb (ck_level c) "restricted" &&
         forallb (fun o => match lookup o (ids_of cs) with
                           | Some l => String.eqb l "baseline"
                           | None => true end) (vc_overrides v)))
      (ck_versions c).

  Definition ov_spec (cs : list check) (c : check) : bool :=
    forallb (fun r => is_nil (vc_overrides r) ||
                      (String.eqb (ck_level c) "restricted" &&
                       forallb (fun o => forallb (fun l => String.eqb l "baseline") (level_of_id F cs o))
                               (vc_overrides r)))
            (ck_versions c).

  Lemma ov_model_spec cs c : NoDup (map ck_id cs) -> ov_model cs c = ov_spec cs c.
  Proof.
    intros ND. unfold ov_model, ov_spec. apply forallb_ext. intros r.
    f_equal. f_equal. apply forallb_ext. intros o. now apply lookup_level_of_id.
  Qed.

  Lemma wf_check_split cs c :
    wf_check cs c = Nat.eqb (count_id F (ck_id c) cs) 1 && local_ok c && ov_spec cs c.
  Proof.
    unfold wf_check, local_ok, ov_spec, rev_ok. now rewrite !andb_assoc.
  Qed.

  Lemma well_formed_spec cs :
    well_formed cs = true <->
    NoDup (map ck_id cs) /\ forallb local_ok cs = true /\ forallb (ov_spec cs) cs = true.
  Proof.
    unfold well_formed. rewrite <- count_id_NoDup, !forallb_forall. split.
    - intros H. repeat split; intros c Hc; specialize (H c Hc);
        rewrite wf_check_split, !andb_true_iff in H; destruct H as [[H1 H2] H3];
        [now apply Nat.eqb_eq in H1|assumption|assumption].
    - intros [H1 [H2 H3]] c Hc. rewrite wf_check_split, !andb_true_iff.
      repeat split; [apply Nat.eqb_eq; now apply H1|now apply H2|now apply H3].
  Qed.

  Theorem validate_checks_well_formed cs : validate_checks cs = well_formed cs.
  Proof.
    apply eq_iff_eq_true. rewrite well_formed_spec.
    unfold validate_checks. rewrite andb_true_iff, validate_first_spec.
    change (validate_overrides cs) with (forallb (ov_model cs) cs).
    split.
    - intros [[_ [ND L]] O]. repeat split; try assumption.
      rewrite <- O. apply forallb_ext. intros c. symmetry. now apply ov_model_spec.
    - intros [ND [L O]]. split; [split; [intros ? []|now split]|].
      rewrite <- O. apply forallb_ext. intros c. now apply ov_model_spec.
  Qed.

End RegistryFacts.
