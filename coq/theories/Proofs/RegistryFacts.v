(** Proofs/RegistryFacts.v - facts about Model/Registry.v (policy/registry.go)
    needed by property C04: validation accepts exactly the well-formed check
    sets, and version resolution computes exactly [Spec.P04.expected]. *)
From Coq Require Import List Bool NArith Arith String Lia.
From PSA Require Import Base.Str Model.Api Model.Registry Spec.P04 Proofs.StrFacts.
Import ListNotations.

(** * The order on versions *)

Ltac vcase :=
  repeat match goal with
         | |- context [N.eqb ?a ?b] => destruct (N.eqb_spec a b)
         | H : context [N.eqb ?a ?b] |- _ => destruct (N.eqb_spec a b)
         | |- context [N.ltb ?a ?b] => destruct (N.ltb_spec a b)
         | H : context [N.ltb ?a ?b] |- _ => destruct (N.ltb_spec a b)
         | |- context [N.leb ?a ?b] => destruct (N.leb_spec a b)
         | H : context [N.leb ?a ?b] |- _ => destruct (N.leb_spec a b)
         end.

Ltac vsolve :=
  intros;
  repeat match goal with v : version |- _ => destruct v end;
  unfold older, version_eqb in *; simpl andb in *;
  vcase; subst; simpl in *; try congruence; try lia.

Lemma older_irrefl v : older v v = false.
Proof. vsolve. Qed.

Lemma older_trans a b c : older a b = true -> older b c = true -> older a c = true.
Proof. vsolve. Qed.

Lemma older_asym a b : older a b = true -> older b a = false.
Proof. vsolve. Qed.

(** among proper versions, [older] is total *)
Lemma older_total a b : a <> Latest -> b <> Latest ->
  older a b = false -> older b a = false -> a = b.
Proof. vsolve. f_equal; lia. Qed.

Lemma not_older_trans a b c : b <> Latest ->
  older a b = false -> older b c = false -> older a c = false.
Proof. vsolve. Qed.

Lemma older_zero_min v : older v (V 0 0) = false.
Proof. vsolve. Qed.

Lemma older_zero v : older (V 0 0) v = negb (version_eqb v (V 0 0)).
Proof. vsolve. Qed.

Lemma version_eqb_eq a b : version_eqb a b = true <-> a = b.
Proof. split; [vsolve|intros ->; vsolve]. Qed.

Lemma version_eqb_older a b : version_eqb a b = true -> older a b = false.
Proof. intros H. apply version_eqb_eq in H. subst. apply older_irrefl. Qed.

Lemma version_eqb_Latest v : version_eqb v Latest = is_latest v.
Proof. now destruct v. Qed.

Lemma older_Latest v : v <> Latest -> older v Latest = true.
Proof. destruct v; [congruence|reflexivity]. Qed.

Lemma older_V1 a b : older (V 1 a) (V 1 b) = N.ltb a b.
Proof. reflexivity. Qed.

Lemma older_V1_mn m v : v = V 1 (minor_of v) -> older (V 1 m) v = N.ltb m (minor_of v).
Proof. destruct v as [|p q]; [discriminate|]. cbn [minor_of]. intros [= ->]. reflexivity. Qed.

(** the running maximum used by both [max_version] and [newest] *)
Definition vmax (v acc : version) : version := if older acc v then v else acc.

Definition is_max (m : version) (l : list version) : Prop :=
  (m = V 0 0 \/ In m l) /\ forall x, In x l -> older m x = false.

Lemma fold_vmax_is_max l : is_max (fold_right vmax (V 0 0) l) l.
Proof.
  induction l as [|v l [IH1 IH2]]; simpl.
  - split; [now left|intros x []].
  - unfold vmax at 1. destruct (older (fold_right vmax (V 0 0) l) v) eqn:E.
    + split; [right; now left|]. intros x [<-|Hx]; [apply older_irrefl|].
      destruct (older v x) eqn:E'; [|reflexivity].
      rewrite <- (IH2 x Hx). symmetry. eapply older_trans; eassumption.
    + split; [destruct IH1; [now left|right; now right]|].
      intros x [<-|Hx]; [assumption|now apply IH2].
Qed.

Lemma is_max_unique m m' l :
  (forall x, In x l -> x <> Latest) -> is_max m l -> is_max m' l -> m = m'.
Proof.
  intros NL [H1 H2] [H1' H2'].
  assert (Nm : m <> Latest) by (destruct H1 as [->|H1]; [discriminate|now apply NL]).
  assert (Nm' : m' <> Latest) by (destruct H1' as [->|H1']; [discriminate|now apply NL]).
  apply older_total; try assumption.
  - destruct H1' as [->|H1']; [apply older_zero_min|now apply H2].
  - destruct H1 as [->|H1]; [apply older_zero_min|now apply H2'].
Qed.

Section RegistryFacts.
  Variable F : Type.
  Notation check := (check F).
  Notation vcheck := (vcheck F).
  Implicit Types (cs : list check) (c : check) (vs : list vcheck) (r : vcheck).

  (** * Validation *)

  Definition rev_ok (r : vcheck) : bool :=
    negb (version_eqb (vc_min r) (V 0 0)) && negb (version_eqb (vc_min r) Latest).

  Lemma strictly_increasing_cons2 a b l :
    strictly_increasing (a :: b :: l) = older a b && strictly_increasing (b :: l).
  Proof. reflexivity. Qed.

  Lemma validate_versions_spec vs : forall mx,
    validate_versions mx vs = forallb rev_ok vs && strictly_increasing (mx :: map vc_min vs).
  Proof.
    induction vs as [|c rest IH]; intros mx; [reflexivity|].
    cbn [validate_versions forallb map]. rewrite strictly_increasing_cons2, IH.
    unfold rev_ok, is_zero_version. rewrite version_eqb_Latest.
    destruct (version_eqb (vc_min c) (V 0 0)); [reflexivity|].
    destruct (is_latest (vc_min c)); [reflexivity|].
    destruct (version_eqb mx (vc_min c)) eqn:E.
    - apply version_eqb_older in E. rewrite E. cbn. now rewrite andb_false_r.
    - destruct (older mx (vc_min c)); cbn; [reflexivity|now rewrite andb_false_r].
  Qed.

  Lemma validate_versions_zero vs :
    validate_versions (V 0 0) vs = forallb rev_ok vs && strictly_increasing (map vc_min vs).
  Proof.
    rewrite validate_versions_spec. destruct vs as [|c rest]; [reflexivity|].
    cbn [map]. rewrite strictly_increasing_cons2. cbn [forallb].
    destruct (rev_ok c) eqn:E; [|reflexivity]. cbn [andb].
    unfold rev_ok in E. apply andb_true_iff in E. destruct E as [E _].
    now rewrite older_zero, E.
  Qed.

  Definition local_ok (c : check) : bool :=
    (String.eqb (ck_level c) "baseline" || String.eqb (ck_level c) "restricted")
    && negb (is_nil (ck_versions c))
    && forallb rev_ok (ck_versions c)
    && strictly_increasing (map vc_min (ck_versions c)).

  Lemma local_ok_alt c :
    local_ok c =
    (String.eqb (ck_level c) "baseline" || String.eqb (ck_level c) "restricted")
    && (negb (is_nil (ck_versions c)) && validate_versions (V 0 0) (ck_versions c)).
  Proof. unfold local_ok. now rewrite validate_versions_zero, !andb_assoc. Qed.

  Lemma lookup_cons_None {A} k k' (v : A) m :
    lookup k ((k', v) :: m) = None <-> k <> k' /\ lookup k m = None.
  Proof.
    simpl. destruct (String.eqb_spec k k'); split; try easy; tauto.
  Qed.

  Lemma validate_first_spec cs : forall ids,
    validate_first ids cs = true <->
    (forall c, In c cs -> lookup (ck_id c) ids = None)
    /\ NoDup (map ck_id cs) /\ forallb local_ok cs = true.
  Proof.
    induction cs as [|c rest IH]; intros ids.
    - simpl. split; [intros _; repeat split; [intros ? []|constructor]|reflexivity].
    - cbn [validate_first map forallb].
      destruct (lookup (ck_id c) ids) eqn:El; cbn [is_some].
      { split; [discriminate|]. intros [H _]. specialize (H c (or_introl eq_refl)). congruence. }
      rewrite local_ok_alt.
      destruct (String.eqb (ck_level c) "baseline" || String.eqb (ck_level c) "restricted");
        cbn [negb andb]; [|split; [discriminate|intros [_ [_ H]]; discriminate]].
      destruct (is_nil (ck_versions c));
        cbn [negb andb]; [split; [discriminate|intros [_ [_ H]]; discriminate]|].
      destruct (validate_versions (V 0 0) (ck_versions c));
        cbn [negb andb]; [|split; [discriminate|intros [_ [_ H]]; discriminate]].
      rewrite IH. split.
      + intros [H1 [H2 H3]]. repeat split.
        * intros c' [<-|Hc']; [assumption|]. apply H1 in Hc'. now apply lookup_cons_None in Hc'.
        * constructor; [|assumption]. intros Hin. apply in_map_iff in Hin.
          destruct Hin as [c' [E Hc']]. apply H1 in Hc'. apply lookup_cons_None in Hc'.
          destruct Hc' as [Hc' _]. now apply Hc'.
        * assumption.
      + intros [H1 [H2 H3]]. inversion H2 as [|? ? Hn ND]; subst. repeat split.
        * intros c' Hc'. apply lookup_cons_None. split.
          -- intros E. apply Hn. rewrite <- E. now apply in_map.
          -- apply H1. now right.
        * assumption.
        * assumption.
  Qed.

  Lemma count_id_count_occ id cs :
    count_id F id cs = count_occ string_dec (map ck_id cs) id.
  Proof.
    unfold count_id. induction cs as [|c rest IH]; [reflexivity|].
    cbn [filter map count_occ].
    destruct (String.eqb_spec (ck_id c) id); destruct (string_dec (ck_id c) id); try congruence.
    cbn [List.length]. now rewrite IH.
  Qed.

  Lemma count_id_NoDup cs :
    (forall c, In c cs -> count_id F (ck_id c) cs = 1) <-> NoDup (map ck_id cs).
  Proof.
    rewrite (NoDup_count_occ' string_dec). split.
    - intros H x Hx. apply in_map_iff in Hx. destruct Hx as [c [<- Hc]].
      rewrite <- count_id_count_occ. now apply H.
    - intros H c Hc. rewrite count_id_count_occ. apply H. now apply in_map.
  Qed.

  (** with unique ids, the id-to-level map and the list of levels of an id agree *)
  Lemma level_of_id_notin cs o : ~ In o (map ck_id cs) -> level_of_id F cs o = [].
  Proof.
    unfold level_of_id. induction cs as [|c rest IH]; [reflexivity|].
    cbn [map filter]. intros H.
    destruct (String.eqb_spec (ck_id c) o) as [E|N].
    - exfalso. apply H. now left.
    - apply IH. intros Hin. apply H. now right.
  Qed.

  Lemma lookup_level_of_id cs o : NoDup (map ck_id cs) ->
    match lookup o (ids_of cs) with Some l => String.eqb l "baseline" | None => true end
    = forallb (fun l => String.eqb l "baseline") (level_of_id F cs o).
  Proof.
    induction cs as [|c rest IH]; [reflexivity|].
    cbn [map]. intros ND. inversion ND as [|? ? Hn ND']; subst.
    unfold ids_of, level_of_id in *. cbn [map lookup filter].
    rewrite (String.eqb_sym o (ck_id c)).
    destruct (String.eqb_spec (ck_id c) o) as [E|N].
    - subst o. cbn [map forallb].
      pose proof (level_of_id_notin rest (ck_id c) Hn) as Hl. unfold level_of_id in Hl.
      rewrite Hl. cbn. now rewrite andb_true_r.
    - now apply IH.
  Qed.

  Definition ov_model (cs : list check) (c : check) : bool :=
    forallb (fun v =>
        is_nil (vc_overrides v) ||
        (String.eqb (ck_level c) "restricted" &&
         forallb (fun o => match lookup o (ids_of cs) with
                           | Some l => String.eqb l "baseline"
                           | None => true end) (vc_overrides v)))
      (ck_versions c).

  Definition ov_spec (cs : list check) (c : check) : bool :=
    forallb (fun r => is_nil (vc_overrides r) ||
                      (String.eqb (ck_level c) "restricted" &&
                       forallb (fun o => forallb (fun l => String.eqb l "baseline") (level_of_id F cs o))
                               (vc_overrides r)))
            (ck_versions c).

  Lemma ov_model_spec cs c : NoDup (map ck_id cs) -> ov_model cs c = ov_spec cs c.
  Proof.
    intros ND. unfold ov_model, ov_spec. apply forallb_ext. intros r.
    f_equal. f_equal. apply forallb_ext. intros o. now apply lookup_level_of_id.
  Qed.

  Lemma wf_check_split cs c :
    wf_check cs c = Nat.eqb (count_id F (ck_id c) cs) 1 && local_ok c && ov_spec cs c.
  Proof.
    unfold wf_check, local_ok, ov_spec, rev_ok. now rewrite !andb_assoc.
  Qed.

  Lemma well_formed_spec cs :
    well_formed cs = true <->
    NoDup (map ck_id cs) /\ forallb local_ok cs = true /\ forallb (ov_spec cs) cs = true.
  Proof.
    unfold well_formed. rewrite <- count_id_NoDup, !forallb_forall. split.
    - intros H. repeat split; intros c Hc; specialize (H c Hc);
        rewrite wf_check_split, !andb_true_iff in H; destruct H as [[H1 H2] H3];
        [now apply Nat.eqb_eq in H1|assumption|assumption].
    - intros [H1 [H2 H3]] c Hc. rewrite wf_check_split, !andb_true_iff.
      repeat split; [apply Nat.eqb_eq; now apply H1|now apply H2|now apply H3].
  Qed.

  Theorem validate_checks_well_formed cs : validate_checks cs = well_formed cs.
  Proof.
    apply eq_iff_eq_true. rewrite well_formed_spec.
    unfold validate_checks. rewrite andb_true_iff, validate_first_spec.
    change (validate_overrides cs) with (forallb (ov_model cs) cs).
    split.
    - intros [[_ [ND L]] O]. repeat split; try assumption.
      rewrite <- O. apply forallb_ext. intros c. symmetry. now apply ov_model_spec.
    - intros [ND [L O]]. split; [split; [intros ? _; reflexivity|now split]|].
      rewrite <- O. apply forallb_ext. intros c. now apply ov_model_spec.
  Qed.

  (** * Consequences of well-formedness, in Prop *)

  Lemma wf_NoDup cs : well_formed cs = true -> NoDup (map ck_id cs).
  Proof. intros H. now apply well_formed_spec in H. Qed.

  Lemma wf_local_ok cs c : well_formed cs = true -> In c cs -> local_ok c = true.
  Proof.
    intros H Hc. apply well_formed_spec in H. destruct H as [_ [H _]].
    rewrite forallb_forall in H. now apply H.
  Qed.

  Lemma local_ok_nonnil c : local_ok c = true -> ck_versions c <> [].
  Proof.
    unfold local_ok. rewrite !andb_true_iff. intros [[[_ H] _] _] E. now rewrite E in H.
  Qed.

  Lemma local_ok_rev_ok c r : local_ok c = true -> In r (ck_versions c) ->
    vc_min r <> V 0 0 /\ vc_min r <> Latest.
  Proof.
    unfold local_ok. rewrite !andb_true_iff. intros [[_ H] _] Hr.
    rewrite forallb_forall in H. specialize (H r Hr). unfold rev_ok in H.
    apply andb_true_iff in H. destruct H as [H1 H2].
    split; intros E; rewrite E in *; discriminate.
  Qed.

  Lemma local_ok_increasing c : local_ok c = true ->
    strictly_increasing (map vc_min (ck_versions c)) = true.
  Proof. unfold local_ok. rewrite !andb_true_iff. tauto. Qed.

  Lemma wf_ov_spec cs c : well_formed cs = true -> In c cs -> ov_spec cs c = true.
  Proof.
    intros H Hc. apply well_formed_spec in H. destruct H as [_ [_ H]].
    rewrite forallb_forall in H. now apply H.
  Qed.

  Lemma is_V1 v : (match v with V 1 _ => true | _ => false end) = true -> v = V 1 (minor_of v).
  Proof. destruct v as [|[|[p|p|]] m]; try discriminate. reflexivity. Qed.

  Lemma majors_one_V1 cs c r : majors_one cs = true -> In c cs -> In r (ck_versions c) ->
    vc_min r = V 1 (minor_of (vc_min r)).
  Proof.
    unfold majors_one. rewrite forallb_forall. intros H Hc Hr.
    specialize (H c Hc). rewrite forallb_forall in H. now apply is_V1, H.
  Qed.

  (** * Strictly increasing lists of versions *)

  Lemma strictly_increasing_cons a l : strictly_increasing (a :: l) = true ->
    (forall x, In x l -> older a x = true) /\ strictly_increasing l = true.
  Proof.
    revert a. induction l as [|b l IH]; intros a H.
    - split; [intros x []|reflexivity].
    - rewrite strictly_increasing_cons2 in H. apply andb_true_iff in H. destruct H as [H1 H2].
      split; [|assumption]. destruct (IH b H2) as [H3 _].
      intros x [<-|Hx]; [assumption|]. eapply older_trans; [exact H1|now apply H3].
  Qed.

  Lemma strictly_increasing_last l z : strictly_increasing (l ++ [z])%list = true ->
    forall x, In x l -> older x z = true.
  Proof.
    induction l as [|a l IH]; intros H x Hx; [destruct Hx|].
    change ((a :: l) ++ [z])%list with (a :: (l ++ [z]))%list in H.
    apply strictly_increasing_cons in H. destruct H as [H1 H2].
    destruct Hx as [<-|Hx]; [apply H1, in_or_app; right; now left|now apply IH].
  Qed.

  (** * [max_version] is [newest] *)

  Definition all_mins (cs : list check) : list version :=
    flat_map (fun c => map vc_min (ck_versions c)) cs.

  Lemma newest_fold cs : newest cs = fold_right vmax (V 0 0) (all_mins cs).
  Proof. reflexivity. Qed.

  Lemma fold_right_map_l {A B C} (g : B -> C -> C) (h : A -> B) i l :
    fold_right (fun a acc => g (h a) acc) i l = fold_right g i (map h l).
  Proof. induction l; simpl; [reflexivity|now rewrite IHl]. Qed.

  Lemma max_version_fold cs :
    max_version cs = fold_right vmax (V 0 0) (map last_min (rev cs)).
  Proof.
    unfold max_version.
    change (fold_left (fun mx c => if older mx (last_min c) then last_min c else mx) cs (V 0 0))
      with (fold_left (fun x y => (fun c mx => vmax (last_min c) mx) y x) cs (V 0 0)).
    rewrite <- fold_left_rev_right. apply fold_right_map_l.
  Qed.

  Lemma last_min_in c : ck_versions c <> [] ->
    exists r, In r (ck_versions c) /\ last_min c = vc_min r /\
              exists l, ck_versions c = (l ++ [r])%list.
  Proof.
    intros H. unfold last_min. destruct (rev (ck_versions c)) as [|r t] eqn:E.
    - exfalso. apply H. rewrite <- (rev_involutive (ck_versions c)), E. reflexivity.
    - exists r. assert (E' : ck_versions c = (rev t ++ [r])%list).
      { rewrite <- (rev_involutive (ck_versions c)), E. reflexivity. }
      split; [rewrite E'; apply in_or_app; right; now left|].
      split; [reflexivity|now exists (rev t)].
  Qed.

  Lemma last_min_ge c r : ck_versions c <> [] ->
    strictly_increasing (map vc_min (ck_versions c)) = true ->
    In r (ck_versions c) -> older (last_min c) (vc_min r) = false.
  Proof.
    intros Hn Hs Hr. destruct (last_min_in c Hn) as [z [Hz [-> [l El]]]].
    rewrite El in Hs, Hr. rewrite map_app in Hs. cbn [map] in Hs.
    apply in_app_or in Hr. destruct Hr as [Hr|[<-|[]]]; [|apply older_irrefl].
    apply older_asym. eapply strictly_increasing_last; [exact Hs|now apply in_map].
  Qed.

  Lemma all_mins_in cs x :
    In x (all_mins cs) <-> exists c r, In c cs /\ In r (ck_versions c) /\ x = vc_min r.
  Proof.
    unfold all_mins. rewrite in_flat_map. split.
    - intros [c [Hc Hx]]. apply in_map_iff in Hx. destruct Hx as [r [<- Hr]]. now exists c, r.
    - intros [c [r [Hc [Hr ->]]]]. exists c. split; [assumption|now apply in_map].
  Qed.

  Lemma all_mins_proper cs x : well_formed cs = true -> In x (all_mins cs) ->
    x <> V 0 0 /\ x <> Latest.
  Proof.
    intros W Hx. apply all_mins_in in Hx. destruct Hx as [c [r [Hc [Hr ->]]]].
    eapply local_ok_rev_ok; [eapply wf_local_ok; eassumption|assumption].
  Qed.

  Lemma max_version_is_max cs : well_formed cs = true -> is_max (max_version cs) (all_mins cs).
  Proof.
    intros W. rewrite max_version_fold.
    destruct (fold_vmax_is_max (map last_min (rev cs))) as [H1 H2].
    set (m := fold_right vmax (V 0 0) (map last_min (rev cs))) in *.
    split.
    - destruct H1 as [H1|H1]; [now left|right].
      apply in_map_iff in H1. destruct H1 as [c [<- Hc]]. apply in_rev in Hc.
      pose proof (wf_local_ok cs c W Hc) as L.
      destruct (last_min_in c (local_ok_nonnil c L)) as [z [Hz [-> _]]].
      apply all_mins_in. now exists c, z.
    - intros x Hx. apply all_mins_in in Hx. destruct Hx as [c [r [Hc [Hr ->]]]].
      pose proof (wf_local_ok cs c W Hc) as L.
      apply not_older_trans with (b := last_min c).
      + destruct (last_min_in c (local_ok_nonnil c L)) as [z [Hz [-> _]]].
        now apply (local_ok_rev_ok c z L).
      + apply H2. apply in_map. now apply in_rev in Hc.
      + apply last_min_ge; [now apply local_ok_nonnil|now apply local_ok_increasing|assumption].
  Qed.

  Theorem max_version_newest cs : well_formed cs = true -> max_version cs = newest cs.
  Proof.
    intros W. apply is_max_unique with (l := all_mins cs).
    - intros x Hx. now apply (all_mins_proper cs x W).
    - now apply max_version_is_max.
    - rewrite newest_fold. apply fold_vmax_is_max.
  Qed.

  Lemma newest_is_max cs : is_max (newest cs) (all_mins cs).
  Proof. rewrite newest_fold. apply fold_vmax_is_max. Qed.

  Lemma newest_not_Latest cs : well_formed cs = true -> newest cs <> Latest.
  Proof.
    intros W. destruct (newest_is_max cs) as [[->|H] _]; [discriminate|].
    now apply (all_mins_proper cs _ W).
  Qed.

  (** the newest version is at least every registered minimum version *)
  Lemma newest_ge cs c r : In c cs -> In r (ck_versions c) -> older (newest cs) (vc_min r) = false.
  Proof.
    intros Hc Hr. destruct (newest_is_max cs) as [_ H]. apply H, all_mins_in. now exists c, r.
  Qed.

  (** with a single major and at least one check, the newest version is 1.x *)
  Lemma newest_V1 cs : well_formed cs = true -> majors_one cs = true -> cs <> [] ->
    newest cs = V 1 (minor_of (newest cs)).
  Proof.
    intros W M Hne. destruct cs as [|c cs']; [congruence|]. set (cs := c :: cs') in *.
    assert (Hc : In c cs) by now left.
    pose proof (wf_local_ok cs c W Hc) as L.
    destruct (ck_versions c) as [|r rs] eqn:E; [now apply local_ok_nonnil in L|].
    assert (Hr : In r (ck_versions c)) by (rewrite E; now left).
    pose proof (newest_ge cs c r Hc Hr) as G.
    pose proof (majors_one_V1 cs c r M Hc Hr) as Er.
    destruct (newest_is_max cs) as [[E0|H] _].
    - rewrite E0, Er in G. discriminate.
    - apply all_mins_in in H. destruct H as [c' [r' [Hc' [Hr' ->]]]].
      rewrite (majors_one_V1 cs c' r' M Hc' Hr') at 1. reflexivity.
  Qed.

  (** * [inflate] / [map_get] against [active_rev] *)

  Lemma In_minors a b m : In m (minors a b) <-> (a <= m /\ m < b)%N.
  Proof.
    unfold minors. rewrite in_map_iff. split.
    - intros [k [<- Hk]]. apply in_seq in Hk. lia.
    - intros H. exists (N.to_nat (m - a)). split; [lia|]. apply in_seq. lia.
  Qed.

  Lemma map_get_app v (l1 l2 : list (version * vcheck)) :
    map_get v (l1 ++ l2)%list =
    match map_get v l2 with Some x => Some x | None => map_get v l1 end.
  Proof.
    induction l1 as [|[v' c] l1 IH]; simpl.
    - now destruct (map_get v l2).
    - rewrite IH. now destruct (map_get v l2).
  Qed.

  Lemma map_get_const m (c : vcheck) l :
    map_get (V 1 m) (map (fun k => (V 1 k, c)) l) = if existsb (N.eqb m) l then Some c else None.
  Proof.
    induction l as [|k l IH]; [reflexivity|].
    cbn [map map_get existsb]. rewrite IH.
    destruct (existsb (N.eqb m) l); [now rewrite orb_true_r|].
    rewrite orb_false_r. unfold version_eqb. now rewrite N.eqb_refl.
  Qed.

  Lemma map_get_seg m (c : vcheck) a b :
    map_get (V 1 m) (map (fun k => (V 1 k, c)) (minors a b)) =
    if (N.leb a m && N.ltb m b) then Some c else None.
  Proof.
    rewrite map_get_const.
    replace (existsb (N.eqb m) (minors a b)) with (N.leb a m && N.ltb m b); [reflexivity|].
    apply eq_iff_eq_true. rewrite existsb_exists, andb_true_iff, N.leb_le, N.ltb_lt. split.
    - intros H. exists m. split; [now apply In_minors|apply N.eqb_refl].
    - intros [k [Hk E]]. apply N.eqb_eq in E. subst k. now apply In_minors.
  Qed.

  Notation mn r := (minor_of (vc_min r)).

  Definition all_V1 (vs : list vcheck) : Prop := forall r, In r vs -> vc_min r = V 1 (mn r).

  Lemma all_V1_tail r vs : all_V1 (r :: vs) -> all_V1 vs.
  Proof. intros H x Hx. apply H. now right. Qed.

  Lemma inflate_cons (c : vcheck) (rest : list vcheck) mm : all_V1 (c :: rest) ->
    inflate (c :: rest) (V 1 mm) =
    (map (fun m => (V 1 m, c))
         (minors (mn c) (match rest with c' :: _ => mn c' | [] => mm + 1 end))
     ++ inflate rest (V 1 mm))%list.
  Proof.
    intros H. cbn [inflate]. f_equal.
    assert (E : vc_min c = V 1 (mn c)) by (apply H; now left).
    destruct rest as [|c' rest'].
    - rewrite E. reflexivity.
    - assert (E' : vc_min c' = V 1 (mn c')) by (apply H; right; now left).
      rewrite E, E'. reflexivity.
  Qed.

  Definition step (v : version) (acc : option vcheck) (r : vcheck) : option vcheck :=
    if older v (vc_min r) then acc else Some r.

  Lemma active_rev_fold c v : active_rev c v = fold_left (step v) (ck_versions c) None.
  Proof. reflexivity. Qed.

  (** every minor from the first minimum version up to [mm] is written *)
  Lemma inflate_covers m mm (rest : list vcheck) : forall c : vcheck,
    all_V1 (c :: rest) -> strictly_increasing (map vc_min (c :: rest)) = true ->
    (mn c <= m)%N -> (m <= mm)%N ->
    map_get (V 1 m) (inflate (c :: rest) (V 1 mm)) <> None.
  Proof.
    induction rest as [|c' rest' IH]; intros c H1 Hs Hge Hle; rewrite (inflate_cons _ _ _ H1), map_get_app.
    - cbn [inflate map_get]. rewrite map_get_seg.
      destruct (N.leb_spec (mn c) m); destruct (N.ltb_spec m (mm + 1)); try lia. discriminate.
    - cbn [map] in Hs. apply strictly_increasing_cons in Hs. destruct Hs as [_ Hs].
      destruct (N.ltb_spec m (mn c')) as [Hlt|Hnlt].
      + destruct (map_get (V 1 m) (inflate (c' :: rest') (V 1 mm))); [discriminate|].
        rewrite map_get_seg.
        destruct (N.leb_spec (mn c) m); destruct (N.ltb_spec m (mn c')); try lia. discriminate.
      + specialize (IH c' (all_V1_tail _ _ H1) Hs Hnlt Hle).
        destruct (map_get (V 1 m) (inflate (c' :: rest') (V 1 mm))); [discriminate|congruence].
  Qed.

  Lemma inflate_active m mm vs : forall acc,
    all_V1 vs -> strictly_increasing (map vc_min vs) = true -> (m <= mm)%N ->
    fold_left (step (V 1 m)) vs acc =
    match map_get (V 1 m) (inflate vs (V 1 mm)) with Some x => Some x | None => acc end.
  Proof.
    induction vs as [|c rest IH]; intros acc H1 Hs Hle; [reflexivity|].
    cbn [fold_left].
    assert (Hs' : strictly_increasing (map vc_min rest) = true).
    { cbn [map] in Hs. now apply strictly_increasing_cons in Hs. }
    rewrite (IH _ (all_V1_tail _ _ H1) Hs' Hle), (inflate_cons _ _ _ H1), map_get_app.
    destruct (map_get (V 1 m) (inflate rest (V 1 mm))) eqn:E; [reflexivity|].
    rewrite map_get_seg. unfold step.
    rewrite (older_V1_mn m _ (H1 c (or_introl eq_refl))).
    destruct (N.ltb_spec m (mn c)) as [Hlt|Hge].
    - destruct (N.leb_spec (mn c) m); [lia|reflexivity].
    - destruct (N.leb_spec (mn c) m); [|lia]. cbn [andb].
      destruct rest as [|c' rest'].
      + destruct (N.ltb_spec m (mm + 1)); [reflexivity|lia].
      + destruct (N.ltb_spec m (mn c')) as [|Hge']; [reflexivity|].
        exfalso. now apply (inflate_covers m mm rest' c' (all_V1_tail _ _ H1) Hs' Hge' Hle).
  Qed.

  Lemma in_populated_range_V1 mm p q :
    in_populated_range (V 1 mm) (V p q) = N.eqb p 1 && N.leb q mm.
  Proof. destruct p as [|[p|p|]]; reflexivity. Qed.

  Lemma in_populated_range_inv mx v : in_populated_range mx v = true ->
    exists mm m, mx = V 1 mm /\ v = V 1 m /\ (m <= mm)%N.
  Proof.
    destruct v as [|[|[p|p|]] m]; try discriminate.
    destruct mx as [|[|[p|p|]] mm]; try discriminate.
    cbn. intros H. apply N.leb_le in H. now exists mm, m.
  Qed.

  (** inside the populated range the table entry of a check is its active revision *)
  Lemma rev_at_active cs c mm m :
    well_formed cs = true -> majors_one cs = true -> newest cs = V 1 mm -> (m <= mm)%N ->
    In c cs -> rev_at c (V 1 mm) (V 1 m) = active_rev c (V 1 m).
  Proof.
    intros W M En Hle Hc. unfold rev_at. rewrite active_rev_fold.
    pose proof (wf_local_ok cs c W Hc) as L.
    rewrite (inflate_active m mm (ck_versions c) None).
    - now destruct (map_get (V 1 m) (inflate (ck_versions c) (V 1 mm))).
    - intros r Hr. now apply (majors_one_V1 cs c r M Hc).
    - now apply local_ok_increasing.
    - assumption.
  Qed.

  Lemma active_rev_None c v :
    (forall r, In r (ck_versions c) -> older v (vc_min r) = true) -> active_rev c v = None.
  Proof.
    rewrite active_rev_fold. induction (ck_versions c) as [|r rs IH]; intros H; [reflexivity|].
    cbn [fold_left]. unfold step at 2. rewrite (H r (or_introl eq_refl)).
    apply IH. intros x Hx. apply H. now right.
  Qed.

  Lemma fold_step_Some v vs : forall x, exists y, fold_left (step v) vs (Some x) = Some y.
  Proof.
    induction vs as [|r rs IH]; intros x; [now exists x|].
    cbn [fold_left]. unfold step at 2. destruct (older v (vc_min r)); apply IH.
  Qed.

  (** a check one of whose revisions is not newer than [v] has an active revision at [v] *)
  Lemma active_rev_Some c v r : In r (ck_versions c) -> older v (vc_min r) = false ->
    exists y, active_rev c v = Some y.
  Proof.
    rewrite active_rev_fold. generalize (@None vcheck).
    induction (ck_versions c) as [|x xs IH]; intros acc Hr Ho; [destruct Hr|].
    cbn [fold_left]. destruct Hr as [->|Hr].
    - unfold step at 2. rewrite Ho. apply fold_step_Some.
    - now apply IH.
  Qed.

  Lemma fold_step_In v vs : forall acc y, fold_left (step v) vs acc = Some y ->
    acc = Some y \/ (In y vs /\ older v (vc_min y) = false).
  Proof.
    induction vs as [|r rs IH]; intros acc y H; [now left|].
    cbn [fold_left] in H. apply IH in H. destruct H as [H|[H1 H2]].
    - unfold step in H. destruct (older v (vc_min r)) eqn:E; [now left|].
      injection H as <-. right. split; [now left|assumption].
    - right. split; [now right|assumption].
  Qed.

  (** the active revision is one of the check's revisions, and is not newer than [v] *)
  Lemma active_rev_In c v y : active_rev c v = Some y ->
    In y (ck_versions c) /\ older v (vc_min y) = false.
  Proof.
    rewrite active_rev_fold. intros H. apply fold_step_In in H. now destruct H as [H|H].
  Qed.

  (** * The per-level tables against [part] *)

  Notation ov := (fun x : string * vcheck => vc_overrides (snd x)).

  (** [level_revs] with the table lookup replaced by [active_rev] *)
  Definition level_act (b : bool) (cs : list check) (v : version) : list (string * vcheck) :=
    flat_map (fun c => if Bool.eqb (is_restricted c) b
                       then match active_rev c v with Some r => [(ck_id c, r)] | None => [] end
                       else []) cs.

  (** the inner loop of [part] *)
  Definition pick (b : bool) (v : version) (cs : list check) (id : string) : list (string * vcheck) :=
    flat_map (fun c => if String.eqb (ck_id c) id && Bool.eqb (String.eqb (ck_level c) "restricted") b
                       then match active_rev c v with Some r => [(id, r)] | None => [] end
                       else []) cs.

  Definition ids_lvl (b : bool) (cs : list check) : list string :=
    map ck_id (filter (fun c => Bool.eqb (String.eqb (ck_level c) "restricted") b) cs).

  Lemma part_unfold b cs v : part b cs v = flat_map (pick b v cs) (ssort (ids_lvl b cs)).
  Proof. reflexivity. Qed.

  Lemma ordered_ids_unfold cs :
    ordered_ids cs = (ssort (ids_lvl false cs) ++ ssort (ids_lvl true cs))%list.
  Proof.
    unfold ordered_ids, ids_lvl. f_equal; f_equal; f_equal; apply filter_ext; intros c;
      unfold is_restricted; now destruct (String.eqb (ck_level c) "restricted").
  Qed.

  (** the checks of level family [b] with id [id] and active revision [r] at [v] *)
  Definition act (b : bool) (cs : list check) (v : version) (id : string) (r : vcheck) : Prop :=
    exists c, In c cs /\ ck_id c = id /\ is_restricted c = b /\ active_rev c v = Some r.

  Lemma In_level_act b cs v id r : In (id, r) (level_act b cs v) <-> act b cs v id r.
  Proof.
    unfold level_act, act. rewrite in_flat_map. split.
    - intros [c [Hc H]]. exists c.
      destruct (Bool.eqb (is_restricted c) b) eqn:E; [apply eqb_prop in E|destruct H].
      destruct (active_rev c v) as [y|]; [|destruct H].
      destruct H as [[= <- <-]|[]]. now repeat split.
    - intros [c [Hc [<- [<- Ha]]]]. exists c. split; [assumption|].
      rewrite eqb_reflx, Ha. now left.
  Qed.

  Lemma In_pick b v cs id id' r : In (id', r) (pick b v cs id) <-> id' = id /\ act b cs v id r.
  Proof.
    unfold pick, act. rewrite in_flat_map. split.
    - intros [c [Hc H]].
      destruct (String.eqb_spec (ck_id c) id) as [E|N]; [|destruct H].
      cbn [andb] in H.
      destruct (Bool.eqb (String.eqb (ck_level c) "restricted") b) eqn:E'; [apply eqb_prop in E'|destruct H].
      destruct (active_rev c v) as [y|] eqn:Ha; [|destruct H].
      destruct H as [[= <- <-]|[]]. split; [reflexivity|]. now exists c.
    - intros [-> [c [Hc [<- [<- Ha]]]]]. exists c. split; [assumption|].
      unfold is_restricted. rewrite String.eqb_refl, eqb_reflx, Ha. now left.
  Qed.

  Lemma In_ids_lvl b cs id :
    In id (ids_lvl b cs) <-> exists c, In c cs /\ ck_id c = id /\ is_restricted c = b.
  Proof.
    unfold ids_lvl. rewrite in_map_iff. split.
    - intros [c [<- H]]. apply filter_In in H. destruct H as [Hc E]. apply eqb_prop in E. now exists c.
    - intros [c [Hc [<- <-]]]. exists c. split; [reflexivity|]. apply filter_In.
      split; [assumption|apply eqb_reflx].
  Qed.

  Lemma In_part b cs v id r : In (id, r) (part b cs v) <-> act b cs v id r.
  Proof.
    rewrite part_unfold, in_flat_map. split.
    - intros [id' [_ H]]. apply In_pick in H. destruct H as [-> H]. exact H.
    - intros H. exists id. split; [|now apply In_pick].
      apply In_ssort, In_ids_lvl. destruct H as [c [Hc [E [E' _]]]]. now exists c.
  Qed.

  Lemma level_act_part_In b cs v x : In x (level_act b cs v) <-> In x (part b cs v).
  Proof. destruct x as [id r]. now rewrite In_level_act, In_part. Qed.

  Lemma NoDup_id_inj cs c1 c2 : NoDup (map ck_id cs) ->
    In c1 cs -> In c2 cs -> ck_id c1 = ck_id c2 -> c1 = c2.
  Proof.
    induction cs as [|c rest IH]; intros ND H1 H2 E; [destruct H1|].
    cbn [map] in ND. inversion ND as [|? ? Hn ND']; subst.
    destruct H1 as [<-|H1]; destruct H2 as [<-|H2]; [reflexivity| | |now apply IH].
    - exfalso. apply Hn. rewrite E. now apply in_map.
    - exfalso. apply Hn. rewrite <- E. now apply in_map.
  Qed.

  (** an id belongs to one level family only *)
  Lemma act_other_level b cs v id r : NoDup (map ck_id cs) ->
    In id (ids_lvl b cs) -> ~ act (negb b) cs v id r.
  Proof.
    intros ND Hid [c [Hc [E [E' _]]]]. apply In_ids_lvl in Hid. destruct Hid as [c' [Hc' [E1 E2]]].
    assert (c = c') by (apply (NoDup_id_inj cs); congruence). subst c'.
    rewrite E2 in E'. now destruct b.
  Qed.

  Lemma pick_other_nil b cs v id : NoDup (map ck_id cs) ->
    In id (ids_lvl b cs) -> pick (negb b) v cs id = [].
  Proof.
    intros ND Hid. apply list_no_elements_nil. intros [id' r] H. apply In_pick in H.
    destruct H as [_ H]. now apply (act_other_level b cs v id r ND Hid).
  Qed.

  Lemma keys_level_act b cs v k : In k (map fst (level_act b cs v)) ->
    exists c, In c cs /\ ck_id c = k /\ is_restricted c = b.
  Proof.
    intros H. apply in_map_iff in H. destruct H as [[id r] [<- H]]. apply In_level_act in H.
    destruct H as [c [Hc [E [E' _]]]]. now exists c.
  Qed.

  (** the id-indexed lookup in the table is the inner loop of [part] *)
  Lemma lookup_level_act b cs v : NoDup (map ck_id cs) -> forall id,
    match lookup id (level_act b cs v) with Some r => [(id, r)] | None => [] end = pick b v cs id.
  Proof.
    induction cs as [|c rest IH]; intros ND id; [reflexivity|].
    cbn [map] in ND. inversion ND as [|? ? Hn ND']; subst.
    change (level_act b (c :: rest) v)
      with ((if Bool.eqb (is_restricted c) b
             then match active_rev c v with Some r => [(ck_id c, r)] | None => [] end
             else []) ++ level_act b rest v)%list.
    change (pick b v (c :: rest) id)
      with ((if String.eqb (ck_id c) id && Bool.eqb (String.eqb (ck_level c) "restricted") b
             then match active_rev c v with Some r => [(id, r)] | None => [] end
             else []) ++ pick b v rest id)%list.
    rewrite lookup_app. unfold is_restricted at 1.
    destruct (String.eqb_spec (ck_id c) id) as [E|N].
    - subst id.
      assert (Hp : pick b v rest (ck_id c) = []).
      { apply list_no_elements_nil. intros [id' r] H. apply In_pick in H.
        destruct H as [_ [c' [Hc' [E _]]]]. apply Hn. rewrite <- E. now apply in_map. }
      assert (Hl : lookup (ck_id c) (level_act b rest v) = None).
      { apply lookup_None_iff. intros H. apply keys_level_act in H.
        destruct H as [c' [Hc' [E _]]]. apply Hn. rewrite <- E. now apply in_map. }
      rewrite Hp, Hl. cbn [andb].
      destruct (Bool.eqb (String.eqb (ck_level c) "restricted") b); [|reflexivity].
      destruct (active_rev c v); [|reflexivity].
      cbn [lookup]. now rewrite String.eqb_refl.
    - cbn [andb app]. rewrite <- IH by assumption.
      assert (N' : String.eqb id (ck_id c) = false) by (apply String.eqb_neq; congruence).
      destruct (Bool.eqb (String.eqb (ck_level c) "restricted") b); [|reflexivity].
      destruct (active_rev c v); [|reflexivity].
      cbn [lookup]. now rewrite N'.
  Qed.

  Lemma lookup_level_act_None b cs v id : NoDup (map ck_id cs) ->
    In id (ids_lvl b cs) -> lookup id (level_act (negb b) cs v) = None.
  Proof.
    intros ND Hid. pose proof (lookup_level_act (negb b) cs v ND id) as H.
    rewrite (pick_other_nil b cs v id ND Hid) in H.
    now destruct (lookup id (level_act (negb b) cs v)).
  Qed.

  Lemma lookup_baseline_None cs v id : NoDup (map ck_id cs) ->
    In id (ids_lvl true cs) -> lookup id (level_act false cs v) = None.
  Proof. exact (lookup_level_act_None true cs v id). Qed.

  Lemma lookup_restricted_None cs v id : NoDup (map ck_id cs) ->
    In id (ids_lvl false cs) -> lookup id (level_act true cs v) = None.
  Proof. exact (lookup_level_act_None false cs v id). Qed.

  Lemma filter_fst_const {A} (f : string -> bool) id (l : list (string * A)) :
    (forall x, In x l -> fst x = id) ->
    filter (fun x => f (fst x)) l = if f id then l else [].
  Proof.
    induction l as [|x l IH]; intros H; [now destruct (f id)|].
    cbn [filter]. rewrite (H x (or_introl eq_refl)), IH by (intros y Hy; apply H; now right).
    now destruct (f id).
  Qed.

  Lemma pick_fst b v cs id x : In x (pick b v cs id) -> fst x = id.
  Proof. destruct x as [id' r]. intros H. apply In_pick in H. now destruct H. Qed.

  Lemma map_fns_baseline cs v : NoDup (map ck_id cs) ->
    map_fns (level_act false cs v) (ordered_ids cs) = part false cs v.
  Proof.
    intros ND. unfold map_fns. rewrite ordered_ids_unfold, flat_map_app, part_unfold.
    rewrite (flat_map_nil_in _ (ssort (ids_lvl true cs))).
    - rewrite app_nil_r. apply flat_map_ext_in. intros id _. now apply lookup_level_act.
    - intros id Hid. rewrite In_ssort in Hid.
      now rewrite (lookup_baseline_None cs v id ND Hid).
  Qed.

  Lemma overrides_In_ext (l1 l2 : list (string * vcheck)) :
    (forall x, In x l1 <-> In x l2) -> forall o, In o (flat_map ov l1) <-> In o (flat_map ov l2).
  Proof.
    intros H o. rewrite !in_flat_map. split; intros [x [Hx Ho]]; exists x; split; try assumption; now apply H.
  Qed.

  Lemma map_fns_restricted cs v : NoDup (map ck_id cs) ->
    map_fns (level_act true cs v ++
             filter (fun x => negb (mem (fst x) (flat_map ov (level_act true cs v))))
                    (level_act false cs v))%list
            (ordered_ids cs)
    = (filter (fun x => negb (mem (fst x) (flat_map ov (part true cs v)))) (part false cs v)
       ++ part true cs v)%list.
  Proof.
    intros ND. unfold map_fns. rewrite ordered_ids_unfold, flat_map_app.
    set (ovm := flat_map ov (level_act true cs v)).
    set (ove := flat_map ov (part true cs v)).
    assert (Hov : forall id, mem id ovm = mem id ove).
    { intros id. apply mem_ext. apply overrides_In_ext. intros x. apply level_act_part_In. }
    f_equal.
    - rewrite (part_unfold false), filter_flat_map. apply flat_map_ext_in. intros id Hid.
      rewrite In_ssort in Hid.
      rewrite lookup_app, (lookup_restricted_None cs v id ND Hid).
      rewrite (lookup_filter_fst (fun k => negb (mem k ovm))).
      rewrite (filter_fst_const (fun k => negb (mem k ove)) id) by apply pick_fst.
      rewrite Hov. destruct (negb (mem id ove)); [now apply lookup_level_act|reflexivity].
    - rewrite (part_unfold true). apply flat_map_ext_in. intros id Hid. rewrite In_ssort in Hid.
      rewrite lookup_app, (lookup_filter_fst (fun k => negb (mem k ovm))).
      rewrite (lookup_baseline_None cs v id ND Hid).
      rewrite <- (lookup_level_act true cs v ND id).
      destruct (lookup id (level_act true cs v)); [reflexivity|]. now destruct (negb (mem id ovm)).
  Qed.

  (** * Resolution *)

  Lemma level_revs_act b cs mm m :
    well_formed cs = true -> majors_one cs = true -> newest cs = V 1 mm -> (m <= mm)%N ->
    level_revs b cs (V 1 mm) (V 1 m) = level_act b cs (V 1 m).
  Proof.
    intros W M En Hle. unfold level_revs, level_act. apply flat_map_ext_in. intros c Hc.
    now rewrite (rev_at_active cs c mm m W M En Hle Hc).
  Qed.

  (** outside the populated range no revision is active *)
  Lemma out_of_range_None cs v c :
    well_formed cs = true -> majors_one cs = true ->
    older (newest cs) v = false -> in_populated_range (newest cs) v = false ->
    In c cs -> active_rev c v = None.
  Proof.
    intros W M Ho Hr Hc. apply active_rev_None. intros r Hr'.
    assert (Hne : cs <> []) by (intros E; now rewrite E in Hc).
    pose proof (newest_V1 cs W M Hne) as En.
    pose proof (newest_ge cs c r Hc Hr') as G.
    rewrite (majors_one_V1 cs c r M Hc Hr') in *.
    rewrite En in *. destruct v as [|p q]; [discriminate|].
    rewrite in_populated_range_V1 in Hr. revert Ho Hr G. generalize (minor_of (newest cs)).
    intros mm. vsolve.
  Qed.

  Lemma part_out_of_range b cs v :
    well_formed cs = true -> majors_one cs = true ->
    older (newest cs) v = false -> in_populated_range (newest cs) v = false ->
    part b cs v = [].
  Proof.
    intros W M Ho Hr. apply list_no_elements_nil. intros [id r] H. apply In_part in H.
    destruct H as [c [Hc [_ [_ Ha]]]].
    now rewrite (out_of_range_None cs v c W M Ho Hr Hc) in Ha.
  Qed.

  Lemma clamp_not_older cs v : older (newest cs) (clamp cs v) = false.
  Proof.
    unfold clamp. destruct (older (newest cs) v) eqn:E; [apply older_irrefl|exact E].
  Qed.

  Lemma baseline_at_part cs v :
    well_formed cs = true -> majors_one cs = true -> older (newest cs) v = false ->
    baseline_at cs v = part false cs v.
  Proof.
    intros W M Ho. unfold baseline_at. cbv zeta. rewrite (max_version_newest cs W).
    destruct (in_populated_range (newest cs) v) eqn:R.
    - destruct (in_populated_range_inv _ _ R) as [mm [m [En [-> Hle]]]]. rewrite En.
      rewrite (level_revs_act false cs mm m W M En Hle).
      apply map_fns_baseline. now apply wf_NoDup.
    - symmetry. now apply part_out_of_range.
  Qed.

  Lemma restricted_at_part cs v :
    well_formed cs = true -> majors_one cs = true -> older (newest cs) v = false ->
    restricted_at cs v =
    (filter (fun x => negb (mem (fst x) (flat_map ov (part true cs v)))) (part false cs v)
     ++ part true cs v)%list.
  Proof.
    intros W M Ho. unfold restricted_at. cbv zeta. rewrite (max_version_newest cs W).
    destruct (in_populated_range (newest cs) v) eqn:R.
    - destruct (in_populated_range_inv _ _ R) as [mm [m [En [-> Hle]]]]. rewrite En.
      rewrite !(level_revs_act _ cs mm m W M En Hle).
      apply map_fns_restricted. now apply wf_NoDup.
    - now rewrite !(part_out_of_range _ cs v W M Ho R).
  Qed.

  Theorem resolve_expected cs l v :
    well_formed cs = true -> majors_one cs = true -> resolve cs l v = expected cs l v.
  Proof.
    intros W M. unfold resolve, expected. cbv zeta. rewrite (max_version_newest cs W).
    change (if older (newest cs) v then newest cs else v) with (clamp cs v).
    destruct l.
    - reflexivity.
    - apply baseline_at_part; try assumption. apply clamp_not_older.
    - apply restricted_at_part; try assumption. apply clamp_not_older.
  Qed.

  Lemma clamp_idem cs v : clamp cs (clamp cs v) = clamp cs v.
  Proof. unfold clamp at 1. now rewrite clamp_not_older. Qed.

  (** clamping needs well-formedness only (to identify [max_version] with [newest]) *)
  Theorem resolve_clamp_wf cs l v : well_formed cs = true ->
    resolve cs l v = resolve cs l (clamp cs v).
  Proof.
    intros W. unfold resolve. cbv zeta. rewrite (max_version_newest cs W).
    change (if older (newest cs) v then newest cs else v) with (clamp cs v).
    change (if older (newest cs) (clamp cs v) then newest cs else clamp cs v)
      with (clamp cs (clamp cs v)).
    now rewrite clamp_idem.
  Qed.

  Theorem resolve_clamp cs l v : well_formed cs = true -> majors_one cs = true ->
    resolve cs l v = resolve cs l (clamp cs v).
  Proof. intros W _. now apply resolve_clamp_wf. Qed.

  Lemma clamp_future cs v : well_formed cs = true ->
    (v = Latest \/ older (newest cs) v = true) -> clamp cs v = newest cs.
  Proof.
    intros W [->|H]; unfold clamp.
    - now rewrite (older_Latest _ (newest_not_Latest cs W)).
    - now rewrite H.
  Qed.

  Lemma clamp_newest cs : clamp cs (newest cs) = newest cs.
  Proof. unfold clamp. now rewrite older_irrefl. Qed.

  Theorem resolve_latest_and_future cs l v :
    well_formed cs = true -> majors_one cs = true ->
    (v = Latest \/ older (newest cs) v = true) -> resolve cs l v = resolve cs l (newest cs).
  Proof.
    intros W _ H. rewrite (resolve_clamp_wf cs l v W), (resolve_clamp_wf cs l (newest cs) W).
    now rewrite (clamp_future cs v W H), clamp_newest.
  Qed.

  Theorem resolve_privileged cs v : resolve cs Privileged v = [].
  Proof. reflexivity. Qed.

  (** * Structure of the resolved lists *)

  Theorem resolve_baseline_ids cs v id r :
    well_formed cs = true -> majors_one cs = true ->
    (In (id, r) (resolve cs Baseline v) <-> act false cs (clamp cs v) id r).
  Proof.
    intros W M. rewrite (resolve_expected cs Baseline v W M). unfold expected. cbv zeta.
    apply In_part.
  Qed.

  (** the ids overridden by the restricted revisions active at [v] *)
  Definition overridden_at (cs : list check) (v : version) (id : string) : Prop :=
    exists id' r', act true cs v id' r' /\ In id (vc_overrides r').

  Lemma overridden_at_In cs v id :
    In id (flat_map ov (part true cs v)) <-> overridden_at cs v id.
  Proof.
    rewrite in_flat_map. split.
    - intros [[id' r'] [H Ho]]. apply In_part in H. now exists id', r'.
    - intros [id' [r' [H Ho]]]. exists (id', r'). split; [now apply In_part|assumption].
  Qed.

  Theorem resolve_restricted_structure cs v id r :
    well_formed cs = true -> majors_one cs = true ->
    (In (id, r) (resolve cs Restricted v) <->
     act true cs (clamp cs v) id r \/
     (act false cs (clamp cs v) id r /\ ~ overridden_at cs (clamp cs v) id)).
  Proof.
    intros W M. rewrite (resolve_expected cs Restricted v W M). unfold expected. cbv zeta.
    rewrite in_app_iff, filter_In, In_part, In_part, negb_true_iff. cbn [fst].
    rewrite mem_false_iff, overridden_at_In. tauto.
  Qed.

  Theorem resolve_baseline_covered cs v id r :
    well_formed cs = true -> majors_one cs = true ->
    In (id, r) (resolve cs Baseline v) ->
    In (id, r) (resolve cs Restricted v) \/
    exists id' r', In (id', r') (resolve cs Restricted v) /\ In id (vc_overrides r').
  Proof.
    intros W M H. apply (resolve_baseline_ids cs v id r W M) in H.
    destruct (mem id (flat_map ov (part true cs (clamp cs v)))) eqn:E.
    - right. apply mem_In, overridden_at_In in E. destruct E as [id' [r' [Ha Ho]]].
      exists id', r'. split; [|assumption].
      apply (resolve_restricted_structure cs v id' r' W M). now left.
    - left. apply (resolve_restricted_structure cs v id r W M). right. split; [assumption|].
      now rewrite <- overridden_at_In, <- mem_false_iff.
  Qed.

  (** restricted resolution contains every restricted revision *)
  Lemma resolve_restricted_incl cs v id r :
    well_formed cs = true -> majors_one cs = true ->
    act true cs (clamp cs v) id r -> In (id, r) (resolve cs Restricted v).
  Proof. intros W M H. apply (resolve_restricted_structure cs v id r W M). now left. Qed.

  (** at the newest version every check has an active revision *)
  Lemma active_at_newest cs c : well_formed cs = true -> In c cs ->
    exists r, active_rev c (newest cs) = Some r.
  Proof.
    intros W Hc. pose proof (wf_local_ok cs c W Hc) as L.
    destruct (ck_versions c) as [|r rs] eqn:E; [now apply local_ok_nonnil in L|].
    assert (Hr : In r (ck_versions c)) by (rewrite E; now left).
    apply (active_rev_Some c (newest cs) r Hr). now apply (newest_ge cs c r).
  Qed.

  Theorem resolve_never_empty cs v :
    well_formed cs = true -> majors_one cs = true -> cs <> [] ->
    (v = Latest \/ older (newest cs) v = true) -> resolve cs Restricted v <> [].
  Proof.
    intros W M Hne Hv.
    assert (Hin : exists x, In x (resolve cs Restricted v)).
    { destruct (existsb (@is_restricted F) cs) eqn:Ex.
      - apply existsb_exists in Ex. destruct Ex as [c [Hc Hrc]].
        destruct (active_at_newest cs c W Hc) as [r Hr]. rewrite <- (clamp_future cs v W Hv) in Hr.
        exists (ck_id c, r). apply (resolve_restricted_incl cs v _ _ W M). now exists c.
      - destruct cs as [|c cs']; [congruence|]. set (cs := c :: cs') in *.
        assert (Hc : In c cs) by now left.
        assert (Hall : forall c', In c' cs -> is_restricted c' = false).
        { intros c' Hc'. destruct (is_restricted c') eqn:E; [|reflexivity].
          assert (existsb (@is_restricted F) cs = true) by (apply existsb_exists; now exists c').
          congruence. }
        destruct (active_at_newest cs c W Hc) as [r Hr]. rewrite <- (clamp_future cs v W Hv) in Hr.
        exists (ck_id c, r). apply (resolve_restricted_structure cs v _ _ W M). right. split.
        + exists c. repeat split; try assumption. now apply Hall.
        + intros [id' [r' [[c' [Hc' [_ [E _]]]] _]]]. rewrite (Hall c' Hc') in E. discriminate. }
    destruct Hin as [x Hx]. intros E. now rewrite E in Hx.
  Qed.

End RegistryFacts.

Arguments act {F}. Arguments overridden_at {F}. Arguments level_act {F}. Arguments pick {F}.
Arguments ids_lvl {F}. Arguments all_mins {F}. Arguments local_ok {F}. Arguments rev_ok {F}.
Arguments ov_spec {F}. Arguments ov_model {F}. Arguments step {F}. Arguments all_V1 {F}.

(** * The relation P04 on the model's own observation *)

Theorem P04_model (cs : list (check string)) (qs : list (level * version)) :
  P04 cs (match new_evaluator cs with None => true | Some _ => false end)
      (match new_evaluator cs with
       | None => []
       | Some ev => map (fun q : level * version =>
                           (fst q, snd q, map (fun x => vc_fn (snd x)) (ev (fst q) (snd q)))) qs
       end) = true.
Proof.
  unfold P04, new_evaluator. rewrite validate_checks_well_formed.
  destruct (well_formed cs) eqn:W; cbn [negb]; [|reflexivity].
  destruct (majors_one cs) eqn:M; cbn [negb andb]; [|reflexivity].
  apply forallb_forall. intros [[l v] got] H. apply in_map_iff in H.
  destruct H as [q [[= <- <- <-] _]].
  rewrite (resolve_expected string cs (fst q) (snd q) W M).
  apply list_eqb_refl, String.eqb_refl.
Qed.
