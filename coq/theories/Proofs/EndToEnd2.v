(** Proofs/EndToEnd2.v - further compositions of admission-layer theorems with
    the standard (C02), for the shipped evaluator [shipped_evaluator relax]:

    - C08 x C02: on an evaluated pod request the allow bit, the warning and the
      audit annotation are compliance with the Pod Security Standards
      (Spec/PSS.v) at the enforce / warn / audit level and version;
    - C09 x C02: on an evaluated controller request the response is allowed,
      carries no enforce-policy annotation, and the warning / audit annotation
      are non-compliance of the template at the warn / audit level and version;
    - C11/C12 x C02: a namespace update that reaches the dry run (within the
      cap, no expiry) answers without warnings exactly when every listed pod
      outside the exempt runtime classes complies at the new enforce level.

    Nothing here is about one layer alone. *)
From Coq Require Import List Bool NArith ZArith String Permutation.
From PSA Require Import Base.Str Model.Api Model.Pod Model.Checks Model.Registry Model.Shipped Model.Admission
     Model.Namespace Spec.PSS Spec.P02 Spec.P05 Spec.PAdm Proofs.StrFacts Proofs.AdmFactsA Proofs.AdmFactsE
     Proofs.NamespaceFacts Proofs.StandardFacts Proofs.C02_table Proofs.EndToEnd.
Import ListNotations.
Local Open Scope string_scope.

(* ------------------------------------------------------------------ helper *)

(** "violates", for the shipped evaluator, is non-compliance with the standard *)
Lemma violates_shipped : forall relax x p m,
  api_valid p = true -> relaxed_for relax p = false -> effective_minor (lv_version x) = Some m ->
  violates (shipped_evaluator relax) x p = negb (compliant (lv_level x) m p).
Proof.
  intros relax x p m Hv Hr Hm. unfold violates, shipped_evaluator, shipped_eval.
  change (forallb cr_allowed (evaluate_pod shipped_lists relax shipped_checks ?l ?v p))
    with (eval_allowed shipped_lists relax shipped_checks l v p).
  now rewrite (shipped_standard relax (lv_level x) (lv_version x) m p Hv Hr Hm).
Qed.

Lemma is_nil_true {A} (l : list A) : is_nil l = true -> l = [].
Proof. destruct l; [reflexivity|discriminate]. Qed.

Lemma opt_string_eqb_eq (a b : option string) : opt_eqb String.eqb a b = true -> a = b.
Proof.
  destruct a as [a|], b as [b|]; cbn; try discriminate; try reflexivity.
  intros H. apply String.eqb_eq in H. now subst.
Qed.

Lemma level_privileged_compliant l m p : level_eqb l Privileged = true -> compliant l m p = true.
Proof. intros H. apply level_eqb_eq in H. now subst. Qed.

(* --------------------------------------------- findings = non-compliance *)

(** the audit / warn findings of any evaluated request (pod or controller), in
    terms of the standard.  No hypothesis on label errors or on the
    short circuits is needed: a short circuit is only taken at privileged
    audit and warn levels, where every pod complies and nothing is reported. *)
Lemma shipped_findings : forall c relax r w ls p enforced ma mw,
  let pol := spec_policy ls (cf_defaults c) in
  let resp := fst (validate c (shipped_evaluator relax) r w) in
  evaluated_object c r w = Some (ls, p, enforced) ->
  api_valid p = true -> relaxed_for relax p = false ->
  effective_minor (lv_version (audit pol)) = Some ma ->
  effective_minor (lv_version (warn pol)) = Some mw ->
  (if rs_allowed resp && negb (compliant (lv_level (warn pol)) mw p)
   then exists t, rs_warnings resp = [t] /\ contains (lv_string (warn pol)) t = true
   else rs_warnings resp = [])
  /\ (if compliant (lv_level (audit pol)) ma p
      then ann "audit-violations" resp = None
      else exists t, ann "audit-violations" resp = Some t /\ contains (lv_string (audit pol)) t = true).
Proof.
  intros c relax r w ls p enforced ma mw pol resp He Hv Hr Hma Hmw.
  pose proof (P08_obs_model c (shipped_evaluator relax) r w) as H.
  unfold P08_obs in H. rewrite He in H. cbv zeta in H. fold pol in H. fold resp in H.
  rewrite (violates_shipped relax (warn pol) p mw Hv Hr Hmw) in H.
  rewrite (violates_shipped relax (audit pol) p ma Hv Hr Hma) in H.
  destruct (is_nil (spec_errs ls) &&
            (if enforced then s_fully_privileged pol
             else level_eqb (lv_level (warn pol)) Privileged && level_eqb (lv_level (audit pol)) Privileged)) eqn:Hsc.
  - (* short circuit: warn and audit are privileged *)
    assert (Hwa : level_eqb (lv_level (warn pol)) Privileged = true
                  /\ level_eqb (lv_level (audit pol)) Privileged = true).
    { apply andb_true_iff in Hsc. destruct Hsc as [_ Hsc]. destruct enforced.
      - unfold s_fully_privileged in Hsc. apply andb_true_iff in Hsc. destruct Hsc as [Hsc Hw'].
        apply andb_true_iff in Hsc. destruct Hsc as [_ Ha']. now split.
      - apply andb_true_iff in Hsc. exact Hsc. }
    destruct Hwa as [Hw' Ha'].
    rewrite (level_privileged_compliant _ mw p Hw'), (level_privileged_compliant _ ma p Ha').
    cbn [negb]. rewrite andb_false_r.
    apply andb_true_iff in H. destruct H as [Hn Hs].
    split; [now apply is_nil_true|].
    destruct (ann "audit-violations" resp); [discriminate|reflexivity].
  - apply andb_true_iff in H. destruct H as [H Ha']. apply andb_true_iff in H. destruct H as [_ Hw'].
    split.
    + destruct (rs_allowed resp && negb (compliant (lv_level (warn pol)) mw p)).
      * destruct (rs_warnings resp) as [|t [|t' rest]]; try discriminate. now exists t.
      * now apply is_nil_true.
    + destruct (compliant (lv_level (audit pol)) ma p); cbn [negb] in Ha'.
      * destruct (ann "audit-violations" resp); [discriminate|reflexivity].
      * destruct (ann "audit-violations" resp) as [t|]; [|discriminate]. now exists t.
Qed.

(* ------------------------------------------------------------- C08 x C02 *)

Lemma C08_end_to_end_proof : forall c relax r w ls p me ma mw,
  let pol := spec_policy ls (cf_defaults c) in
  let resp := fst (validate c (shipped_evaluator relax) r w) in
  evaluated_object c r w = Some (ls, p, true) ->
  api_valid p = true -> relaxed_for relax p = false ->
  effective_minor (lv_version (enforce pol)) = Some me ->
  effective_minor (lv_version (audit pol)) = Some ma ->
  effective_minor (lv_version (warn pol)) = Some mw ->
  (* the verdict is compliance at the enforce level *)
  rs_allowed resp = compliant (lv_level (enforce pol)) me p
  (* no warning iff denied or compliant at the warn level *)
  /\ (rs_warnings resp = [] <-> rs_allowed resp = false \/ compliant (lv_level (warn pol)) mw p = true)
  (* otherwise exactly one warning, naming the warn level:version *)
  /\ (rs_allowed resp = true -> compliant (lv_level (warn pol)) mw p = false ->
      exists t, rs_warnings resp = [t] /\ contains (lv_string (warn pol)) t = true)
  (* no audit annotation iff compliant at the audit level *)
  /\ (ann "audit-violations" resp = None <-> compliant (lv_level (audit pol)) ma p = true)
  (* otherwise the annotation names the audit level:version *)
  /\ (compliant (lv_level (audit pol)) ma p = false ->
      exists t, ann "audit-violations" resp = Some t /\ contains (lv_string (audit pol)) t = true).
Proof.
  intros c relax r w ls p me ma mw pol resp He Hv Hr Hme Hma Hmw.
  assert (Hep : evaluated_pod c r w = Some (ls, p)).
  { destruct (evaluated_object_inv c r w ls p true He) as [[_ H]|[H _]]; [exact H|discriminate]. }
  pose proof (end_to_end_proof c relax r w ls p me Hep Hv Hr Hme) as Hallow.
  fold pol in Hallow. fold resp in Hallow.
  destruct (shipped_findings c relax r w ls p true ma mw He Hv Hr Hma Hmw) as [Hw Ha].
  fold pol in Hw, Ha. fold resp in Hw, Ha.
  split; [exact Hallow|]. split; [|split; [|split]].
  - destruct (rs_allowed resp) eqn:Hal; [destruct (compliant (lv_level (warn pol)) mw p) eqn:Hcw|];
      cbn [andb negb] in Hw.
    + split; [intros _; now right|intros _; exact Hw].
    + destruct Hw as (t & Hw1 & _). rewrite Hw1. split; [discriminate|intros [H|H]; discriminate].
    + split; [intros _; now left|intros _; exact Hw].
  - intros Hal Hcw. rewrite Hal, Hcw in Hw. exact Hw.
  - destruct (compliant (lv_level (audit pol)) ma p).
    + split; [reflexivity|intros _; exact Ha].
    + destruct Ha as (t & Ha1 & _). rewrite Ha1. split; discriminate.
  - intros Hca. rewrite Hca in Ha. exact Ha.
Qed.

(* ------------------------------------------------------------- C09 x C02 *)

Lemma C09_end_to_end_proof : forall c relax r w ls p ma mw,
  let pol := spec_policy ls (cf_defaults c) in
  let resp := fst (validate c (shipped_evaluator relax) r w) in
  evaluated_object c r w = Some (ls, p, false) ->
  api_valid p = true -> relaxed_for relax p = false ->
  effective_minor (lv_version (audit pol)) = Some ma ->
  effective_minor (lv_version (warn pol)) = Some mw ->
  (* never denied, enforce never applied *)
  rs_allowed resp = true
  /\ ann "enforce-policy" resp = None
  (* a warning iff the template does not comply at the warn level; it names warn level:version *)
  /\ (rs_warnings resp = [] <-> compliant (lv_level (warn pol)) mw p = true)
  /\ (compliant (lv_level (warn pol)) mw p = false ->
      exists t, rs_warnings resp = [t] /\ contains (lv_string (warn pol)) t = true)
  (* the audit annotation iff the template does not comply at the audit level *)
  /\ (ann "audit-violations" resp = None <-> compliant (lv_level (audit pol)) ma p = true)
  /\ (compliant (lv_level (audit pol)) ma p = false ->
      exists t, ann "audit-violations" resp = Some t /\ contains (lv_string (audit pol)) t = true).
Proof.
  intros c relax r w ls p ma mw pol resp He Hv Hr Hma Hmw.
  assert (Hc : is_controller r = true).
  { destruct (evaluated_object_inv c r w ls p false He) as [[H _]|[_ [H _]]]; [discriminate|exact H]. }
  assert (Hal : rs_allowed resp = true) by exact (C09_never_denied_proof c _ r w Hc).
  assert (Hen : ann "enforce-policy" resp = None).
  { pose proof (P09_base_model c (shipped_evaluator relax) r w) as Hb.
    rewrite <- (validate_controllers c _ r w Hc) in Hb. unfold P09_base in Hb. fold resp in Hb.
    apply andb_true_iff in Hb. destruct Hb as [Hb _]. apply andb_true_iff in Hb. destruct Hb as [_ Hb].
    destruct (ann "enforce-policy" resp); [discriminate|reflexivity]. }
  destruct (shipped_findings c relax r w ls p false ma mw He Hv Hr Hma Hmw) as [Hw Ha].
  fold pol in Hw, Ha. fold resp in Hw, Ha. rewrite Hal in Hw. cbn [andb] in Hw.
  split; [exact Hal|]. split; [exact Hen|]. split; [|split; [|split]].
  - destruct (compliant (lv_level (warn pol)) mw p); cbn [negb] in Hw.
    + split; [reflexivity|intros _; exact Hw].
    + destruct Hw as (t & Hw1 & _). rewrite Hw1. split; discriminate.
  - intros Hcw. rewrite Hcw in Hw. exact Hw.
  - destruct (compliant (lv_level (audit pol)) ma p).
    + split; [reflexivity|intros _; exact Ha].
    + destruct Ha as (t & Ha1 & _). rewrite Ha1. split; discriminate.
  - intros Hca. rewrite Hca in Ha. exact Ha.
Qed.

(* -------------------------------------------------------- C11/C12 x C02 *)

Lemma existsb_false_iff {A} (f : A -> bool) (l : list A) :
  existsb f l = false <-> forall a, In a l -> f a = false.
Proof.
  induction l as [|a l IH]; cbn [existsb In]; [split; [intros _ a []|reflexivity]|].
  rewrite orb_false_iff, IH. split.
  - intros [H1 H2] b [<-|Hb]; [exact H1|now apply H2].
  - intros H. split; [apply H; now left|intros b Hb; apply H; now right].
Qed.

(** the dry-run report over a list of checked pods, nothing truncated: empty
    iff no checked pod violates; otherwise it starts with the header *)
Lemma s_dry_run_warnings_full c ev name x w pods :
  w_pods w = Some pods -> w_expire_after w = None ->
  List.length (filter (fun p => negb (s_exempt_rc c p)) pods) <= cf_max_pods c ->
  s_dry_run_warnings c ev name x w =
  (if existsb (violates ev x) (filter (fun p => negb (s_exempt_rc c p)) pods)
   then ["existing pods in namespace " ++ go_quote name ++ " violate the new PodSecurity enforce level "
         ++ go_quote (lv_string x)] else [])
  +:+ s_report ev x (s_prioritized c pods).
Proof.
  intros Hp He Hcap. unfold s_dry_run_warnings. rewrite Hp, He.
  pose proof (s_prioritized_perm c pods) as Hperm. unfold s_keep in Hperm.
  assert (Hlen : List.length (s_prioritized c pods) <= cf_max_pods c).
  { rewrite (Permutation_length Hperm). exact Hcap. }
  rewrite (firstn_all2 _ Hlen).
  rewrite Nat.ltb_irrefl.
  rewrite (existsb_perm (violates ev x) _ _ Hperm). reflexivity.
Qed.

Lemma s_report_none ev x l : existsb (violates ev x) l = false -> s_report ev x l = [].
Proof.
  intros H. unfold s_report.
  rewrite (filter_none (violates ev x) l); [reflexivity|].
  now apply existsb_false_iff.
Qed.

Lemma C11_end_to_end_proof : forall c relax r w name ls pods m,
  let x := enforce (spec_policy ls (cf_defaults c)) in
  let o := validate c (shipped_evaluator relax) r w in
  is_namespaces r = true -> r_object r = ONamespace name ls ->
  existsb is_list (snd o) = true ->                      (* the dry run is reached *)
  w_pods w = Some pods -> w_expire_after w = None ->
  List.length (filter (fun p => negb (s_exempt_rc c p)) pods) <= cf_max_pods c ->
  (forall p, In p pods -> s_exempt_rc c p = false -> api_valid p = true /\ relaxed_for relax p = false) ->
  effective_minor (lv_version x) = Some m ->
  (rs_warnings (fst o) = [] <->
   forall p, In p pods -> s_exempt_rc c p = false -> compliant (lv_level x) m p = true)
  /\ ((exists p, In p pods /\ s_exempt_rc c p = false /\ compliant (lv_level x) m p = false) ->
      exists rest, rs_warnings (fst o) =
        ("existing pods in namespace " ++ go_quote name ++ " violate the new PodSecurity enforce level "
         ++ go_quote (lv_string x)) :: rest).
Proof.
  intros c relax r w name ls pods m x o Hns Hobj Hlist Hpods Hexp Hcap Hvalid Hm.
  pose proof (P12_proof c (shipped_evaluator relax) r w) as H.
  unfold P12 in H. rewrite Hns, Hobj, Hpods in H. cbn [negb] in H. fold o in H. rewrite Hlist in H.
  cbn [imp negb orb] in H. cbv zeta in H.
  apply andb_true_iff in H. destruct H as [_ H]. apply list_eqb_string_eq in H. fold x in H.
  rewrite (s_dry_run_warnings_full c _ name x w pods Hpods Hexp Hcap) in H.
  set (keep := filter (fun p => negb (s_exempt_rc c p)) pods) in *.
  assert (Hviol : forall p, In p keep ->
            violates (shipped_evaluator relax) x p = negb (compliant (lv_level x) m p)).
  { intros p Hp. apply filter_In in Hp. destruct Hp as [Hin Hrc]. apply negb_true_iff in Hrc.
    destruct (Hvalid p Hin Hrc) as [Hv Hr]. now apply violates_shipped. }
  assert (Hiff : existsb (violates (shipped_evaluator relax) x) keep = false <->
                 forall p, In p pods -> s_exempt_rc c p = false -> compliant (lv_level x) m p = true).
  { rewrite existsb_false_iff. split.
    - intros Hall p Hin Hrc.
      assert (Hk : In p keep) by (apply filter_In; split; [exact Hin|now rewrite Hrc]).
      specialize (Hall p Hk). rewrite (Hviol p Hk) in Hall. now apply negb_false_iff in Hall.
    - intros Hall p Hk. rewrite (Hviol p Hk). apply negb_false_iff.
      apply filter_In in Hk. destruct Hk as [Hin Hrc]. apply negb_true_iff in Hrc. now apply Hall. }
  split.
  - rewrite <- Hiff. rewrite H.
    destruct (existsb (violates (shipped_evaluator relax) x) keep) eqn:Hex.
    + split; discriminate.
    + split; [reflexivity|intros _].
      cbn [app]. apply s_report_none.
      rewrite (existsb_perm _ _ _ (s_prioritized_perm c pods)). exact Hex.
  - intros [p [Hin [Hrc Hnc]]].
    destruct (existsb (violates (shipped_evaluator relax) x) keep) eqn:Hex.
    + rewrite H. eexists. reflexivity.
    + exfalso. rewrite (proj1 Hiff eq_refl p Hin Hrc) in Hnc. discriminate.
Qed.

(** when the dry run is reached, in terms of the request alone: an UPDATE (no
    subresource) whose new labels are well formed and whose enforce part
    tightens ([dry_run_required], Spec/PAdm.v) *)
Lemma C11_reaches_dry_run_proof : forall c ev r w name ls oname old_ls,
  is_namespaces r = true -> r_subresource r = "" -> r_op r = OpUpdate ->
  r_object r = ONamespace name ls -> r_old r = ONamespace oname old_ls ->
  spec_errs ls = [] -> dry_run_required c r ls old_ls = true ->
  existsb is_list (snd (validate c ev r w)) = true.
Proof.
  intros c ev r w name ls oname old_ls Hns Hsub Hop Hobj Hold Herrs Hreq.
  pose proof (P11_proof c ev r w) as H. unfold P11 in H.
  rewrite Hns, Hsub, Hobj, Hop, Hold, Herrs, Hreq in H.
  cbn [negb orb String.eqb is_nil andb] in H.
  apply andb_true_iff in H. destruct H as [H _]. apply andb_true_iff in H. destruct H as [_ H].
  now apply Bool.eqb_prop in H.
Qed.

Lemma C11_end_to_end_update_proof : forall c relax r w name ls oname old_ls pods m,
  let x := enforce (spec_policy ls (cf_defaults c)) in
  let o := validate c (shipped_evaluator relax) r w in
  is_namespaces r = true -> r_subresource r = "" -> r_op r = OpUpdate ->
  r_object r = ONamespace name ls -> r_old r = ONamespace oname old_ls ->
  spec_errs ls = [] -> dry_run_required c r ls old_ls = true ->
  w_pods w = Some pods -> w_expire_after w = None ->
  List.length (filter (fun p => negb (s_exempt_rc c p)) pods) <= cf_max_pods c ->
  (forall p, In p pods -> s_exempt_rc c p = false -> api_valid p = true /\ relaxed_for relax p = false) ->
  effective_minor (lv_version x) = Some m ->
  rs_allowed (fst o) = true
  /\ (rs_warnings (fst o) = [] <->
      forall p, In p pods -> s_exempt_rc c p = false -> compliant (lv_level x) m p = true).
Proof.
  intros c relax r w name ls oname old_ls pods m x o Hns Hsub Hop Hobj Hold Herrs Hreq Hpods Hexp Hcap Hvalid Hm.
  pose proof (C11_reaches_dry_run_proof c (shipped_evaluator relax) r w name ls oname old_ls
                Hns Hsub Hop Hobj Hold Herrs Hreq) as Hlist.
  split.
  - pose proof (P11_proof c (shipped_evaluator relax) r w) as H. unfold P11 in H.
    rewrite Hns, Hsub, Hobj, Hop, Hold, Herrs in H.
    cbn [negb orb String.eqb is_nil andb] in H.
    apply andb_true_iff in H. destruct H as [H _]. apply andb_true_iff in H. destruct H as [H _].
    apply andb_true_iff in H. destruct H as [H _]. apply Bool.eqb_prop in H.
    subst o. cbv zeta. destruct (rs_allowed (fst (validate c (shipped_evaluator relax) r w))); [reflexivity|discriminate].
  - exact (proj1 (C11_end_to_end_proof c relax r w name ls pods m Hns Hobj Hlist Hpods Hexp Hcap Hvalid Hm)).
Qed.

(* ------------------- requests and worlds for the in-scope examples (Properties/C08, C09, C11) *)

Definition e2e_pod_request (p : pod) : request := Request "" "pods" "" "ns" "p" "u" OpCreate (OPod p) ONil None.
Definition e2e_deploy_request (p : pod) : request :=
  Request "apps" "deployments" "" "ns" "d" "u" OpCreate (OController "Deployment" (Some p)) ONil None.
Definition e2e_ns_request (new_ls old_ls : labels) : request :=
  Request "" "namespaces" "" "ns" "ns" "u" OpUpdate (ONamespace "ns" new_ls) (ONamespace "ns" old_ls) None.
Definition e2e_world (ls : labels) : world := World (Some ls) "" None None 0.
Definition e2e_ns_world (pods : list pod) : world := World None "" (Some pods) None 0.
