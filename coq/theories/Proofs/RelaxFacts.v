(** Proofs/RelaxFacts.v - property C19: the user-namespace relaxation switch
    (policy.RelaxPolicyForUserNamespacePods) is opt-in and limited to three
    check functions.  Full proofs; the statements are restated in Properties/C19.v. *)
From Coq Require Import List Bool NArith ZArith String.
From PSA Require Import Base.Str Model.Api Model.Pod Model.Checks Model.Registry Model.Shipped Spec.P02.
Import ListNotations.
Local Open Scope string_scope.

Definition waived_fns : list string := ["runAsNonRoot_1_0"; "runAsUser_1_23"; "procMount_1_0"].

Definition model_obs19 (al : allowlists) (fns : list string) (p : pod)
  : list (option bool * bool * list check_result) :=
  flat_map (fun h => map (fun r => (h, r, map (fun fn => run_check al r fn (set_hostUsers p h)) fns)) [false; true])
           [None; Some true; Some false].

(* ------------------------------------------------------------ generic helpers *)

Lemma mem_In : forall x l, mem x l = true <-> In x l.
Proof.
  intros x l. unfold mem. rewrite existsb_exists. split.
  - intros [y [Hy He]]. apply String.eqb_eq in He. subst. exact Hy.
  - intros H. exists x. split; [exact H | apply String.eqb_refl].
Qed.

Lemma mem_false_not_In : forall x l, mem x l = false <-> ~ In x l.
Proof.
  intros x l. rewrite <- mem_In. destruct (mem x l); split; intros; congruence.
Qed.

Lemma lookup_In : forall A k (m : list (string * A)) v, lookup k m = Some v -> In (k, v) m.
Proof.
  intros A k m v. induction m as [|[k' v'] m IH]; simpl; intros H; [discriminate|].
  destruct (String.eqb k k') eqn:E.
  - apply String.eqb_eq in E. inversion H. subst. left. reflexivity.
  - right. apply IH. exact H.
Qed.

Lemma cr_eqb_refl : forall x, cr_eqb x x = true.
Proof.
  intros x. unfold cr_eqb. rewrite Bool.eqb_reflx, !String.eqb_refl. reflexivity.
Qed.

Lemma list_eqb_refl : forall A (e : A -> A -> bool), (forall x, e x x = true) ->
  forall l, list_eqb e l l = true.
Proof.
  intros A e He l. induction l as [|x l IH]; simpl; [reflexivity|]. rewrite He, IH. reflexivity.
Qed.

Lemma same_refl : forall l, list_eqb cr_eqb l l = true.
Proof. apply list_eqb_refl. exact cr_eqb_refl. Qed.

(* ----------------------------------------------------------- relax_pod facts *)

Lemma relax_pod_off : forall p, relax_pod false p = false.
Proof. reflexivity. Qed.

Lemma relax_pod_on_false : forall p, pd_hostUsers p = Some false -> relax_pod true p = true.
Proof. intros p H. unfold relax_pod. rewrite H. reflexivity. Qed.

Lemma relax_pod_on_other : forall r p, pd_hostUsers p <> Some false -> relax_pod r p = false.
Proof.
  intros r p H. unfold relax_pod. destruct (pd_hostUsers p) as [[|]|]; try apply andb_false_r.
  exfalso. apply H. reflexivity.
Qed.

(* ---------------------------------------- the dictionary, entry by entry *)

(** what C19 says of one dictionary entry: the switch acts only through
    [relax_pod] and only on the three named functions, where it yields [cr_ok];
    with the switch off, hostUsers is never read. *)
Definition entry_ok (nf : string * check_fn) : Prop :=
  forall al,
    (forall r p, snd nf al r p =
                 if mem (fst nf) waived_fns && relax_pod r p then cr_ok else snd nf al false p)
    /\ (forall p h, snd nf al false (set_hostUsers p h) = snd nf al false p).

Ltac plain_entry :=
  intro al; split;
  [ intros r p; reflexivity
  | intros p h; destruct p; reflexivity ].

Ltac relax_entry f :=
  intro al; split;
  [ intros r p; cbn [fst snd]; change (mem _ waived_fns) with true; cbv beta iota delta [andb];
    unfold f; rewrite relax_pod_off; destruct (relax_pod r p); reflexivity
  | intros p h; cbn [fst snd]; unfold f; rewrite !relax_pod_off; destruct p; reflexivity ].

Lemma dictionary_ok : Forall entry_ok check_dictionary.
Proof.
  unfold check_dictionary.
  repeat (apply Forall_cons;
          [ first [ plain_entry
                  | relax_entry procMount_1_0
                  | relax_entry runAsNonRoot_1_0
                  | relax_entry runAsUser_1_23 ] | ]).
  apply Forall_nil.
Qed.

Lemma lookup_check_ok : forall fn f, lookup_check fn = Some f -> entry_ok (fn, f).
Proof.
  intros fn f H. apply lookup_In in H.
  exact (proj1 (Forall_forall entry_ok check_dictionary) dictionary_ok (fn, f) H).
Qed.

Lemma check_relax_form : forall al fn f, lookup_check fn = Some f ->
  (forall r p, f al r p = if mem fn waived_fns && relax_pod r p then cr_ok else f al false p)
  /\ (forall p h, f al false (set_hostUsers p h) = f al false p).
Proof. intros al fn f H. exact (lookup_check_ok fn f H al). Qed.

(* ------------------------------------------------- per-function theorems *)

Theorem C19_off_proof : forall al fn f p h,
  lookup_check fn = Some f -> f al false (set_hostUsers p h) = f al false p.
Proof. intros al fn f p h H. exact (proj2 (check_relax_form al fn f H) p h). Qed.

Theorem C19_on_unaffected_proof : forall al fn f p,
  lookup_check fn = Some f -> pd_hostUsers p <> Some false -> f al true p = f al false p.
Proof.
  intros al fn f p H Hh. rewrite (proj1 (check_relax_form al fn f H) true p).
  rewrite (relax_pod_on_other true p Hh), andb_false_r. reflexivity.
Qed.

Theorem C19_on_three_proof : forall al fn f p,
  lookup_check fn = Some f -> pd_hostUsers p = Some false ->
  (In fn waived_fns -> f al true p = cr_ok) /\ (~ In fn waived_fns -> f al true p = f al false p).
Proof.
  intros al fn f p H Hh. pose proof (proj1 (check_relax_form al fn f H) true p) as E.
  rewrite (relax_pod_on_false p Hh), andb_true_r in E. split; intros Hin.
  - apply mem_In in Hin. rewrite Hin in E. exact E.
  - apply mem_false_not_In in Hin. rewrite Hin in E. exact E.
Qed.

(* ------------------------------------------------------ run_check level *)

Lemma waived_bound : forall fn, lookup_check fn = None -> mem fn waived_fns = false.
Proof.
  intros fn H. apply mem_false_not_In. intros Hin. unfold waived_fns in Hin. simpl in Hin.
  destruct Hin as [E|[E|[E|[]]]]; subst fn; vm_compute in H; discriminate.
Qed.

Lemma run_check_relax_form : forall al r fn p,
  run_check al r fn p = if mem fn waived_fns && relax_pod r p then cr_ok else run_check al false fn p.
Proof.
  intros al r fn p. unfold run_check. destruct (lookup_check fn) as [f|] eqn:E.
  - exact (proj1 (check_relax_form al fn f E) r p).
  - rewrite (waived_bound fn E). reflexivity.
Qed.

Lemma run_check_off : forall al fn p h,
  run_check al false fn (set_hostUsers p h) = run_check al false fn p.
Proof.
  intros al fn p h. unfold run_check. destruct (lookup_check fn) as [f|] eqn:E.
  - exact (proj2 (check_relax_form al fn f E) p h).
  - reflexivity.
Qed.

Lemma run_check_on_unaffected : forall al fn p, pd_hostUsers p <> Some false ->
  run_check al true fn p = run_check al false fn p.
Proof.
  intros al fn p H. rewrite run_check_relax_form, (relax_pod_on_other true p H), andb_false_r.
  reflexivity.
Qed.

Lemma run_check_on : forall al fn p, pd_hostUsers p = Some false ->
  run_check al true fn p = if mem fn waived_fns then cr_ok else run_check al false fn p.
Proof.
  intros al fn p H. rewrite run_check_relax_form, (relax_pod_on_false p H), andb_true_r.
  reflexivity.
Qed.

(* ------------------------------------------------------ evaluator level *)

Theorem C19_eval_off_proof : forall al cs l v p h,
  evaluate_pod al false cs l v (set_hostUsers p h) = evaluate_pod al false cs l v p.
Proof.
  intros. unfold evaluate_pod. apply map_ext. intros x. apply run_check_off.
Qed.

Theorem C19_eval_on_unaffected_proof : forall al cs l v p, pd_hostUsers p <> Some false ->
  evaluate_pod al true cs l v p = evaluate_pod al false cs l v p.
Proof.
  intros al cs l v p H. unfold evaluate_pod. apply map_ext. intros x.
  apply run_check_on_unaffected. exact H.
Qed.

Theorem C19_eval_on_proof : forall al cs l v p, pd_hostUsers p = Some false ->
  evaluate_pod al true cs l v p =
  map (fun x => if mem (vc_fn (snd x)) waived_fns then cr_ok else run_check al false (vc_fn (snd x)) p)
      (resolve cs l v).
Proof.
  intros al cs l v p H. unfold evaluate_pod. apply map_ext. intros x.
  apply run_check_on. exact H.
Qed.

Theorem C19_relax_monotone_proof : forall al cs l v p,
  eval_allowed al false cs l v p = true -> eval_allowed al true cs l v p = true.
Proof.
  intros al cs l v p. unfold eval_allowed, evaluate_pod.
  induction (resolve cs l v) as [|x xs IH]; simpl; [reflexivity|].
  intros H. apply andb_true_iff in H. destruct H as [H1 H2].
  rewrite (IH H2), andb_true_r. rewrite run_check_relax_form.
  destruct (mem (vc_fn (snd x)) waived_fns && relax_pod true p); [reflexivity | exact H1].
Qed.

(* ------------------------------------------------------------- P19 *)

Lemma obs_get_model : forall al fns p h r,
  obs_get h r (model_obs19 al fns p) = map (fun fn => run_check al r fn (set_hostUsers p h)) fns.
Proof. intros al fns p [[|]|] [|]; reflexivity. Qed.

Lemma pd_hostUsers_set : forall p h, pd_hostUsers (set_hostUsers p h) = h.
Proof. reflexivity. Qed.

Lemma obs_row_off : forall al fns p h,
  map (fun fn => run_check al false fn (set_hostUsers p h)) fns = map (fun fn => run_check al false fn p) fns.
Proof. intros. apply map_ext. intros fn. apply run_check_off. Qed.

Lemma obs_row_on_unaffected : forall al fns p h, h <> Some false ->
  map (fun fn => run_check al true fn (set_hostUsers p h)) fns = map (fun fn => run_check al false fn p) fns.
Proof.
  intros al fns p h H. apply map_ext. intros fn.
  rewrite run_check_on_unaffected by (rewrite pd_hostUsers_set; exact H). apply run_check_off.
Qed.

Lemma obs_row_on : forall al fns p,
  map (fun fn => run_check al true fn (set_hostUsers p (Some false))) fns =
  map (fun fn => if mem fn waived_fns then cr_ok else run_check al false fn p) fns.
Proof.
  intros al fns p. apply map_ext. intros fn.
  rewrite run_check_on by reflexivity. rewrite run_check_off. reflexivity.
Qed.

Lemma waive_combine : forall (g : string -> check_result) (ids fns : list string),
  List.length ids = List.length fns ->
  (forall id fn, In (id, fn) (combine ids fns) -> mem id waived_controls = mem fn waived_fns) ->
  map (fun x : string * check_result => if mem (fst x) waived_controls then cr_ok else snd x)
      (combine ids (map g fns))
  = map (fun fn => if mem fn waived_fns then cr_ok else g fn) fns.
Proof.
  intros g ids. induction ids as [|id ids IH]; intros [|fn fns] Hlen Hm; simpl in *; try discriminate.
  - reflexivity.
  - rewrite (Hm id fn (or_introl eq_refl)). f_equal.
    apply IH; [congruence|]. intros id' fn' Hin. apply Hm. right. exact Hin.
Qed.

Theorem C19_P19_proof : forall al (ids fns : list string) p,
  List.length ids = List.length fns ->
  (forall id fn, In (id, fn) (combine ids fns) -> mem id waived_controls = mem fn waived_fns) ->
  P19 ids (model_obs19 al fns p) = true.
Proof.
  intros al ids fns p Hlen Hm. unfold P19. cbv zeta. rewrite !obs_get_model.
  rewrite !obs_row_off, obs_row_on.
  rewrite !obs_row_on_unaffected by discriminate.
  rewrite (waive_combine (fun fn => run_check al false fn p) ids fns Hlen Hm).
  rewrite !same_refl, map_length, <- Hlen, Nat.eqb_refl. reflexivity.
Qed.

(* ------------------------------------------------------- non-vacuity *)

Definition no_lists : allowlists := AllowLists [] [] [] [] [] [] [].

(** hostUsers=false, one privileged container running as uid 0 (no runAsNonRoot)
    with procMount Unmasked *)
Definition c19_example_pod : pod :=
  Pod "userns" [] None false false false (Some false) None None []
      [Container "c" "img" []
         (Some (SecCtx (Some true) None None (Some 0%Z) (Some "Unmasked") None None None None None))]
      [] [] None.

Lemma C19_example_proof : exists p : pod, pd_hostUsers p = Some false /\
   cr_allowed (runAsNonRoot_1_0 (AllowLists [] [] [] [] [] [] []) false p) = false /\
   cr_allowed (runAsUser_1_23 (AllowLists [] [] [] [] [] [] []) false p) = false /\
   cr_allowed (procMount_1_0 (AllowLists [] [] [] [] [] [] []) false p) = false /\
   cr_allowed (runAsNonRoot_1_0 (AllowLists [] [] [] [] [] [] []) true p) = true /\
   cr_allowed (runAsUser_1_23 (AllowLists [] [] [] [] [] [] []) true p) = true /\
   cr_allowed (procMount_1_0 (AllowLists [] [] [] [] [] [] []) true p) = true /\
   cr_allowed (privileged_1_0 (AllowLists [] [] [] [] [] [] []) true p) = false.
Proof. exists c19_example_pod. repeat split; vm_compute; reflexivity. Qed.
