(** Proofs/WireFacts.v - what the admission library can and cannot see of an AdmissionRequest. *)
From Coq Require Import List Bool NArith ZArith String.
From PSA Require Import Base.Str Model.Api Model.Pod Model.Checks Model.Registry Model.Admission Model.Namespace Model.Wire.
Import ListNotations.
Local Open Scope string_scope.

(** two requests that agree on the fields the adapter reads *)
Definition same_view (a b : admission_request) : Prop :=
  ar_group a = ar_group b /\ ar_resource a = ar_resource b /\ ar_request_subresource a = ar_request_subresource b
  /\ ar_name a = ar_name b /\ ar_namespace a = ar_namespace b /\ ar_operation a = ar_operation b
  /\ ar_username a = ar_username b /\ ar_object a = ar_object b /\ ar_old_object a = ar_old_object b.

Lemma attributes_same_view a b dl : same_view a b -> attributes_of a dl = attributes_of b dl.
Proof.
  intros (H1 & H2 & H3 & H4 & H5 & H6 & H7 & H8 & H9). unfold attributes_of.
  rewrite H1, H2, H3, H4, H5, H6, H7, H8, H9. reflexivity.
Qed.

(** the answer does not depend on the review's uid, the user's uid and groups, the subResource /
    requestResource fields: exemptions are by user NAME only, the subresource judged is requestSubResource *)
Lemma validate_same_view c ev w a b dl : same_view a b ->
  validate c ev (attributes_of a dl) w = validate c ev (attributes_of b dl) w.
Proof. intros H. rewrite (attributes_same_view a b dl H). reflexivity. Qed.

Lemma wire_username_exact a dl : r_user (attributes_of a dl) = ar_username a.
Proof. reflexivity. Qed.
Lemma wire_subresource_exact a dl : r_subresource (attributes_of a dl) = ar_request_subresource a.
Proof. reflexivity. Qed.

(** absent bytes are a nil object, undecodable bytes a decode error, and nothing else is either *)
Lemma wire_decode_nil r : decode r = ONil <-> (r = RawAbsent \/ r = RawObject ONil).
Proof.
  destruct r as [|e|o]; cbn; split; intros H.
  - left; reflexivity.
  - reflexivity.
  - discriminate.
  - destruct H as [H|H]; discriminate.
  - right; rewrite H; reflexivity.
  - destruct H as [H|H]; [discriminate|inversion H; reflexivity].
Qed.

(** an UPDATE's old object is the old object (not the new one) *)
Lemma wire_old_object a dl : r_old (attributes_of a dl) = decode (ar_old_object a) /\ r_object (attributes_of a dl) = decode (ar_object a).
Proof. split; reflexivity. Qed.
