(** Proofs/C03_table.v - the side conditions of C03 computed on the check table
    and allow-lists regenerated from the source (Gen/), and the shipped
    instances of the table-parametric theorems of Proofs/StandardFacts.v.
    Each obligation is a closed boolean evaluated by [vm_compute]: a change of
    the generated table that falsifies one of them breaks exactly that lemma. *)
From Coq Require Import List Bool NArith String.
From PSA Require Import Base.Str Model.Api Model.Pod Model.Checks Model.Registry Model.Shipped
     Spec.P05 Spec.P02 Spec.P04 Proofs.ChecksFacts Proofs.StandardFacts.
Import ListNotations.
Local Open Scope string_scope.

(** the shipped table passes validation (C04's hypothesis) *)
Lemma shipped_well_formed : well_formed shipped_checks = true.
Proof. vm_compute. reflexivity. Qed.

(** ... and uses a single major version (remark R1) *)
Lemma shipped_majors_one : majors_one shipped_checks = true.
Proof. vm_compute. reflexivity. Qed.

(** NET_BIND_SERVICE, the one capability the restricted level lets a container
    add, is in the baseline allow-list *)
Lemma shipped_net_bind_service : mem "NET_BIND_SERVICE" (al_caps shipped_lists) = true.
Proof. vm_compute. reflexivity. Qed.

(** at every populated minor, each restricted revision that overrides the id of
    a baseline revision in force is one of the five pairs for which
    Proofs/ChecksFacts.v proves the implication *)
Lemma shipped_pairs_ok : pairs_ok known_pairs shipped_checks = true.
Proof. vm_compute. reflexivity. Qed.

Theorem shipped_levels_ordered : forall relax v p, api_valid p = true ->
  eval_allowed shipped_lists relax shipped_checks Restricted v p = true ->
  eval_allowed shipped_lists relax shipped_checks Baseline v p = true.
Proof.
  intros relax v p.
  exact (levels_ordered_known_pairs shipped_lists relax shipped_checks v p
           shipped_well_formed shipped_majors_one shipped_net_bind_service shipped_pairs_ok).
Qed.

Theorem shipped_relaxation_safe : forall relax v p (l l' : level), api_valid p = true ->
  (strictness l' <= strictness l)%N ->
  eval_allowed shipped_lists relax shipped_checks l v p = true ->
  eval_allowed shipped_lists relax shipped_checks l' v p = true.
Proof.
  intros relax v p l l'.
  exact (relaxation_safe_known_pairs shipped_lists relax shipped_checks v p l l'
           shipped_well_formed shipped_majors_one shipped_net_bind_service shipped_pairs_ok).
Qed.

Theorem shipped_P03 : forall relax v p,
  P03 p (eval_allowed shipped_lists relax shipped_checks Restricted v p)
        (eval_allowed shipped_lists relax shipped_checks Baseline v p) = true.
Proof.
  intros relax v p.
  exact (P03_generic shipped_lists relax shipped_checks v p
           shipped_well_formed shipped_majors_one shipped_net_bind_service shipped_pairs_ok).
Qed.

(** the validity hypothesis is the property's own: a pod with a two-source
    volume (emptyDir + hostPath), which API validation rejects, is allowed at
    Restricted v1.0 and denied at Baseline v1.0 *)
Example shipped_hypotheses_needed : exists p v, api_valid p = false /\
  eval_allowed shipped_lists false shipped_checks Restricted v p = true /\
  eval_allowed shipped_lists false shipped_checks Baseline v p = false.
Proof.
  exists (Pod "p" [] None false false false None None None [] [] []
              [Volume "v" ["hostPath"; "emptyDir"]]
              (Some (PodSC (Some true) None None None None [] None))),
         (V 1 0).
  vm_compute. repeat split.
Qed.
