(** Proofs/ConfigFacts.v - facts about Model/Config.v needed by property C17:
    [load] decides the specification's [s_acceptable] and returns [s_loaded];
    [validate_config] is empty exactly on [s_valid]; an accepted configuration
    converts to the policy it states. *)
From Coq Require Import List Bool NArith Arith Ascii String Lia Btauto.
From PSA Require Import Base.Str Model.Api Model.Config Spec.P05 Spec.P17.
From PSA Require Import Proofs.StrFacts Proofs.ApiFacts.
Import ListNotations.
Local Open Scope string_scope.

(** * Generic list facts *)

Lemma cf_forallb_andb {A} (f g : A -> bool) (l : list A) :
  forallb (fun x => f x && g x) l = forallb f l && forallb g l.
Proof.
  induction l as [|a l IH]; [reflexivity|].
  cbn [forallb]. rewrite IH. btauto.
Qed.

Lemma cf_forallb_map {A B} (f : B -> bool) (g : A -> B) (l : list A) :
  forallb f (map g l) = forallb (fun x => f (g x)) l.
Proof. induction l as [|a l IH]; [reflexivity|]. cbn [map forallb]. now rewrite IH. Qed.

Lemma cf_is_nil_app {A} (a b : list A) : is_nil (a +:+ b) = is_nil a && is_nil b.
Proof. destruct a; reflexivity. Qed.

Lemma cf_length_is_nil {A} (l : list A) : Nat.eqb (List.length l) 0 = is_nil l.
Proof. destruct l; reflexivity. Qed.

Lemma existsb_filter {A} (g p : A -> bool) (l : list A) :
  (forall m, p m = false -> g m = false) -> existsb g l = existsb g (filter p l).
Proof.
  intros H. induction l as [|a l IH]; [reflexivity|].
  cbn [existsb filter]. destruct (p a) eqn:E.
  - cbn [existsb]. now rewrite IH.
  - now rewrite (H a E), IH.
Qed.

Lemma flat_map_filter {A B} (f : A -> list B) (p : A -> bool) (l : list A) :
  (forall m, p m = false -> f m = []) -> flat_map f l = flat_map f (filter p l).
Proof.
  intros H. induction l as [|a l IH]; [reflexivity|].
  cbn [flat_map filter]. destruct (p a) eqn:E.
  - cbn [flat_map]. now rewrite IH.
  - now rewrite (H a E), IH.
Qed.

(** * [count_key] and [has_dup] *)

Lemma count_key_cons k x l :
  count_key k (x :: l) = (if String.eqb k x then 1 else 0) + count_key k l.
Proof. unfold count_key. cbn [filter]. destruct (String.eqb k x); reflexivity. Qed.

Lemma count_key_mem k l : mem k l = negb (Nat.eqb (count_key k l) 0).
Proof.
  induction l as [|x l IH]; [reflexivity|].
  rewrite count_key_cons. unfold mem in *. cbn [existsb]. rewrite IH.
  destruct (String.eqb k x); reflexivity.
Qed.

Lemma count_key_not_mem k l : mem k l = false -> count_key k l = 0.
Proof.
  rewrite count_key_mem. intros H. apply Bool.negb_false_iff in H.
  now apply Nat.eqb_eq in H.
Qed.

Lemma count_key_In k l : In k l -> 1 <= count_key k l.
Proof.
  intros H. apply mem_In in H. rewrite count_key_mem in H.
  apply Bool.negb_true_iff, Nat.eqb_neq in H. lia.
Qed.

Lemma no_dup_count l : has_dup l = false -> forall k, In k l -> count_key k l = 1.
Proof.
  induction l as [|x l IH]; intros H k Hk; [destruct Hk|].
  cbn [has_dup] in H. apply Bool.orb_false_iff in H. destruct H as [Hx Hl].
  rewrite count_key_cons. destruct (String.eqb k x) eqn:E.
  - apply String.eqb_eq in E. subst k. now rewrite (count_key_not_mem _ _ Hx).
  - destruct Hk as [Hk|Hk]; [subst k; now rewrite String.eqb_refl in E|].
    now rewrite (IH Hl k Hk).
Qed.

Lemma count_no_dup l : (forall k, In k l -> count_key k l = 1) -> has_dup l = false.
Proof.
  induction l as [|x l IH]; intros H; [reflexivity|].
  cbn [has_dup]. apply Bool.orb_false_iff. split.
  - specialize (H x (or_introl eq_refl)). rewrite count_key_cons, String.eqb_refl in H.
    rewrite count_key_mem. apply Bool.negb_false_iff, Nat.eqb_eq. lia.
  - apply IH. intros k Hk. specialize (H k (or_intror Hk)).
    rewrite count_key_cons in H. pose proof (count_key_In k l Hk).
    destruct (String.eqb k x); lia.
Qed.

Lemma forallb_count_no_dup l :
  forallb (fun k => Nat.eqb (count_key k l) 1) l = negb (has_dup l).
Proof.
  apply Bool.eq_true_iff_eq. rewrite forallb_forall, Bool.negb_true_iff. split.
  - intros H. apply count_no_dup. intros k Hk. now apply Nat.eqb_eq, H.
  - intros H k Hk. apply Nat.eqb_eq. now apply no_dup_count.
Qed.

Lemma forallb_mem_count (P : string -> bool) l :
  forallb (fun k => P k && Nat.eqb (count_key k l) 1) l = forallb P l && negb (has_dup l).
Proof. now rewrite cf_forallb_andb, forallb_count_no_dup. Qed.

Lemma forallb_fst_count {A} (P : string -> bool) (es : list (string * A)) :
  forallb (fun e => P (fst e) && Nat.eqb (count_key (fst e) (map fst es)) 1) es
  = negb (has_dup (map fst es)) && forallb (fun e => P (fst e)) es.
Proof.
  rewrite <- (cf_forallb_map (fun k => P k && Nat.eqb (count_key k (map fst es)) 1) fst es).
  rewrite forallb_mem_count, cf_forallb_map. apply Bool.andb_comm.
Qed.

(** * Prefixes *)

Lemma eqb_strip_prefix p : forall s v,
  String.eqb s (p ++ v) = match strip_prefix p s with Some r => String.eqb r v | None => false end.
Proof.
  induction p as [|a p IH]; intros s v; [reflexivity|].
  destruct s as [|b s]; [reflexivity|].
  cbn [append strip_prefix String.eqb]. rewrite (Ascii.eqb_sym a b).
  destruct (Ascii.eqb b a); [apply IH|reflexivity].
Qed.

(** * Members of a document without duplicated keys *)

Definition is_api (m : member) : bool := match m with MApiVersion _ => true | _ => false end.
Definition is_kind (m : member) : bool := match m with MKind _ => true | _ => false end.
Definition is_defaults (m : member) : bool := match m with MDefaults _ => true | _ => false end.
Definition is_exemptions (m : member) : bool := match m with MExemptions _ => true | _ => false end.

Lemma filter_nil_in {A} (p : A -> bool) (l : list A) :
  (forall m, In m l -> p m = false) -> filter p l = [].
Proof.
  induction l as [|a l IH]; intros H; [reflexivity|].
  cbn [filter]. rewrite (H a (or_introl eq_refl)). apply IH. intros m Hm. apply H. now right.
Qed.

(** a predicate that selects members of one key selects at most one member *)
Lemma filter_find_unique (p : member -> bool) (K : string) (d : list member) :
  (forall m, p m = true -> member_key m = K) ->
  has_dup (map member_key d) = false ->
  filter p d = match find p d with Some m => [m] | None => [] end.
Proof.
  intros HK. induction d as [|a d IH]; intros H; [reflexivity|].
  cbn [map has_dup] in H. apply Bool.orb_false_iff in H. destruct H as [Ha Hd].
  cbn [filter find]. destruct (p a) eqn:E; [|now apply IH].
  f_equal. apply filter_nil_in. intros m Hm.
  destruct (p m) eqn:Em; [exfalso|reflexivity].
  apply mem_false_iff in Ha. apply Ha.
  rewrite (HK a E), <- (HK m Em). now apply in_map.
Qed.

Lemma is_api_key m : is_api m = true -> member_key m = "apiVersion".
Proof. destruct m; (discriminate || reflexivity). Qed.
Lemma is_kind_key m : is_kind m = true -> member_key m = "kind".
Proof. destruct m; (discriminate || reflexivity). Qed.
Lemma is_defaults_key m : is_defaults m = true -> member_key m = "defaults".
Proof. destruct m; (discriminate || reflexivity). Qed.
Lemma is_exemptions_key m : is_exemptions m = true -> member_key m = "exemptions".
Proof. destruct m; (discriminate || reflexivity). Qed.

(** * [strict_ok] and [s_acceptable] *)

Definition reserved_keys : list string := ["apiVersion"; "kind"; "defaults"; "exemptions"].

(** an abstract document is well tagged when no member presented as "unknown"
    carries one of the four known names (a member with such a name IS that member) *)
Definition well_tagged (d : list member) : Prop :=
  forallb (fun m => match m with MUnknown k => negb (mem k reserved_keys) | _ => true end) d = true.

Definition well_tagged_input (i : input) : Prop :=
  match i with InDoc d => well_tagged d | _ => True end.

Definition not_unknown (m : member) : bool := match m with MUnknown _ => false | _ => true end.
Definition nested_ok (m : member) : bool :=
  match m with
  | MDefaults es => negb (has_dup (map fst es)) && forallb (fun e => mem (fst e) default_keys) es
  | MExemptions es => negb (has_dup (map fst es)) && forallb (fun e => mem (fst e) exemption_keys) es
  | _ => true
  end.

Lemma strict_ok_split d :
  strict_ok d = negb (has_dup (map member_key d)) && forallb not_unknown d && forallb nested_ok d.
Proof.
  unfold strict_ok. rewrite <- Bool.andb_assoc. f_equal.
  rewrite <- cf_forallb_andb. apply forallb_ext. intros []; reflexivity.
Qed.

(** the two existence conjuncts of the specification *)
Definition spec_has_version (d : list member) : bool :=
  existsb (fun m => match m with
                    | MApiVersion v => existsb (fun sv => String.eqb v ((config_group ++ "/") ++ sv)) served_versions
                    | _ => false end) d.
Definition spec_has_kind (d : list member) : bool :=
  existsb (fun m => match m with MKind k => String.eqb k config_kind | _ => false end) d.

Lemma s_acceptable_split d :
  s_acceptable d =
  forallb (fun m => mem (member_key m) reserved_keys) d && negb (has_dup (map member_key d))
  && spec_has_version d && spec_has_kind d && forallb nested_ok d.
Proof.
  unfold s_acceptable. cbv zeta.
  rewrite forallb_mem_count, cf_forallb_map.
  f_equal. apply forallb_ext. intros [v|k|es|es|k]; try reflexivity.
  - apply (forallb_fst_count (fun k => mem k default_keys)).
  - apply (forallb_fst_count (fun k => mem k exemption_keys)).
Qed.

Lemma not_unknown_reserved d :
  forallb not_unknown d = true -> forallb (fun m => mem (member_key m) reserved_keys) d = true.
Proof.
  rewrite !forallb_forall. intros H m Hm. specialize (H m Hm).
  destruct m; (discriminate || reflexivity).
Qed.

Lemma well_tagged_reserved d : well_tagged d ->
  forallb (fun m => mem (member_key m) reserved_keys) d = forallb not_unknown d.
Proof.
  unfold well_tagged. intros H. apply forallb_ext_in. intros m Hm.
  rewrite forallb_forall in H. specialize (H m Hm).
  destruct m; try reflexivity. cbn [member_key not_unknown].
  now apply Bool.negb_true_iff in H.
Qed.

(** * The body of [load] *)

Definition load_test (d : list member) : bool :=
  match find_api_version d, find_kind d with
  | Some av, Some k =>
      match strip_prefix (config_group ++ "/") av with
      | Some v => mem v served_versions && String.eqb k config_kind
      | None => false
      end
  | _, _ => false
  end.

Lemma load_doc d :
  load (InDoc d) = if strict_ok d && load_test d
                   then Some (set_defaults "v1" (defaults_of d) (exemptions_of d)) else None.
Proof.
  unfold load, load_test. destruct (strict_ok d); [|reflexivity]. cbn [negb andb].
  destruct (find_api_version d) as [av|]; [|reflexivity].
  destruct (find_kind d) as [k|]; [|reflexivity].
  destruct (strip_prefix (config_group ++ "/") av) as [v|]; [|reflexivity].
  destruct (mem v served_versions && String.eqb k config_kind); reflexivity.
Qed.

Lemma served_strip av :
  existsb (fun sv => String.eqb av ((config_group ++ "/") ++ sv)) served_versions
  = match strip_prefix (config_group ++ "/") av with Some v => mem v served_versions | None => false end.
Proof.
  unfold served_versions, mem. cbn [existsb]. rewrite !eqb_strip_prefix.
  destruct (strip_prefix (config_group ++ "/") av); reflexivity.
Qed.

Lemma spec_has_version_find d : has_dup (map member_key d) = false ->
  spec_has_version d = match find_api_version d with
                       | Some av => match strip_prefix (config_group ++ "/") av with
                                    | Some v => mem v served_versions | None => false end
                       | None => false end.
Proof.
  intros H. unfold spec_has_version, find_api_version.
  rewrite (existsb_filter _ is_api); [|intros []; (discriminate || reflexivity)].
  rewrite (filter_find_unique is_api _ d is_api_key H).
  change (fun m : member => match m with MApiVersion _ => true | _ => false end) with is_api.
  destruct (find is_api d) as [m|] eqn:E; [|reflexivity].
  apply find_some in E. destruct E as [_ E]. destruct m; try discriminate.
  cbn [existsb]. rewrite Bool.orb_false_r. apply served_strip.
Qed.

Lemma spec_has_kind_find d : has_dup (map member_key d) = false ->
  spec_has_kind d = match find_kind d with Some k => String.eqb k config_kind | None => false end.
Proof.
  intros H. unfold spec_has_kind, find_kind.
  rewrite (existsb_filter _ is_kind); [|intros []; (discriminate || reflexivity)].
  rewrite (filter_find_unique is_kind _ d is_kind_key H).
  change (fun m : member => match m with MKind _ => true | _ => false end) with is_kind.
  destruct (find is_kind d) as [m|] eqn:E; [|reflexivity].
  apply find_some in E. destruct E as [_ E]. destruct m; try discriminate.
  cbn [existsb]. apply Bool.orb_false_r.
Qed.

Lemma load_test_spec d : has_dup (map member_key d) = false ->
  load_test d = spec_has_version d && spec_has_kind d.
Proof.
  intros H. rewrite (spec_has_version_find d H), (spec_has_kind_find d H). unfold load_test.
  destruct (find_api_version d) as [av|]; [|reflexivity].
  destruct (find_kind d) as [k|].
  - destruct (strip_prefix (config_group ++ "/") av) as [v|]; reflexivity.
  - destruct (strip_prefix (config_group ++ "/") av) as [v|]; [|reflexivity].
    now rewrite Bool.andb_false_r.
Qed.

(** acceptance: [load] succeeds only on acceptable documents (unconditionally) ... *)
Lemma load_accept_sound d : is_some (load (InDoc d)) = true -> s_acceptable d = true.
Proof.
  rewrite load_doc, s_acceptable_split, strict_ok_split.
  destruct (has_dup (map member_key d)) eqn:Hd; [discriminate|].
  rewrite (load_test_spec d Hd). cbn [negb andb].
  destruct (forallb not_unknown d) eqn:Hu; [|discriminate].
  rewrite (not_unknown_reserved d Hu). cbn [andb].
  destruct (forallb nested_ok d); [|discriminate]. rewrite Bool.andb_true_r.
  destruct (spec_has_version d && spec_has_kind d); [reflexivity|discriminate].
Qed.

(** ... and on all of them when the document is well tagged *)
Lemma C17_accept_iff_proof d : well_tagged d -> is_some (load (InDoc d)) = s_acceptable d.
Proof.
  intros W. rewrite load_doc, s_acceptable_split, strict_ok_split, (well_tagged_reserved d W).
  destruct (has_dup (map member_key d)) eqn:Hd.
  - cbn [negb andb]. now rewrite Bool.andb_false_r.
  - rewrite (load_test_spec d Hd). cbn [negb andb].
    destruct (forallb not_unknown d), (forallb nested_ok d), (spec_has_version d), (spec_has_kind d);
      reflexivity.
Qed.

(** * [set_defaults] and [s_loaded] *)

Lemma find_fst_lookup {A B} (k : string) (es : list (string * A)) (g : A -> B) (z : B) :
  match find (fun e : string * A => String.eqb (fst e) k) es with Some (_, v) => g v | None => z end
  = match lookup k es with Some v => g v | None => z end.
Proof.
  induction es as [|[k' v] es IH]; [reflexivity|].
  cbn [find lookup fst]. rewrite (String.eqb_sym k' k).
  destruct (String.eqb k k'); [reflexivity|apply IH].
Qed.

Lemma defaults_flat d : has_dup (map member_key d) = false ->
  flat_map (fun m => match m with MDefaults es => es | _ => [] end) d = defaults_of d.
Proof.
  intros H. unfold defaults_of.
  rewrite (flat_map_filter _ is_defaults); [|intros []; (discriminate || reflexivity)].
  rewrite (filter_find_unique is_defaults _ d is_defaults_key H).
  change (fun m : member => match m with MDefaults _ => true | _ => false end) with is_defaults.
  destruct (find is_defaults d) as [m|] eqn:E; [|reflexivity].
  apply find_some in E. destruct E as [_ E]. destruct m; try discriminate.
  cbn [flat_map]. apply app_nil_r.
Qed.

Lemma exemptions_flat d : has_dup (map member_key d) = false ->
  flat_map (fun m => match m with MExemptions es => es | _ => [] end) d = exemptions_of d.
Proof.
  intros H. unfold exemptions_of.
  rewrite (flat_map_filter _ is_exemptions); [|intros []; (discriminate || reflexivity)].
  rewrite (filter_find_unique is_exemptions _ d is_exemptions_key H).
  change (fun m : member => match m with MExemptions _ => true | _ => false end) with is_exemptions.
  destruct (find is_exemptions d) as [m|] eqn:E; [|reflexivity].
  apply find_some in E. destruct E as [_ E]. destruct m; try discriminate.
  cbn [flat_map]. apply app_nil_r.
Qed.

Lemma s_value_level k d : has_dup (map member_key d) = false ->
  s_value k "privileged" d = default_level (str_field k (defaults_of d)).
Proof.
  intros H. unfold s_value, default_level, str_field. rewrite (defaults_flat d H).
  rewrite (find_fst_lookup k (defaults_of d) (fun v => if String.eqb v "" then "privileged" else v)).
  destruct (lookup k (defaults_of d)); reflexivity.
Qed.

Lemma s_value_version k d : has_dup (map member_key d) = false ->
  s_value k "latest" d = default_version (str_field k (defaults_of d)).
Proof.
  intros H. unfold s_value, default_version, str_field. rewrite (defaults_flat d H).
  rewrite (find_fst_lookup k (defaults_of d) (fun v => if String.eqb v "" then "latest" else v)).
  destruct (lookup k (defaults_of d)); reflexivity.
Qed.

Lemma s_list_field k d : has_dup (map member_key d) = false ->
  s_list k d = list_field k (exemptions_of d).
Proof.
  intros H. unfold s_list, list_field. rewrite (exemptions_flat d H).
  apply (find_fst_lookup k (exemptions_of d) (fun v => v)).
Qed.

Lemma s_loaded_set_defaults v d : has_dup (map member_key d) = false ->
  s_loaded d = set_defaults v (defaults_of d) (exemptions_of d).
Proof.
  intros H. unfold s_loaded, set_defaults.
  now rewrite !(s_value_level _ d H), !(s_value_version _ d H), !(s_list_field _ d H).
Qed.

Lemma load_Some_loaded d c : load (InDoc d) = Some c -> c = s_loaded d.
Proof.
  rewrite load_doc, strict_ok_split.
  destruct (has_dup (map member_key d)) eqn:Hd; [discriminate|].
  destruct (_ && _); [|discriminate]. intros E. inversion E.
  symmetry. now apply s_loaded_set_defaults.
Qed.

Lemma loaded_eqb_refl c : loaded_eqb c c = true.
Proof. unfold loaded_eqb. rewrite !String.eqb_refl, !(list_eqb_refl _ String.eqb_refl). reflexivity. Qed.

Lemma C17_load_proof i : well_tagged_input i -> P17_load i (load i) = true.
Proof.
  destruct i as [| |d]; intros W.
  - vm_compute. reflexivity.
  - reflexivity.
  - cbn [well_tagged_input] in W. unfold P17_load.
    rewrite <- (C17_accept_iff_proof d W).
    destruct (load (InDoc d)) as [c|] eqn:E; [|reflexivity].
    cbn [is_some]. rewrite (load_Some_loaded d c E). apply loaded_eqb_refl.
Qed.

(** * Served versions *)

Definition with_version (v : string) (d : list member) : list member :=
  map (fun m => match m with MApiVersion _ => MApiVersion (config_group ++ "/" ++ v) | _ => m end) d.

Lemma with_version_keys v d : map member_key (with_version v d) = map member_key d.
Proof.
  unfold with_version. rewrite map_map. apply map_ext. intros []; reflexivity.
Qed.

Lemma with_version_strict v d : strict_ok (with_version v d) = strict_ok d.
Proof.
  unfold strict_ok. rewrite with_version_keys. f_equal.
  unfold with_version. rewrite cf_forallb_map. apply forallb_ext. intros []; reflexivity.
Qed.

Lemma with_version_api v d :
  find_api_version (with_version v d)
  = match find_api_version d with Some _ => Some (config_group ++ "/" ++ v) | None => None end.
Proof.
  unfold find_api_version, with_version.
  induction d as [|a d IH]; [reflexivity|].
  cbn [map find]. destruct a; try apply IH; reflexivity.
Qed.

Lemma with_version_kind v d : find_kind (with_version v d) = find_kind d.
Proof.
  unfold find_kind, with_version.
  induction d as [|a d IH]; [reflexivity|].
  cbn [map find]. destruct a; try apply IH; reflexivity.
Qed.

Lemma with_version_defaults v d : defaults_of (with_version v d) = defaults_of d.
Proof.
  unfold defaults_of, with_version.
  induction d as [|a d IH]; [reflexivity|].
  cbn [map find]. destruct a; try apply IH; reflexivity.
Qed.

Lemma with_version_exemptions v d : exemptions_of (with_version v d) = exemptions_of d.
Proof.
  unfold exemptions_of, with_version.
  induction d as [|a d IH]; [reflexivity|].
  cbn [map find]. destruct a; try apply IH; reflexivity.
Qed.

Lemma load_with_version v d :
  load (InDoc (with_version v d)) =
  if strict_ok d && is_some (find_api_version d) && mem v served_versions
     && match find_kind d with Some k => String.eqb k config_kind | None => false end
  then Some (set_defaults "v1" (defaults_of d) (exemptions_of d)) else None.
Proof.
  rewrite load_doc, with_version_strict, with_version_defaults, with_version_exemptions.
  unfold load_test. rewrite with_version_api, with_version_kind.
  destruct (strict_ok d); [|reflexivity]. cbn [andb].
  destruct (find_api_version d) as [av|]; [|reflexivity]. cbn [is_some andb].
  change (config_group ++ "/" ++ v) with ((config_group ++ "/") ++ v).
  rewrite strip_prefix_app_same.
  destruct (find_kind d) as [k|]; [reflexivity|]. now rewrite Bool.andb_false_r.
Qed.

Lemma C17_version_independent_proof d v v' : In v served_versions -> In v' served_versions ->
  load (InDoc (with_version v d)) = load (InDoc (with_version v' d)).
Proof.
  intros H H'. rewrite !load_with_version.
  apply mem_In in H. apply mem_In in H'. now rewrite H, H'.
Qed.

Lemma C17_unserved_rejected_proof d v : ~ In v served_versions ->
  (exists a, In (MApiVersion a) d) -> load (InDoc (with_version v d)) = None.
Proof.
  intros H _. rewrite load_with_version. apply mem_false_iff in H. rewrite H.
  now rewrite Bool.andb_false_r.
Qed.

Lemma C17_empty_is_all_defaults_proof :
  load InEmpty = load (InDoc [MApiVersion (config_group ++ "/v1"); MKind config_kind])
  /\ load InEmpty = Some (Loaded "privileged" "latest" "privileged" "latest" "privileged" "latest" [] [] []).
Proof. split; vm_compute; reflexivity. Qed.

(** * Validation *)

Lemma is_nil_level_errs path s : is_nil (level_errs path s) = is_some (spec_level_of s).
Proof. unfold level_errs. rewrite parse_level_spec. destruct (spec_level_of s); reflexivity. Qed.

Lemma is_nil_version_errs path s : is_nil (version_errs path s) = is_some (spec_version_of s).
Proof. unfold version_errs. rewrite parse_version_spec. destruct (spec_version_of s); reflexivity. Qed.

Lemma label_fmt_spec l :
  label_fmt l
  = negb (String.eqb l "") && all_chars (fun c => is_lower_alnum c || Ascii.eqb c "-"%char) l
    && match l with String c _ => is_lower_alnum c | _ => false end
    && match last_char l with Some c => is_lower_alnum c | None => false end.
Proof.
  destruct l as [|c r]; [reflexivity|].
  unfold label_fmt. change (String.eqb (String c r) "") with false.
  change (all_chars (fun c0 => is_lower_alnum c0 || Ascii.eqb c0 "-"%char)) with (all_chars is_label_char).
  cbn [negb andb].
  destruct (is_lower_alnum c); [|now rewrite Bool.andb_false_r].
  now rewrite Bool.andb_true_r.
Qed.

Lemma is_dns_label_spec s : is_dns_label s = s_label s.
Proof.
  unfold is_dns_label, s_label. rewrite label_fmt_spec.
  destruct (negb (String.eqb s "")), (Nat.leb (String.length s) 63); reflexivity.
Qed.

Lemma is_dns_subdomain_spec s : is_dns_subdomain s = s_subdomain s.
Proof.
  unfold is_dns_subdomain, s_subdomain. f_equal. apply forallb_ext. intros l. apply label_fmt_spec.
Qed.

Lemma forallb_not_mem_cons x seen r :
  forallb (fun y => negb (mem y (x :: seen))) r
  = negb (mem x r) && forallb (fun y => negb (mem y seen)) r.
Proof.
  induction r as [|y r IH]; [reflexivity|].
  cbn [forallb]. rewrite IH. unfold mem. cbn [existsb]. rewrite (String.eqb_sym y x).
  btauto.
Qed.

Lemma is_nil_validate_list path ok l : forall i seen,
  is_nil (validate_list path ok l i seen)
  = forallb ok l && s_unique l && forallb (fun x => negb (mem x seen)) l.
Proof.
  induction l as [|x r IH]; intros i seen; [reflexivity|].
  cbn [validate_list forallb s_unique].
  destruct (ok x); cbn [negb andb]; [|reflexivity].
  destruct (mem x seen) eqn:E; cbn [negb andb is_nil].
  - now rewrite Bool.andb_false_r.
  - rewrite IH, forallb_not_mem_cons. btauto.
Qed.

Lemma is_nil_validate_list0 path ok l :
  is_nil (validate_list path ok l 0 []) = forallb ok l && s_unique l.
Proof.
  rewrite is_nil_validate_list.
  replace (forallb (fun x => negb (mem x [])) l) with true; [apply Bool.andb_true_r|].
  symmetry. apply forallb_forall. reflexivity.
Qed.

Lemma is_nil_validate_config c : is_nil (validate_config c) = s_valid c.
Proof.
  unfold validate_config, s_valid.
  rewrite !cf_is_nil_app, !is_nil_level_errs, !is_nil_version_errs, !is_nil_validate_list0.
  rewrite (forallb_ext _ _ is_dns_label_spec), (forallb_ext _ _ is_dns_subdomain_spec).
  btauto.
Qed.

Lemma C17_validate_iff_proof c : validate_config c = [] <-> s_valid c = true.
Proof. rewrite <- is_nil_validate_config. symmetry. apply is_nil_true. Qed.

(** * ToPolicy *)

Definition lvl_of (s : string) : option level :=
  if String.eqb s "" then None else let '(l, ok) := parse_level s in if ok then Some l else None.
Definition ver_of (s : string) : option version :=
  if String.eqb s "" then None else let '(v, ok) := parse_version s in if ok then Some v else None.

Lemma to_policy_unfold c :
  to_policy c =
  match lvl_of (ld_enforce c), ver_of (ld_enforce_version c), lvl_of (ld_audit c), ver_of (ld_audit_version c),
        lvl_of (ld_warn c), ver_of (ld_warn_version c) with
  | Some el, Some ev, Some al, Some av, Some wl, Some wv => Some (Policy (LV el ev) (LV al av) (LV wl wv))
  | _, _, _, _, _, _ => None
  end.
Proof. reflexivity. Qed.

Lemma lvl_of_spec s l : spec_level_of s = Some l -> lvl_of s = Some l.
Proof.
  intros H. unfold lvl_of. destruct (String.eqb s "") eqn:E.
  - apply String.eqb_eq in E. subst s. discriminate H.
  - now rewrite parse_level_spec, H.
Qed.

Lemma ver_of_spec s v : spec_version_of s = Some v -> ver_of s = Some v.
Proof.
  intros H. unfold ver_of. destruct (String.eqb s "") eqn:E.
  - apply String.eqb_eq in E. subst s. discriminate H.
  - now rewrite parse_version_spec, H.
Qed.

Lemma is_some_true {A} (o : option A) : is_some o = true -> exists x, o = Some x.
Proof. destruct o as [x|]; [now exists x|discriminate]. Qed.

Lemma s_valid_six c : s_valid c = true ->
  exists el ev al av wl wv,
    spec_level_of (ld_enforce c) = Some el /\ spec_version_of (ld_enforce_version c) = Some ev /\
    spec_level_of (ld_audit c) = Some al /\ spec_version_of (ld_audit_version c) = Some av /\
    spec_level_of (ld_warn c) = Some wl /\ spec_version_of (ld_warn_version c) = Some wv.
Proof.
  unfold s_valid. rewrite !Bool.andb_true_iff.
  intros [[[[[[[[[[[H1 H2] H3] H4] H5] H6] _] _] _] _] _] _].
  destruct (is_some_true _ H1) as [el E1], (is_some_true _ H2) as [ev E2],
           (is_some_true _ H3) as [al E3], (is_some_true _ H4) as [av E4],
           (is_some_true _ H5) as [wl E5], (is_some_true _ H6) as [wv E6].
  now exists el, ev, al, av, wl, wv.
Qed.

Lemma to_policy_valid c el ev al av wl wv :
  spec_level_of (ld_enforce c) = Some el -> spec_version_of (ld_enforce_version c) = Some ev ->
  spec_level_of (ld_audit c) = Some al -> spec_version_of (ld_audit_version c) = Some av ->
  spec_level_of (ld_warn c) = Some wl -> spec_version_of (ld_warn_version c) = Some wv ->
  to_policy c = Some (Policy (LV el ev) (LV al av) (LV wl wv)).
Proof.
  intros E1 E2 E3 E4 E5 E6. rewrite to_policy_unfold.
  now rewrite (lvl_of_spec _ _ E1), (ver_of_spec _ _ E2), (lvl_of_spec _ _ E3), (ver_of_spec _ _ E4),
              (lvl_of_spec _ _ E5), (ver_of_spec _ _ E6).
Qed.

Lemma C17_validate_proof c :
  P17_validate c (List.length (validate_config c))
               (if is_nil (validate_config c) then to_policy c else None) = true.
Proof.
  unfold P17_validate. rewrite cf_length_is_nil, is_nil_validate_config, Bool.eqb_reflx.
  cbn [andb]. destruct (s_valid c) eqn:V; [|reflexivity].
  destruct (s_valid_six c V) as (el & ev & al & av & wl & wv & E1 & E2 & E3 & E4 & E5 & E6).
  rewrite (to_policy_valid c _ _ _ _ _ _ E1 E2 E3 E4 E5 E6), E1, E2, E3, E4, E5, E6.
  unfold imp_valid. cbn [negb orb]. apply policy_eqb_refl.
Qed.

Lemma C17_chain_proof c : validate_config c = [] ->
  exists p, to_policy c = Some p /\ policy_to_evaluate [] p = (p, []) /\
    fst (parse_level (ld_enforce c)) = lv_level (enforce p) /\
    fst (parse_version (ld_enforce_version c)) = lv_version (enforce p).
Proof.
  intros H. apply C17_validate_iff_proof in H.
  destruct (s_valid_six c H) as (el & ev & al & av & wl & wv & E1 & E2 & E3 & E4 & E5 & E6).
  exists (Policy (LV el ev) (LV al av) (LV wl wv)).
  split; [now apply to_policy_valid|]. split; [reflexivity|].
  rewrite parse_level_spec, parse_version_spec, E1, E2. split; reflexivity.
Qed.

(** * Where the errors are reported *)

Lemma In_level_errs p s e : In e (level_errs p s) -> e = (p, 0, Invalid).
Proof. unfold level_errs. destruct (snd (parse_level s)); [intros []|]. intros [H|[]]. now symmetry. Qed.
Lemma In_version_errs p s e : In e (version_errs p s) -> e = (p, 0, Invalid).
Proof. unfold version_errs. destruct (snd (parse_version s)); [intros []|]. intros [H|[]]. now symmetry. Qed.

Lemma In_validate_list path ok l : forall i0 seen p i k,
  In (p, i, k) (validate_list path ok l i0 seen) -> p = path /\ i0 <= i < i0 + List.length l.
Proof.
  induction l as [|x r IH]; intros i0 seen p i k H; [destruct H|].
  cbn [validate_list] in H. cbn [List.length].
  destruct (negb (ok x)).
  - destruct H as [H|H]; [inversion H; subst; split; [reflexivity|lia]|].
    apply IH in H. destruct H as [Hp Hi]. split; [exact Hp|lia].
  - destruct (mem x seen).
    + destruct H as [H|H]; [inversion H; subst; split; [reflexivity|lia]|].
      apply IH in H. destruct H as [Hp Hi]. split; [exact Hp|lia].
    + apply IH in H. destruct H as [Hp Hi]. split; [exact Hp|lia].
Qed.

Lemma C17_errors_located_proof c path i k : In (path, i, k) (validate_config c) ->
  (i = 0 /\ In path ["defaults.enforce"; "defaults.enforce-version"; "defaults.warn"; "defaults.warn-version"; "defaults.audit"; "defaults.audit-version"])
  \/ (path = "exemptions.namespaces" /\ i < List.length (ld_namespaces c))
  \/ (path = "exemptions.runtimeClasses" /\ i < List.length (ld_runtimeclasses c))
  \/ (path = "exemptions.usernames" /\ i < List.length (ld_usernames c)).
Proof.
  unfold validate_config. intros H.
  repeat (apply in_app_or in H; destruct H as [H|H]);
    try (apply In_level_errs in H; inversion H; subst; left; split; [reflexivity|cbn [In]; tauto]);
    try (apply In_version_errs in H; inversion H; subst; left; split; [reflexivity|cbn [In]; tauto]).
  - apply In_validate_list in H. destruct H as [Hp Hi]. right. left. split; [exact Hp|lia].
  - apply In_validate_list in H. destruct H as [Hp Hi]. right. right. left. split; [exact Hp|lia].
  - apply In_validate_list in H. destruct H as [Hp Hi]. right. right. right. split; [exact Hp|lia].
Qed.

(** * Examples *)

(** without [well_tagged] the equivalence fails: a member presented as unknown but
    named "defaults" is rejected by strict decoding, while the specification,
    which looks at key names only, accepts the document *)
Lemma C17_accept_iff_needs_hyp_proof :
  let d := [MUnknown "defaults"; MApiVersion (config_group ++ "/v1"); MKind config_kind] in
  ~ well_tagged d /\ is_some (load (InDoc d)) = false /\ s_acceptable d = true
  /\ P17_load (InDoc d) (load (InDoc d)) = false.
Proof. cbv zeta. split; [intros H; vm_compute in H; discriminate H|]. vm_compute. auto. Qed.

Definition c17_example_doc : list member :=
  [MExemptions [("namespaces", ["kube-system"; "kube-system"; "Bad"])];
   MKind "PodSecurityConfiguration";
   MDefaults [("warn-version", "v1.25"); ("enforce", "baseline")];
   MApiVersion "pod-security.admission.config.k8s.io/v1beta1"].
Definition c17_example_loaded : loaded :=
  Loaded "baseline" "latest" "privileged" "latest" "privileged" "v1.25"
         [] ["kube-system"; "kube-system"; "Bad"] [].

Lemma C17_example_proof :
  well_tagged c17_example_doc
  /\ load (InDoc c17_example_doc) = Some c17_example_loaded
  /\ validate_config c17_example_loaded
     = [("exemptions.namespaces", 1, Duplicate); ("exemptions.namespaces", 2, Invalid)]
  /\ validate_config (Loaded "baseline" "latest" "privileged" "latest" "privileged" "v1.25" [] ["kube-system"] []) = []
  /\ to_policy c17_example_loaded
     = Some (Policy (LV Baseline Latest) (LV Privileged Latest) (LV Privileged (V 1 25)))
  /\ load (InDoc [MApiVersion "pod-security.admission.config.k8s.io/v1"; MKind "PodSecurityConfiguration";
                  MDefaults [("enforce", "baseline"); ("enforce", "restricted")]]) = None.
Proof. repeat split; vm_compute; reflexivity. Qed.
