(** Proofs/DeployFacts.v - the webhook as deployed (Model/Deploy.v): the
    configuration document a server comes up with, read by the specification
    (Corr/Deploy.v's [s_config]), and the composition document -> load ->
    ToPolicy -> validation -> Admission config -> sources -> HandleValidate ->
    admission layer -> standard. *)
From Coq Require Import List Bool NArith ZArith String.
From PSA Require Import Base.Str Model.Api Model.Pod Model.Checks Model.Registry Model.Shipped Model.Admission
     Model.Namespace Model.Sources Model.Webhook Model.Config Model.Deploy
     Spec.PSS Spec.P02 Spec.P05 Spec.P17 Spec.PAdm Corr.Deploy
     Proofs.ApiFacts Proofs.ConfigFacts Proofs.C02_table Proofs.EndToEnd.
Import ListNotations.
Local Open Scope string_scope.

(* ----------------------------------------------------------------- Setup *)

(** what Setup does with a loaded configuration *)
Definition setup (l : loaded) : option config :=
  match to_policy l with
  | None => None
  | Some pol =>
      if is_nil (validate_config l)
      then Some (Config pol (ld_namespaces l) (ld_usernames l) (ld_runtimeclasses l) default_max_pods default_timeout_ns)
      else None
  end.

(** the specification's reading of a loaded configuration ([of_doc] in [s_config]) *)
Definition s_setup (l : loaded) : option config :=
  if s_valid l then
    match spec_level_of (ld_enforce l), spec_version_of (ld_enforce_version l),
          spec_level_of (ld_audit l), spec_version_of (ld_audit_version l),
          spec_level_of (ld_warn l), spec_version_of (ld_warn_version l) with
    | Some el, Some ev, Some al, Some av, Some wl, Some wv =>
        Some (Config (Policy (LV el ev) (LV al av) (LV wl wv)) (ld_namespaces l) (ld_usernames l) (ld_runtimeclasses l)
                     3000 1000000000%Z)
    | _, _, _, _, _, _ => None
    end
  else None.

Lemma deploy_unfold i :
  deploy i = match load i with Some l => setup l | None => None end.
Proof. reflexivity. Qed.

Lemma s_config_unfold i :
  s_config i = match i with
               | InEmpty => s_setup (s_loaded [])
               | InMalformed => None
               | InDoc d => if s_acceptable d then s_setup (s_loaded d) else None
               end.
Proof. reflexivity. Qed.

(** Setup succeeds exactly on the valid configurations, with the stated policy and lists *)
Lemma setup_spec l : setup l = s_setup l.
Proof.
  unfold setup, s_setup. rewrite is_nil_validate_config.
  destruct (s_valid l) eqn:V.
  - destruct (s_valid_six l V) as (el & ev & al & av & wl & wv & E1 & E2 & E3 & E4 & E5 & E6).
    rewrite (to_policy_valid l _ _ _ _ _ _ E1 E2 E3 E4 E5 E6), E1, E2, E3, E4, E5, E6. reflexivity.
  - destruct (to_policy l); reflexivity.
Qed.

Lemma load_empty_loaded : load InEmpty = Some (s_loaded []).
Proof. reflexivity. Qed.

Lemma C17_deploy_is_spec_proof i : well_tagged_input i -> deploy i = s_config i.
Proof.
  intros W. rewrite deploy_unfold, s_config_unfold. destruct i as [| |d].
  - rewrite load_empty_loaded. apply setup_spec.
  - reflexivity.
  - cbn [well_tagged_input] in W. pose proof (C17_accept_iff_proof d W) as A.
    destruct (load (InDoc d)) as [l|] eqn:L.
    + cbn [is_some] in A. rewrite <- A. rewrite (load_Some_loaded d l L). apply setup_spec.
    + cbn [is_some] in A. rewrite <- A. reflexivity.
Qed.

(** without [well_tagged]: whatever comes up is what the specification reads off the document *)
Lemma deploy_doc_Some d c : deploy (InDoc d) = Some c ->
  s_acceptable d = true /\ s_setup (s_loaded d) = Some c.
Proof.
  rewrite deploy_unfold. intros H. destruct (load (InDoc d)) as [l|] eqn:L; [|discriminate].
  split.
  - apply load_accept_sound. now rewrite L.
  - rewrite <- (load_Some_loaded d l L), <- setup_spec. exact H.
Qed.

Lemma C17_deploy_sound_proof i c : deploy i = Some c -> s_config i = Some c.
Proof.
  rewrite s_config_unfold. destruct i as [| |d].
  - rewrite deploy_unfold, load_empty_loaded, setup_spec. exact (fun H => H).
  - discriminate.
  - intros H. destruct (deploy_doc_Some d c H) as [A S]. now rewrite A.
Qed.

Lemma s_setup_Some l c : s_setup l = Some c ->
  s_valid l = true /\
  cf_ex_namespaces c = ld_namespaces l /\ cf_ex_users c = ld_usernames l /\ cf_ex_rcs c = ld_runtimeclasses l /\
  cf_max_pods c = 3000 /\ cf_timeout c = 1000000000%Z /\
  spec_level_of (ld_enforce l) = Some (lv_level (enforce (cf_defaults c))) /\
  spec_version_of (ld_enforce_version l) = Some (lv_version (enforce (cf_defaults c))) /\
  spec_level_of (ld_audit l) = Some (lv_level (audit (cf_defaults c))) /\
  spec_version_of (ld_audit_version l) = Some (lv_version (audit (cf_defaults c))) /\
  spec_level_of (ld_warn l) = Some (lv_level (warn (cf_defaults c))) /\
  spec_version_of (ld_warn_version l) = Some (lv_version (warn (cf_defaults c))).
Proof.
  unfold s_setup. destruct (s_valid l); [|discriminate].
  destruct (spec_level_of (ld_enforce l)) as [el|]; [|discriminate].
  destruct (spec_version_of (ld_enforce_version l)) as [ev|]; [|discriminate].
  destruct (spec_level_of (ld_audit l)) as [al|]; [|discriminate].
  destruct (spec_version_of (ld_audit_version l)) as [av|]; [|discriminate].
  destruct (spec_level_of (ld_warn l)) as [wl|]; [|discriminate].
  destruct (spec_version_of (ld_warn_version l)) as [wv|]; [|discriminate].
  intros H. injection H as <-. cbn. repeat split; reflexivity.
Qed.

Lemma C17_deploy_defaults_stated_proof d c : deploy (InDoc d) = Some c ->
  cf_ex_namespaces c = s_list "namespaces" d /\ cf_ex_users c = s_list "usernames" d
  /\ cf_ex_rcs c = s_list "runtimeClasses" d
  /\ cf_max_pods c = 3000 /\ cf_timeout c = 1000000000%Z
  /\ spec_level_of (s_value "enforce" "privileged" d) = Some (lv_level (enforce (cf_defaults c)))
  /\ spec_version_of (s_value "enforce-version" "latest" d) = Some (lv_version (enforce (cf_defaults c)))
  /\ spec_level_of (s_value "audit" "privileged" d) = Some (lv_level (audit (cf_defaults c)))
  /\ spec_version_of (s_value "audit-version" "latest" d) = Some (lv_version (audit (cf_defaults c)))
  /\ spec_level_of (s_value "warn" "privileged" d) = Some (lv_level (warn (cf_defaults c)))
  /\ spec_version_of (s_value "warn-version" "latest" d) = Some (lv_version (warn (cf_defaults c))).
Proof.
  intros H. destruct (deploy_doc_Some d c H) as [_ S].
  destruct (s_setup_Some _ _ S) as (_ & N & U & R & M & T & E1 & E2 & E3 & E4 & E5 & E6).
  cbn [s_loaded ld_namespaces ld_usernames ld_runtimeclasses ld_enforce ld_enforce_version ld_audit ld_audit_version
       ld_warn ld_warn_version] in N, U, R, E1, E2, E3, E4, E5, E6.
  repeat split; assumption.
Qed.

(** an Admission built from the deployed configuration judges an unlabelled namespace by exactly the defaults *)
Lemma policy_to_evaluate_nil p : policy_to_evaluate [] p = (p, []).
Proof. destruct p as [[el ev] [al av] [wl wv]]. reflexivity. Qed.

Lemma C17_deploy_unlabelled_namespace_proof i c : deploy i = Some c ->
  policy_to_evaluate [] (cf_defaults c) = (cf_defaults c, []).
Proof. intros _. apply policy_to_evaluate_nil. Qed.

(* ------------------------------------------------------- document to verdict *)

Lemma with_sources_review cl f now q uid r w0 : hq_payload q = Review uid r w0 ->
  with_sources cl f now q
  = HttpRequest (hq_has_body q) (hq_size q) (hq_ctype q)
                (Review uid r (world_of production_wiring cl f (r_namespace r) None now)).
Proof. intros H. unfold with_sources. now rewrite H. Qed.

Lemma C17_end_to_end_proof : forall i relax cl f now q uid r w0 c ls p m,
  deploy i = Some c ->
  hq_has_body q = true -> N.ltb (hq_size q) max_request_size = true ->
  hq_ctype q = "application/json" -> hq_payload q = Review uid r w0 ->
  evaluated_pod c r (world_of production_wiring cl f (r_namespace r) None now) = Some (ls, p) ->
  api_valid p = true -> relaxed_for relax p = false ->
  effective_minor (lv_version (enforce (spec_policy ls (cf_defaults c)))) = Some m ->
  exists resp, full_stack i (shipped_evaluator relax) cl f now q = Some (HttpResponse 200 (Some (uid, resp)))
               /\ rs_allowed resp = compliant (lv_level (enforce (spec_policy ls (cf_defaults c)))) m p.
Proof.
  intros i relax cl f now q uid r w0 c ls p m D Hb Hs Hc Hp He Hv Hr Hm.
  destruct (webhook_end_to_end_proof c relax (with_sources cl f now q) uid r
              (world_of production_wiring cl f (r_namespace r) None now) ls p m) as (resp & H1 & H2);
    try assumption; try (rewrite (with_sources_review cl f now q uid r w0 Hp); cbn; assumption).
  - rewrite (with_sources_review cl f now q uid r w0 Hp). reflexivity.
  - exists resp. split; [|exact H2]. unfold full_stack, serve. rewrite D, H1. reflexivity.
Qed.

(** the same with the level and version read off the document for an unlabelled namespace *)
Lemma C17_end_to_end_unlabelled_proof : forall d relax cl f now q uid r w0 c p l m,
  deploy (InDoc d) = Some c ->
  hq_has_body q = true -> N.ltb (hq_size q) max_request_size = true ->
  hq_ctype q = "application/json" -> hq_payload q = Review uid r w0 ->
  evaluated_pod c r (world_of production_wiring cl f (r_namespace r) None now) = Some ([], p) ->
  api_valid p = true -> relaxed_for relax p = false ->
  spec_level_of (s_value "enforce" "privileged" d) = Some l ->
  (exists v, spec_version_of (s_value "enforce-version" "latest" d) = Some v /\ effective_minor v = Some m) ->
  exists resp, full_stack (InDoc d) (shipped_evaluator relax) cl f now q = Some (HttpResponse 200 (Some (uid, resp)))
               /\ rs_allowed resp = compliant l m p.
Proof.
  intros d relax cl f now q uid r w0 c p l m D Hb Hs Hc Hp He Hv Hr Hl (v & Hv1 & Hv2).
  destruct (C17_deploy_defaults_stated_proof d c D) as (_ & _ & _ & _ & _ & E1 & E2 & _).
  assert (SP : spec_policy [] (cf_defaults c) = cf_defaults c).
  { pose proof (policy_to_evaluate_spec [] (cf_defaults c)) as S. rewrite policy_to_evaluate_nil in S.
    apply (f_equal fst) in S. cbn [fst] in S. symmetry. exact S. }
  rewrite Hl in E1. injection E1 as ->. rewrite Hv1 in E2. injection E2 as ->.
  rewrite <- SP in Hv2.
  destruct (C17_end_to_end_proof (InDoc d) relax cl f now q uid r w0 c [] p m D Hb Hs Hc Hp He Hv Hr Hv2)
    as (resp & H1 & H2).
  exists resp. split; [exact H1|]. rewrite H2, SP. reflexivity.
Qed.

(* ------------------------------------------------------------- in scope *)

Definition dep_ex_doc (enforce_value : string) : input :=
  InDoc [MKind config_kind; MApiVersion (config_group ++ "/v1beta1");
         MDefaults [("enforce", enforce_value); ("audit", "restricted")];
         MExemptions [("namespaces", ["kube-system"])]].
Definition dep_ex_cluster : cluster := Cluster [] [("ns", []); ("kube-system", [])] [] [].
Definition dep_ex_faults : faults := Faults None false.
Definition dep_ex_q (ns : string) : http_request :=
  HttpRequest true 2048 "application/json"
    (Review "uid-17" (Request "" "pods" "" ns "p" "u" OpCreate (OPod example_pod) ONil None)
            (World None "" None None 0)).
Definition dep_ex_answer (enforce_value ns : string) : option (Z * option (string * bool)) :=
  option_map (fun h => (hs_status h, option_map (fun x => (fst x, rs_allowed (snd x))) (hs_review h)))
             (full_stack (dep_ex_doc enforce_value) (shipped_evaluator false) dep_ex_cluster dep_ex_faults 0 (dep_ex_q ns)).

Lemma C17_end_to_end_in_scope_proof :
  well_tagged_input (dep_ex_doc "baseline")
  /\ deploy (dep_ex_doc "baseline")
     = Some (Config (Policy (LV Baseline Latest) (LV Restricted Latest) (LV Privileged Latest))
                    ["kube-system"] [] [] 3000 1000000000%Z)
  /\ (forall c, deploy (dep_ex_doc "baseline") = Some c ->
        evaluated_pod c (Request "" "pods" "" "ns" "p" "u" OpCreate (OPod example_pod) ONil None)
                      (world_of production_wiring dep_ex_cluster dep_ex_faults "ns" None 0) = Some ([], example_pod))
  /\ dep_ex_answer "baseline" "ns" = Some (200%Z, Some ("uid-17", false))
  /\ dep_ex_answer "baseline" "kube-system" = Some (200%Z, Some ("uid-17", true))
  /\ deploy (dep_ex_doc "bogus") = None
  /\ dep_ex_answer "bogus" "ns" = None.
Proof.
  split; [reflexivity|]. split; [vm_compute; reflexivity|]. split.
  - intros c H. assert (E : deploy (dep_ex_doc "baseline")
       = Some (Config (Policy (LV Baseline Latest) (LV Restricted Latest) (LV Privileged Latest))
                      ["kube-system"] [] [] 3000 1000000000%Z)) by (vm_compute; reflexivity).
    rewrite E in H. injection H as <-. vm_compute. reflexivity.
  - vm_compute. repeat split; reflexivity.
Qed.

(** the remaining hypotheses of [C17_end_to_end_proof] hold of the example, and its conclusion is the denial above *)
Lemma C17_end_to_end_in_scope_hyps :
  api_valid example_pod = true /\ relaxed_for false example_pod = false
  /\ effective_minor Latest = Some newest_published
  /\ compliant Baseline newest_published example_pod = false.
Proof. vm_compute. repeat split; reflexivity. Qed.

(** [well_tagged] is needed for "comes up exactly for": a member presented as unknown but named
    "defaults" is refused by strict decoding, while the specification, which reads members by
    name, sees an acceptable all-defaults document *)
Lemma C17_deploy_is_spec_needs_hyp_proof :
  let d := [MUnknown "defaults"; MApiVersion (config_group ++ "/v1"); MKind config_kind] in
  ~ well_tagged d /\ deploy (InDoc d) = None
  /\ s_config (InDoc d)
     = Some (Config (Policy (LV Privileged Latest) (LV Privileged Latest) (LV Privileged Latest)) [] [] [] 3000 1000000000%Z).
Proof.
  cbv zeta. split; [intros H; vm_compute in H; discriminate|]. vm_compute. split; reflexivity.
Qed.
