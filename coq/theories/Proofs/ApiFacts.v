(** Proofs/ApiFacts.v - facts about Model/Api.v needed by property C05.
    The model's [parse_version] (DecimalString / Decimal / N.of_uint) is bridged
    to the spec's independent recogniser [spec_version_of]; then
    [policy_to_evaluate] is shown to be equal to [(spec_policy, spec_errs)]. *)
From Coq Require Import List Bool NArith PArith Arith Ascii String Lia.
From Coq Require Import Decimal DecimalFacts DecimalPos DecimalN DecimalString.
From PSA Require Import Base.Str Model.Api Spec.P05.
Import ListNotations.
Local Open Scope string_scope.

(** * Observation functions of the model *)

Definition obs_version (s : string) : bool * version * string :=
  let '(v, ok) := parse_version s in (ok, v, version_string v).
Definition obs_level (s : string) : bool * level :=
  let '(l, ok) := parse_level s in (ok, l).
Definition obs_print (v : version) : string * bool * version :=
  let s := version_string v in (s, snd (parse_version s), fst (parse_version s)).

(** * Reflexivity of the boolean equalities *)

Lemma level_eqb_refl l : level_eqb l l = true.
Proof. destruct l; reflexivity. Qed.

Lemma version_eqb_refl v : version_eqb v v = true.
Proof. destruct v; simpl; [reflexivity|]. now rewrite !N.eqb_refl. Qed.

Lemma lv_eqb_refl x : lv_eqb x x = true.
Proof. unfold lv_eqb. now rewrite level_eqb_refl, version_eqb_refl. Qed.

Lemma policy_eqb_refl p : policy_eqb p p = true.
Proof. unfold policy_eqb. now rewrite !lv_eqb_refl. Qed.

Lemma ferr_eqb_refl x : ferr_eqb x x = true.
Proof. unfold ferr_eqb. now rewrite !String.eqb_refl. Qed.

Lemma list_ferr_eqb_refl l : list_eqb ferr_eqb l l = true.
Proof. induction l; simpl; [reflexivity|]. now rewrite ferr_eqb_refl, IHl. Qed.

(** * strip_prefix *)

Lemma strip_prefix_app p : forall s r, strip_prefix p s = Some r -> s = (p ++ r)%string.
Proof.
  induction p as [|a p IH]; intros s r H; simpl in *.
  - now inversion H.
  - destruct s as [|b s]; [discriminate|].
    destruct (Ascii.eqb a b) eqn:E; [|discriminate].
    apply Ascii.eqb_eq in E. subst b. f_equal. now apply IH.
Qed.

Lemma strip_prefix_app_same p r : strip_prefix p (p ++ r)%string = Some r.
Proof. induction p; simpl; [reflexivity|]. now rewrite Ascii.eqb_refl. Qed.

(** * Levels *)

Lemma parse_level_spec s :
  parse_level s = match spec_level_of s with
                  | Some l => (l, true)
                  | None => (Restricted, false)
                  end.
Proof.
  unfold parse_level, spec_level_of.
  repeat match goal with |- context [String.eqb s ?x] => destruct (String.eqb s x) end;
  reflexivity.
Qed.

Lemma spec_level_of_string s l : spec_level_of s = Some l -> level_string l = s.
Proof.
  unfold spec_level_of.
  destruct (String.eqb s "privileged") eqn:E1;
    [apply String.eqb_eq in E1; intros [= <-]; now subst|].
  destruct (String.eqb s "baseline") eqn:E2;
    [apply String.eqb_eq in E2; intros [= <-]; now subst|].
  destruct (String.eqb s "restricted") eqn:E3;
    [apply String.eqb_eq in E3; intros [= <-]; now subst|].
  discriminate.
Qed.

(** * Digits: the value of a [Decimal.uint] read left to right *)

Local Open Scope N_scope.

Definition dcons (k : N) (d : uint) : uint :=
  match k with
  | 0 => D0 d | 1 => D1 d | 2 => D2 d | 3 => D3 d | 4 => D4 d
  | 5 => D5 d | 6 => D6 d | 7 => D7 d | 8 => D8 d | _ => D9 d
  end.

Fixpoint value_acc (d : uint) (acc : N) : N :=
  match d with
  | Nil => acc
  | D0 l => value_acc l (acc * 10 + 0)
  | D1 l => value_acc l (acc * 10 + 1)
  | D2 l => value_acc l (acc * 10 + 2)
  | D3 l => value_acc l (acc * 10 + 3)
  | D4 l => value_acc l (acc * 10 + 4)
  | D5 l => value_acc l (acc * 10 + 5)
  | D6 l => value_acc l (acc * 10 + 6)
  | D7 l => value_acc l (acc * 10 + 7)
  | D8 l => value_acc l (acc * 10 + 8)
  | D9 l => value_acc l (acc * 10 + 9)
  end.

Lemma value_acc_dcons k d acc : k < 10 -> value_acc (dcons k d) acc = value_acc d (acc * 10 + k).
Proof.
  intros H.
  assert (k = 0 \/ k = 1 \/ k = 2 \/ k = 3 \/ k = 4 \/ k = 5 \/ k = 6 \/ k = 7 \/ k = 8 \/ k = 9)
    as Hk by lia.
  repeat (destruct Hk as [->|Hk]; [reflexivity|]). subst. reflexivity.
Qed.

Lemma of_uint_acc_value d : forall p, Npos (Pos.of_uint_acc d p) = value_acc d (Npos p).
Proof.
  induction d; intros p; cbn [Pos.of_uint_acc value_acc]; [reflexivity|..];
    rewrite IHd; f_equal; lia.
Qed.

Lemma of_uint_value d : N.of_uint d = value_acc d 0.
Proof.
  unfold N.of_uint.
  induction d; cbn [Pos.of_uint value_acc]; try reflexivity; try assumption;
    rewrite of_uint_acc_value; reflexivity.
Qed.

(** one character: the spec's [digit_val] against the stdlib's [uint_of_char] *)
Lemma char_spec c d :
  match digit_val c with
  | Some k => k < 10 /\ uint_of_char c (Some d) = Some (dcons k d)
  | None => uint_of_char c (Some d) = None
  end.
Proof.
  destruct c as [[|] [|] [|] [|] [|] [|] [|] [|]]; vm_compute; try reflexivity; split; reflexivity.
Qed.

Lemma uint_of_char_None c : uint_of_char c None = None.
Proof. reflexivity. Qed.

Lemma digits_val_spec r : forall acc,
  digits_val acc r = match NilEmpty.uint_of_string r with
                     | Some d => Some (value_acc d acc)
                     | None => None
                     end.
Proof.
  induction r as [|c r IH]; intros acc; [reflexivity|].
  cbn [digits_val NilEmpty.uint_of_string].
  destruct (NilEmpty.uint_of_string r) as [d|].
  - pose proof (char_spec c d) as H.
    destruct (digit_val c) as [k|].
    + destruct H as [Hk ->]. rewrite IH. now rewrite value_acc_dcons.
    + now rewrite H.
  - rewrite uint_of_char_None. destruct (digit_val c); [apply IH|reflexivity].
Qed.

(** * Leading zeros: [unorm d = d] against the spec's syntactic check *)

Lemma uint_beq_refl d : uint_beq d d = true.
Proof. now apply internal_uint_dec_lb. Qed.

Lemma unorm_D0_neq d : d <> Nil -> uint_beq (unorm (D0 d)) (D0 d) = false.
Proof.
  intros Hd. destruct (uint_beq (unorm (D0 d)) (D0 d)) eqn:E; [|reflexivity].
  apply internal_uint_dec_bl in E. rewrite unorm_D0 in E.
  pose proof (nb_digits_unorm d Hd) as H. rewrite E in H. simpl in H. lia.
Qed.

Lemma uint_of_string_Nil r : NilEmpty.uint_of_string r = Some Nil -> r = ""%string.
Proof. intros H. apply NilEmpty.sus in H. now subst. Qed.

Lemma canonical_check c r d :
  NilEmpty.uint_of_string (String c r) = Some d ->
  uint_beq (unorm d) d = negb (Ascii.eqb c "0"%char && negb (String.eqb r "")).
Proof.
  cbn [NilEmpty.uint_of_string].
  destruct (NilEmpty.uint_of_string r) as [d'|] eqn:Hr; [|discriminate].
  intros H. apply uint_of_char_spec in H.
  destruct H as [[-> ->]|H].
  - (* leading 0 *)
    destruct r as [|c' r'].
    + injection Hr as <-. reflexivity.
    + assert (d' <> Nil) as Hn
        by (intros ->; apply uint_of_string_Nil in Hr; discriminate).
      rewrite unorm_D0_neq by assumption. reflexivity.
  - repeat (destruct H as [[-> ->]|H]; [cbn [unorm]; rewrite uint_beq_refl; reflexivity|]).
    destruct H as [-> ->]. cbn [unorm]. rewrite uint_beq_refl. reflexivity.
Qed.

(** * Versions: the bridging lemma *)

Definition int_bound : N := 9223372036854775808.

Lemma max_int_bound n : N.leb n max_int = N.ltb n int_bound.
Proof.
  destruct (N.leb_spec n max_int) as [H|H], (N.ltb_spec n int_bound) as [H'|H'];
    try reflexivity; exfalso; unfold max_int, int_bound in *; lia.
Qed.

Lemma parse_version_spec s :
  parse_version s = match spec_version_of s with
                    | Some v => (v, true)
                    | None => (Latest, false)
                    end.
Proof.
  unfold parse_version, spec_version_of.
  destruct (String.eqb s "latest"); [reflexivity|].
  destruct (strip_prefix "v1." s) as [r|]; [|reflexivity].
  fold int_bound.
  destruct r as [|c r]; [reflexivity|].
  unfold NilZero.uint_of_string, canonical_digits.
  rewrite digits_val_spec.
  destruct (NilEmpty.uint_of_string (String c r)) as [d|] eqn:Hd.
  - rewrite (canonical_check c r d Hd).
    destruct (Ascii.eqb c "0"%char && negb (String.eqb r "")); cbn [negb]; [reflexivity|].
    rewrite max_int_bound, of_uint_value.
    destruct (value_acc d 0 <? int_bound); reflexivity.
  - destruct (Ascii.eqb c "0"%char && negb (String.eqb r "")); reflexivity.
Qed.

(** * Printing and reparsing *)

Lemma version_string_V1 n : version_string (V 1 n) = ("v1." ++ N_to_string n)%string.
Proof. reflexivity. Qed.

Lemma to_uint_unorm n : unorm (N.to_uint n) = N.to_uint n.
Proof.
  rewrite <- (DecimalN.Unsigned.to_of (N.to_uint n)).
  now rewrite DecimalN.Unsigned.of_to.
Qed.

Lemma to_uint_nonnil n : N.to_uint n <> Nil.
Proof. destruct n; [discriminate|]. apply DecimalPos.Unsigned.to_uint_nonnil. Qed.

Lemma version_roundtrip s v : parse_version s = (v, true) -> version_string v = s.
Proof.
  unfold parse_version.
  destruct (String.eqb s "latest") eqn:E.
  - intros [= <-]. apply String.eqb_eq in E. now subst.
  - destruct (strip_prefix "v1." s) as [r|] eqn:Hs; [|discriminate].
    destruct (NilZero.uint_of_string r) as [d|] eqn:Hd; [|discriminate].
    destruct (uint_beq (unorm d) d) eqn:Hn; [|discriminate].
    destruct (N.of_uint d <=? max_int); [|discriminate].
    intros [= <-]. apply strip_prefix_app in Hs. subst s.
    rewrite version_string_V1. f_equal.
    unfold N_to_string. rewrite DecimalN.Unsigned.to_of.
    apply internal_uint_dec_bl in Hn. rewrite Hn.
    now apply NilZero.sus.
Qed.

Lemma print_parse n : n < int_bound ->
  parse_version (version_string (V 1 n)) = (V 1 n, true).
Proof.
  intros Hn. rewrite version_string_V1. unfold parse_version.
  assert (String.eqb ("v1." ++ N_to_string n) "latest" = false) as -> by reflexivity.
  rewrite strip_prefix_app_same.
  unfold N_to_string. rewrite NilZero.usu by apply to_uint_nonnil.
  rewrite to_uint_unorm, uint_beq_refl, DecimalN.Unsigned.of_to.
  destruct (N.leb_spec n max_int) as [H|H]; [reflexivity|].
  exfalso. unfold max_int, int_bound in *. lia.
Qed.

(** * PolicyToEvaluate equals the specification, as a plain equality *)

Lemma compare_levels_strictness a b :
  match compare_levels a b with Gt => true | _ => false end
  = N.ltb (strictness b) (strictness a).
Proof. destruct a, b; reflexivity. Qed.

Lemma policy_to_evaluate_spec ls d :
  policy_to_evaluate ls d = (spec_policy ls d, spec_errs ls).
Proof.
  destruct d as [[el ev] [al av] [wl wv]].
  destruct ls as [|p l]; [reflexivity|].
  unfold policy_to_evaluate. cbv iota.
  set (ls := p :: l). clearbody ls. clear p l.
  unfold spec_policy, spec_errs, spec_label_err, warn_follows, spec_level, spec_version.
  cbn [level_key version_key default_of enforce audit warn lv_level lv_version].
  destruct (lookup enforce_level_label ls) as [s1|];
    [rewrite (parse_level_spec s1); destruct (spec_level_of s1) as [l1|]|];
  (destruct (lookup enforce_version_label ls) as [s2|];
    [rewrite (parse_version_spec s2); destruct (spec_version_of s2) as [v2|]|]);
  (destruct (lookup audit_level_label ls) as [s3|];
    [rewrite (parse_level_spec s3); destruct (spec_level_of s3) as [l3|]|]);
  (destruct (lookup audit_version_label ls) as [s4|];
    [rewrite (parse_version_spec s4); destruct (spec_version_of s4) as [v4|]|]);
  (destruct (lookup warn_level_label ls) as [s5|];
    [rewrite (parse_level_spec s5); destruct (spec_level_of s5) as [l5|]|]);
  (destruct (lookup warn_version_label ls) as [s6|];
    [rewrite (parse_version_spec s6); destruct (spec_version_of s6) as [v6|]|]);
  cbn [append_err app is_some negb andb lv_level lv_version fst snd];
  try reflexivity;
  rewrite compare_levels_strictness; reflexivity.
Qed.

(** * The C05 statements *)

Lemma C05_policy_proof (ls : labels) (d : policy) :
  P05_policy ls d (policy_to_evaluate ls d) = true.
Proof.
  rewrite policy_to_evaluate_spec. unfold P05_policy. cbn [fst snd].
  now rewrite policy_eqb_refl, list_ferr_eqb_refl.
Qed.

Lemma C05_version_proof s : P05_version s (obs_version s) = true.
Proof.
  unfold P05_version, obs_version.
  pose proof (version_roundtrip s) as RT.
  rewrite parse_version_spec in *.
  destruct (spec_version_of s) as [v|].
  - rewrite (RT v eq_refl), version_eqb_refl, String.eqb_refl. reflexivity.
  - reflexivity.
Qed.

Lemma C05_level_proof s : P05_level s (obs_level s) = true.
Proof.
  unfold P05_level, obs_level. rewrite parse_level_spec.
  destruct (spec_level_of s) as [l|] eqn:E; [|reflexivity].
  rewrite (spec_level_of_string s l E), level_eqb_refl, String.eqb_refl. reflexivity.
Qed.

Lemma C05_print_proof v : P05_print v (obs_print v) = true.
Proof.
  destruct v as [|ma n]; [reflexivity|].
  unfold P05_print, obs_print.
  destruct ma as [|[p|p|]]; try reflexivity.
  fold int_bound.
  destruct (N.ltb_spec n int_bound) as [H|H]; [|reflexivity].
  rewrite (print_parse n H). cbn [fst snd andb]. apply version_eqb_refl.
Qed.

Lemma C05_empty_labels_proof d : policy_to_evaluate [] d = (d, []).
Proof. reflexivity. Qed.

Lemma C05_enforce_fail_closed_proof ls d s :
  lookup enforce_level_label ls = Some s -> spec_level_of s = None ->
  lv_level (enforce (fst (policy_to_evaluate ls d))) = Restricted
  /\ In (enforce_level_label, s) (snd (policy_to_evaluate ls d)).
Proof.
  intros Hl Hs. rewrite policy_to_evaluate_spec. cbn [fst snd]. split.
  - unfold spec_policy. cbn [enforce lv_level]. unfold spec_level.
    cbn [level_key]. now rewrite Hl, Hs.
  - unfold spec_errs. apply in_or_app. left.
    unfold spec_label_err. rewrite Hl, Hs. cbn [is_some]. now left.
Qed.

Lemma C05_audit_warn_fail_open_proof ls d s :
  (lookup audit_level_label ls = Some s -> spec_level_of s = None ->
     lv_level (audit (fst (policy_to_evaluate ls d))) = Privileged) /\
  (lookup warn_level_label ls = Some s -> spec_level_of s = None ->
     lv_level (warn (fst (policy_to_evaluate ls d))) = Privileged).
Proof.
  rewrite policy_to_evaluate_spec. cbn [fst]. split; intros Hl Hs.
  - unfold spec_policy. cbn [audit lv_level]. unfold spec_level.
    cbn [level_key]. now rewrite Hl, Hs.
  - unfold spec_policy. cbn [warn].
    assert (warn_follows ls d = false) as ->.
    { unfold warn_follows. rewrite Hl.
      now destruct (lookup enforce_level_label ls). }
    cbn [lv_level]. unfold spec_level. cbn [level_key]. now rewrite Hl, Hs.
Qed.

Lemma C05_bad_version_is_latest_proof s :
  snd (parse_version s) = false -> fst (parse_version s) = Latest.
Proof.
  rewrite parse_version_spec. destruct (spec_version_of s); [discriminate|reflexivity].
Qed.

Lemma C05_print_parse_proof n : (n < 9223372036854775808)%N ->
  parse_version (version_string (V 1 n)) = (V 1 n, true).
Proof. exact (print_parse n). Qed.

Lemma C05_no_errors_iff_all_parse_proof ls d :
  snd (policy_to_evaluate ls d) = [] <-> spec_errs ls = [].
Proof. rewrite policy_to_evaluate_spec. reflexivity. Qed.

Lemma C05_example_proof : policy_to_evaluate
   [(enforce_level_label, "Baseline"%string); (enforce_version_label, "v1.19"%string);
    (audit_level_label, "baseline"%string)]
   (Policy (LV Baseline Latest) (LV Restricted (V 1 5)) (LV Privileged Latest))
 = (Policy (LV Restricted (V 1 19)) (LV Baseline (V 1 5)) (LV Privileged Latest),
    [(enforce_level_label, "Baseline"%string)]).
Proof. vm_compute. reflexivity. Qed.
