(** Proofs/AdmFactsA.v - facts about Model/Admission.v and the dispatch of
    Model/Namespace.v needed by properties C01, C08, C09 and the admission half
    of C18: the spec's guards are the model's guards; [evaluate_pod_request] in
    flat form (the cache is sound); the relations P01, P08, P09, P18_adm hold of
    the model's own observation. *)
From Coq Require Import List Bool NArith ZArith String Lia Btauto.
From PSA Require Import Base.Str Model.Api Model.Pod Model.Checks Model.Registry
     Model.Admission Model.Namespace Spec.P05 Spec.PAdm Proofs.ApiFacts Proofs.StrFacts.
Import ListNotations.
Local Open Scope string_scope.

(** * Definitions used by the statements *)

(** the evaluator allows everything at the privileged level (true of every
    evaluator built by [new_evaluator]: [resolve cs Privileged v = []]) *)
Definition ev_privileged_allows (ev : evaluator) : Prop :=
  forall v p, forallb cr_allowed (ev (LV Privileged v) p) = true.

(** the objects of a pod request decode *)
Definition pod_request_decodes (r : request) : Prop :=
  is_pods r = true ->
  (exists p, r_object r = OPod p) /\ (is_update (r_op r) = true -> exists old, r_old r = OPod old).

Definition printable_version (v : version) : bool :=
  match v with Latest => true | V 1 n => N.ltb n 9223372036854775808 | _ => false end.
Definition policy_printable (p : policy) : bool :=
  printable_version (lv_version (enforce p)) && printable_version (lv_version (audit p))
  && printable_version (lv_version (warn p)).
(** the bare pod CREATE of the same template, same namespace and user *)
Definition bare_pod_request (r : request) (p : pod) : request :=
  Request "" "pods" "" (r_namespace r) "bare" (r_user r) OpCreate (OPod p) ONil None.
(** its namespace carries the same audit / warn policy, pinned explicitly, and enforce = privileged *)
Definition bare_labels (pol : policy) : labels :=
  [(enforce_level_label, "privileged");
   (audit_level_label, level_string (lv_level (audit pol)));
   (audit_version_label, version_string (lv_version (audit pol)));
   (warn_level_label, level_string (lv_level (warn pol)));
   (warn_version_label, version_string (lv_version (warn pol)))]%string.
Definition bare_pod_world (c : config) (w : world) (ls : labels) : world :=
  World (Some (bare_labels (spec_policy ls (cf_defaults c)))) (w_ns_err w) (w_pods w) (w_expire_after w) (w_now w).

(** * Small generic facts *)

Lemma level_eqb_eq a b : level_eqb a b = true -> a = b.
Proof. destruct a, b; simpl; congruence. Qed.
Lemma version_eqb_eq a b : version_eqb a b = true -> a = b.
Proof.
  destruct a as [|a1 a2], b as [|b1 b2]; simpl; try congruence.
  rewrite andb_true_iff, !N.eqb_eq. intros [-> ->]. reflexivity.
Qed.
Lemma lv_eqb_eq a b : lv_eqb a b = true -> a = b.
Proof.
  destruct a as [l v], b as [l' v']. unfold lv_eqb. cbn [lv_level lv_version].
  rewrite andb_true_iff. intros [H1 H2].
  apply level_eqb_eq in H1. apply version_eqb_eq in H2. now subst.
Qed.

Lemma ag_allowed_forallb rs : ag_allowed (aggregate_results rs) = forallb cr_allowed rs.
Proof.
  unfold aggregate_results. cbn [ag_allowed].
  induction rs as [|x rs IH]; [reflexivity|].
  cbn [filter forallb]. destruct (cr_allowed x); cbn [negb andb]; [exact IH|reflexivity].
Qed.

Lemma violates_ag ev x p : violates ev x p = negb (ag_allowed (aggregate_results (ev x p))).
Proof. unfold violates. now rewrite ag_allowed_forallb. Qed.

Lemma prefix_app s b : String.prefix s (s ++ b) = true.
Proof.
  induction s as [|c s IH]; [now destruct b|]. simpl.
  destruct (Ascii.ascii_dec c c) as [_|N]; [exact IH|now elim N].
Qed.

Lemma contains_app s a b : contains s (a ++ s ++ b) = true.
Proof.
  induction a as [|c a IH].
  - cbn [append]. destruct (s ++ b) eqn:E; cbn [contains]; rewrite <- E, prefix_app; reflexivity.
  - cbn [append contains]. rewrite IH. now destruct (String.prefix s (String c (a ++ s ++ b))).
Qed.

Lemma list_string_eqb_refl l : list_eqb String.eqb l l = true.
Proof. apply list_eqb_refl. exact String.eqb_refl. Qed.

Lemma opt_string_eqb_refl o : opt_eqb String.eqb o o = true.
Proof. destruct o; [apply String.eqb_refl|reflexivity]. Qed.

(** * The spec's guards are the model's guards *)

Lemma exempt_in_s_exempt x l : exempt_in x l = s_exempt x l.
Proof. reflexivity. Qed.
Lemma exempt_rc_s_exempt_rc c p : exempt_runtimeclass c (pd_runtimeClass p) = s_exempt_rc c p.
Proof. reflexivity. Qed.
Lemma ignored_sub_s_ignored_sub s : mem s ignored_pod_subresources = s_ignored_sub s.
Proof. reflexivity. Qed.
Lemma fully_privileged_s p : fully_privileged p = s_fully_privileged p.
Proof. reflexivity. Qed.

Lemma s_images_same_spec a : forall b,
  s_images_same a b = Nat.eqb (List.length a) (List.length b) && negb (images_differ a b).
Proof.
  induction a as [|x a IH]; intros [|y b]; try reflexivity.
  cbn [s_images_same images_differ List.length Nat.eqb]. rewrite IH.
  destruct (String.eqb (c_image x) (c_image y)); cbn [negb orb andb]; [reflexivity|].
  now rewrite andb_false_r.
Qed.

Lemma ephemeral_spec new old :
  forallb (fun c => existsb (fun oc => String.eqb (c_name oc) (c_name c)) old
                    && match find (fun oc => String.eqb (c_name oc) (c_name c)) old with
                       | Some oc => String.eqb (c_image oc) (c_image c) | None => false end) new
  = negb (ephemeral_significant new old).
Proof.
  unfold ephemeral_significant.
  induction new as [|c new IH]; [reflexivity|].
  cbn [forallb existsb]. rewrite IH, negb_orb. f_equal.
  destruct (find (fun oc => String.eqb (c_name oc) (c_name c)) old) as [oc|] eqn:F.
  - apply find_some in F. destruct F as [Hin Hn].
    assert (existsb (fun oc => String.eqb (c_name oc) (c_name c)) old = true) as ->.
    { apply existsb_exists. now exists oc. }
    cbn [andb]. now rewrite negb_involutive, String.eqb_sym.
  - now rewrite andb_false_r.
Qed.

Lemma significant_update_spec p old : significant_update p old = s_significant p old.
Proof.
  unfold significant_update, s_significant.
  rewrite !s_images_same_spec, ephemeral_spec.
  destruct (Nat.eqb (List.length (pd_containers p)) (List.length (pd_containers old)));
  destruct (Nat.eqb (List.length (pd_init p)) (List.length (pd_init old)));
  destruct (images_differ (pd_containers p) (pd_containers old));
  destruct (images_differ (pd_init p) (pd_init old));
  destruct (ephemeral_significant (pd_ephemeral p) (pd_ephemeral old)); reflexivity.
Qed.

(** * Dispatch *)

Lemma validate_dispatch c ev r w :
  validate c ev r w = if is_namespaces r then validate_namespace c ev r w
                      else if is_pods r then validate_pod c ev r w
                      else validate_controller c ev r w.
Proof. reflexivity. Qed.

Lemma is_pods_not_namespaces r : is_pods r = true -> is_namespaces r = false.
Proof.
  unfold is_pods, is_namespaces. rewrite andb_true_iff, !String.eqb_eq.
  intros [-> ->]. reflexivity.
Qed.

Lemma validate_namespaces c ev r w : is_namespaces r = true -> validate c ev r w = validate_namespace c ev r w.
Proof. intros H. now rewrite validate_dispatch, H. Qed.
Lemma validate_pods c ev r w : is_pods r = true -> validate c ev r w = validate_pod c ev r w.
Proof. intros H. now rewrite validate_dispatch, (is_pods_not_namespaces r H), H. Qed.
Lemma validate_controllers c ev r w : is_controller r = true -> validate c ev r w = validate_controller c ev r w.
Proof.
  unfold is_controller. rewrite andb_true_iff, !negb_true_iff. intros [H1 H2].
  now rewrite validate_dispatch, H1, H2.
Qed.

Lemma request_class r :
  (is_namespaces r = true /\ is_pods r = false /\ is_controller r = false) \/
  (is_namespaces r = false /\ is_pods r = true /\ is_controller r = false) \/
  (is_namespaces r = false /\ is_pods r = false /\ is_controller r = true).
Proof.
  unfold is_controller.
  destruct (is_pods r) eqn:Hp.
  - rewrite (is_pods_not_namespaces r Hp). auto.
  - destruct (is_namespaces r); auto.
Qed.

(** * The cache of EvaluatePod *)

(** every entry of a cache pairs a key with the evaluator's aggregate on that key *)
Definition cache_sound (ev : evaluator) (p : pod) (c : cache) : Prop :=
  Forall (fun ka : lv * aggregate => snd ka = aggregate_results (ev (fst ka) p)) c.

Lemma cache_get_sound ev p c k a :
  cache_sound ev p c -> cache_get k c = Some a -> a = aggregate_results (ev k p).
Proof.
  induction 1 as [|[k' a'] c Hx Hc IH]; cbn [cache_get]; [discriminate|].
  destruct (lv_eqb k k') eqn:E; [|exact IH].
  apply lv_eqb_eq in E. subst k'. intros [= <-]. exact Hx.
Qed.

Lemma cache_sound_nil ev p : cache_sound ev p [].
Proof. constructor. Qed.
Lemma cache_sound_one ev p k : cache_sound ev p [(k, aggregate_results (ev k p))].
Proof. repeat constructor. Qed.
Lemma cache_sound_snoc ev p c k :
  cache_sound ev p c -> cache_sound ev p (c +:+ [(k, aggregate_results (ev k p))]).
Proof. intros H. apply Forall_app. split; [exact H|apply cache_sound_one]. Qed.

(** * EvaluatePod in flat form *)

Definition violates_msg (ev : evaluator) (x : lv) (p : pod) : string :=
  "violates PodSecurity " ++ go_quote (lv_string x) ++ ": " ++ detail_of ev x p.
Definition would_violate_msg (ev : evaluator) (x : lv) (p : pod) : string :=
  "would violate PodSecurity " ++ go_quote (lv_string x) ++ ": " ++ detail_of ev x p.

(** the response, from: no label errors? enforce applies? enforce/audit/warn violated? *)
Definition epr_resp (errs_nil em vE vA vW : bool) (emsg estr amsg wmsg : string) : response :=
  let allowed := negb (em && vE) in
  Response allowed (if allowed then None else Some 403%Z) (if allowed then "" else "Forbidden")
    (if allowed then "" else emsg) []
    (if allowed && vW then [wmsg] else [])
    ((if errs_nil then [] else [("error", "Failed to parse policy: ")])
     +:+ (if em then [("enforce-policy", estr)] else [])
     +:+ (if vA then [("audit-violations", amsg)] else []))
    Fresh.
(** the trace; [hitA], [hitW]: the audit / warn result came from the cache *)
Definition epr_trace (errs_nil em vE vA vW hitA hitW : bool) (e a w : lv) (n : string) : list event :=
  (if errs_nil then [] else [MError false])
  +:+ (if em then [EvEval e n; MEval vE e ModeEnforce] else [])
  +:+ (if hitA then [] else [EvEval a n]) +:+ (if vA then [MEval true a ModeAudit] else [])
  +:+ (if negb (em && vE)
       then (if hitW then [] else [EvEval w n]) +:+ (if vW then [MEval true w ModeWarn] else [])
       else []).

Definition epr_flat (c : config) (ev : evaluator) (pol : policy) (errs : list ferr) (p : pod) (em : bool)
  : response * list event :=
  let e := enforce pol in let a := audit pol in let w := warn pol in
  let hitA := em && lv_eqb a e in
  let hitW := (em && lv_eqb w e) || (negb hitA && lv_eqb w a) in
  (epr_resp (is_nil errs) em (violates ev e p) (violates ev a p) (violates ev w p)
            (violates_msg ev e p) (lv_string e) (would_violate_msg ev a p) (would_violate_msg ev w p),
   epr_trace (is_nil errs) em (violates ev e p) (violates ev a p) (violates ev w p) hitA hitW e a w (pd_name p)).

(** every cached lookup in [evaluate_pod_request] returns the aggregate of the
    evaluator on that key: the two caches the function builds are sound, hence a
    hit is indistinguishable (in the response) from a fresh evaluation; only the
    [EvEval] events of the trace tell ([hitA], [hitW] of [epr_flat]). *)
Lemma evaluate_pod_request_cache_sound (c : config) (ev : evaluator) (pol : policy) (errs : list ferr) (p : pod) (em : bool) :
  let cached : cache := if em then [(enforce pol, aggregate_results (ev (enforce pol) p))] else [] in
  let cached2 := match cache_get (audit pol) cached with
                 | Some _ => cached
                 | None => cached +:+ [(audit pol, aggregate_results (ev (audit pol) p))]
                 end in
  cache_sound ev p cached /\ cache_sound ev p cached2 /\
  (forall k a, cache_get k cached = Some a -> a = aggregate_results (ev k p)) /\
  (forall k a, cache_get k cached2 = Some a -> a = aggregate_results (ev k p)) /\
  (exempt_runtimeclass c (pd_runtimeClass p) = false ->
   evaluate_pod_request c ev pol errs p em = epr_flat c ev pol errs p em).
Proof.
  intros cached cached2.
  assert (S1 : cache_sound ev p cached).
  { subst cached. destruct em; [apply cache_sound_one|apply cache_sound_nil]. }
  assert (S2 : cache_sound ev p cached2).
  { subst cached2. destruct (cache_get (audit pol) cached); [exact S1|now apply cache_sound_snoc]. }
  split; [exact S1|]. split; [exact S2|].
  split; [intros k a; now apply cache_get_sound|].
  split; [intros k a; now apply cache_get_sound|].
  intros Hrc. unfold evaluate_pod_request, epr_flat. rewrite Hrc.
  rewrite !violates_ag. unfold violates_msg, would_violate_msg, detail_of.
  destruct pol as [e a w]. cbn [enforce audit warn].
  assert (Hsym : forall x y, lv_eqb x y = false -> lv_eqb y x = false).
  { intros x y H. destruct (lv_eqb y x) eqn:E; [|reflexivity].
    apply lv_eqb_eq in E. subst y. now rewrite lv_eqb_refl in H. }
  destruct em; cbn [andb negb orb cache_get];
  (destruct (lv_eqb a e) eqn:Hae; [apply lv_eqb_eq in Hae; subst a|]);
  (destruct (lv_eqb w e) eqn:Hwe; [apply lv_eqb_eq in Hwe; subst w|]);
  try (destruct (lv_eqb w a) eqn:Hwa; [apply lv_eqb_eq in Hwa; subst w|]);
  try (rewrite lv_eqb_refl in *; discriminate);
  destruct (ag_allowed (aggregate_results (ev e p))) eqn:HE;
  try (destruct (ag_allowed (aggregate_results (ev a p))) eqn:HA);
  try (destruct (ag_allowed (aggregate_results (ev w p))) eqn:HW);
  repeat first
    [ progress cbn [rs_allowed allowed_fresh forbidden cache_get app andb orb negb]
    | rewrite lv_eqb_refl
    | match goal with
      | H : _ = true |- _ => rewrite H
      | H : _ = false |- _ => rewrite H
      | H : lv_eqb ?x ?y = false |- context [lv_eqb ?y ?x] => rewrite (Hsym x y H)
      end ];
  destruct errs; reflexivity.
Qed.

Lemma evaluate_pod_request_flat c ev pol errs p em :
  exempt_runtimeclass c (pd_runtimeClass p) = false ->
  evaluate_pod_request c ev pol errs p em = epr_flat c ev pol errs p em.
Proof. apply evaluate_pod_request_cache_sound. Qed.

Lemma evaluate_pod_request_exempt c ev pol errs p em :
  exempt_runtimeclass c (pd_runtimeClass p) = true ->
  evaluate_pod_request c ev pol errs p em = (shared_runtimeclass, [MExempt]).
Proof. intros H. unfold evaluate_pod_request. now rewrite H. Qed.

(** ** the observables of the flat response *)

Lemma epr_resp_allowed n em vE vA vW emsg estr amsg wmsg :
  rs_allowed (epr_resp n em vE vA vW emsg estr amsg wmsg) = negb (em && vE).
Proof. reflexivity. Qed.
Lemma epr_resp_warnings n em vE vA vW emsg estr amsg wmsg :
  rs_warnings (epr_resp n em vE vA vW emsg estr amsg wmsg) = if negb (em && vE) && vW then [wmsg] else [].
Proof. reflexivity. Qed.
Lemma epr_resp_ann_enforce n em vE vA vW emsg estr amsg wmsg :
  ann "enforce-policy" (epr_resp n em vE vA vW emsg estr amsg wmsg) = if em then Some estr else None.
Proof. destruct n, em, vA; reflexivity. Qed.
Lemma epr_resp_ann_audit n em vE vA vW emsg estr amsg wmsg :
  ann "audit-violations" (epr_resp n em vE vA vW emsg estr amsg wmsg) = if vA then Some amsg else None.
Proof. destruct n, em, vA; reflexivity. Qed.
Lemma epr_resp_ann_error n em vE vA vW emsg estr amsg wmsg :
  ann "error" (epr_resp n em vE vA vW emsg estr amsg wmsg) = if n then None else Some "Failed to parse policy: ".
Proof. destruct n, em, vA; reflexivity. Qed.
Lemma epr_resp_ann_exempt n em vE vA vW emsg estr amsg wmsg :
  ann "exempt" (epr_resp n em vE vA vW emsg estr amsg wmsg) = None.
Proof. destruct n, em, vA; reflexivity. Qed.
Lemma epr_resp_denied n vA vW emsg estr amsg wmsg :
  let r := epr_resp n true true vA vW emsg estr amsg wmsg in
  rs_code r = Some 403%Z /\ rs_reason r = "Forbidden" /\ rs_message r = emsg.
Proof. repeat split. Qed.

(** * Pod requests that reach evaluation *)

Lemma evaluated_pod_inv c r w ls p :
  evaluated_pod c r w = Some (ls, p) ->
  is_pods r = true /\ mem (r_subresource r) ignored_pod_subresources = false
  /\ exempt_namespace c (r_namespace r) = false /\ exempt_user c (r_user r) = false
  /\ w_ns w = Some ls /\ r_object r = OPod p /\ exempt_runtimeclass c (pd_runtimeClass p) = false
  /\ (is_update (r_op r) = false \/
      (is_update (r_op r) = true /\ exists old, r_old r = OPod old /\ significant_update p old = true)).
Proof.
  unfold evaluated_pod.
  destruct (is_pods r); [|discriminate].
  destruct (s_ignored_sub (r_subresource r)) eqn:Hsub; [discriminate|].
  destruct (s_exempt (r_namespace r) (cf_ex_namespaces c)) eqn:Hns; [discriminate|].
  destruct (s_exempt (r_user r) (cf_ex_users c)) eqn:Hu; [discriminate|].
  cbn [negb andb].
  destruct (w_ns w) as [ls0|]; [|discriminate].
  destruct (r_object r) as [m| |p0|n l|k t|o]; try discriminate.
  destruct (s_exempt_rc c p0) eqn:Hrc; [discriminate|].
  destruct (r_op r) as [| |raw].
  - intros [= <- <-]. repeat split; try assumption; auto.
  - destruct (r_old r) as [m| |old|n l|k t|o]; try discriminate.
    rewrite <- significant_update_spec.
    destruct (significant_update p0 old) eqn:Hs; [|discriminate].
    intros [= <- <-]. repeat split; try assumption. right. split; [reflexivity|]. now exists old.
  - intros [= <- <-]. repeat split; try assumption; auto.
Qed.

(** the observation of such a request, up to the decode events of the trace *)
Lemma validate_evaluated_pod c ev r w ls p :
  evaluated_pod c r w = Some (ls, p) ->
  let pol := spec_policy ls (cf_defaults c) in
  let errs := spec_errs ls in
  exists pre, (pre = [EvNsLookup; EvDecode] \/ pre = [EvNsLookup; EvDecode; EvDecodeOld]) /\
  validate c ev r w =
    if is_nil errs && fully_privileged pol
    then (shared_privileged, [EvNsLookup; MEval false (enforce pol) ModeEnforce])
    else (fst (epr_flat c ev pol errs p true), pre +:+ snd (epr_flat c ev pol errs p true)).
Proof.
  intros H. apply evaluated_pod_inv in H.
  destruct H as (Hp & Hsub & Hns & Hu & Hw & Ho & Hrc & Hop).
  intros pol errs.
  rewrite (validate_pods c ev r w Hp). unfold validate_pod.
  rewrite Hsub, Hns, Hu, Hw, policy_to_evaluate_spec, Ho.
  fold pol errs.
  rewrite (evaluate_pod_request_flat c ev pol errs p true Hrc).
  destruct Hop as [Hop|(Hop & old & Hold & Hsig)]; rewrite Hop.
  - exists [EvNsLookup; EvDecode]. split; [now left|].
    destruct (is_nil errs && fully_privileged pol); reflexivity.
  - exists [EvNsLookup; EvDecode; EvDecodeOld]. split; [now right|].
    rewrite Hold, Hsig. destruct (is_nil errs && fully_privileged pol); reflexivity.
Qed.

Lemma fst_validate_evaluated_pod c ev r w ls p :
  evaluated_pod c r w = Some (ls, p) ->
  let pol := spec_policy ls (cf_defaults c) in
  let errs := spec_errs ls in
  fst (validate c ev r w) =
    if is_nil errs && fully_privileged pol then shared_privileged else fst (epr_flat c ev pol errs p true).
Proof.
  intros H pol errs. destruct (validate_evaluated_pod c ev r w ls p H) as (pre & _ & ->).
  fold pol errs. now destruct (is_nil errs && fully_privileged pol).
Qed.

Lemma privileged_enforce_allows ev pol p :
  ev_privileged_allows ev -> level_eqb (lv_level (enforce pol)) Privileged = true ->
  violates ev (enforce pol) p = false.
Proof.
  intros Hev Hl. apply level_eqb_eq in Hl. unfold violates.
  destruct (enforce pol) as [l v]. cbn [lv_level] in Hl. subst l. now rewrite Hev.
Qed.

Lemma has_prefix_privileged x :
  level_eqb (lv_level x) Privileged = true -> has_prefix "privileged:" (lv_string x) = true.
Proof. destruct x as [l v]. intros H. apply level_eqb_eq in H. cbn [lv_level] in H. subst l.
  unfold lv_string. cbn [lv_level lv_version level_string]. destruct (version_string v); reflexivity.
Qed.

(** * C01 *)

Lemma P01_model c ev r w : ev_privileged_allows ev -> P01 c ev r w (validate c ev r w) = true.
Proof.
  intros Hev. unfold P01.
  destruct (evaluated_pod c r w) as [[ls p]|] eqn:He; [|reflexivity].
  rewrite (fst_validate_evaluated_pod c ev r w ls p He).
  set (pol := spec_policy ls (cf_defaults c)). set (errs := spec_errs ls). clearbody pol errs.
  destruct (is_nil errs && fully_privileged pol) eqn:Hsc.
  - apply andb_true_iff in Hsc. destruct Hsc as [_ Hfp].
    unfold fully_privileged in Hfp. rewrite !andb_true_iff in Hfp. destruct Hfp as [[Hfe _] _].
    rewrite (privileged_enforce_allows ev pol p Hev Hfe), Hfe. reflexivity.
  - unfold epr_flat. cbn [fst]. rewrite epr_resp_allowed, epr_resp_ann_enforce. cbn [andb].
    rewrite eqb_reflx. cbn [andb].
    destruct (violates ev (enforce pol) p); cbn [negb imp orb andb epr_resp rs_code rs_reason rs_message opt_eqb].
    + unfold violates_msg. rewrite contains_app.
      change ((403 =? 403)%Z && ("Forbidden" =? "Forbidden") && true) with true. cbn [andb].
      destruct (level_eqb (lv_level (enforce pol)) Privileged) eqn:Hl;
        [now apply has_prefix_privileged|apply String.eqb_refl].
    + destruct (level_eqb (lv_level (enforce pol)) Privileged) eqn:Hl;
        [now apply has_prefix_privileged|apply String.eqb_refl].
Qed.

Lemma C01_allowed_iff_proof c ev r w ls p :
  ev_privileged_allows ev -> evaluated_pod c r w = Some (ls, p) ->
  rs_allowed (fst (validate c ev r w)) = forallb cr_allowed (ev (enforce (spec_policy ls (cf_defaults c))) p).
Proof.
  intros Hev He. rewrite (fst_validate_evaluated_pod c ev r w ls p He).
  set (pol := spec_policy ls (cf_defaults c)). set (errs := spec_errs ls).
  destruct (is_nil errs && fully_privileged pol) eqn:Hsc.
  - apply andb_true_iff in Hsc. destruct Hsc as [_ Hfp].
    unfold fully_privileged in Hfp. rewrite !andb_true_iff in Hfp. destruct Hfp as [[Hfe _] _].
    pose proof (privileged_enforce_allows ev pol p Hev Hfe) as Hv. unfold violates in Hv.
    apply negb_false_iff in Hv. now rewrite Hv.
  - unfold epr_flat. cbn [fst]. rewrite epr_resp_allowed. cbn [andb]. unfold violates.
    now rewrite negb_involutive.
Qed.

Lemma C01_denial_is_403_proof c ev r w ls p :
  evaluated_pod c r w = Some (ls, p) -> rs_allowed (fst (validate c ev r w)) = false ->
  rs_code (fst (validate c ev r w)) = Some 403%Z /\ rs_reason (fst (validate c ev r w)) = "Forbidden"%string.
Proof.
  intros He. rewrite (fst_validate_evaluated_pod c ev r w ls p He).
  set (pol := spec_policy ls (cf_defaults c)). set (errs := spec_errs ls).
  destruct (is_nil errs && fully_privileged pol); [discriminate|].
  unfold epr_flat. cbn [fst]. rewrite epr_resp_allowed. cbn [andb].
  destruct (violates ev (enforce pol) p); [|discriminate]. intros _. split; reflexivity.
Qed.

(** without the hypothesis on the evaluator the short circuit for fully
    privileged namespaces contradicts the evaluator *)
Definition deny_all : evaluator := fun _ _ => [CR false "no" ""].
Definition cex_pod : pod := Pod "p" [] None false false false None None None [] [] [] [] None.
Definition cex_cfg : config :=
  Config (Policy (LV Privileged Latest) (LV Privileged Latest) (LV Privileged Latest)) [] [] [] 10 1000.
Definition cex_req : request := Request "" "pods" "" "ns" "p" "u" OpCreate (OPod cex_pod) ONil None.
Definition cex_world : world := World (Some []) "" None None 0.
Lemma C01_verdict_needs_hyp_proof :
  P01 cex_cfg deny_all cex_req cex_world (validate cex_cfg deny_all cex_req cex_world) = false.
Proof. vm_compute. reflexivity. Qed.

(** * Controller requests that reach evaluation *)

Lemma evaluated_object_inv c r w ls p enforced :
  evaluated_object c r w = Some (ls, p, enforced) ->
  (enforced = true /\ evaluated_pod c r w = Some (ls, p)) \/
  (enforced = false /\ is_controller r = true /\ r_subresource r = ""
   /\ exempt_namespace c (r_namespace r) = false /\ exempt_user c (r_user r) = false
   /\ w_ns w = Some ls /\ extract_pod_spec (r_object r) = Some (Some p)
   /\ (forall m, r_object r <> ODecodeErr m)
   /\ exempt_runtimeclass c (pd_runtimeClass p) = false).
Proof.
  unfold evaluated_object.
  destruct (evaluated_pod c r w) as [[ls0 p0]|]; [intros [= <- <- <-]; now left|].
  destruct (is_controller r); [|discriminate].
  destruct (String.eqb_spec (r_subresource r) "") as [Hsub|]; [|discriminate].
  destruct (s_exempt (r_namespace r) (cf_ex_namespaces c)) eqn:Hns; [discriminate|].
  destruct (s_exempt (r_user r) (cf_ex_users c)) eqn:Hu; [discriminate|].
  cbn [negb andb].
  destruct (w_ns w) as [ls0|]; [|discriminate].
  destruct (r_object r) as [m| |p0|n l|k [t|]|o]; try discriminate;
    (destruct (s_exempt_rc c _) eqn:Hrc; [discriminate|]);
    intros [= <- <- <-]; right; repeat split; try assumption; try reflexivity; intros m; discriminate.
Qed.

Definition controller_short_circuit (errs : list ferr) (pol : policy) : bool :=
  is_nil errs && level_eqb (lv_level (warn pol)) Privileged && level_eqb (lv_level (audit pol)) Privileged.

Lemma validate_evaluated_controller c ev r w ls p :
  evaluated_object c r w = Some (ls, p, false) ->
  let pol := spec_policy ls (cf_defaults c) in
  let errs := spec_errs ls in
  validate c ev r w =
    if controller_short_circuit errs pol then (shared_allowed, [EvNsLookup])
    else (fst (epr_flat c ev pol errs p false), [EvNsLookup; EvDecode] +:+ snd (epr_flat c ev pol errs p false)).
Proof.
  intros H. apply evaluated_object_inv in H.
  destruct H as [[H _]|(_ & Hc & Hsub & Hns & Hu & Hw & Ho & Hd & Hrc)]; [discriminate|].
  intros pol errs.
  rewrite (validate_controllers c ev r w Hc). unfold validate_controller.
  rewrite Hsub, Hns, Hu, Hw, policy_to_evaluate_spec.
  fold pol errs. unfold controller_short_circuit. cbn [String.eqb negb].
  destruct (is_nil errs && level_eqb (lv_level (warn pol)) Privileged
            && level_eqb (lv_level (audit pol)) Privileged); [reflexivity|].
  destruct (r_object r) as [m| |p0|n l|k t|o]; cbn [extract_pod_spec] in *; try discriminate.
  - injection Ho as ->. now rewrite (evaluate_pod_request_flat c ev pol errs p false Hrc).
  - injection Ho as ->. now rewrite (evaluate_pod_request_flat c ev pol errs p false Hrc).
Qed.

(** * C08 *)

Lemma P08_model c ev r w : P08 c ev r w (validate c ev r w) = true.
Proof.
  unfold P08.
  destruct (evaluated_object c r w) as [[[ls p] enforced]|] eqn:He; [|reflexivity].
  destruct (evaluated_object_inv c r w ls p enforced He) as [[-> Hp]|[-> _]].
  - rewrite (fst_validate_evaluated_pod c ev r w ls p Hp).
    set (pol := spec_policy ls (cf_defaults c)). set (errs := spec_errs ls). clearbody pol errs.
    change (s_fully_privileged pol) with (fully_privileged pol).
    destruct (is_nil errs && fully_privileged pol); [reflexivity|].
    unfold epr_flat. cbn [fst].
    rewrite epr_resp_allowed, epr_resp_warnings, epr_resp_ann_audit. cbn [andb].
    rewrite eqb_reflx. cbn [andb].
    unfold would_violate_msg.
    now rewrite list_string_eqb_refl, opt_string_eqb_refl.
  - rewrite (validate_evaluated_controller c ev r w ls p He).
    set (pol := spec_policy ls (cf_defaults c)). set (errs := spec_errs ls). clearbody pol errs.
    unfold controller_short_circuit. rewrite <- andb_assoc.
    destruct (is_nil errs && (level_eqb (lv_level (warn pol)) Privileged && level_eqb (lv_level (audit pol)) Privileged));
      [reflexivity|].
    unfold epr_flat. cbn [fst].
    rewrite epr_resp_allowed, epr_resp_warnings, epr_resp_ann_audit. cbn [andb negb eqb].
    unfold would_violate_msg.
    now rewrite list_string_eqb_refl, opt_string_eqb_refl.
Qed.

(** ** the allow bit of a pod request is a function of the enforce part of the policy *)

(** what the allow bit is outside the fully-privileged short circuit *)
Definition pod_allow_expr (c : config) (ev : evaluator) (r : request) (e : lv) : bool :=
  mem (r_subresource r) ignored_pod_subresources
  || exempt_namespace c (r_namespace r) || exempt_user c (r_user r)
  || match r_object r with
     | OPod p =>
         if is_update (r_op r)
         then match r_old r with
              | OPod old => negb (significant_update p old)
                            || exempt_runtimeclass c (pd_runtimeClass p) || negb (violates ev e p)
              | _ => false
              end
         else exempt_runtimeclass c (pd_runtimeClass p) || negb (violates ev e p)
     | _ => false
     end.

Lemma evaluate_pod_request_allowed c ev pol errs p em :
  rs_allowed (fst (evaluate_pod_request c ev pol errs p em))
  = exempt_runtimeclass c (pd_runtimeClass p) || negb (em && violates ev (enforce pol) p).
Proof.
  destruct (exempt_runtimeclass c (pd_runtimeClass p)) eqn:Hrc.
  - now rewrite evaluate_pod_request_exempt.
  - now rewrite evaluate_pod_request_flat.
Qed.

Lemma validate_pod_allowed c ev r w ls :
  w_ns w = Some ls ->
  let pol := spec_policy ls (cf_defaults c) in
  rs_allowed (fst (validate_pod c ev r w))
  = pod_allow_expr c ev r (enforce pol)
    || (negb (mem (r_subresource r) ignored_pod_subresources
              || exempt_namespace c (r_namespace r) || exempt_user c (r_user r))
        && is_nil (spec_errs ls) && fully_privileged pol).
Proof.
  intros Hw pol. unfold validate_pod, pod_allow_expr.
  destruct (mem (r_subresource r) ignored_pod_subresources); [reflexivity|].
  destruct (exempt_namespace c (r_namespace r)); [reflexivity|].
  destruct (exempt_user c (r_user r)); [reflexivity|].
  rewrite Hw, policy_to_evaluate_spec. fold pol. cbn [orb negb andb].
  destruct (is_nil (spec_errs ls) && fully_privileged pol); [now rewrite orb_true_r|].
  rewrite orb_false_r.
  destruct (r_object r) as [m| |p|n l|k t|o]; try reflexivity.
  destruct (is_update (r_op r)).
  - destruct (r_old r) as [m| |old|n l|k t|o]; try reflexivity.
    destruct (significant_update p old); [|reflexivity]. cbn [negb orb].
    pose proof (evaluate_pod_request_allowed c ev pol (spec_errs ls) p true) as H.
    destruct (evaluate_pod_request c ev pol (spec_errs ls) p true) as [resp tr]. exact H.
  - pose proof (evaluate_pod_request_allowed c ev pol (spec_errs ls) p true) as H.
    destruct (evaluate_pod_request c ev pol (spec_errs ls) p true) as [resp tr]. exact H.
Qed.

Lemma validate_controller_allowed c ev r w : rs_allowed (fst (validate_controller c ev r w)) = true.
Proof.
  unfold validate_controller.
  destruct (negb (String.eqb (r_subresource r) "")); [reflexivity|].
  destruct (exempt_namespace c (r_namespace r)); [reflexivity|].
  destruct (exempt_user c (r_user r)); [reflexivity|].
  destruct (w_ns w) as [ls|]; [|reflexivity].
  rewrite policy_to_evaluate_spec.
  destruct (is_nil (spec_errs ls) && level_eqb (lv_level (warn (spec_policy ls (cf_defaults c)))) Privileged
            && level_eqb (lv_level (audit (spec_policy ls (cf_defaults c)))) Privileged); [reflexivity|].
  destruct (r_object r) as [m| |p|n l|k [p|]|o]; try reflexivity; cbn [extract_pod_spec];
  pose proof (evaluate_pod_request_allowed c ev (spec_policy ls (cf_defaults c)) (spec_errs ls) p false) as H;
  destruct (evaluate_pod_request c ev (spec_policy ls (cf_defaults c)) (spec_errs ls) p false) as [resp tr];
  cbn [fst] in *; rewrite H; cbn [andb negb]; apply orb_true_r.
Qed.

Lemma C09_never_denied_proof c ev r w : is_controller r = true -> rs_allowed (fst (validate c ev r w)) = true.
Proof. intros H. rewrite (validate_controllers c ev r w H). apply validate_controller_allowed. Qed.

(** with a well-behaved evaluator and decodable objects the short circuit agrees with the expression *)
Lemma pod_allow_expr_privileged c ev r e :
  ev_privileged_allows ev -> pod_request_decodes r -> is_pods r = true ->
  level_eqb (lv_level e) Privileged = true -> pod_allow_expr c ev r e = true.
Proof.
  intros Hev Hd Hp Hl. destruct (Hd Hp) as [[p Ho] Hold].
  assert (Hv : violates ev e p = false).
  { apply level_eqb_eq in Hl. destruct e as [l v]. cbn [lv_level] in Hl. subst l.
    unfold violates. now rewrite Hev. }
  unfold pod_allow_expr. rewrite Ho.
  destruct (is_update (r_op r)).
  - destruct (Hold eq_refl) as [old ->]. rewrite Hv. cbn [negb]. now rewrite !orb_true_r.
  - rewrite Hv. cbn [negb]. now rewrite !orb_true_r.
Qed.

Lemma C08_allow_independent_proof c ev r w w' ls ls' :
  w_ns w = Some ls -> w_ns w' = Some ls' ->
  enforce (spec_policy ls (cf_defaults c)) = enforce (spec_policy ls' (cf_defaults c)) ->
  is_namespaces r = false ->
  ev_privileged_allows ev -> pod_request_decodes r ->
  rs_allowed (fst (validate c ev r w)) = rs_allowed (fst (validate c ev r w')).
Proof.
  intros Hw Hw' He Hn Hev Hd.
  destruct (request_class r) as [(H & _)|[(_ & Hp & _)|(_ & _ & Hc)]]; [congruence| |].
  - rewrite !(validate_pods _ _ _ _ Hp).
    rewrite (validate_pod_allowed c ev r w ls Hw), (validate_pod_allowed c ev r w' ls' Hw'), <- He.
    assert (forall pol b, enforce pol = enforce (spec_policy ls (cf_defaults c)) ->
              pod_allow_expr c ev r (enforce (spec_policy ls (cf_defaults c))) || (b && fully_privileged pol)
              = pod_allow_expr c ev r (enforce (spec_policy ls (cf_defaults c)))) as Hx.
    { intros pol b Hpe. destruct (fully_privileged pol) eqn:Hfp; [|now rewrite andb_false_r, orb_false_r].
      unfold fully_privileged in Hfp. rewrite !andb_true_iff in Hfp. destruct Hfp as [[Hfe _] _].
      rewrite Hpe in Hfe. rewrite (pod_allow_expr_privileged c ev r _ Hev Hd Hp Hfe). reflexivity. }
    rewrite !Hx by congruence. reflexivity.
  - now rewrite !C09_never_denied_proof.
Qed.

(** the same conclusion with no hypothesis on the evaluator or the objects, when
    both worlds take (or both do not take) the fully-privileged short circuit *)
Lemma C08_allow_independent_same_shortcut_proof c ev r w w' ls ls' :
  w_ns w = Some ls -> w_ns w' = Some ls' ->
  enforce (spec_policy ls (cf_defaults c)) = enforce (spec_policy ls' (cf_defaults c)) ->
  is_namespaces r = false ->
  is_nil (spec_errs ls) && fully_privileged (spec_policy ls (cf_defaults c))
  = is_nil (spec_errs ls') && fully_privileged (spec_policy ls' (cf_defaults c)) ->
  rs_allowed (fst (validate c ev r w)) = rs_allowed (fst (validate c ev r w')).
Proof.
  intros Hw Hw' He Hn Hsc.
  destruct (request_class r) as [(H & _)|[(_ & Hp & _)|(_ & _ & Hc)]]; [congruence| |].
  - rewrite !(validate_pods _ _ _ _ Hp).
    rewrite (validate_pod_allowed c ev r w ls Hw), (validate_pod_allowed c ev r w' ls' Hw'), <- He.
    rewrite <- !andb_assoc, Hsc. reflexivity.
  - now rewrite !C09_never_denied_proof.
Qed.

(** counterexamples to the formulation without the two hypotheses: the
    namespace of [w] is fully privileged, that of [w'] has the same enforce but
    audit = baseline *)
Definition cex_world_audit : world := World (Some [(audit_level_label, "baseline")]) "" None None 0.
Definition cex_req_undecodable : request := Request "" "pods" "" "ns" "p" "u" OpCreate (ODecodeErr "boom") ONil None.
Lemma C08_allow_independent_needs_decode_proof :
  enforce (spec_policy [] (cf_defaults cex_cfg)) = enforce (spec_policy [(audit_level_label, "baseline")] (cf_defaults cex_cfg))
  /\ spec_errs [] = [] /\ spec_errs [(audit_level_label, "baseline")] = []
  /\ ev_privileged_allows (fun _ _ => [])
  /\ rs_allowed (fst (validate cex_cfg (fun _ _ => []) cex_req_undecodable cex_world)) = true
  /\ rs_allowed (fst (validate cex_cfg (fun _ _ => []) cex_req_undecodable cex_world_audit)) = false.
Proof. repeat split. Qed.
Lemma C08_allow_independent_needs_ev_proof :
  pod_request_decodes cex_req
  /\ rs_allowed (fst (validate cex_cfg deny_all cex_req cex_world)) = true
  /\ rs_allowed (fst (validate cex_cfg deny_all cex_req cex_world_audit)) = false.
Proof.
  split; [|split; reflexivity].
  intros _. split; [now exists cex_pod|discriminate].
Qed.

(** * C18, admission half *)

Definition is_metric (e : event) : bool :=
  match e with MEval _ _ _ | MExempt | MError _ => true | _ => false end.

(** the body of [P18_adm] for pod and controller requests; [ignored]: the
    request is one of those that must record nothing *)
Definition P18_core (ignored : bool) (o : obs) : bool :=
  let resp := fst o in
  let tr := snd o in
  let n_enf := count_ev (is_meval ModeEnforce) tr in
  let n_aud := count_ev (is_meval ModeAudit) tr in
  let n_warn := count_ev (is_meval ModeWarn) tr in
  let n_ex := count_ev is_mexempt tr in
  let n_fatal := count_ev (is_merror true) tr in
  let n_metrics := n_enf + n_aud + n_warn + n_ex + n_fatal + count_ev (is_merror false) tr in
  imp (is_some (ann "exempt" resp)) (Nat.eqb n_ex 1 && Nat.eqb n_metrics 1)
  && imp (negb (is_some (ann "exempt" resp))) (Nat.eqb n_ex 0)
  && Bool.eqb (is_some (ann "enforce-policy" resp)) (Nat.eqb n_enf 1) && Nat.leb n_enf 1
  && forallb (fun e => match e with
                       | MEval deny _ ModeEnforce => Bool.eqb deny (negb (rs_allowed resp))
                       | _ => true end) tr
  && Bool.eqb (is_some (ann "audit-violations" resp)) (Nat.eqb n_aud 1) && Nat.leb n_aud 1
  && Bool.eqb (negb (is_nil (rs_warnings resp))) (Nat.eqb n_warn 1) && Nat.leb n_warn 1
  && imp (Nat.eqb n_fatal 1) (has_error_ann resp && negb (has_eval tr))
  && Nat.leb n_fatal 1
  && imp ignored (Nat.eqb n_metrics 0).

Lemma P18_adm_unfold c r w o :
  P18_adm c r w o =
  if is_namespaces r
  then Nat.eqb (count_ev (is_meval ModeEnforce) (snd o) + count_ev (is_meval ModeAudit) (snd o)
                + count_ev (is_meval ModeWarn) (snd o) + count_ev is_mexempt (snd o)
                + count_ev (is_merror true) (snd o) + count_ev (is_merror false) (snd o)) 0
  else P18_core ((is_pods r && s_ignored_sub (r_subresource r))
                 || (is_controller r && negb (String.eqb (r_subresource r) ""))) o.
Proof. reflexivity. Qed.

Lemma count_ev_no_metric f tr :
  (forall e, f e = true -> is_metric e = true) ->
  forallb (fun e => negb (is_metric e)) tr = true -> count_ev f tr = 0.
Proof.
  intros Hf. unfold count_ev. induction tr as [|e tr IH]; [reflexivity|].
  cbn [forallb filter]. rewrite andb_true_iff, negb_true_iff. intros [He Htr].
  destruct (f e) eqn:Hfe; [apply Hf in Hfe; congruence|]. now apply IH.
Qed.

Lemma no_metric_evals x names :
  forallb (fun e => negb (is_metric e)) (map (fun n => EvEval x n) names) = true.
Proof. induction names as [|n names IH]; [reflexivity|exact IH]. Qed.

Lemma evaluate_pods_in_namespace_no_metric c ev r w name x :
  forallb (fun e => negb (is_metric e)) (snd (evaluate_pods_in_namespace c ev r w name x)) = true.
Proof.
  unfold evaluate_pods_in_namespace.
  destruct (w_pods w) as [pods|]; [|reflexivity].
  destruct (eval_loop ev x (w_expire_after w) 0 (firstn (cf_max_pods c) (prioritize_pods c pods)) [])
    as [[m checked] names].
  cbn [snd forallb is_metric negb andb]. apply no_metric_evals.
Qed.

Lemma validate_namespace_no_metric c ev r w :
  forallb (fun e => negb (is_metric e)) (snd (validate_namespace c ev r w)) = true.
Proof.
  unfold validate_namespace.
  destruct (negb (String.eqb (r_subresource r) "")); [reflexivity|].
  destruct (r_object r) as [m| |p|name ls|k t|o]; try reflexivity.
  destruct (policy_to_evaluate ls (cf_defaults c)) as [new_pol new_errs].
  destruct (r_op r) as [| |raw]; [| |reflexivity].
  - destruct (negb (is_nil new_errs)); [reflexivity|].
    destruct (exempt_namespace c (r_namespace r)); reflexivity.
  - destruct (r_old r) as [m| |p|oname old_ls|k t|o]; try reflexivity.
    destruct (policy_to_evaluate old_ls (cf_defaults c)) as [old_pol old_errs].
    destruct (negb (is_nil new_errs) && (is_nil old_errs || negb (ferrs_eqb new_errs old_errs))); [reflexivity|].
    destruct (lv_eqb (enforce new_pol) (enforce old_pol)); [reflexivity|].
    destruct (level_eqb (lv_level (enforce new_pol)) Privileged); [reflexivity|].
    match goal with |- context [if ?b then (shared_allowed, _) else _] => destruct b end; [reflexivity|].
    destruct (exempt_namespace c (r_namespace r)); [reflexivity|].
    pose proof (evaluate_pods_in_namespace_no_metric c ev r w name (enforce new_pol)) as H.
    destruct (evaluate_pods_in_namespace c ev r w name (enforce new_pol)) as [warns tr2].
    cbn [snd] in *. exact H.
Qed.

Lemma P18_core_epr pre n em vE vA vW hitA hitW emsg estr amsg wmsg e a w nm :
  pre = [EvNsLookup; EvDecode] \/ pre = [EvNsLookup; EvDecode; EvDecodeOld] ->
  P18_core false (epr_resp n em vE vA vW emsg estr amsg wmsg,
                  pre +:+ epr_trace n em vE vA vW hitA hitW e a w nm) = true.
Proof. intros [->| ->]; destruct n, em, vE, vA, vW, hitA, hitW; reflexivity. Qed.

Lemma P18_core_evaluate c ev pol errs p em pre :
  pre = [EvNsLookup; EvDecode] \/ pre = [EvNsLookup; EvDecode; EvDecodeOld] ->
  P18_core false (let '(resp, tr) := evaluate_pod_request c ev pol errs p em in (resp, pre +:+ tr)) = true.
Proof.
  intros Hpre. destruct (exempt_runtimeclass c (pd_runtimeClass p)) eqn:Hrc.
  - rewrite evaluate_pod_request_exempt by exact Hrc. destruct Hpre as [->| ->]; reflexivity.
  - rewrite evaluate_pod_request_flat by exact Hrc. unfold epr_flat. now apply P18_core_epr.
Qed.

Lemma P18_validate_pod c ev r w :
  P18_core (mem (r_subresource r) ignored_pod_subresources) (validate_pod c ev r w) = true.
Proof.
  unfold validate_pod.
  destruct (mem (r_subresource r) ignored_pod_subresources); [reflexivity|].
  destruct (exempt_namespace c (r_namespace r)); [reflexivity|].
  destruct (exempt_user c (r_user r)); [reflexivity|].
  destruct (w_ns w) as [ls|]; [|reflexivity].
  destruct (policy_to_evaluate ls (cf_defaults c)) as [pol errs].
  destruct (is_nil errs && fully_privileged pol); [reflexivity|].
  destruct (r_object r) as [m| |p|n l|k t|o]; try reflexivity.
  destruct (is_update (r_op r)).
  - destruct (r_old r) as [m| |old|n l|k t|o]; try reflexivity.
    destruct (significant_update p old); [|reflexivity].
    apply P18_core_evaluate. now right.
  - apply P18_core_evaluate. now left.
Qed.

Lemma P18_validate_controller c ev r w :
  P18_core (negb (String.eqb (r_subresource r) "")) (validate_controller c ev r w) = true.
Proof.
  unfold validate_controller.
  destruct (negb (String.eqb (r_subresource r) "")); [reflexivity|].
  destruct (exempt_namespace c (r_namespace r)); [reflexivity|].
  destruct (exempt_user c (r_user r)); [reflexivity|].
  destruct (w_ns w) as [ls|]; [|reflexivity].
  destruct (policy_to_evaluate ls (cf_defaults c)) as [pol errs].
  destruct (is_nil errs && level_eqb (lv_level (warn pol)) Privileged
            && level_eqb (lv_level (audit pol)) Privileged); [reflexivity|].
  destruct (r_object r) as [m| |p|n l|k [p|]|o]; try reflexivity; cbn [extract_pod_spec];
    apply (P18_core_evaluate c ev pol errs p false [EvNsLookup; EvDecode]); now left.
Qed.

Lemma P18_adm_model c ev r w : P18_adm c r w (validate c ev r w) = true.
Proof.
  rewrite P18_adm_unfold.
  destruct (request_class r) as [(Hn & _)|[(Hn & Hp & Hc)|(Hn & Hp & Hc)]]; rewrite Hn.
  - rewrite (validate_namespaces c ev r w Hn).
    pose proof (validate_namespace_no_metric c ev r w) as H.
    rewrite (count_ev_no_metric (is_meval ModeEnforce) _ ltac:(intros [] ?; try reflexivity; discriminate) H).
    rewrite (count_ev_no_metric (is_meval ModeAudit) _ ltac:(intros [] ?; try reflexivity; discriminate) H).
    rewrite (count_ev_no_metric (is_meval ModeWarn) _ ltac:(intros [] ?; try reflexivity; discriminate) H).
    rewrite (count_ev_no_metric is_mexempt _ ltac:(intros [] ?; try reflexivity; discriminate) H).
    rewrite (count_ev_no_metric (is_merror true) _ ltac:(intros [] ?; try reflexivity; discriminate) H).
    rewrite (count_ev_no_metric (is_merror false) _ ltac:(intros [] ?; try reflexivity; discriminate) H).
    reflexivity.
  - rewrite Hp, Hc, (validate_pods c ev r w Hp). cbn [andb orb].
    rewrite orb_false_r. apply P18_validate_pod.
  - rewrite Hp, Hc, (validate_controllers c ev r w Hc). cbn [andb orb].
    apply P18_validate_controller.
Qed.

(** * C09: the bare pod of a controller's template *)

Lemma spec_level_of_level_string l : spec_level_of (level_string l) = Some l.
Proof. destruct l; reflexivity. Qed.

Lemma spec_version_of_version_string v :
  printable_version v = true -> spec_version_of (version_string v) = Some v.
Proof.
  destruct v as [|ma mi]; [reflexivity|].
  destruct ma as [|[q|q|]]; try discriminate. cbn [printable_version]. intros Hn.
  apply N.ltb_lt in Hn. pose proof (print_parse mi Hn) as H.
  rewrite parse_version_spec in H.
  destruct (spec_version_of (version_string (V 1 mi))) as [v|]; [|discriminate].
  now injection H as ->.
Qed.

Lemma spec_version_of_printable s v : spec_version_of s = Some v -> printable_version v = true.
Proof.
  unfold spec_version_of. destruct (String.eqb s "latest"); [now intros [= <-]|].
  destruct (strip_prefix "v1." s) as [r|]; [|discriminate].
  destruct (canonical_digits r) as [n|]; [|discriminate].
  destruct (N.ltb n 9223372036854775808) eqn:Hn; [|discriminate].
  intros [= <-]. exact Hn.
Qed.

Lemma spec_version_printable m ls d :
  policy_printable d = true -> printable_version (spec_version m ls d) = true.
Proof.
  unfold policy_printable. rewrite !andb_true_iff. intros [[He Ha] Hw].
  unfold spec_version. destruct (lookup (version_key m) ls) as [s|].
  - destruct (spec_version_of s) as [v|] eqn:Hs; [now apply spec_version_of_printable in Hs|reflexivity].
  - destruct m; assumption.
Qed.

Lemma spec_policy_printable ls d : policy_printable d = true -> policy_printable (spec_policy ls d) = true.
Proof.
  intros Hd. unfold policy_printable, spec_policy. cbn [enforce audit warn lv_version lv_level].
  rewrite !spec_version_printable by exact Hd. cbn [andb].
  destruct (warn_follows ls d); cbn [lv_version]; [|now apply spec_version_printable].
  destruct (lookup warn_version_label ls); now apply spec_version_printable.
Qed.

(** the namespace of the bare pod resolves to enforce = privileged (at the
    default enforce version) and exactly the audit / warn parts it was built from *)
Lemma spec_policy_bare pol d :
  printable_version (lv_version (audit pol)) = true -> printable_version (lv_version (warn pol)) = true ->
  spec_policy (bare_labels pol) d = Policy (LV Privileged (lv_version (enforce d))) (audit pol) (warn pol)
  /\ spec_errs (bare_labels pol) = [].
Proof.
  intros Ha Hw.
  assert (L1 : lookup enforce_level_label (bare_labels pol) = Some "privileged") by reflexivity.
  assert (L2 : lookup enforce_version_label (bare_labels pol) = None) by reflexivity.
  assert (L3 : lookup audit_level_label (bare_labels pol) = Some (level_string (lv_level (audit pol)))) by reflexivity.
  assert (L4 : lookup audit_version_label (bare_labels pol) = Some (version_string (lv_version (audit pol)))) by reflexivity.
  assert (L5 : lookup warn_level_label (bare_labels pol) = Some (level_string (lv_level (warn pol)))) by reflexivity.
  assert (L6 : lookup warn_version_label (bare_labels pol) = Some (version_string (lv_version (warn pol)))) by reflexivity.
  split.
  - unfold spec_policy, warn_follows, spec_level, spec_version.
    cbn [level_key version_key default_of].
    rewrite L1, L2, L3, L4, L5, L6.
    rewrite !spec_level_of_level_string, !spec_version_of_version_string by assumption.
    change (spec_level_of "privileged") with (Some Privileged).
    destruct (audit pol) as [al av], (warn pol) as [wl wv]. reflexivity.
  - unfold spec_errs, spec_label_err.
    rewrite L1, L2, L3, L4, L5, L6.
    rewrite !spec_level_of_level_string, !spec_version_of_version_string by assumption.
    reflexivity.
Qed.

Lemma validate_bare_pod c ev r w ls p :
  policy_printable (cf_defaults c) = true ->
  let pol := spec_policy ls (cf_defaults c) in
  let pol' := Policy (LV Privileged (lv_version (enforce (cf_defaults c)))) (audit pol) (warn pol) in
  validate c ev (bare_pod_request r p) (bare_pod_world c w ls) =
    if exempt_namespace c (r_namespace r) then (shared_namespace, [MExempt]) else
    if exempt_user c (r_user r) then (shared_user, [MExempt]) else
    if level_eqb (lv_level (audit pol)) Privileged && level_eqb (lv_level (warn pol)) Privileged
    then (shared_privileged, [EvNsLookup; MEval false (enforce pol') ModeEnforce])
    else let '(resp, tr) := evaluate_pod_request c ev pol' [] p true in (resp, [EvNsLookup; EvDecode] +:+ tr).
Proof.
  intros Hd pol pol'.
  pose proof (spec_policy_printable ls (cf_defaults c) Hd) as Hp. fold pol in Hp.
  unfold policy_printable in Hp. rewrite !andb_true_iff in Hp. destruct Hp as [[_ Ha] Hw].
  destruct (spec_policy_bare pol (cf_defaults c) Ha Hw) as [Hpol Herrs]. fold pol' in Hpol.
  rewrite validate_pods by reflexivity. unfold validate_pod.
  change (r_subresource (bare_pod_request r p)) with "".
  change (r_namespace (bare_pod_request r p)) with (r_namespace r).
  change (r_user (bare_pod_request r p)) with (r_user r).
  change (mem "" ignored_pod_subresources) with false. cbv iota.
  destruct (exempt_namespace c (r_namespace r)); [reflexivity|].
  destruct (exempt_user c (r_user r)); [reflexivity|].
  change (w_ns (bare_pod_world c w ls)) with (Some (bare_labels pol)). cbv iota.
  rewrite policy_to_evaluate_spec, Hpol, Herrs.
  change (is_nil (@nil ferr)) with true. cbn [andb].
  change (fully_privileged pol') with
    (level_eqb (lv_level (audit pol)) Privileged && level_eqb (lv_level (warn pol)) Privileged).
  destruct (level_eqb (lv_level (audit pol)) Privileged && level_eqb (lv_level (warn pol)) Privileged);
    reflexivity.
Qed.

(** the part of P09 that does not involve the bare pod *)
Definition P09_base (r : request) (o : obs) : bool :=
  rs_allowed (fst o)
  && negb (existsb (is_meval ModeEnforce) (snd o)) && negb (is_some (ann "enforce-policy" (fst o)))
  && imp (negb (String.eqb (r_subresource r) "") ||
          match r_object r with OController _ None => true | _ => false end)
         (is_nil (rs_warnings (fst o)) && negb (is_some (ann "audit-violations" (fst o))) && negb (has_eval (snd o))).

Lemma P09_base_epr n vE vA vW hitA hitW emsg estr amsg wmsg e a w nm :
  let o := (epr_resp n false vE vA vW emsg estr amsg wmsg,
            [EvNsLookup; EvDecode] +:+ epr_trace n false vE vA vW hitA hitW e a w nm) in
  rs_allowed (fst o) && negb (existsb (is_meval ModeEnforce) (snd o))
  && negb (is_some (ann "enforce-policy" (fst o))) = true.
Proof. destruct n, vE, vA, vW, hitA, hitW; reflexivity. Qed.

Lemma P09_base_evaluate c ev pol errs p :
  let o := (let '(resp, tr) := evaluate_pod_request c ev pol errs p false in (resp, [EvNsLookup; EvDecode] +:+ tr)) in
  rs_allowed (fst o) && negb (existsb (is_meval ModeEnforce) (snd o))
  && negb (is_some (ann "enforce-policy" (fst o))) = true.
Proof.
  destruct (exempt_runtimeclass c (pd_runtimeClass p)) eqn:Hrc.
  - now rewrite evaluate_pod_request_exempt.
  - rewrite evaluate_pod_request_flat by exact Hrc. apply P09_base_epr.
Qed.

Lemma P09_base_model c ev r w : P09_base r (validate_controller c ev r w) = true.
Proof.
  unfold P09_base, validate_controller.
  destruct (String.eqb (r_subresource r) ""); cbn [negb]; [|reflexivity].
  destruct (exempt_namespace c (r_namespace r)); [now destruct (r_object r) as [| | | |? [|]|]|].
  destruct (exempt_user c (r_user r)); [now destruct (r_object r) as [| | | |? [|]|]|].
  destruct (w_ns w) as [ls|]; [|now destruct (r_object r) as [| | | |? [|]|]].
  destruct (policy_to_evaluate ls (cf_defaults c)) as [pol errs].
  destruct (is_nil errs && level_eqb (lv_level (warn pol)) Privileged
            && level_eqb (lv_level (audit pol)) Privileged); [now destruct (r_object r) as [| | | |? [|]|]|].
  destruct (r_object r) as [m| |p|n l|k [p|]|o]; try reflexivity; cbn [extract_pod_spec orb imp negb];
    rewrite andb_true_r; apply P09_base_evaluate.
Qed.

Lemma P09_bare_epr n n' vE vE' vA vW hitA hitW hitA' hitW' emsg estr emsg' estr' amsg wmsg e e' a w nm :
  let o := (epr_resp n false vE vA vW emsg estr amsg wmsg,
            [EvNsLookup; EvDecode] +:+ epr_trace n false vE vA vW hitA hitW e a w nm) in
  let op := (epr_resp n' true vE' vA vW emsg' estr' amsg wmsg,
             [EvNsLookup; EvDecode] +:+ epr_trace n' true vE' vA vW hitA' hitW' e' a w nm) in
  imp (rs_allowed (fst op))
      (list_eqb String.eqb (rs_warnings (fst o)) (rs_warnings (fst op))
       && opt_eqb String.eqb (ann "audit-violations" (fst o)) (ann "audit-violations" (fst op))) = true.
Proof.
  cbn [fst]. rewrite !epr_resp_ann_audit, !epr_resp_warnings, epr_resp_allowed.
  destruct vE'; [reflexivity|]. cbn [andb negb imp orb].
  now rewrite list_string_eqb_refl, opt_string_eqb_refl.
Qed.

Lemma P09_bare_model c ev r w p ls :
  is_controller r = true ->
  request_pod r = Some p -> r_subresource r = "" -> w_ns w = Some ls -> spec_errs ls = [] ->
  policy_printable (cf_defaults c) = true ->
  let o := validate c ev r w in
  let op := validate c ev (bare_pod_request r p) (bare_pod_world c w ls) in
  imp (rs_allowed (fst op))
      (list_eqb String.eqb (rs_warnings (fst o)) (rs_warnings (fst op))
       && opt_eqb String.eqb (ann "audit-violations" (fst o)) (ann "audit-violations" (fst op))) = true.
Proof.
  intros Hc Hrp Hsub Hw Herrs Hd.
  rewrite (validate_bare_pod c ev r w ls p Hd), (validate_controllers c ev r w Hc).
  unfold validate_controller. rewrite Hsub. cbn [String.eqb negb].
  destruct (exempt_namespace c (r_namespace r)); [reflexivity|].
  destruct (exempt_user c (r_user r)); [reflexivity|].
  rewrite Hw, policy_to_evaluate_spec, Herrs.
  set (pol := spec_policy ls (cf_defaults c)).
  set (pol' := Policy (LV Privileged (lv_version (enforce (cf_defaults c)))) (audit pol) (warn pol)).
  clearbody pol. cbn [is_nil andb].
  rewrite (andb_comm (level_eqb (lv_level (warn pol)) Privileged)).
  destruct (level_eqb (lv_level (audit pol)) Privileged && level_eqb (lv_level (warn pol)) Privileged);
    [reflexivity|].
  assert (He : extract_pod_spec (r_object r) = Some (Some p) /\ forall m, r_object r <> ODecodeErr m).
  { unfold request_pod in Hrp. destruct (r_object r) as [m| |p0|n l|k [p0|]|o]; try discriminate;
      injection Hrp as ->; split; try reflexivity; intros m; discriminate. }
  destruct He as [He Hnd].
  assert (Hv : (match r_object r with
                | ODecodeErr _ => (allowed_with_error "failed to decode object: ", [EvNsLookup; EvDecode; MError true])
                | o => match extract_pod_spec o with
                       | None => (allowed_with_error "failed to extract pod template: ", [EvNsLookup; EvDecode; MError true])
                       | Some None => (shared_allowed, [EvNsLookup; EvDecode])
                       | Some (Some p) =>
                           let '(resp, tr) := evaluate_pod_request c ev pol [] p false in
                           (resp, [EvNsLookup; EvDecode] +:+ tr)
                       end
                end) = (let '(resp, tr) := evaluate_pod_request c ev pol [] p false in
                        (resp, [EvNsLookup; EvDecode] +:+ tr))).
  { destruct (r_object r) as [m| |p0|n l|k t|o]; cbn [extract_pod_spec] in *; try discriminate;
      try (exfalso; now apply (Hnd m)); now injection He as ->. }
  rewrite Hv. clear Hv.
  destruct (exempt_runtimeclass c (pd_runtimeClass p)) eqn:Hrc.
  - rewrite !evaluate_pod_request_exempt by exact Hrc. reflexivity.
  - rewrite !evaluate_pod_request_flat by exact Hrc. unfold epr_flat.
    change (audit pol') with (audit pol). change (warn pol') with (warn pol).
    apply P09_bare_epr.
Qed.

Lemma P09_model c ev r w (o_pod : option obs) :
  (forall o, o_pod = Some o -> exists p ls,
        request_pod r = Some p /\ r_subresource r = "" /\ w_ns w = Some ls /\ spec_errs ls = [] /\
        o = validate c ev (bare_pod_request r p) (bare_pod_world c w ls)) ->
  policy_printable (cf_defaults c) = true ->
  P09 c ev r w (validate c ev r w) o_pod = true.
Proof.
  intros Ho Hd. unfold P09.
  destruct (is_controller r) eqn:Hc; [|reflexivity]. cbn [negb].
  pose proof (P09_base_model c ev r w) as Hb. rewrite <- (validate_controllers c ev r w Hc) in Hb.
  unfold P09_base in Hb. rewrite Hb. cbn [andb].
  destruct o_pod as [op|]; [|reflexivity].
  destruct (Ho op eq_refl) as (p & ls & Hrp & Hsub & Hw & Herrs & ->).
  now apply P09_bare_model.
Qed.

(** the bare pod of a controller request that carries a subresource is
    evaluated although the controller request is not: the hypothesis
    [r_subresource r = ""] on the related request cannot be dropped *)
Definition cex_ev : evaluator := fun x _ => match lv_level x with Privileged => [] | _ => [CR false "no" ""] end.
Definition cex_req_scale : request :=
  Request "apps" "deployments" "scale" "ns" "d" "u" OpUpdate (OController "Deployment" (Some cex_pod)) ONil None.
Definition cex_world_warn : world := World (Some [(warn_level_label, "baseline")]) "" None None 0.
Lemma C09_controllers_needs_hyp_proof :
  let ls := [(warn_level_label, "baseline")] in
  request_pod cex_req_scale = Some cex_pod /\ w_ns cex_world_warn = Some ls /\ spec_errs ls = []
  /\ policy_printable (cf_defaults cex_cfg) = true
  /\ P09 cex_cfg cex_ev cex_req_scale cex_world_warn (validate cex_cfg cex_ev cex_req_scale cex_world_warn)
         (Some (validate cex_cfg cex_ev (bare_pod_request cex_req_scale cex_pod)
                         (bare_pod_world cex_cfg cex_world_warn ls))) = false.
Proof. vm_compute. repeat split. Qed.
