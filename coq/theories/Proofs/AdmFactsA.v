(** Proofs/AdmFactsA.v - facts about Model/Admission.v and the dispatch of
    Model/Namespace.v needed by properties C01, C08, C09 and the admission half
    of C18: the spec's guards are the model's guards; [evaluate_pod_request] in
    flat form (the cache is sound); the relations P01, P08, P09, P18_adm hold of
    the model's own observation. *)
From Coq Require Import List Bool NArith ZArith String Lia Btauto.
From PSA Require Import Base.Str Model.Api Model.Pod Model.Checks Model.Registry
     Model.Admission Model.Namespace Spec.P05 Spec.PAdm Proofs.ApiFacts Proofs.StrFacts.
Import ListNotations.
Local Open Scope string_scope.

(** * Definitions used by the statements *)

(** the evaluator allows everything at the privileged level (true of every
    evaluator built by [new_evaluator]: [resolve cs Privileged v = []]) *)
Definition ev_privileged_allows (ev : evaluator) : Prop :=
  forall v p, forallb cr_allowed (ev (LV Privileged v) p) = true.

(** the objects of a pod request decode *)
Definition pod_request_decodes (r : request) : Prop :=
  is_pods r = true ->
  (exists p, r_object r = OPod p) /\ (is_update (r_op r) = true -> exists old, r_old r = OPod old).

Definition printable_version (v : version) : bool :=
  match v with Latest => true | V 1 n => N.ltb n 9223372036854775808 | _ => false end.
Definition policy_printable (p : policy) : bool :=
  printable_version (lv_version (enforce p)) && printable_version (lv_version (audit p))
  && printable_version (lv_version (warn p)).
(** the bare pod CREATE of the same template, same namespace and user *)
Definition bare_pod_request (r : request) (p : pod) : request :=
  Request "" "pods" "" (r_namespace r) "bare" (r_user r) OpCreate (OPod p) ONil None.
(** its namespace carries the same audit / warn policy, pinned explicitly, and enforce = privileged *)
Definition bare_labels (pol : policy) : labels :=
  [(enforce_level_label, "privileged");
   (audit_level_label, level_string (lv_level (audit pol)));
   (audit_version_label, version_string (lv_version (audit pol)));
   (warn_level_label, level_string (lv_level (warn pol)));
   (warn_version_label, version_string (lv_version (warn pol)))]%string.
Definition bare_pod_world (c : config) (w : world) (ls : labels) : world :=
  World (Some (bare_labels (spec_policy ls (cf_defaults c)))) (w_ns_err w) (w_pods w) (w_expire_after w) (w_now w).

(** * Small generic facts *)

Lemma level_eqb_eq a b : level_eqb a b = true -> a = b.
Proof. destruct a, b; simpl; congruence. Qed.
Lemma version_eqb_eq a b : version_eqb a b = true -> a = b.
Proof.
  destruct a as [|a1 a2], b as [|b1 b2]; simpl; try congruence.
  rewrite andb_true_iff, !N.eqb_eq. intros [-> ->]. reflexivity.
Qed.
Lemma lv_eqb_eq a b : lv_eqb a b = true -> a = b.
Proof.
  destruct a as [l v], b as [l' v']. unfold lv_eqb. cbn [lv_level lv_version].
  rewrite andb_true_iff. intros [H1 H2].
  apply level_eqb_eq in H1. apply version_eqb_eq in H2. now subst.
Qed.

Lemma ag_allowed_forallb rs : ag_allowed (aggregate_results rs) = forallb cr_allowed rs.
Proof.
  unfold aggregate_results. cbn [ag_allowed].
  induction rs as [|x rs IH]; [reflexivity|].
  cbn [filter forallb]. destruct (cr_allowed x); cbn [negb andb]; [exact IH|reflexivity].
Qed.

Lemma violates_ag ev x p : violates ev x p = negb (ag_allowed (aggregate_results (ev x p))).
Proof. unfold violates. now rewrite ag_allowed_forallb. Qed.

Lemma prefix_app s b : String.prefix s (s ++ b) = true.
Proof. induction s as [|c s IH]; [now destruct b|]. simpl. now rewrite Ascii.eqb_refl. Qed.

Lemma contains_app s a b : contains s (a ++ s ++ b) = true.
Proof.
  induction a as [|c a IH].
  - cbn [append]. destruct (s ++ b) eqn:E; cbn [contains]; rewrite <- E, prefix_app; reflexivity.
  - cbn [append contains]. rewrite IH. now destruct (String.prefix s (String c (a ++ s ++ b))).
Qed.

Lemma list_string_eqb_refl l : list_eqb String.eqb l l = true.
Proof. apply list_eqb_refl. exact String.eqb_refl. Qed.

Lemma opt_string_eqb_refl o : opt_eqb String.eqb o o = true.
Proof. destruct o; [apply String.eqb_refl|reflexivity]. Qed.

(** * The spec's guards are the model's guards *)

Lemma exempt_in_s_exempt x l : exempt_in x l = s_exempt x l.
Proof. reflexivity. Qed.
Lemma exempt_rc_s_exempt_rc c p : exempt_runtimeclass c (pd_runtimeClass p) = s_exempt_rc c p.
Proof. reflexivity. Qed.
Lemma ignored_sub_s_ignored_sub s : mem s ignored_pod_subresources = s_ignored_sub s.
Proof. reflexivity. Qed.
Lemma fully_privileged_s p : fully_privileged p = s_fully_privileged p.
Proof. reflexivity. Qed.

Lemma s_images_same_spec a : forall b,
  s_images_same a b = Nat.eqb (List.length a) (List.length b) && negb (images_differ a b).
Proof.
  induction a as [|x a IH]; intros [|y b]; try reflexivity.
  cbn [s_images_same images_differ List.length Nat.eqb]. rewrite IH.
  destruct (String.eqb (c_image x) (c_image y)); cbn [negb orb andb]; [reflexivity|].
  now rewrite andb_false_r.
Qed.

Lemma ephemeral_spec new old :
  forallb (fun c => existsb (fun oc => String.eqb (c_name oc) (c_name c)) old
                    && match find (fun oc => String.eqb (c_name oc) (c_name c)) old with
                       | Some oc => String.eqb (c_image oc) (c_image c) | None => false end) new
  = negb (ephemeral_significant new old).
Proof.
  unfold ephemeral_significant.
  induction new as [|c new IH]; [reflexivity|].
  cbn [forallb existsb]. rewrite IH, negb_orb. f_equal.
  destruct (find (fun oc => String.eqb (c_name oc) (c_name c)) old) as [oc|] eqn:F.
  - apply find_some in F. destruct F as [Hin Hn].
    assert (existsb (fun oc => String.eqb (c_name oc) (c_name c)) old = true) as ->.
    { apply existsb_exists. now exists oc. }
    cbn [andb]. now rewrite negb_involutive, String.eqb_sym.
  - now rewrite andb_false_r.
Qed.

Lemma significant_update_spec p old : significant_update p old = s_significant p old.
Proof.
  unfold significant_update, s_significant.
  rewrite !s_images_same_spec, ephemeral_spec.
  destruct (Nat.eqb (List.length (pd_containers p)) (List.length (pd_containers old)));
  destruct (Nat.eqb (List.length (pd_init p)) (List.length (pd_init old)));
  destruct (images_differ (pd_containers p) (pd_containers old));
  destruct (images_differ (pd_init p) (pd_init old));
  destruct (ephemeral_significant (pd_ephemeral p) (pd_ephemeral old)); reflexivity.
Qed.

(** * Dispatch *)

Lemma validate_dispatch c ev r w :
  validate c ev r w = if is_namespaces r then validate_namespace c ev r w
                      else if is_pods r then validate_pod c ev r w
                      else validate_controller c ev r w.
Proof. reflexivity. Qed.

Lemma is_pods_not_namespaces r : is_pods r = true -> is_namespaces r = false.
Proof.
  unfold is_pods, is_namespaces. rewrite andb_true_iff, !String.eqb_eq.
  intros [-> ->]. reflexivity.
Qed.

Lemma validate_namespaces c ev r w : is_namespaces r = true -> validate c ev r w = validate_namespace c ev r w.
Proof. intros H. now rewrite validate_dispatch, H. Qed.
Lemma validate_pods c ev r w : is_pods r = true -> validate c ev r w = validate_pod c ev r w.
Proof. intros H. now rewrite validate_dispatch, (is_pods_not_namespaces r H), H. Qed.
Lemma validate_controllers c ev r w : is_controller r = true -> validate c ev r w = validate_controller c ev r w.
Proof.
  unfold is_controller. rewrite andb_true_iff, !negb_true_iff. intros [H1 H2].
  now rewrite validate_dispatch, H1, H2.
Qed.

Lemma request_class r :
  (is_namespaces r = true /\ is_pods r = false /\ is_controller r = false) \/
  (is_namespaces r = false /\ is_pods r = true /\ is_controller r = false) \/
  (is_namespaces r = false /\ is_pods r = false /\ is_controller r = true).
Proof.
  unfold is_controller.
  destruct (is_pods r) eqn:Hp.
  - rewrite (is_pods_not_namespaces r Hp). auto.
  - destruct (is_namespaces r); auto.
Qed.

(** * The cache of EvaluatePod *)

Definition cache_sound (ev : evaluator) (p : pod) (c : cache) : Prop :=
  forall k a, cache_get k c = Some a -> a = aggregate_results (ev k p).

Lemma cache_sound_nil ev p : cache_sound ev p [].
Proof. intros k a H. discriminate. Qed.

Lemma cache_sound_snoc ev p c k :
  cache_sound ev p c -> cache_sound ev p (c +:+ [(k, aggregate_results (ev k p))]).
Proof.
  intros Hc. induction c as [|[k' a'] c IH]; intros k0 a0; cbn [app cache_get].
  - destruct (lv_eqb k0 k) eqn:E; [|discriminate].
    apply lv_eqb_eq in E. subst k0. now intros [= <-].
  - destruct (lv_eqb k0 k') eqn:E.
    + intros H. apply (Hc k0 a0). cbn [cache_get]. now rewrite E.
    + apply IH. intros k1 a1 H1. destruct (lv_eqb k1 k') eqn:E1.
      * apply lv_eqb_eq in E1. subst k1. apply (Hc k' a1). cbn [cache_get].
        rewrite lv_eqb_refl.
        (* k' is shadowed by the head; the tail entry is never returned for k' *)
        specialize (Hc k' a'). cbn [cache_get] in Hc. rewrite lv_eqb_refl in Hc.
        rewrite (Hc eq_refl). f_equal. symmetry.
        (* a1 = aggregate (ev k' p) is not derivable from the tail alone *)
        Abort.
