(** Proofs/LevelsAdm.v - composition of the level ordering (C03) with the
    admission layer (C01): relaxing a namespace's enforce level at an unchanged
    version never turns an allowed pod request into a denied one, and a
    namespace that enforces the privileged level denies no pod request that
    reaches evaluation.  Depends on the admission facts and on C03's own table
    side conditions only (not on C02's), so that a change to an allow-list
    which breaks C02's obligations does not take these with it. *)
From Coq Require Import List Bool NArith ZArith String.
From PSA Require Import Base.Str Model.Api Model.Pod Model.Checks Model.Registry Model.Shipped Model.Admission
     Model.Namespace Spec.P05 Spec.P02 Spec.PAdm Proofs.AdmFactsA Proofs.StandardFacts Proofs.C03_table.
Import ListNotations.

(** the evaluator built from the shipped table (convertible with Proofs/EndToEnd.shipped_evaluator) *)
Definition shipped_ev (relax : bool) : evaluator :=
  fun x p => shipped_eval relax (lv_level x) (lv_version x) p.

Lemma shipped_ev_privileged relax : ev_privileged_allows (shipped_ev relax).
Proof. intros v p. reflexivity. Qed.

Lemma shipped_ev_allowed c relax r w ls p :
  evaluated_pod c r w = Some (ls, p) ->
  rs_allowed (fst (validate c (shipped_ev relax) r w))
  = eval_allowed shipped_lists relax shipped_checks
      (lv_level (enforce (spec_policy ls (cf_defaults c))))
      (lv_version (enforce (spec_policy ls (cf_defaults c)))) p.
Proof.
  intros He.
  rewrite (C01_allowed_iff_proof c (shipped_ev relax) r w ls p (shipped_ev_privileged relax) He).
  reflexivity.
Qed.

(** two configurations, two worlds (namespace label sets), the same request:
    if both reach evaluation of the same pod, the versions agree and the second
    enforce level is no stricter than the first, allowed under the first implies
    allowed under the second *)
Lemma admission_monotone_proof : forall c c' relax r w w' ls ls' p,
  evaluated_pod c r w = Some (ls, p) -> evaluated_pod c' r w' = Some (ls', p) ->
  api_valid p = true ->
  lv_version (enforce (spec_policy ls' (cf_defaults c'))) = lv_version (enforce (spec_policy ls (cf_defaults c))) ->
  (strictness (lv_level (enforce (spec_policy ls' (cf_defaults c'))))
   <= strictness (lv_level (enforce (spec_policy ls (cf_defaults c)))))%N ->
  rs_allowed (fst (validate c (shipped_ev relax) r w)) = true ->
  rs_allowed (fst (validate c' (shipped_ev relax) r w')) = true.
Proof.
  intros c c' relax r w w' ls ls' p He He' Hv Hver Hs Ha.
  rewrite (shipped_ev_allowed c relax r w ls p He) in Ha.
  rewrite (shipped_ev_allowed c' relax r w' ls' p He'). rewrite Hver.
  exact (shipped_relaxation_safe relax _ p _ _ Hv Hs Ha).
Qed.

(** any evaluator that allows everything at privileged: a namespace whose
    labels and defaults resolve to enforce=privileged denies nothing evaluated *)
Lemma admission_privileged_proof : forall c ev r w ls p,
  ev_privileged_allows ev -> evaluated_pod c r w = Some (ls, p) ->
  lv_level (enforce (spec_policy ls (cf_defaults c))) = Privileged ->
  rs_allowed (fst (validate c ev r w)) = true.
Proof.
  intros c ev r w ls p Hev He Hl.
  rewrite (C01_allowed_iff_proof c ev r w ls p Hev He).
  destruct (enforce (spec_policy ls (cf_defaults c))) as [l v] eqn:E. cbn in Hl. subst l.
  apply Hev.
Qed.

(** contrapositive reading: a request denied under the relaxed level is denied under the stricter one *)
Lemma admission_antitone_denial_proof : forall c c' relax r w w' ls ls' p,
  evaluated_pod c r w = Some (ls, p) -> evaluated_pod c' r w' = Some (ls', p) ->
  api_valid p = true ->
  lv_version (enforce (spec_policy ls' (cf_defaults c'))) = lv_version (enforce (spec_policy ls (cf_defaults c))) ->
  (strictness (lv_level (enforce (spec_policy ls' (cf_defaults c'))))
   <= strictness (lv_level (enforce (spec_policy ls (cf_defaults c)))))%N ->
  rs_allowed (fst (validate c' (shipped_ev relax) r w')) = false ->
  rs_allowed (fst (validate c (shipped_ev relax) r w)) = false.
Proof.
  intros c c' relax r w w' ls ls' p He He' Hv Hver Hs Hd.
  destruct (rs_allowed (fst (validate c (shipped_ev relax) r w))) eqn:Ha; [|reflexivity].
  rewrite (admission_monotone_proof c c' relax r w w' ls ls' p He He' Hv Hver Hs Ha) in Hd. discriminate.
Qed.

(** non-vacuity: the empty pod CREATE is evaluated, valid, allowed under
    enforce=baseline:v1.24 and (hence) under enforce=privileged:v1.24, and a
    privileged container is denied under baseline, allowed under privileged *)
Definition lb : labels := [(enforce_level_label, "baseline"%string); (enforce_version_label, "v1.24"%string)].
Definition lp : labels := [(enforce_level_label, "privileged"%string); (enforce_version_label, "v1.24"%string)].
Lemma monotone_in_scope :
  evaluated_pod cex_cfg cex_req (World (Some lb) "" None None 0) = Some (lb, cex_pod)
  /\ evaluated_pod cex_cfg cex_req (World (Some lp) "" None None 0) = Some (lp, cex_pod)
  /\ api_valid cex_pod = true
  /\ lv_version (enforce (spec_policy lp (cf_defaults cex_cfg))) = lv_version (enforce (spec_policy lb (cf_defaults cex_cfg)))
  /\ (strictness (lv_level (enforce (spec_policy lp (cf_defaults cex_cfg))))
      <= strictness (lv_level (enforce (spec_policy lb (cf_defaults cex_cfg)))))%N
  /\ rs_allowed (fst (validate cex_cfg (shipped_ev false) cex_req (World (Some lb) "" None None 0))) = true
  /\ lv_level (enforce (spec_policy lp (cf_defaults cex_cfg))) = Privileged.
Proof. vm_compute. repeat split; try reflexivity; discriminate. Qed.
