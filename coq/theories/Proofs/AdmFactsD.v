(** Proofs/AdmFactsD.v - proofs of the relations P06_always_allowed and
    P07_expiry_reported for the admission model (theorems C06_exempt_always_allowed
    and C07_expiry_reported).  Builds on AdmFactsB (dispatch, guard equivalences)
    and NamespaceFacts (epin_spec, vn_cases). *)
From Coq Require Import List Bool NArith ZArith Arith String Lia Permutation.
From PSA Require Import Base.Str Model.Api Model.Pod Model.Checks Model.Registry Model.Admission Model.Namespace.
From PSA Require Import Spec.P05 Spec.PAdm Proofs.StrFacts Proofs.ApiFacts Proofs.AdmFactsB Proofs.NamespaceFacts.
Import ListNotations.
Local Open Scope string_scope.

(* ------------------------------------------------------------------ C06 *)

Lemma D_exempt_obs_ns :
  let o := (shared_namespace, [MExempt]) in
  rs_allowed (fst o) && is_some (ann "exempt" (fst o)) && negb (has_eval (snd o))
  && is_nil (filter (fun e => match e with EvNsLookup | EvDecode | EvDecodeOld => true | _ => false end) (snd o)) = true.
Proof. vm_compute. reflexivity. Qed.

Lemma D_exempt_obs_user :
  let o := (shared_user, [MExempt]) in
  rs_allowed (fst o) && is_some (ann "exempt" (fst o)) && negb (has_eval (snd o))
  && is_nil (filter (fun e => match e with EvNsLookup | EvDecode | EvDecodeOld => true | _ => false end) (snd o)) = true.
Proof. vm_compute. reflexivity. Qed.

Lemma D_P06_aa_pods c ev r w :
  is_pods r = true -> P06_always_allowed c r (validate_pod c ev r w) = true.
Proof.
  intros Hp. unfold P06_always_allowed.
  rewrite (B_pods_not_ns r Hp), Hp. unfold is_controller. rewrite Hp. cbn [negb andb orb].
  unfold validate_pod. rewrite B_ignored_spec, B_exempt_ns_spec, B_exempt_user_spec.
  destruct (s_ignored_sub (r_subresource r)); [reflexivity|].
  destruct (s_exempt (r_namespace r) (cf_ex_namespaces c)).
  { unfold imp. cbn [orb negb]. exact D_exempt_obs_ns. }
  destruct (s_exempt (r_user r) (cf_ex_users c)).
  { unfold imp. cbn [orb negb]. exact D_exempt_obs_user. }
  reflexivity.
Qed.

Lemma D_P06_aa_ctrl c ev r w :
  is_controller r = true -> P06_always_allowed c r (validate_controller c ev r w) = true.
Proof.
  intros Hc. unfold P06_always_allowed.
  destruct (B_ctrl_kinds r Hc) as [Hp Hn]. rewrite Hn, Hp, Hc. cbn [andb orb].
  unfold validate_controller. rewrite B_exempt_ns_spec, B_exempt_user_spec.
  destruct (negb (String.eqb (r_subresource r) "")); [reflexivity|].
  destruct (s_exempt (r_namespace r) (cf_ex_namespaces c)).
  { unfold imp. cbn [orb negb]. exact D_exempt_obs_ns. }
  destruct (s_exempt (r_user r) (cf_ex_users c)).
  { unfold imp. cbn [orb negb]. exact D_exempt_obs_user. }
  reflexivity.
Qed.

Lemma C06_exempt_always_allowed_proof c ev r w :
  P06_always_allowed c r (validate c ev r w) = true.
Proof.
  destruct (B_kinds r) as [Hn|[Hp|Hc]].
  - unfold P06_always_allowed. rewrite Hn. reflexivity.
  - rewrite B_validate_pods by assumption. now apply D_P06_aa_pods.
  - rewrite B_validate_ctrl by assumption. now apply D_P06_aa_ctrl.
Qed.

(* ------------------------------------------------------------------ C07 *)

Lemma D_prefix_app p : forall s, has_prefix p (p ++ s) = true.
Proof.
  unfold has_prefix.
  induction p as [|a p IH]; intros s; [destruct s; reflexivity|].
  cbn [String.append String.prefix].
  destruct (Ascii.ascii_dec a a) as [_|Hne]; [apply IH|now elim Hne].
Qed.

(** the cap applied to the prioritised list keeps as many pods as the cap
    applied to the filtered list *)
Lemma D_capped_length c pods :
  List.length (firstn (cf_max_pods c) (s_prioritized c pods)) =
  List.length (firstn (cf_max_pods c) (filter (fun p => negb (s_exempt_rc c p)) pods)).
Proof.
  rewrite !firstn_length.
  rewrite (Permutation_length (s_prioritized_perm c pods)). reflexivity.
Qed.

Lemma D_expiry_checked c w pods k :
  w_expire_after w = Some k ->
  S k < List.length (firstn (cf_max_pods c) (filter (fun p => negb (s_exempt_rc c p)) pods)) ->
  List.length (s_checked c w pods) = S k /\ S k < List.length (s_prioritized c pods).
Proof.
  intros Hk Hlt. rewrite <- D_capped_length in Hlt.
  unfold s_checked. rewrite Hk. rewrite firstn_length.
  rewrite firstn_length in Hlt |- *. lia.
Qed.

Lemma C07_expiry_reported_proof c ev r w :
  P07_expiry_reported c r w (validate c ev r w) = true.
Proof.
  unfold P07_expiry_reported.
  destruct (is_namespaces r) eqn:Hns; cbn [negb]; [|reflexivity].
  rewrite validate_ns by assumption.
  destruct (w_pods w) as [pods|] eqn:Hpods; [|reflexivity].
  destruct (w_expire_after w) as [k|] eqn:Hk; [|reflexivity].
  destruct (vn_cases c ev r w) as [Hq|(name & ls & oname & old_ls & Hsub & Hobj & Hop & Hold & Hm & Hd & Hvn)].
  - rewrite (quiet_no_list _ Hq). reflexivity.
  - destruct (Nat.ltb (S k) (List.length (firstn (cf_max_pods c) (filter (fun p => negb (s_exempt_rc c p)) pods))))
      eqn:Hlt; [|unfold imp; rewrite andb_false_r; reflexivity].
    apply Nat.ltb_lt in Hlt.
    destruct (D_expiry_checked c w pods k Hk Hlt) as [Hlen Htot].
    rewrite Hvn, epin_spec, Hpods.
    cbn [fst snd app rs_warnings rs_allowed with_warnings allowed_fresh existsb is_list orb].
    unfold imp. cbn [negb orb andb].
    unfold eval_events. cbn [flat_map app].
    fold (eval_events (map (fun p => EvEval (enforce (spec_policy ls (cf_defaults c))) (pd_name p)) (s_checked c w pods))).
    rewrite eval_events_map, map_length, Hlen, Nat.eqb_refl, andb_true_r.
    unfold s_dry_run_warnings. rewrite Hpods.
    fold (s_checked c w pods). cbv zeta.
    change (match w_expire_after w with
            | Some k0 => firstn (S k0) (firstn (cf_max_pods c) (s_prioritized c pods))
            | None => firstn (cf_max_pods c) (s_prioritized c pods) end) with (s_checked c w pods).
    rewrite Hlen.
    apply Nat.ltb_lt in Htot. rewrite Htot.
    cbn [app existsb]. rewrite D_prefix_app. reflexivity.
Qed.
