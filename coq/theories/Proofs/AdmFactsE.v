(** Proofs/AdmFactsE.v - the relations added to Spec/PAdm.v after the admission
    theorems: [P08_obs] follows from the exact-text relation [P08]; [P13_adm]
    holds of the model (the occurrence-count clause unconditionally, the
    "never the placeholder" clause for evaluators with specific reasons and
    placeholder-free details); [P11_control_sets] is refuted (finding F3). *)
From Coq Require Import List Bool NArith Arith ZArith Ascii String DecimalString Lia.
From PSA Require Import Base.Str Model.Api Model.Pod Model.Checks Model.Names Model.Registry Model.Shipped
     Model.Admission Model.Namespace Spec.P05 Spec.PAdm
     Proofs.ApiFacts Proofs.StrFacts Proofs.MessageFacts Proofs.AdmFactsA.
Import ListNotations.
Local Open Scope string_scope.

(** * Characters of a rendered level:version *)

Lemma has_char_app c a b : has_char c (a ++ b) = has_char c a || has_char c b.
Proof.
  induction a as [|x a IH]; [reflexivity|].
  cbn [append has_char]. rewrite IH. apply orb_assoc.
Qed.

Definition is_digit (c : ascii) : bool :=
  existsb (Ascii.eqb c) ["0"; "1"; "2"; "3"; "4"; "5"; "6"; "7"; "8"; "9"]%char.

Lemma digits_only_uint c : is_digit c = false -> forall d, has_char c (NilEmpty.string_of_uint d) = false.
Proof.
  unfold is_digit. cbn [existsb]. rewrite !orb_false_iff.
  intros (H0 & H1 & H2 & H3 & H4 & H5 & H6 & H7 & H8 & H9 & _).
  induction d as [|d IH|d IH|d IH|d IH|d IH|d IH|d IH|d IH|d IH|d IH];
    cbn [NilEmpty.string_of_uint has_char]; [reflexivity|..];
    rewrite IH, orb_false_r, Ascii.eqb_sym; assumption.
Qed.

Lemma digits_only c n : is_digit c = false -> has_char c (N_to_string n) = false.
Proof.
  intros H. unfold N_to_string, NilZero.string_of_uint.
  pose proof (digits_only_uint c H (N.to_uint n)) as Hd.
  destruct (N.to_uint n); try exact Hd.
  cbn [has_char]. unfold is_digit in H. cbn [existsb] in H. apply orb_false_iff in H.
  destruct H as [H _]. rewrite Ascii.eqb_sym, H. reflexivity.
Qed.

(** the characters that do not occur in any "level:version" *)
Definition not_lv_char (c : ascii) : bool :=
  negb (has_char c "privlegdbasntc:.0123456789").

Lemma lv_string_chars c x : not_lv_char c = true -> has_char c (lv_string x) = false.
Proof.
  unfold not_lv_char. rewrite negb_true_iff. cbn [has_char]. rewrite !orb_false_iff.
  intros (Hp & Hr & Hi & Hv & Hl & He & Hg & Hd & Hb & Ha & Hs & Hn & Ht & Hc & Hcol & Hdot
          & H0 & H1 & H2 & H3 & H4 & H5 & H6 & H7 & H8 & H9 & _).
  assert (Hdig : is_digit c = false).
  { unfold is_digit. cbn [existsb]. rewrite !(Ascii.eqb_sym c).
    rewrite H0, H1, H2, H3, H4, H5, H6, H7, H8, H9. reflexivity. }
  destruct x as [l v]. unfold lv_string. cbn [lv_level lv_version].
  rewrite !has_char_app.
  assert (Hl' : has_char c (level_string l) = false).
  { destruct l; cbn [level_string has_char];
      repeat match goal with H : Ascii.eqb _ c = false |- _ => rewrite H; clear H end; reflexivity. }
  assert (Hv' : has_char c (version_string v) = false).
  { destruct v as [|ma mi]; cbn [version_string].
    - cbn [has_char]. rewrite Hl, Ha, Hs, Ht, He. reflexivity.
    - rewrite !has_char_app, !digits_only by exact Hdig. cbn [has_char]. rewrite Hv, Hdot. reflexivity. }
  rewrite Hl', Hv'. cbn [has_char]. rewrite Hcol. reflexivity.
Qed.

Lemma go_escape_id s :
  has_char """"%char s = false -> has_char "\"%char s = false -> go_escape s = s.
Proof.
  induction s as [|c s IH]; [reflexivity|].
  cbn [has_char go_escape]. rewrite !orb_false_iff. intros [Hq Hq'] [Hb Hb'].
  rewrite Hq, Hb, IH by assumption. reflexivity.
Qed.

Lemma go_quote_lv_string x : go_quote (lv_string x) = """" ++ lv_string x ++ """".
Proof.
  unfold go_quote. rewrite go_escape_id; [reflexivity| |]; apply lv_string_chars; reflexivity.
Qed.

(** a text built as  wrapper ++ quoted level:version ++ rest  names its level:version *)
Lemma names_policy_quoted x pre post : names_policy x (pre ++ go_quote (lv_string x) ++ post) = true.
Proof.
  unfold names_policy. rewrite go_quote_lv_string.
  change (pre ++ ("""" ++ lv_string x ++ """") ++ post)
    with (pre ++ String """"%char ((lv_string x ++ """") ++ post)).
  rewrite append_assoc.
  change (pre ++ String """"%char (lv_string x ++ """" ++ post))
    with (pre ++ """" ++ (lv_string x ++ """" ++ post)).
  rewrite <- (append_assoc pre). apply contains_app.
Qed.

(** * P08 (exact texts) implies P08_obs (texts name their level:version) *)

Lemma list_eqb_string_eq a : forall b, list_eqb String.eqb a b = true -> a = b.
Proof.
  induction a as [|x a IH]; intros [|y b]; cbn [list_eqb]; try discriminate; [reflexivity|].
  rewrite andb_true_iff, String.eqb_eq. intros [-> H]. f_equal. now apply IH.
Qed.

Lemma opt_eqb_string_eq (a b : option string) : opt_eqb String.eqb a b = true -> a = b.
Proof.
  destruct a, b; cbn [opt_eqb]; try discriminate; [|reflexivity].
  rewrite String.eqb_eq. now intros ->.
Qed.

Lemma P08_obs_from_exact c ev r w o : P08 c ev r w o = true -> P08_obs c ev r w o = true.
Proof.
  unfold P08, P08_obs.
  destruct (evaluated_object c r w) as [[[ls p] enforced]|]; [|reflexivity].
  set (pol := spec_policy ls (cf_defaults c)). clearbody pol.
  match goal with |- (if ?b then _ else _) = true -> _ => destruct b end; [exact (fun H => H)|].
  rewrite !andb_true_iff. intros [[Ha Hw] Hau]. repeat split; [exact Ha| |].
  - apply list_eqb_string_eq in Hw. rewrite Hw.
    destruct (rs_allowed (fst o) && violates ev (warn pol) p); [|reflexivity].
    apply names_policy_quoted.
  - apply opt_eqb_string_eq in Hau. rewrite Hau.
    destruct (violates ev (audit pol) p); [|reflexivity].
    apply names_policy_quoted.
Qed.

Lemma P08_obs_model c ev r w : P08_obs c ev r w (validate c ev r w) = true.
Proof. apply P08_obs_from_exact, P08_model. Qed.

(** * Occurrence counts *)

Lemma count_sub_app_r sub a b : count_sub sub b <= count_sub sub (a ++ b).
Proof.
  induction a as [|c a IH]; [apply Nat.le_refl|].
  change (String c a ++ b) with (String c (a ++ b)). cbn [count_sub]. lia.
Qed.

(** an occurrence at the head counts once more than whatever follows *)
Lemma count_sub_head sub t b : sub <> "" -> S (count_sub sub b) <= count_sub sub (sub ++ t ++ b).
Proof.
  intros Hne. destruct sub as [|c sub]; [now elim Hne|].
  change (String c sub ++ t ++ b) with (String c (sub ++ t ++ b)).
  cbn [count_sub].
  change (String c (sub ++ t ++ b)) with (String c sub ++ (t ++ b)).
  rewrite prefix_app.
  pose proof (count_sub_app_r (String c sub) sub (t ++ b)) as H1.
  pose proof (count_sub_app_r (String c sub) t b) as H2.
  change (String c sub ++ t ++ b) with (String c (sub ++ t ++ b)) in *.
  lia.
Qed.

(** * The aggregate texts, item by item *)

Definition agg_reason (r : check_result) : string :=
  if String.eqb (cr_reason r) "" then unknown_reason else cr_reason r.
Definition agg_item (r : check_result) : string :=
  if String.eqb (cr_detail r) "" then agg_reason r else agg_reason r ++ " (" ++ cr_detail r ++ ")".

Lemma ag_reasons_denying rs : ag_reasons (aggregate_results rs) = map agg_reason (denying rs).
Proof. reflexivity. Qed.

Lemma forbidden_detail_items rs :
  forbidden_detail (aggregate_results rs) = join ", " (map agg_item (denying rs)).
Proof.
  unfold forbidden_detail, aggregate_results. cbn [ag_reasons ag_details]. fold (denying rs). f_equal.
  exact (map_combine_map _ agg_reason cr_detail (denying rs)).
Qed.

Lemma agg_reason_nonempty r : agg_reason r <> "".
Proof.
  unfold agg_reason. destruct (String.eqb_spec (cr_reason r) "") as [E|N]; [discriminate|exact N].
Qed.

(** every item starts with its reason *)
Lemma agg_item_head r : exists t, agg_item r = agg_reason r ++ t.
Proof.
  unfold agg_item. destruct (String.eqb (cr_detail r) "").
  - exists "". now rewrite append_nil_r.
  - now exists (" (" ++ cr_detail r ++ ")").
Qed.

(** the joined text shows each reason at least as often as items carry it *)
Lemma count_sub_join s ds : s <> "" ->
  List.length (filter (String.eqb s) (map agg_reason ds)) <= count_sub s (join ", " (map agg_item ds)).
Proof.
  intros Hne. induction ds as [|d ds IH]; [apply Nat.le_0_l|].
  cbn [map filter].
  assert (Hrest : exists rest, join ", " (agg_item d :: map agg_item ds) = agg_item d ++ rest
                  /\ List.length (filter (String.eqb s) (map agg_reason ds)) <= count_sub s rest).
  { destruct ds as [|d' ds].
    - exists "". split; [cbn [map]; unfold join; cbn [concat]; now rewrite append_nil_r|apply Nat.le_0_l].
    - exists (", " ++ join ", " (map agg_item (d' :: ds))). split; [reflexivity|].
      eapply Nat.le_trans; [exact IH|apply count_sub_app_r]. }
  destruct Hrest as (rest & -> & Hle).
  destruct (String.eqb_spec s (agg_reason d)) as [E|_].
  - cbn [List.length]. destruct (agg_item_head d) as [t ->]. rewrite <- E, append_assoc.
    eapply Nat.le_trans; [|apply count_sub_head; exact Hne]. lia.
  - eapply Nat.le_trans; [exact Hle|apply count_sub_app_r].
Qed.

(** * The placeholder *)

Fixpoint last_is (c : ascii) (u : string) : bool :=
  match u with
  | EmptyString => false
  | String x EmptyString => Ascii.eqb x c
  | String _ r => last_is c r
  end.

(** a text that does not end in [c] cannot end at an appended [c] *)
Lemma prefix_snoc u c : u <> "" -> last_is c u = false ->
  forall a, String.prefix u (a ++ String c "") = String.prefix u a.
Proof.
  induction u as [|x u IH]; intros Hne Hl a; [now elim Hne|].
  destruct a as [|h a].
  - change ("" ++ String c "") with (String c ""). cbn [String.prefix].
    destruct (Ascii.ascii_dec x c) as [E|_]; [|reflexivity].
    destruct u as [|y u]; [|reflexivity].
    cbn [last_is] in Hl. subst x. rewrite Ascii.eqb_refl in Hl. discriminate Hl.
  - change (String h a ++ String c "") with (String h (a ++ String c "")). cbn [String.prefix].
    destruct (Ascii.ascii_dec x h) as [_|_]; [|reflexivity].
    destruct u as [|y u].
    + now destruct a.
    + apply IH; [discriminate|exact Hl].
Qed.

Lemma contains_snoc u c : u <> "" -> last_is c u = false ->
  forall a, contains u (a ++ String c "") = contains u a.
Proof.
  intros Hne Hl. induction a as [|h a IH].
  - pose proof (prefix_snoc u c Hne Hl "") as H. change ("" ++ String c "") with (String c "") in *.
    cbn [contains]. rewrite H. destruct (String.prefix u ""); reflexivity.
  - pose proof (prefix_snoc u c Hne Hl (String h a)) as H.
    change (String h a ++ String c "") with (String h (a ++ String c "")) in *.
    cbn [contains]. rewrite H, IH. reflexivity.
Qed.

(** no occurrence starts where the first character differs *)
Lemma contains_cons_ne x u c s : x <> c -> contains (String x u) (String c s) = contains (String x u) s.
Proof.
  intros N. cbn [contains String.prefix]. destruct (Ascii.ascii_dec x c) as [E|_]; [now elim N|reflexivity].
Qed.

Lemma contains_no_first x u s : has_char x s = false -> contains (String x u) s = false.
Proof.
  induction s as [|c s IH]; [reflexivity|].
  cbn [has_char]. rewrite orb_false_iff. intros [Hc Hs].
  rewrite contains_cons_ne; [now apply IH|].
  intros ->. rewrite Ascii.eqb_refl in Hc. discriminate Hc.
Qed.

Lemma unknown_not_in_lv x : contains unknown_reason (lv_string x) = false.
Proof. unfold unknown_reason. apply contains_no_first, lv_string_chars. reflexivity. Qed.

(** the two sentences of EvaluatePod around a detail text *)
Lemma unknown_not_in_sentence pre x d :
  contains unknown_reason pre = false -> contains unknown_reason d = false ->
  contains unknown_reason (pre ++ go_quote (lv_string x) ++ ": " ++ d) = false.
Proof.
  intros Hpre Hd. rewrite go_quote_lv_string.
  change (pre ++ ("""" ++ lv_string x ++ """") ++ ": " ++ d)
    with (pre ++ String """"%char ((lv_string x ++ String """"%char "") ++ String ":"%char (String " "%char d))).
  rewrite contains_sep by reflexivity. rewrite Hpre. cbn [orb].
  rewrite append_assoc. change ("""" ++ String ":"%char (String " "%char d))
    with (String """"%char ("" ++ String ":"%char (String " "%char d))).
  rewrite contains_sep by reflexivity. rewrite unknown_not_in_lv. cbn [orb].
  rewrite contains_sep by reflexivity.
  unfold unknown_reason in *. rewrite contains_cons_ne by discriminate. rewrite Hd. reflexivity.
Qed.

Lemma unknown_not_in_item r :
  contains unknown_reason (agg_reason r) = false -> contains unknown_reason (cr_detail r) = false ->
  contains unknown_reason (agg_item r) = false.
Proof.
  intros Hr Hd. unfold agg_item. destruct (String.eqb (cr_detail r) ""); [exact Hr|].
  change (agg_reason r ++ " (" ++ cr_detail r ++ ")")
    with (agg_reason r ++ " " ++ String "("%char (cr_detail r ++ String ")"%char "")).
  rewrite <- append_assoc. rewrite contains_sep by reflexivity.
  rewrite (contains_sep unknown_reason ")"%char eq_refl (cr_detail r) ""). rewrite Hd.
  rewrite contains_snoc; [|discriminate|reflexivity]. rewrite Hr. reflexivity.
Qed.

(** * lists_controls of the model's sentences *)

(** the occurrence-count half of [lists_controls]: no hypothesis on the evaluator *)
Definition lists_controls_core (ev : evaluator) (x : lv) (p : pod) (text : string) : bool :=
  let reasons := ag_reasons (aggregate_results (ev x p)) in
  forallb (fun r => negb (String.eqb r "") &&
                    Nat.leb (List.length (filter (String.eqb r) reasons)) (count_sub r text)) reasons.

Lemma lists_controls_split ev x p text :
  lists_controls ev x p text = lists_controls_core ev x p text && negb (contains unknown_reason text).
Proof. reflexivity. Qed.

Lemma lists_controls_core_sentence ev x p pre :
  lists_controls_core ev x p (pre ++ go_quote (lv_string x) ++ ": " ++ detail_of ev x p) = true.
Proof.
  unfold lists_controls_core, detail_of. rewrite ag_reasons_denying, forbidden_detail_items.
  apply forallb_forall. intros s Hs.
  assert (Hne : s <> "").
  { apply in_map_iff in Hs. destruct Hs as (r & <- & _). apply agg_reason_nonempty. }
  apply andb_true_iff. split.
  - apply negb_true_iff. now apply String.eqb_neq.
  - apply Nat.leb_le.
    rewrite <- !append_assoc.
    eapply Nat.le_trans; [apply count_sub_join; exact Hne|apply count_sub_app_r].
Qed.

(** the evaluator's denying results on pod [p] carry a non-empty reason, and
    neither reason nor detail shows the placeholder *)
Definition ev_reasons_specific_on (ev : evaluator) (p : pod) : Prop :=
  forall x r, In r (ev x p) -> cr_allowed r = false ->
    cr_reason r <> "" /\ contains "unknown forbidden reason" (cr_reason r) = false
    /\ contains "unknown forbidden reason" (cr_detail r) = false.
Definition ev_reasons_specific (ev : evaluator) : Prop :=
  forall x p r, In r (ev x p) -> cr_allowed r = false ->
    cr_reason r <> "" /\ contains "unknown forbidden reason" (cr_reason r) = false
    /\ contains "unknown forbidden reason" (cr_detail r) = false.

Lemma ev_reasons_specific_all ev : ev_reasons_specific ev -> forall p, ev_reasons_specific_on ev p.
Proof. intros H p x r. exact (H x p r). Qed.

Lemma unknown_not_in_detail ev x p : ev_reasons_specific_on ev p ->
  contains unknown_reason (detail_of ev x p) = false.
Proof.
  intros Hev. unfold detail_of. rewrite forbidden_detail_items.
  apply unknown_not_in_join, Forall_forall. intros t Ht.
  apply in_map_iff in Ht. destruct Ht as (r & <- & Hr).
  unfold denying in Hr. apply filter_In in Hr. destruct Hr as [Hin Hden]. apply negb_true_iff in Hden.
  destruct (Hev x r Hin Hden) as (Hne & Hr & Hd).
  apply unknown_not_in_item; [|exact Hd].
  unfold agg_reason. apply String.eqb_neq in Hne. rewrite Hne. exact Hr.
Qed.

Lemma lists_controls_sentence ev x p pre : ev_reasons_specific_on ev p ->
  contains unknown_reason pre = false ->
  lists_controls ev x p (pre ++ go_quote (lv_string x) ++ ": " ++ detail_of ev x p) = true.
Proof.
  intros Hev Hpre. rewrite lists_controls_split, lists_controls_core_sentence. cbn [andb].
  apply negb_true_iff, unknown_not_in_sentence; [exact Hpre|now apply unknown_not_in_detail].
Qed.

(** * P13_adm *)

(** [P13_adm] without the "never the placeholder" conjunct of [lists_controls] *)
Definition P13_adm_core (c : config) (ev : evaluator) (r : request) (w : world) (o : obs) : bool :=
  match evaluated_object c r w with
  | None => true
  | Some (ls, p, enforced) =>
      let pol := spec_policy ls (cf_defaults c) in
      let resp := fst o in
      imp (enforced && negb (rs_allowed resp) && opt_eqb Z.eqb (rs_code resp) (Some 403%Z))
          (lists_controls_core ev (enforce pol) p (rs_message resp))
      && forallb (lists_controls_core ev (warn pol) p) (rs_warnings resp)
      && match ann "audit-violations" resp with Some t => lists_controls_core ev (audit pol) p t | None => true end
  end.

Lemma lists_controls_core_of ev x p t : lists_controls ev x p t = true -> lists_controls_core ev x p t = true.
Proof. rewrite lists_controls_split, andb_true_iff. now intros [H _]. Qed.

Lemma P13_adm_core_of c ev r w o : P13_adm c ev r w o = true -> P13_adm_core c ev r w o = true.
Proof.
  unfold P13_adm, P13_adm_core.
  destruct (evaluated_object c r w) as [[[ls p] enforced]|]; [|reflexivity].
  cbv zeta. rewrite !andb_true_iff. intros [[H1 H2] H3]. repeat split.
  - destruct (enforced && negb (rs_allowed (fst o)) && opt_eqb Z.eqb (rs_code (fst o)) (Some 403%Z));
      [|reflexivity]. cbn [imp negb orb] in *. now apply lists_controls_core_of.
  - rewrite forallb_forall in *. intros t Ht. apply lists_controls_core_of, H2, Ht.
  - destruct (ann "audit-violations" (fst o)); [now apply lists_controls_core_of|reflexivity].
Qed.

(** the shape of the relation on the flat response, for any predicate [L] on
    (level:version, text) that holds of the model's three sentences *)
Section P13_generic.
  Variable L : evaluator -> lv -> pod -> string -> bool.
  Definition P13_gen (c : config) (ev : evaluator) (r : request) (w : world) (o : obs) : bool :=
    match evaluated_object c r w with
    | None => true
    | Some (ls, p, enforced) =>
        let pol := spec_policy ls (cf_defaults c) in
        let resp := fst o in
        imp (enforced && negb (rs_allowed resp) && opt_eqb Z.eqb (rs_code resp) (Some 403%Z))
            (L ev (enforce pol) p (rs_message resp))
        && forallb (L ev (warn pol) p) (rs_warnings resp)
        && match ann "audit-violations" resp with Some t => L ev (audit pol) p t | None => true end
    end.

  Lemma P13_gen_epr ev pol p n em :
    L ev (enforce pol) p (violates_msg ev (enforce pol) p) = true ->
    L ev (warn pol) p (would_violate_msg ev (warn pol) p) = true ->
    L ev (audit pol) p (would_violate_msg ev (audit pol) p) = true ->
    let resp := epr_resp n em (violates ev (enforce pol) p) (violates ev (audit pol) p) (violates ev (warn pol) p)
                         (violates_msg ev (enforce pol) p) (lv_string (enforce pol))
                         (would_violate_msg ev (audit pol) p) (would_violate_msg ev (warn pol) p) in
    imp (em && negb (rs_allowed resp) && opt_eqb Z.eqb (rs_code resp) (Some 403%Z))
        (L ev (enforce pol) p (rs_message resp))
    && forallb (L ev (warn pol) p) (rs_warnings resp)
    && match ann "audit-violations" resp with Some t => L ev (audit pol) p t | None => true end = true.
  Proof.
    intros HE HW HA resp. subst resp.
    rewrite epr_resp_allowed, epr_resp_warnings, epr_resp_ann_audit.
    destruct (violates ev (audit pol) p); [rewrite HA|];
    destruct (violates ev (warn pol) p);
    destruct em; destruct (violates ev (enforce pol) p);
      cbn [andb negb imp orb epr_resp rs_code rs_message opt_eqb forallb];
      rewrite ?HE, ?HW; try reflexivity;
      now destruct (Z.eqb 403 403).
  Qed.

  Lemma P13_gen_model c ev r w :
    (forall ls p enforced x pre, evaluated_object c r w = Some (ls, p, enforced) ->
       pre = "violates PodSecurity " \/ pre = "would violate PodSecurity " ->
       L ev x p (pre ++ go_quote (lv_string x) ++ ": " ++ detail_of ev x p) = true) ->
    P13_gen c ev r w (validate c ev r w) = true.
  Proof.
    intros HL. unfold P13_gen.
    destruct (evaluated_object c r w) as [[[ls p] enforced]|] eqn:He; [|reflexivity].
    assert (HE : forall x, L ev x p (violates_msg ev x p) = true).
    { intros x. apply (HL ls p enforced x _ eq_refl). now left. }
    assert (HW : forall x, L ev x p (would_violate_msg ev x p) = true).
    { intros x. apply (HL ls p enforced x _ eq_refl). now right. }
    clear HL.
    destruct (evaluated_object_inv c r w ls p enforced He) as [[-> Hp]|[-> _]].
    - rewrite (fst_validate_evaluated_pod c ev r w ls p Hp).
      set (pol := spec_policy ls (cf_defaults c)). set (errs := spec_errs ls). clearbody pol errs.
      destruct (is_nil errs && fully_privileged pol); [reflexivity|].
      unfold epr_flat. cbn [fst]. apply P13_gen_epr; [apply HE|apply HW|apply HW].
    - rewrite (validate_evaluated_controller c ev r w ls p He).
      set (pol := spec_policy ls (cf_defaults c)). set (errs := spec_errs ls). clearbody pol errs.
      destruct (controller_short_circuit errs pol); [reflexivity|].
      unfold epr_flat. cbn [fst]. apply P13_gen_epr; [apply HE|apply HW|apply HW].
  Qed.
End P13_generic.

(** the occurrence-count clause holds of every observation of the model, whatever the evaluator *)
Lemma P13_adm_core_model c ev r w : P13_adm_core c ev r w (validate c ev r w) = true.
Proof.
  change (P13_gen lists_controls_core c ev r w (validate c ev r w) = true).
  apply P13_gen_model. intros ls p enforced x pre _ _. apply lists_controls_core_sentence.
Qed.

(** the full relation, for the pod the request evaluates *)
Lemma P13_adm_model_on c ev r w :
  (forall ls p enforced, evaluated_object c r w = Some (ls, p, enforced) -> ev_reasons_specific_on ev p) ->
  P13_adm c ev r w (validate c ev r w) = true.
Proof.
  intros Hev.
  change (P13_gen lists_controls c ev r w (validate c ev r w) = true).
  apply P13_gen_model. intros ls p enforced x pre He Hpre.
  apply lists_controls_sentence; [exact (Hev ls p enforced He)|].
  destruct Hpre as [->| ->]; reflexivity.
Qed.

Lemma P13_adm_model c ev r w :
  ev_reasons_specific ev -> ev_privileged_allows ev -> P13_adm c ev r w (validate c ev r w) = true.
Proof.
  intros Hev _. apply P13_adm_model_on. intros ls p enforced _. now apply ev_reasons_specific_all.
Qed.

(** ** the shipped registry: its reasons are always specific (C13_reasons), so
    only the details - which quote names taken from the pod - are left to the
    hypothesis *)
Definition shipped_ev : evaluator := fun x p => shipped_eval false (lv_level x) (lv_version x) p.
Definition ev_details_plain_on (ev : evaluator) (p : pod) : Prop :=
  forall x r, In r (ev x p) -> cr_allowed r = false -> contains "unknown forbidden reason" (cr_detail r) = false.

Lemma shipped_reasons_specific_on p : ev_details_plain_on shipped_ev p -> ev_reasons_specific_on shipped_ev p.
Proof.
  intros Hd x r Hin Hden.
  pose proof (evaluate_pod_reasons shipped_lists false shipped_checks (lv_level x) (lv_version x) p) as Hok.
  rewrite Forall_forall in Hok.
  destruct (reason_ok_denied r (Hok r Hin) Hden) as [Hne Hr].
  repeat split; [now apply String.eqb_neq|exact Hr|exact (Hd x r Hin Hden)].
Qed.

Lemma P13_adm_model_shipped c r w :
  (forall ls p enforced, evaluated_object c r w = Some (ls, p, enforced) -> ev_details_plain_on shipped_ev p) ->
  P13_adm c shipped_ev r w (validate c shipped_ev r w) = true.
Proof.
  intros H. apply P13_adm_model_on. intros ls p enforced He.
  apply shipped_reasons_specific_on. exact (H ls p enforced He).
Qed.

(** ** the hypotheses are needed, and satisfiable *)

(** an evaluator that denies without a reason: the texts show the placeholder *)
Definition no_reason_ev : evaluator := fun x _ => match lv_level x with Privileged => [] | _ => [CR false "" ""] end.
Definition e13_world : world := World (Some [(enforce_level_label, "baseline")]) "" None None 0.
Lemma P13_adm_needs_reasons :
  ev_privileged_allows no_reason_ev
  /\ rs_message (fst (validate cex_cfg no_reason_ev cex_req e13_world))
     = "violates PodSecurity ""baseline:latest"": unknown forbidden reason"
  /\ P13_adm cex_cfg no_reason_ev cex_req e13_world (validate cex_cfg no_reason_ev cex_req e13_world) = false
  /\ P13_adm_core cex_cfg no_reason_ev cex_req e13_world (validate cex_cfg no_reason_ev cex_req e13_world) = true.
Proof. split; [intros v p; reflexivity|]. vm_compute. repeat split. Qed.

(** the shipped registry on a privileged container that is NAMED like the
    placeholder: the detail quotes the name, so the "never the placeholder"
    conjunct of [lists_controls] fails although every control is listed with its
    specific reason (the conjunct is a statement about reasons; pods whose
    quoted names contain the placeholder are outside what it can say) *)
Definition odd_pod : pod :=
  Pod "p" [] None false false false None None None []
      [Container "unknown forbidden reason" "img" []
         (Some (SecCtx (Some true) None None None None None None None None None))]
      [] [] None.
Definition odd_req : request := Request "" "pods" "" "ns" "p" "u" OpCreate (OPod odd_pod) ONil None.
Lemma P13_adm_needs_plain_details :
  rs_message (fst (validate cex_cfg shipped_ev odd_req e13_world))
  = "violates PodSecurity ""baseline:latest"": privileged (container ""unknown forbidden reason"" must not set securityContext.privileged=true)"
  /\ P13_adm cex_cfg shipped_ev odd_req e13_world (validate cex_cfg shipped_ev odd_req e13_world) = false
  /\ P13_adm_core cex_cfg shipped_ev odd_req e13_world (validate cex_cfg shipped_ev odd_req e13_world) = true.
Proof. vm_compute. repeat split. Qed.

(** non-vacuity: [cex_ev] (AdmFactsA) satisfies both hypotheses and a denial lists its control *)
Lemma cex_ev_reasons_specific : ev_reasons_specific cex_ev /\ ev_privileged_allows cex_ev.
Proof.
  split.
  - intros x p r Hin Hden. unfold cex_ev in Hin.
    destruct (lv_level x); cbn [In] in Hin; try (destruct Hin as [<-|[]]; repeat split; discriminate).
    destruct Hin.
  - intros v p. reflexivity.
Qed.
Lemma P13_adm_example :
  evaluated_object cex_cfg cex_req e13_world = Some ([(enforce_level_label, "baseline")], cex_pod, true)
  /\ rs_allowed (fst (validate cex_cfg cex_ev cex_req e13_world)) = false
  /\ rs_message (fst (validate cex_cfg cex_ev cex_req e13_world)) = "violates PodSecurity ""baseline:latest"": no"
  /\ lists_controls cex_ev (LV Baseline Latest) cex_pod
       (rs_message (fst (validate cex_cfg cex_ev cex_req e13_world))) = true.
Proof. vm_compute. repeat split. Qed.

(** * P11_control_sets is false of the model (finding F3) *)

(** a tiny evaluator: the same control, worded in the singular for pod "a" and in the plural otherwise *)
Definition f3_ev : evaluator := fun x p =>
  match lv_level x with
  | Privileged => []
  | _ => if String.eqb (pd_name p) "a" then [CR false "forbidden AppArmor profile" "d"]
         else [CR false "forbidden AppArmor profiles" "d"]
  end.
Definition f3_pod (name : string) : pod := Pod name [] None false false false None None None [] [] [] [] None.
Definition f3_cfg : config :=
  Config (Policy (LV Privileged Latest) (LV Privileged Latest) (LV Privileged Latest)) [] [] [] 3000 1000.
Definition f3_req : request :=
  Request "" "namespaces" "" "ns" "ns" "u" OpUpdate
          (ONamespace "ns" [(enforce_level_label, "baseline")]) (ONamespace "ns" []) None.
Definition f3_world : world := World None "" (Some [f3_pod "a"; f3_pod "b"]) None 0.

Lemma P11_control_sets_refuted_proof :
  exists c ev r w, P11_control_sets c ev r w (validate c ev r w) = false.
Proof. exists f3_cfg, f3_ev, f3_req, f3_world. vm_compute. reflexivity. Qed.

(** the same with the shipped registry: two pods violating exactly the AppArmor
    control, one with one forbidden profile and one with two, get two lines,
    while [P11] (grouping by reason text) holds *)
Definition aa_pod (name : string) (ann : list (string * string)) : pod :=
  Pod name ann None false false false None None None []
      [Container "c" "img" [] None; Container "d" "img" [] None] [] [] None.
Definition f3_world_shipped : world :=
  World None ""
        (Some [aa_pod "a" [("container.apparmor.security.beta.kubernetes.io/c", "unconfined")];
               aa_pod "b" [("container.apparmor.security.beta.kubernetes.io/c", "unconfined");
                           ("container.apparmor.security.beta.kubernetes.io/d", "bogus")]]) None 0.
Lemma P11_control_sets_refuted_shipped_proof :
  rs_warnings (fst (validate f3_cfg shipped_ev f3_req f3_world_shipped))
  = ["existing pods in namespace ""ns"" violate the new PodSecurity enforce level ""baseline:latest""";
     "a: forbidden AppArmor profile"; "b: forbidden AppArmor profiles"]
  /\ map (s_control_set shipped_ev (LV Baseline Latest))
         [aa_pod "a" [("container.apparmor.security.beta.kubernetes.io/c", "unconfined")];
          aa_pod "b" [("container.apparmor.security.beta.kubernetes.io/c", "unconfined");
                      ("container.apparmor.security.beta.kubernetes.io/d", "bogus")]]
     = ["forbidden AppArmor profile"; "forbidden AppArmor profile"]
  /\ P11_control_sets f3_cfg shipped_ev f3_req f3_world_shipped (validate f3_cfg shipped_ev f3_req f3_world_shipped) = false
  /\ P11 f3_cfg shipped_ev f3_req f3_world_shipped (validate f3_cfg shipped_ev f3_req f3_world_shipped) = true.
Proof. vm_compute. repeat split. Qed.
