(** Proofs/SourcesFacts.v - facts about the glue between the admission
    controller and the cluster (Model/Sources.v): listings are whole or an
    error, a failing LIST is reported as the only warning of an allowed
    namespace update, a failing namespace lookup fails a pod request closed,
    the oracle read through the sources is a function of the present entries
    of the request's own namespace, and the answer to a request in any history
    is the answer a freshly built rig gives on the state present at that moment. *)
From Coq Require Import List Bool NArith ZArith Arith String Lia.
From PSA Require Import Base.Str Model.Api Model.Pod Model.Checks Model.Registry Model.Admission Model.Namespace
     Model.Sources.
From PSA Require Import Spec.P05 Spec.PAdm Proofs.AdmFactsB.
Import ListNotations.
Local Open Scope string_scope.

(* ------------------------------------------------------------ projections *)

Lemma world_of_pods wi cl f name exp now : w_pods (world_of wi cl f name exp now) = list_pods wi cl f.
Proof. unfold world_of. destruct (get_namespace wi cl f name) as [ns err]. reflexivity. Qed.

Lemma world_of_ns wi cl f name exp now : w_ns (world_of wi cl f name exp now) = fst (get_namespace wi cl f name).
Proof. unfold world_of. destruct (get_namespace wi cl f name) as [ns err]. reflexivity. Qed.

Lemma world_of_ns_err wi cl f name exp now :
  w_ns_err (world_of wi cl f name exp now) = snd (get_namespace wi cl f name).
Proof. unfold world_of. destruct (get_namespace wi cl f name) as [ns err]. reflexivity. Qed.

(* ------------------------------------------------------------------ C07 *)

Lemma C07_sources_list_all_or_error_proof : forall wi cl f l, list_pods wi cl f = Some l ->
  l = (if wi_pods_informer wi then cl_cached_pods cl else cl_live_pods cl).
Proof.
  intros wi cl f l H. unfold list_pods in H.
  destruct (wi_pods_informer wi).
  - now inversion H.
  - destruct (f_list f); [discriminate|now inversion H].
Qed.

Lemma C07_sources_list_error_iff_proof : forall wi cl f,
  list_pods wi cl f = None <-> (wi_pods_informer wi = false /\ f_list f = true).
Proof.
  intros wi cl f. unfold list_pods. split.
  - destruct (wi_pods_informer wi); [discriminate|].
    destruct (f_list f); [auto|discriminate].
  - intros [Hi Hf]. now rewrite Hi, Hf.
Qed.

Definition list_failed_warning : string := "failed to list pods while checking new PodSecurity enforce level".

(** the only producer of an EvList event is the dry run, and with no listing it yields exactly the warning *)
Lemma vn_list_none c ev r w : w_pods w = None ->
  existsb is_list (snd (validate_namespace c ev r w)) = true ->
  rs_allowed (fst (validate_namespace c ev r w)) = true /\
  rs_warnings (fst (validate_namespace c ev r w)) = [list_failed_warning].
Proof.
  intros Hw. unfold validate_namespace.
  destruct (negb (String.eqb (r_subresource r) "")); [cbn; discriminate|].
  destruct (r_object r) as [m| |p|name ls|k t|o]; try (cbn; discriminate).
  destruct (policy_to_evaluate ls (cf_defaults c)) as [np ne].
  destruct (r_op r) as [| |raw].
  - destruct (negb (is_nil ne)); [cbn; discriminate|].
    destruct (exempt_namespace c (r_namespace r)); cbn; discriminate.
  - destruct (r_old r) as [m| |p|oname ols|k t|o]; try (cbn; discriminate).
    destruct (policy_to_evaluate ols (cf_defaults c)) as [op oe].
    destruct (negb (is_nil ne) && (is_nil oe || negb (ferrs_eqb ne oe))); [cbn; discriminate|].
    destruct (lv_eqb (enforce np) (enforce op)); [cbn; discriminate|].
    destruct (level_eqb (lv_level (enforce np)) Privileged); [cbn; discriminate|].
    destruct (version_eqb (lv_version (enforce np)) (lv_version (enforce op)) &&
              match compare_levels (lv_level (enforce np)) (lv_level (enforce op)) with Gt => false | _ => true end);
      [cbn; discriminate|].
    destruct (exempt_namespace c (r_namespace r)); [cbn; discriminate|].
    unfold evaluate_pods_in_namespace. rewrite Hw. cbn. intros _. split; reflexivity.
  - cbn; discriminate.
Qed.

Lemma validate_is_namespaces c ev r w : is_namespaces r = true -> validate c ev r w = validate_namespace c ev r w.
Proof. intros H. unfold validate. unfold is_namespaces in H. now rewrite H. Qed.

Lemma C07_sources_list_failure_reported_proof : forall c ev r wi cl f exp now,
  is_namespaces r = true -> wi_pods_informer wi = false -> f_list f = true ->
  existsb is_list (snd (validate c ev r (world_of wi cl f (r_namespace r) exp now))) = true ->
  rs_allowed (fst (validate c ev r (world_of wi cl f (r_namespace r) exp now))) = true /\
  rs_warnings (fst (validate c ev r (world_of wi cl f (r_namespace r) exp now)))
  = ["failed to list pods while checking new PodSecurity enforce level"].
Proof.
  intros c ev r wi cl f exp now Hn Hi Hf.
  rewrite (validate_is_namespaces _ _ _ _ Hn).
  apply vn_list_none. rewrite world_of_pods.
  apply C07_sources_list_error_iff_proof. now split.
Qed.

Lemma C07_sources_lookup_failure_closed_proof : forall c ev r wi cl e exp now lf,
  is_pods r = true -> s_ignored_sub (r_subresource r) = false ->
  s_exempt (r_namespace r) (cf_ex_namespaces c) = false -> s_exempt (r_user r) (cf_ex_users c) = false ->
  get_namespace wi cl (Faults (Some e) lf) (r_namespace r) = (None, e) ->
  rs_allowed (fst (validate c ev r (world_of wi cl (Faults (Some e) lf) (r_namespace r) exp now))) = false /\
  rs_code (fst (validate c ev r (world_of wi cl (Faults (Some e) lf) (r_namespace r) exp now))) = Some 500%Z.
Proof.
  intros c ev r wi cl e exp now lf Hp Hs Hen Heu Hg.
  pose proof (C07_faults_proof c ev r (world_of wi cl (Faults (Some e) lf) (r_namespace r) exp now)) as H.
  unfold P07 in H. rewrite Hp, Hs, Hen, Heu in H. cbn [negb andb orb] in H.
  rewrite world_of_ns, Hg in H. cbn [fst] in H.
  apply andb_true_iff in H. destruct H as [H _].
  apply andb_true_iff in H. destruct H as [H _].
  apply andb_true_iff in H. destruct H as [Ha Hc].
  split.
  - now apply negb_true_iff in Ha.
  - destruct (rs_code (fst (validate c ev r (world_of wi cl (Faults (Some e) lf) (r_namespace r) exp now))))
      as [z|]; [|discriminate].
    cbn in Hc. apply Z.eqb_eq in Hc. now subst z.
Qed.

(** the hypothesis of the previous theorem is met exactly when the GET is really made:
    no lister, or the lister does not know the namespace; and the name is not empty *)
Lemma get_namespace_fault wi cl e lf name :
  name <> "" -> (wi_ns_lister wi = false \/ lookup name (cl_cached_ns cl) = None) ->
  get_namespace wi cl (Faults (Some e) lf) name = (None, e).
Proof.
  intros Hn H. unfold get_namespace. cbn [f_get].
  destruct (String.eqb name "") eqn:E; [apply String.eqb_eq in E; contradiction|].
  destruct (wi_ns_lister wi); [|reflexivity].
  destruct H as [H|H]; [discriminate|]. now rewrite H.
Qed.

(* ------------------------------------------------------------------ C15 *)

Lemma get_namespace_frame wi f name cl cl' :
  lookup name (cl_cached_ns cl) = lookup name (cl_cached_ns cl') ->
  lookup name (cl_live_ns cl) = lookup name (cl_live_ns cl') ->
  get_namespace wi cl f name = get_namespace wi cl' f name.
Proof. intros Hc Hl. unfold get_namespace. now rewrite Hc, Hl. Qed.

Lemma list_pods_frame wi f cl cl' :
  cl_cached_pods cl = cl_cached_pods cl' -> cl_live_pods cl = cl_live_pods cl' ->
  list_pods wi cl f = list_pods wi cl' f.
Proof. intros Hc Hl. unfold list_pods. now rewrite Hc, Hl. Qed.

Lemma C15_sources_frame_proof : forall wi f name exp now cl cl',
  lookup name (cl_cached_ns cl) = lookup name (cl_cached_ns cl') ->
  lookup name (cl_live_ns cl) = lookup name (cl_live_ns cl') ->
  cl_cached_pods cl = cl_cached_pods cl' -> cl_live_pods cl = cl_live_pods cl' ->
  world_of wi cl f name exp now = world_of wi cl' f name exp now.
Proof.
  intros wi f name exp now cl cl' H1 H2 H3 H4. unfold world_of.
  rewrite (get_namespace_frame wi f name cl cl' H1 H2), (list_pods_frame wi f cl cl' H3 H4). reflexivity.
Qed.

(** histories of a rig: the cluster changes, the fault plan changes, requests are served *)
Inductive src_op := SetCluster (cl : cluster) | SetFaults (f : faults) | Serve (r : request).

Fixpoint run_rig (c : config) (ev : evaluator) (wi : wiring) (now : Z) (cl : cluster) (f : faults)
         (ops : list src_op) : list response :=
  match ops with
  | [] => []
  | SetCluster cl' :: rest => run_rig c ev wi now cl' f rest
  | SetFaults f' :: rest => run_rig c ev wi now cl f' rest
  | Serve r :: rest => fst (validate c ev r (world_of wi cl f (r_namespace r) None now)) :: run_rig c ev wi now cl f rest
  end.

Fixpoint state_after (cl : cluster) (f : faults) (ops : list src_op) : cluster * faults :=
  match ops with
  | [] => (cl, f)
  | SetCluster cl' :: rest => state_after cl' f rest
  | SetFaults f' :: rest => state_after cl f' rest
  | Serve _ :: rest => state_after cl f rest
  end.

Fixpoint count_serves (ops : list src_op) : nat :=
  match ops with
  | [] => 0
  | Serve _ :: rest => S (count_serves rest)
  | _ :: rest => count_serves rest
  end.

Lemma C15_sources_histories_proof : forall c ev wi now ops1 ops2 cl f cl0 f0 r,
  state_after cl0 f0 ops1 = (cl, f) ->
  nth_error (run_rig c ev wi now cl0 f0 (ops1 ++ Serve r :: ops2)) (count_serves ops1)
  = Some (fst (validate c ev r (world_of wi cl f (r_namespace r) None now))).
Proof.
  intros c ev wi now ops1. induction ops1 as [|op ops1 IH]; intros ops2 cl f cl0 f0 r H.
  - cbn in H. inversion H; subst. reflexivity.
  - destruct op as [cl'|f'|r']; cbn [app run_rig count_serves state_after nth_error] in *; now apply IH.
Qed.

(** two histories that end in the same state give the same answer to the next request *)
Lemma C15_sources_same_state_proof : forall c ev wi now ops1 ops1' ops2 ops2' cl0 f0 cl0' f0' r,
  state_after cl0 f0 ops1 = state_after cl0' f0' ops1' ->
  nth_error (run_rig c ev wi now cl0 f0 (ops1 ++ Serve r :: ops2)) (count_serves ops1)
  = nth_error (run_rig c ev wi now cl0' f0' (ops1' ++ Serve r :: ops2')) (count_serves ops1').
Proof.
  intros c ev wi now ops1 ops1' ops2 ops2' cl0 f0 cl0' f0' r H.
  destruct (state_after cl0 f0 ops1) as [cl f] eqn:E.
  rewrite (C15_sources_histories_proof c ev wi now ops1 ops2 cl f cl0 f0 r E).
  symmetry. now apply C15_sources_histories_proof.
Qed.

(** the number of answers is the number of requests served *)
Lemma run_rig_length c ev wi now ops : forall cl f, List.length (run_rig c ev wi now cl f ops) = count_serves ops.
Proof.
  induction ops as [|op ops IH]; intros cl f; [reflexivity|].
  destruct op; cbn [run_rig count_serves List.length]; now rewrite IH.
Qed.
