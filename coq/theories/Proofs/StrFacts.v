(** Proofs/StrFacts.v - facts about Base/Str.v: the byte-wise string order
    ([String.compare], [String.leb]) is a total order; [ssort] returns a sorted
    permutation; [sinsert]/[sset_of] build strictly sorted sets; [lookup] and
    [mem] on association lists / lists of strings; a few generic list facts. *)
From Coq Require Import List Bool NArith Ascii String Lia.
From Coq Require Import Sorting.Sorted Sorting.Permutation.
From PSA Require Import Base.Str.
Import ListNotations.

(** * Generic list facts *)

Lemma flat_map_ext_in {A B} (f g : A -> list B) l :
  (forall a, In a l -> f a = g a) -> flat_map f l = flat_map g l.
Proof.
  induction l as [|a l IH]; intros H; simpl; [reflexivity|].
  rewrite (H a (or_introl eq_refl)), IH; [reflexivity|].
  intros b Hb. apply H. now right.
Qed.

Lemma flat_map_nil_in {A B} (f : A -> list B) l :
  (forall a, In a l -> f a = []) -> flat_map f l = [].
Proof.
  induction l as [|a l IH]; intros H; simpl; [reflexivity|].
  rewrite (H a (or_introl eq_refl)), IH; [reflexivity|].
  intros b Hb. apply H. now right.
Qed.

Lemma filter_flat_map {A B} (p : B -> bool) (f : A -> list B) l :
  filter p (flat_map f l) = flat_map (fun a => filter p (f a)) l.
Proof.
  induction l as [|a l IH]; simpl; [reflexivity|].
  now rewrite filter_app, IH.
Qed.

Lemma forallb_ext_in {A} (f g : A -> bool) l :
  (forall a, In a l -> f a = g a) -> forallb f l = forallb g l.
Proof.
  induction l as [|a l IH]; intros H; simpl; [reflexivity|].
  rewrite (H a (or_introl eq_refl)), IH; [reflexivity|].
  intros b Hb. apply H. now right.
Qed.

Lemma forallb_ext {A} (f g : A -> bool) :
  (forall a, f a = g a) -> forall l, forallb f l = forallb g l.
Proof. intros H l. apply forallb_ext_in. intros a _. apply H. Qed.

Lemma list_no_elements_nil {A} (l : list A) : (forall x, ~ In x l) -> l = [].
Proof. destruct l as [|a l]; [reflexivity|]. intros H. exfalso. apply (H a). now left. Qed.

Lemma list_eqb_refl {A} (eqb : A -> A -> bool) :
  (forall a, eqb a a = true) -> forall l, list_eqb eqb l l = true.
Proof. intros H l. induction l; simpl; [reflexivity|]. now rewrite H, IHl. Qed.

Lemma list_eqb_string_eq a : forall b, list_eqb String.eqb a b = true <-> a = b.
Proof.
  induction a as [|x a IH]; intros [|y b]; simpl; split; try easy.
  - rewrite andb_true_iff, String.eqb_eq, IH. now intros [-> ->].
  - intros [= -> ->]. rewrite String.eqb_refl. now apply IH.
Qed.

Lemma is_nil_true {A} (l : list A) : is_nil l = true <-> l = [].
Proof. destruct l; simpl; split; easy. Qed.

(** * [mem] *)

Lemma mem_In x l : mem x l = true <-> In x l.
Proof.
  unfold mem. rewrite existsb_exists. split.
  - intros [y [Hy E]]. apply String.eqb_eq in E. now subst.
  - intros H. exists x. split; [assumption|apply String.eqb_refl].
Qed.

Lemma mem_false_iff x l : mem x l = false <-> ~ In x l.
Proof. rewrite <- mem_In. now destruct (mem x l). Qed.

Lemma mem_ext x l1 l2 : (forall y, In y l1 <-> In y l2) -> mem x l1 = mem x l2.
Proof.
  intros H. apply eq_iff_eq_true. now rewrite !mem_In.
Qed.

Lemma mem_nil x : mem x [] = false.
Proof. reflexivity. Qed.

(** * [lookup] *)

Lemma lookup_app {A} k (m1 m2 : list (string * A)) :
  lookup k (m1 ++ m2)%list =
  match lookup k m1 with Some x => Some x | None => lookup k m2 end.
Proof.
  induction m1 as [|[k' v] m1 IH]; simpl; [reflexivity|].
  now destruct (String.eqb k k').
Qed.

Lemma lookup_None_iff {A} k (m : list (string * A)) :
  lookup k m = None <-> ~ In k (map fst m).
Proof.
  induction m as [|[k' v] m IH]; simpl; [tauto|].
  destruct (String.eqb_spec k k') as [->|N].
  - split; [discriminate|]. intros H. exfalso. apply H. now left.
  - rewrite IH. split; [intros H [E|I]; [now symmetry in E|tauto]|tauto].
Qed.

Lemma lookup_Some_In {A} k (m : list (string * A)) v :
  lookup k m = Some v -> In (k, v) m.
Proof.
  induction m as [|[k' v'] m IH]; simpl; [discriminate|].
  destruct (String.eqb_spec k k') as [->|N].
  - intros [= ->]. now left.
  - intros H. right. now apply IH.
Qed.

(** with unique keys, [lookup] finds every binding *)
Lemma In_lookup_NoDup {A} k (m : list (string * A)) v :
  NoDup (map fst m) -> In (k, v) m -> lookup k m = Some v.
Proof.
  induction m as [|[k' v'] m IH]; simpl; [tauto|].
  intros ND [E|I].
  - inversion E; subst. now rewrite String.eqb_refl.
  - inversion ND as [|? ? Hn ND']; subst.
    destruct (String.eqb_spec k k') as [->|N].
    + exfalso. apply Hn. apply in_map_iff. now exists (k', v).
    + now apply IH.
Qed.

(** filtering on the key only *)
Lemma lookup_filter_fst {A} (f : string -> bool) k (m : list (string * A)) :
  lookup k (filter (fun x => f (fst x)) m) = if f k then lookup k m else None.
Proof.
  induction m as [|[k' v] m IH]; simpl; [now destruct (f k)|].
  destruct (f k') eqn:Ek'; simpl.
  - destruct (String.eqb_spec k k') as [->|N]; [now rewrite Ek'|exact IH].
  - rewrite IH. destruct (String.eqb_spec k k') as [->|N]; [now rewrite Ek'|reflexivity].
Qed.

(** * The order on characters and strings *)

Lemma ascii_compare_refl a : Ascii.compare a a = Eq.
Proof. unfold Ascii.compare. apply N.compare_refl. Qed.

Lemma ascii_compare_lt_trans a b c :
  Ascii.compare a b = Lt -> Ascii.compare b c = Lt -> Ascii.compare a c = Lt.
Proof. unfold Ascii.compare. rewrite !N.compare_lt_iff. lia. Qed.

Lemma string_compare_refl s : String.compare s s = Eq.
Proof. induction s as [|a s IH]; simpl; [reflexivity|]. now rewrite ascii_compare_refl. Qed.

Lemma string_compare_lt_trans : forall a b c,
  String.compare a b = Lt -> String.compare b c = Lt -> String.compare a c = Lt.
Proof.
  induction a as [|x a IH]; intros [|y b] [|z c]; simpl; try easy.
  destruct (Ascii.compare x y) eqn:E1; destruct (Ascii.compare y z) eqn:E2; try discriminate.
  - apply Ascii.compare_eq_iff in E1, E2. subst. rewrite ascii_compare_refl. apply IH.
  - apply Ascii.compare_eq_iff in E1. subst. now rewrite E2.
  - apply Ascii.compare_eq_iff in E2. subst. now rewrite E1.
  - now rewrite (ascii_compare_lt_trans _ _ _ E1 E2).
Qed.

Lemma string_compare_gt_lt a b : String.compare a b = Gt <-> String.compare b a = Lt.
Proof.
  rewrite (String.compare_antisym b a). destruct (String.compare a b); simpl; split; easy.
Qed.

Lemma string_leb_refl s : String.leb s s = true.
Proof. unfold String.leb. now rewrite string_compare_refl. Qed.

(** transitivity, which the standard library does not provide *)
Lemma string_leb_trans a b c :
  String.leb a b = true -> String.leb b c = true -> String.leb a c = true.
Proof.
  unfold String.leb.
  destruct (String.compare a b) eqn:E1; try discriminate;
  destruct (String.compare b c) eqn:E2; try discriminate; intros _ _.
  - apply String.compare_eq_iff in E1, E2. subst. now rewrite string_compare_refl.
  - apply String.compare_eq_iff in E1. subst. now rewrite E2.
  - apply String.compare_eq_iff in E2. subst. now rewrite E1.
  - now rewrite (string_compare_lt_trans _ _ _ E1 E2).
Qed.

Lemma string_leb_false_lt a b : String.leb a b = false -> String.ltb b a = true.
Proof.
  unfold String.leb, String.ltb. destruct (String.compare a b) eqn:E; try discriminate.
  intros _. apply string_compare_gt_lt in E. now rewrite E.
Qed.

Lemma string_leb_false_leb a b : String.leb a b = false -> String.leb b a = true.
Proof.
  intros H. destruct (String.leb_total a b) as [H'|H']; [congruence|assumption].
Qed.

Lemma string_ltb_leb a b : String.ltb a b = true -> String.leb a b = true.
Proof. unfold String.ltb, String.leb. now destruct (String.compare a b). Qed.

Lemma string_ltb_irrefl a : String.ltb a a = false.
Proof. unfold String.ltb. now rewrite string_compare_refl. Qed.

Lemma string_ltb_trans a b c :
  String.ltb a b = true -> String.ltb b c = true -> String.ltb a c = true.
Proof.
  unfold String.ltb.
  destruct (String.compare a b) eqn:E1; try discriminate;
  destruct (String.compare b c) eqn:E2; try discriminate; intros _ _.
  now rewrite (string_compare_lt_trans _ _ _ E1 E2).
Qed.

(** * [ssort]: a sorted permutation of its input *)

Lemma In_oinsert x y l : In x (oinsert y l) <-> x = y \/ In x l.
Proof.
  induction l as [|z l IH]; simpl; [intuition congruence|].
  destruct (String.leb y z); simpl; [intuition congruence|].
  rewrite IH. intuition congruence.
Qed.

Lemma In_ssort x l : In x (ssort l) <-> In x l.
Proof.
  induction l as [|y l IH]; simpl; [tauto|].
  rewrite In_oinsert, IH. intuition congruence.
Qed.

Lemma oinsert_perm x l : Permutation (oinsert x l) (x :: l).
Proof.
  induction l as [|y l IH]; simpl; [apply Permutation_refl|].
  destruct (String.leb x y); [apply Permutation_refl|].
  eapply Permutation_trans; [apply perm_skip, IH|apply perm_swap].
Qed.

Lemma ssort_perm l : Permutation (ssort l) l.
Proof.
  induction l as [|x l IH]; simpl; [apply Permutation_refl|].
  eapply Permutation_trans; [apply oinsert_perm|now apply perm_skip].
Qed.

Lemma ssort_length l : List.length (ssort l) = List.length l.
Proof. apply Permutation_length, ssort_perm. Qed.

Definition sle (a b : string) : Prop := String.leb a b = true.

Lemma oinsert_sorted x l : StronglySorted sle l -> StronglySorted sle (oinsert x l).
Proof.
  induction l as [|y l IH]; intros S; simpl.
  - constructor; constructor.
  - inversion S as [|? ? S' Hall]; subst.
    destruct (String.leb x y) eqn:E.
    + constructor; [assumption|]. constructor; [exact E|].
      eapply Forall_impl; [|exact Hall]. intros z Hz. eapply string_leb_trans; eassumption.
    + constructor; [now apply IH|].
      apply Forall_forall. intros z Hz. apply In_oinsert in Hz. destruct Hz as [->|Hz].
      * now apply string_leb_false_leb.
      * rewrite Forall_forall in Hall. now apply Hall.
Qed.

Lemma ssort_sorted l : StronglySorted sle (ssort l).
Proof. induction l; simpl; [constructor|now apply oinsert_sorted]. Qed.

Lemma ssort_nil_iff l : ssort l = [] <-> l = [].
Proof.
  split; [|now intros ->]. intros H.
  apply list_no_elements_nil. intros x Hx. apply In_ssort in Hx. now rewrite H in Hx.
Qed.

Lemma ssort_NoDup l : NoDup l -> NoDup (ssort l).
Proof. intros H. eapply Permutation_NoDup; [apply Permutation_sym, ssort_perm|exact H]. Qed.

(** * [sinsert] / [sset_of]: strictly sorted, duplicate-free sets *)

Definition slt (a b : string) : Prop := String.ltb a b = true.

Lemma In_sinsert x y l : In x (sinsert y l) <-> x = y \/ In x l.
Proof.
  induction l as [|z l IH]; simpl; [intuition congruence|].
  destruct (String.compare y z) eqn:E; simpl.
  - apply String.compare_eq_iff in E. subst. intuition congruence.
  - intuition congruence.
  - rewrite IH. intuition congruence.
Qed.

Lemma sinsert_sorted x l : StronglySorted slt l -> StronglySorted slt (sinsert x l).
Proof.
  induction l as [|y l IH]; intros S; simpl.
  - constructor; constructor.
  - inversion S as [|? ? S' Hall]; subst.
    destruct (String.compare x y) eqn:E.
    + exact S.
    + constructor; [assumption|]. constructor; [unfold slt, String.ltb; now rewrite E|].
      eapply Forall_impl; [|exact Hall]. intros z Hz.
      eapply string_ltb_trans; [|exact Hz]. unfold String.ltb. now rewrite E.
    + constructor; [now apply IH|].
      apply Forall_forall. intros z Hz. apply In_sinsert in Hz. destruct Hz as [->|Hz].
      * apply string_compare_gt_lt in E. unfold slt, String.ltb. now rewrite E.
      * rewrite Forall_forall in Hall. now apply Hall.
Qed.

Lemma sset_of_acc l : forall acc,
  StronglySorted slt acc ->
  StronglySorted slt (fold_left (fun acc x => sinsert x acc) l acc) /\
  (forall x, In x (fold_left (fun acc x => sinsert x acc) l acc) <-> In x l \/ In x acc).
Proof.
  induction l as [|y l IH]; intros acc S; simpl.
  - split; [assumption|tauto].
  - destruct (IH (sinsert y acc) (sinsert_sorted y acc S)) as [S' I'].
    split; [assumption|]. intros x. rewrite I', In_sinsert. intuition congruence.
Qed.

Lemma sset_of_sorted l : StronglySorted slt (sset_of l).
Proof. apply (sset_of_acc l []). constructor. Qed.

Lemma In_sset_of x l : In x (sset_of l) <-> In x l.
Proof.
  unfold sset_of. destruct (sset_of_acc l [] (SSorted_nil _)) as [_ H].
  rewrite H. simpl. tauto.
Qed.

Lemma slt_sorted_NoDup l : StronglySorted slt l -> NoDup l.
Proof.
  induction 1 as [|a l S IH Hall]; constructor; [|assumption].
  intros Hin. rewrite Forall_forall in Hall. specialize (Hall a Hin).
  unfold slt in Hall. now rewrite string_ltb_irrefl in Hall.
Qed.

Lemma sset_of_NoDup l : NoDup (sset_of l).
Proof. apply slt_sorted_NoDup, sset_of_sorted. Qed.
