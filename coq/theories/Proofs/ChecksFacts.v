(** Proofs/ChecksFacts.v - every check revision of Model/Checks.v decides the
    row of the Pod Security Standards that Spec/PSS.v assigns to it
    ([revisions_decide_standard]), and the restricted revisions are at least as
    strict as the baseline revisions they override (needed by C03). *)
From Coq Require Import List Bool NArith ZArith String Btauto.
From PSA Require Import Base.Str Model.Api Model.Pod Model.Checks Spec.PSS Spec.P02.
Import ListNotations.
Local Open Scope string_scope.

(** * Generic list facts *)

Lemma is_nil_filter {A} (f : A -> bool) (l : list A) :
  is_nil (filter f l) = forallb (fun x => negb (f x)) l.
Proof.
  induction l as [|a l IH]; [reflexivity|].
  cbn [filter forallb]. destruct (f a); cbn [negb andb is_nil]; [reflexivity|exact IH].
Qed.

Lemma is_nil_map {A B} (g : A -> B) (l : list A) : is_nil (map g l) = is_nil l.
Proof. destruct l; reflexivity. Qed.

Lemma is_nil_opt_list {A} (b : bool) (x : A) : is_nil (opt_list b x) = negb b.
Proof. destruct b; reflexivity. Qed.

Lemma is_nil_app {A} (a b : list A) : is_nil (a +:+ b) = is_nil a && is_nil b.
Proof. destruct a; reflexivity. Qed.

Lemma is_nil_flat_map {A B} (f : A -> list B) (l : list A) :
  is_nil (flat_map f l) = forallb (fun x => is_nil (f x)) l.
Proof.
  induction l as [|a l IH]; [reflexivity|].
  cbn [flat_map forallb]. rewrite is_nil_app, IH. reflexivity.
Qed.

Lemma is_nil_false_iff {A} (l : list A) : is_nil l = false <-> l <> [].
Proof. destruct l; cbn; split; intro H; congruence. Qed.

Lemma sinsert_not_nil x l : sinsert x l <> [].
Proof. destruct l as [|y ys]; cbn; [discriminate|]. destruct (x ?= y)%string; discriminate. Qed.

Lemma fold_sinsert_not_nil l : forall acc, acc <> [] ->
  fold_left (fun acc x => sinsert x acc) l acc <> [].
Proof.
  induction l as [|x l IH]; intros acc H; cbn [fold_left]; [exact H|].
  apply IH, sinsert_not_nil.
Qed.

Lemma is_nil_sset_of l : is_nil (sset_of l) = is_nil l.
Proof.
  destruct l as [|x l]; [reflexivity|].
  unfold sset_of. cbn [fold_left is_nil].
  apply is_nil_false_iff, fold_sinsert_not_nil, sinsert_not_nil.
Qed.

Lemma oinsert_not_nil x l : oinsert x l <> [].
Proof. destruct l as [|y ys]; cbn; [discriminate|]. destruct (x <=? y)%string; discriminate. Qed.

Lemma is_nil_ssort l : is_nil (ssort l) = is_nil l.
Proof.
  destruct l as [|x l]; [reflexivity|].
  unfold ssort. cbn [fold_right is_nil]. apply is_nil_false_iff, oinsert_not_nil.
Qed.

Lemma forallb_ext_in {A} (f g : A -> bool) (l : list A) :
  (forall x, In x l -> f x = g x) -> forallb f l = forallb g l.
Proof.
  induction l as [|a l IH]; intros H; [reflexivity|].
  cbn [forallb]. rewrite (H a (or_introl eq_refl)), IH; [reflexivity|].
  intros x Hx. apply H. right. exact Hx.
Qed.

Lemma forallb_ext {A} (f g : A -> bool) (l : list A) :
  (forall x, f x = g x) -> forallb f l = forallb g l.
Proof. intros H. apply forallb_ext_in. intros x _. apply H. Qed.

Lemma forallb_andb {A} (f g : A -> bool) (l : list A) :
  forallb f l && forallb g l = forallb (fun x => f x && g x) l.
Proof.
  induction l as [|a l IH]; [reflexivity|].
  cbn [forallb]. rewrite <- IH. btauto.
Qed.

Lemma forallb_true {A} (l : list A) : forallb (fun _ => true) l = true.
Proof. induction l; [reflexivity|exact IHl]. Qed.

Lemma existsb_singleton_or_nil {A} (f : A -> bool) (o : option A) :
  existsb f (match o with Some x => [x] | None => [] end) =
  match o with Some x => f x | None => false end.
Proof. destruct o; cbn [existsb]; [apply orb_false_r|reflexivity]. Qed.

(** * Membership and set equality *)

Lemma mem_true_iff x l : mem x l = true <-> In x l.
Proof.
  unfold mem. rewrite existsb_exists. split.
  - intros [y [Hy E]]. apply String.eqb_eq in E. subst y. exact Hy.
  - intros H. exists x. split; [exact H|apply String.eqb_refl].
Qed.

Lemma same_set_mem a b : same_set a b = true -> forall x, mem x a = mem x b.
Proof.
  unfold same_set. rewrite andb_true_iff, !forallb_forall. intros [Hab Hba] x.
  destruct (mem x a) eqn:Ea.
  - symmetry. apply Hab. apply mem_true_iff. exact Ea.
  - destruct (mem x b) eqn:Eb; [|reflexivity].
    rewrite <- Ea. apply Hba. apply mem_true_iff. exact Eb.
Qed.

Lemma lists_ok_inv al : lists_ok al = true ->
  same_set (al_caps al) pss_capabilities = true /\
  same_set (al_sysctls_0 al) (pss_sysctls 0) = true /\
  same_set (al_sysctls_27 al) (pss_sysctls 27) = true /\
  same_set (al_sysctls_29 al) (pss_sysctls 29) = true /\
  same_set (al_sysctls_32 al) (pss_sysctls 32) = true /\
  same_set (al_selinux_0 al) (pss_selinux_types 0) = true /\
  same_set (al_selinux_31 al) (pss_selinux_types 31) = true.
Proof.
  unfold lists_ok. intros H.
  repeat match type of H with
         | (_ && _ = true) => apply andb_true_iff in H; destruct H as [H ?]
         end.
  repeat split; assumption.
Qed.

(** * Shapes shared by the checks *)

Lemma cr_allowed_if (b : bool) r d : cr_allowed (if b then cr_ok else CR false r d) = b.
Proof. destruct b; reflexivity. Qed.

Lemma cr_allowed_if2 (a b : bool) r d r' d' :
  cr_allowed (if negb a then CR false r d else if negb b then CR false r' d' else cr_ok) = a && b.
Proof. destruct a, b; reflexivity. Qed.

Lemma names_where_nil f p :
  is_nil (names_where f p) = forallb (fun c => negb (f c)) (all_containers p).
Proof. unfold names_where. rewrite is_nil_map. apply is_nil_filter. Qed.

Lemma every_container_forallb f p : every_container f p = forallb f (all_containers p).
Proof. reflexivity. Qed.

Lemma relax_pod_relaxed_for r p : relax_pod r p = relaxed_for r p.
Proof. reflexivity. Qed.

Ltac open_check f := cbv beta zeta delta [f]; rewrite ?cr_allowed_if, ?cr_allowed_if2.
Ltac nil_norm :=
  repeat first [ rewrite is_nil_app | rewrite is_nil_opt_list | rewrite is_nil_sset_of
               | rewrite is_nil_ssort | rewrite names_where_nil | rewrite is_nil_map
               | rewrite is_nil_flat_map | rewrite is_nil_filter | rewrite negb_involutive ].

(** * Baseline revisions *)

Lemma privileged_1_0_spec al r p : cr_allowed (privileged_1_0 al r p) = ok_privileged p.
Proof.
  open_check privileged_1_0. nil_norm. unfold ok_privileged, every_container.
  apply forallb_ext. intros c. destruct (csc sc_privileged c) as [[|]|]; reflexivity.
Qed.

Lemma hostNamespaces_1_0_spec al r p : cr_allowed (hostNamespaces_1_0 al r p) = ok_hostNamespaces p.
Proof.
  open_check hostNamespaces_1_0. nil_norm. unfold ok_hostNamespaces. btauto.
Qed.

Lemma hostPathVolumes_1_0_spec al r p : cr_allowed (hostPathVolumes_1_0 al r p) = ok_hostPath p.
Proof. open_check hostPathVolumes_1_0. nil_norm. reflexivity. Qed.

Lemma hostPorts_1_0_spec al r p : cr_allowed (hostPorts_1_0 al r p) = ok_hostPorts p.
Proof.
  open_check hostPorts_1_0. nil_norm. unfold ok_hostPorts, every_container.
  apply forallb_ext. intros c. unfold bad_ports. nil_norm.
  apply forallb_ext. intros z. apply negb_involutive.
Qed.

Lemma capabilitiesBaseline_1_0_spec al r p :
  same_set (al_caps al) pss_capabilities = true ->
  cr_allowed (capabilitiesBaseline_1_0 al r p) = ok_capabilities_baseline p.
Proof.
  intros Hs. open_check capabilitiesBaseline_1_0. nil_norm.
  unfold ok_capabilities_baseline, every_container.
  apply forallb_ext. intros c. unfold caps_bad_adds.
  destruct (csc sc_caps c) as [[add drop]|]; [|reflexivity].
  nil_norm. apply forallb_ext. intros x. rewrite negb_involutive. apply same_set_mem, Hs.
Qed.

Lemma apparmor_type_ok o :
  ok_apparmor_type o = match o with Some t => allowed_apparmor_type t | None => true end.
Proof. reflexivity. Qed.

Lemma appArmorProfile_1_0_spec al r p : cr_allowed (appArmorProfile_1_0 al r p) = ok_appArmor p.
Proof.
  open_check appArmorProfile_1_0. nil_norm. unfold ok_appArmor, every_container.
  assert (Hpod : negb (is_some (apparmor_bad_pod p)) = ok_apparmor_type (psc p_apparmor p)).
  { unfold apparmor_bad_pod. rewrite apparmor_type_ok.
    destruct (psc p_apparmor p) as [t|]; [|reflexivity]. destruct (allowed_apparmor_type t); reflexivity. }
  assert (Hcont : forallb (fun c => negb (apparmor_bad_container c)) (all_containers p)
                  = forallb (fun c => ok_apparmor_type (csc sc_apparmor c)) (all_containers p)).
  { apply forallb_ext. intros c. unfold apparmor_bad_container. rewrite apparmor_type_ok.
    destruct (csc sc_apparmor c) as [t|]; [apply negb_involutive|reflexivity]. }
  assert (Hann : is_nil (apparmor_forbidden_annotations p)
                 = forallb (fun kv : string * string =>
                              negb (has_prefix "container.apparmor.security.beta.kubernetes.io/" (fst kv))
                              || String.eqb (snd kv) "" || String.eqb (snd kv) "runtime/default"
                              || has_prefix "localhost/" (snd kv)) (pd_annotations p)).
  { unfold apparmor_forbidden_annotations. nil_norm. apply forallb_ext. intros [k v].
    cbn [fst snd]. unfold allowed_apparmor_annotation, apparmor_annotation_prefix.
    destruct (has_prefix "container.apparmor.security.beta.kubernetes.io/" k),
             (String.eqb v ""), (String.eqb v "runtime/default"), (has_prefix "localhost/" v); reflexivity. }
  rewrite Hpod, Hcont, Hann. btauto.
Qed.

Lemma procMount_1_0_spec al r p : relax_pod r p = false ->
  cr_allowed (procMount_1_0 al r p) = ok_procMount p.
Proof.
  intros Hr. cbv beta zeta delta [procMount_1_0]. rewrite Hr, cr_allowed_if. nil_norm.
  unfold ok_procMount, every_container. apply forallb_ext. intros c. unfold procmount_bad.
  destruct (csc sc_procMount c) as [t|]; [|reflexivity]. destruct (String.eqb t "Default"); reflexivity.
Qed.

Lemma seLinuxOptions_spec allowed m p :
  (forall x, mem x allowed = mem x (pss_selinux_types m)) ->
  cr_allowed (seLinuxOptions allowed p) = ok_seLinux m p.
Proof.
  intros Hs. open_check seLinuxOptions. nil_norm. rewrite existsb_singleton_or_nil.
  unfold ok_seLinux, every_container. f_equal.
  - unfold ok_selinux_opts, selinux_valid. destruct (psc p_selinux p) as [o|]; [|reflexivity].
    rewrite negb_involutive, Hs. reflexivity.
  - apply forallb_ext. intros c. unfold ok_selinux_opts, selinux_valid.
    destruct (csc sc_selinux c) as [o|]; [|reflexivity].
    rewrite negb_involutive, Hs. reflexivity.
Qed.

Lemma seLinuxOptions1_0_spec al r p :
  same_set (al_selinux_0 al) (pss_selinux_types 0) = true ->
  cr_allowed (seLinuxOptions1_0 al r p) = ok_seLinux 0 p.
Proof. intros Hs. apply seLinuxOptions_spec, same_set_mem, Hs. Qed.

Lemma seLinuxOptions1_31_spec al r p :
  same_set (al_selinux_31 al) (pss_selinux_types 31) = true ->
  cr_allowed (seLinuxOptions1_31 al r p) = ok_seLinux 31 p.
Proof. intros Hs. apply seLinuxOptions_spec, same_set_mem, Hs. Qed.

Lemma seccomp_annotation_finding_nil p key :
  is_nil (seccomp_annotation_finding p key) = ok_seccomp_annotation p key.
Proof.
  unfold seccomp_annotation_finding, ok_seccomp_annotation.
  destruct (lookup key (pd_annotations p)) as [v|]; [|reflexivity].
  change (String.eqb v "runtime/default" || String.eqb v "docker/default" || has_prefix "localhost/" v)
    with (valid_seccomp_annotation v).
  destruct (valid_seccomp_annotation v); reflexivity.
Qed.

Lemma seccompProfileBaseline_1_0_spec al r p :
  cr_allowed (seccompProfileBaseline_1_0 al r p) = ok_seccomp_baseline 0 p.
Proof.
  open_check seccompProfileBaseline_1_0. nil_norm.
  change (ok_seccomp_baseline 0 p) with
    (ok_seccomp_annotation p "seccomp.security.alpha.kubernetes.io/pod"
     && forallb (fun c => ok_seccomp_annotation p
                            ("container.seccomp.security.alpha.kubernetes.io/" ++ c_name c))
                (all_containers p)).
  rewrite seccomp_annotation_finding_nil. f_equal.
  apply forallb_ext. intros c. apply seccomp_annotation_finding_nil.
Qed.

Lemma valid_seccomp_type_comm t : valid_seccomp_type t = valid_seccomp t.
Proof. apply orb_comm. Qed.

Lemma seccomp_bad_setters_nil p :
  is_nil (seccomp_bad_setters p) =
  ok_seccomp_type_or_undefined (psc p_seccomp p)
  && forallb (fun c => ok_seccomp_type_or_undefined (csc sc_seccomp c)) (all_containers p).
Proof.
  cbv beta zeta delta [seccomp_bad_setters]. nil_norm. f_equal.
  - unfold seccomp_bad_pod, ok_seccomp_type_or_undefined.
    destruct (psc p_seccomp p) as [t|]; [|reflexivity].
    fold (valid_seccomp t). rewrite <- valid_seccomp_type_comm.
    destruct (valid_seccomp_type t); reflexivity.
  - apply forallb_ext. intros c. unfold seccomp_bad_container, ok_seccomp_type_or_undefined.
    destruct (csc sc_seccomp c) as [t|]; [|reflexivity].
    fold (valid_seccomp t). rewrite <- valid_seccomp_type_comm. apply negb_involutive.
Qed.

Lemma seccompProfileBaseline_1_19_spec al r p :
  cr_allowed (seccompProfileBaseline_1_19 al r p) = ok_seccomp_baseline 19 p.
Proof.
  open_check seccompProfileBaseline_1_19. apply seccomp_bad_setters_nil.
Qed.

Lemma sysctls_spec allowed m p :
  (forall x, mem x allowed = mem x (pss_sysctls m)) ->
  cr_allowed (sysctls allowed p) = ok_sysctls m p.
Proof.
  intros Hs. open_check sysctls. unfold ok_sysctls.
  destruct (pd_sc p) as [s|]; [|reflexivity].
  nil_norm. apply forallb_ext. intros x. rewrite negb_involutive. apply Hs.
Qed.

Lemma sysctlsV1Dot0_spec al r p : same_set (al_sysctls_0 al) (pss_sysctls 0) = true ->
  cr_allowed (sysctlsV1Dot0 al r p) = ok_sysctls 0 p.
Proof. intros Hs. apply sysctls_spec, same_set_mem, Hs. Qed.
Lemma sysctlsV1Dot27_spec al r p : same_set (al_sysctls_27 al) (pss_sysctls 27) = true ->
  cr_allowed (sysctlsV1Dot27 al r p) = ok_sysctls 27 p.
Proof. intros Hs. apply sysctls_spec, same_set_mem, Hs. Qed.
Lemma sysctlsV1Dot29_spec al r p : same_set (al_sysctls_29 al) (pss_sysctls 29) = true ->
  cr_allowed (sysctlsV1Dot29 al r p) = ok_sysctls 29 p.
Proof. intros Hs. apply sysctls_spec, same_set_mem, Hs. Qed.
Lemma sysctlsV1Dot32_spec al r p : same_set (al_sysctls_32 al) (pss_sysctls 32) = true ->
  cr_allowed (sysctlsV1Dot32 al r p) = ok_sysctls 32 p.
Proof. intros Hs. apply sysctls_spec, same_set_mem, Hs. Qed.

Lemma windowsHostProcess_1_0_spec al r p :
  cr_allowed (windowsHostProcess_1_0 al r p) = ok_hostProcess p.
Proof.
  open_check windowsHostProcess_1_0. nil_norm. unfold ok_hostProcess, every_container. f_equal.
  - destruct (psc p_winHP p) as [[[|]|]|]; reflexivity.
  - apply forallb_ext. intros c. destruct (csc sc_winHP c) as [[[|]|]|]; reflexivity.
Qed.

(** * Restricted revisions *)

Definition allowPE_ok (c : container) : bool :=
  match csc sc_allowPE c with Some false => true | _ => false end.
Lemma ok_allowPrivilegeEscalation_8 p :
  ok_allowPrivilegeEscalation 8 p = every_container allowPE_ok p.
Proof. reflexivity. Qed.
Lemma ok_allowPrivilegeEscalation_25 p :
  ok_allowPrivilegeEscalation 25 p = is_windows p || every_container allowPE_ok p.
Proof. reflexivity. Qed.

Lemma allowPrivilegeEscalation_1_8_spec al r p :
  cr_allowed (allowPrivilegeEscalation_1_8 al r p) = ok_allowPrivilegeEscalation 8 p.
Proof.
  rewrite ok_allowPrivilegeEscalation_8. open_check allowPrivilegeEscalation_1_8. nil_norm.
  unfold every_container. apply forallb_ext. intros c. unfold allowPE_ok.
  destruct (csc sc_allowPE c) as [[|]|]; reflexivity.
Qed.

Lemma allowPrivilegeEscalation_1_25_spec al r p :
  cr_allowed (allowPrivilegeEscalation_1_25 al r p) = ok_allowPrivilegeEscalation 25 p.
Proof.
  rewrite ok_allowPrivilegeEscalation_25. unfold allowPrivilegeEscalation_1_25.
  destruct (is_windows p); [reflexivity|].
  rewrite allowPrivilegeEscalation_1_8_spec. reflexivity.
Qed.

Definition caps_restricted_ok (c : container) : bool :=
  match csc sc_caps c with
  | Some (add, drop) => mem "ALL" drop && forallb (fun x => String.eqb x "NET_BIND_SERVICE") add
  | None => false
  end.
Lemma ok_capabilities_restricted_22 p :
  ok_capabilities_restricted 22 p = every_container caps_restricted_ok p.
Proof. reflexivity. Qed.
Lemma ok_capabilities_restricted_25 p :
  ok_capabilities_restricted 25 p = is_windows p || every_container caps_restricted_ok p.
Proof. reflexivity. Qed.

Lemma capabilitiesRestricted_1_22_spec al r p :
  cr_allowed (capabilitiesRestricted_1_22 al r p) = ok_capabilities_restricted 22 p.
Proof.
  rewrite ok_capabilities_restricted_22. open_check capabilitiesRestricted_1_22. nil_norm.
  rewrite forallb_andb. unfold every_container. apply forallb_ext. intros c.
  unfold missing_drop_all, forbidden_adds, caps_restricted_ok.
  destruct (csc sc_caps c) as [[add drop]|]; [|reflexivity].
  nil_norm. f_equal. apply forallb_ext. intros x. apply negb_involutive.
Qed.

Lemma capabilitiesRestricted_1_25_spec al r p :
  cr_allowed (capabilitiesRestricted_1_25 al r p) = ok_capabilities_restricted 25 p.
Proof.
  rewrite ok_capabilities_restricted_25. unfold capabilitiesRestricted_1_25.
  destruct (is_windows p); [reflexivity|].
  rewrite capabilitiesRestricted_1_22_spec. reflexivity.
Qed.

(** the model asks "is some allowed kind among the sources", the standard
    "is some source an allowed kind" *)
Lemma existsb_mem_swap (a b : list string) :
  existsb (fun k => mem k b) a = existsb (fun k => mem k a) b.
Proof.
  destruct (existsb (fun k => mem k b) a) eqn:E1; symmetry.
  - apply existsb_exists in E1. destruct E1 as [k [Hk Hm]]. apply mem_true_iff in Hm.
    apply existsb_exists. exists k. split; [exact Hm|]. apply mem_true_iff. exact Hk.
  - destruct (existsb (fun k => mem k a) b) eqn:E2; [|reflexivity].
    apply existsb_exists in E2. destruct E2 as [k [Hk Hm]]. apply mem_true_iff in Hm.
    rewrite <- E1. symmetry. apply existsb_exists. exists k. split; [exact Hm|]. apply mem_true_iff. exact Hk.
Qed.

Lemma volume_allowed_spec v :
  volume_allowed v = existsb (fun k => mem k pss_volume_types) (v_sources v).
Proof. unfold volume_allowed. apply existsb_mem_swap. Qed.

Lemma restrictedVolumes_1_0_spec al r p :
  cr_allowed (restrictedVolumes_1_0 al r p) = ok_volumeTypes p.
Proof.
  open_check restrictedVolumes_1_0. nil_norm. unfold ok_volumeTypes.
  apply forallb_ext. intros v. rewrite negb_involutive. apply volume_allowed_spec.
Qed.

Lemma runAsNonRoot_1_0_spec al r p : relax_pod r p = false ->
  cr_allowed (runAsNonRoot_1_0 al r p) = ok_runAsNonRoot p.
Proof.
  intros Hr. cbv beta zeta delta [runAsNonRoot_1_0 ok_runAsNonRoot]. rewrite Hr, cr_allowed_if2.
  nil_norm. unfold every_container. rewrite <- andb_assoc, forallb_andb. f_equal.
  - destruct (psc p_runAsNonRoot p) as [[|]|]; reflexivity.
  - apply forallb_ext. intros c.
    destruct (csc sc_runAsNonRoot c) as [[|]|]; [reflexivity|reflexivity|].
    cbn [negb andb]. apply negb_involutive.
Qed.

Lemma nonzero_user_spec o : negb (is_zero_user o) = nonzero_user o.
Proof. destruct o; reflexivity. Qed.

Lemma runAsUser_1_23_spec al r p : relax_pod r p = false ->
  cr_allowed (runAsUser_1_23 al r p) = ok_runAsUser 23 p.
Proof.
  intros Hr. cbv beta zeta delta [runAsUser_1_23]. rewrite Hr, cr_allowed_if. nil_norm.
  change (ok_runAsUser 23 p) with
    (nonzero_user (psc p_runAsUser p)
     && forallb (fun c => nonzero_user (csc sc_runAsUser c)) (all_containers p)).
  rewrite nonzero_user_spec. f_equal. apply forallb_ext. intros c. apply nonzero_user_spec.
Qed.

Definition seccomp_pod_ok (p : pod) : bool :=
  match psc p_seccomp p with Some t => valid_seccomp t | None => true end.
Definition seccomp_container_ok (p : pod) (c : container) : bool :=
  match csc sc_seccomp c with
  | Some t => valid_seccomp t
  | None => match psc p_seccomp p with Some t => valid_seccomp t | None => false end
  end.
Lemma ok_seccomp_restricted_19 p :
  ok_seccomp_restricted 19 p = seccomp_pod_ok p && every_container (seccomp_container_ok p) p.
Proof. reflexivity. Qed.
Lemma ok_seccomp_restricted_25 p :
  ok_seccomp_restricted 25 p =
  is_windows p || (seccomp_pod_ok p && every_container (seccomp_container_ok p) p).
Proof. reflexivity. Qed.

Lemma seccompProfileRestricted_1_19_spec al r p :
  cr_allowed (seccompProfileRestricted_1_19 al r p) = ok_seccomp_restricted 19 p.
Proof.
  rewrite ok_seccomp_restricted_19. open_check seccompProfileRestricted_1_19.
  rewrite seccomp_bad_setters_nil. nil_norm. unfold every_container.
  rewrite <- andb_assoc, forallb_andb. f_equal.
  apply forallb_ext. intros c. unfold seccomp_container_ok, ok_seccomp_type_or_undefined.
  destruct (csc sc_seccomp c) as [t|]; [apply andb_true_r|].
  cbn [negb andb]. rewrite negb_involutive.
  destruct (psc p_seccomp p) as [t|]; [apply valid_seccomp_type_comm|reflexivity].
Qed.

Lemma seccompProfileRestricted_1_25_spec al r p :
  cr_allowed (seccompProfileRestricted_1_25 al r p) = ok_seccomp_restricted 25 p.
Proof.
  rewrite ok_seccomp_restricted_25. unfold seccompProfileRestricted_1_25.
  destruct (is_windows p); [reflexivity|].
  rewrite seccompProfileRestricted_1_19_spec. reflexivity.
Qed.

(** * The main theorem: each registered revision decides its row of the standard *)

Lemma lookup_In {A} k (m : list (string * A)) v : lookup k m = Some v -> In (k, v) m.
Proof.
  induction m as [|[k' v'] m IH]; cbn [lookup]; [discriminate|].
  destruct (String.eqb k k') eqn:E; intros H.
  - apply String.eqb_eq in E. injection H as H. subst. left. reflexivity.
  - right. apply IH, H.
Qed.

Theorem revisions_decide_standard :
  forall (al : allowlists) (fn : string) (f : check_fn) (g : pod -> bool) (relax : bool) (p : pod),
    lists_ok al = true -> lookup_check fn = Some f -> revision_spec fn = Some g ->
    relax_pod relax p = false ->
    cr_allowed (f al relax p) = g p.
Proof.
  intros al fn f g relax p Hl Hf Hg Hr.
  apply lists_ok_inv in Hl. destruct Hl as (Hc & H0 & H27 & H29 & H32 & Hs0 & Hs31).
  apply lookup_In in Hf. unfold check_dictionary in Hf. cbn [In] in Hf.
  repeat (destruct Hf as [Hf|Hf];
          [ injection Hf as E1 E2; subst fn f;
            lazy beta zeta iota delta [revision_spec String.eqb Ascii.eqb Bool.eqb] in Hg;
            injection Hg as Hg; subst g;
            first [ apply appArmorProfile_1_0_spec
                  | apply capabilitiesBaseline_1_0_spec; assumption
                  | apply hostNamespaces_1_0_spec
                  | apply hostPathVolumes_1_0_spec
                  | apply hostPorts_1_0_spec
                  | apply privileged_1_0_spec
                  | apply procMount_1_0_spec; assumption
                  | apply seLinuxOptions1_0_spec; assumption
                  | apply seLinuxOptions1_31_spec; assumption
                  | apply seccompProfileBaseline_1_0_spec
                  | apply seccompProfileBaseline_1_19_spec
                  | apply sysctlsV1Dot0_spec; assumption
                  | apply sysctlsV1Dot27_spec; assumption
                  | apply sysctlsV1Dot29_spec; assumption
                  | apply sysctlsV1Dot32_spec; assumption
                  | apply windowsHostProcess_1_0_spec
                  | apply allowPrivilegeEscalation_1_8_spec
                  | apply allowPrivilegeEscalation_1_25_spec
                  | apply capabilitiesRestricted_1_22_spec
                  | apply capabilitiesRestricted_1_25_spec
                  | apply restrictedVolumes_1_0_spec
                  | apply runAsNonRoot_1_0_spec; assumption
                  | apply runAsUser_1_23_spec; assumption
                  | apply seccompProfileRestricted_1_19_spec
                  | apply seccompProfileRestricted_1_25_spec ]
          | ]).
  destruct Hf.
Qed.

(** every name in the dictionary has a row in the standard's transcription, so
    the theorem above is not vacuous for any registered revision *)
Lemma every_revision_has_a_spec :
  forallb (fun x : string * check_fn => is_some (revision_spec (fst x))) check_dictionary = true.
Proof. vm_compute. reflexivity. Qed.

(** * Restricted revisions are at least as strict as the baseline ones they override *)

Lemma restrictedVolumes_implies_hostPath : forall al r p, one_source_per_volume p = true ->
  cr_allowed (restrictedVolumes_1_0 al r p) = true -> cr_allowed (hostPathVolumes_1_0 al r p) = true.
Proof.
  intros al r p H1. rewrite hostPathVolumes_1_0_spec. open_check restrictedVolumes_1_0. nil_norm.
  unfold ok_hostPath, one_source_per_volume in *. rewrite !forallb_forall in *. intros Ha v Hv.
  specialize (H1 v Hv). specialize (Ha v Hv). rewrite negb_involutive in Ha.
  unfold volume_allowed in Ha.
  destruct (v_sources v) as [|k [|k' l]]; [reflexivity| |discriminate H1].
  unfold mem at 1. cbn [existsb]. rewrite orb_false_r.
  destruct (String.eqb "hostPath" k) eqn:E; [|reflexivity].
  apply String.eqb_eq in E. subst k. vm_compute in Ha. discriminate Ha.
Qed.

Lemma capabilitiesRestricted_1_22_implies_baseline : forall al r p, mem "NET_BIND_SERVICE" (al_caps al) = true ->
  cr_allowed (capabilitiesRestricted_1_22 al r p) = true -> cr_allowed (capabilitiesBaseline_1_0 al r p) = true.
Proof.
  intros al r p Hn. rewrite capabilitiesRestricted_1_22_spec, ok_capabilities_restricted_22.
  open_check capabilitiesBaseline_1_0. nil_norm. unfold every_container.
  rewrite !forallb_forall. intros Ha c Hc. specialize (Ha c Hc).
  unfold caps_restricted_ok in Ha. unfold caps_bad_adds.
  destruct (csc sc_caps c) as [[add drop]|]; [|discriminate Ha].
  apply andb_true_iff in Ha. destruct Ha as [_ Ha]. nil_norm.
  rewrite forallb_forall in *. intros x Hx. specialize (Ha x Hx).
  apply String.eqb_eq in Ha. subst x. rewrite negb_involutive. exact Hn.
Qed.

Lemma windows_fields p : is_windows p = true -> windows_no_linux_fields p = true ->
  (forall c, In c (all_containers p) -> csc sc_caps c = None /\ csc sc_seccomp c = None)
  /\ psc p_seccomp p = None.
Proof.
  intros W H. unfold windows_no_linux_fields in H. rewrite W in H. cbn [negb orb] in H.
  apply andb_true_iff in H. destruct H as [Hc Hp]. split.
  - rewrite forallb_forall in Hc. intros c Hin. specialize (Hc c Hin). unfold csc.
    destruct (c_sc c) as [s|]; [|split; reflexivity].
    apply andb_true_iff in Hc. destruct Hc as [Ha Hb].
    destruct (sc_caps s); [discriminate Ha|]. destruct (sc_seccomp s); [discriminate Hb|].
    split; reflexivity.
  - unfold psc. destruct (pd_sc p) as [s|]; [|reflexivity].
    destruct (p_seccomp s); [discriminate Hp|reflexivity].
Qed.

Lemma capabilitiesRestricted_1_25_implies_baseline : forall al r p, mem "NET_BIND_SERVICE" (al_caps al) = true ->
  windows_no_linux_fields p = true ->
  cr_allowed (capabilitiesRestricted_1_25 al r p) = true -> cr_allowed (capabilitiesBaseline_1_0 al r p) = true.
Proof.
  intros al r p Hn Hw. unfold capabilitiesRestricted_1_25.
  destruct (is_windows p) eqn:W; [intros _|apply capabilitiesRestricted_1_22_implies_baseline, Hn].
  destruct (windows_fields p W Hw) as [Hc _].
  open_check capabilitiesBaseline_1_0. nil_norm. apply forallb_forall. intros c Hin.
  unfold caps_bad_adds. rewrite (proj1 (Hc c Hin)). reflexivity.
Qed.

Lemma seccompRestricted_1_19_implies_baseline_1_19 : forall al r p,
  cr_allowed (seccompProfileRestricted_1_19 al r p) = true -> cr_allowed (seccompProfileBaseline_1_19 al r p) = true.
Proof.
  intros al r p. open_check seccompProfileRestricted_1_19. open_check seccompProfileBaseline_1_19.
  intros H. apply andb_true_iff in H. exact (proj1 H).
Qed.

Lemma seccompRestricted_1_25_implies_baseline_1_19 : forall al r p, windows_no_linux_fields p = true ->
  cr_allowed (seccompProfileRestricted_1_25 al r p) = true -> cr_allowed (seccompProfileBaseline_1_19 al r p) = true.
Proof.
  intros al r p Hw. unfold seccompProfileRestricted_1_25.
  destruct (is_windows p) eqn:W; [intros _|apply seccompRestricted_1_19_implies_baseline_1_19].
  destruct (windows_fields p W Hw) as [Hc Hp].
  open_check seccompProfileBaseline_1_19. rewrite seccomp_bad_setters_nil, Hp. cbn [ok_seccomp_type_or_undefined andb].
  apply forallb_forall. intros c Hin. rewrite (proj2 (Hc c Hin)). reflexivity.
Qed.

(** the validity hypotheses are needed *)
Definition example_allowlists : allowlists :=
  AllowLists pss_capabilities (pss_sysctls 0) (pss_sysctls 27) (pss_sysctls 29) (pss_sysctls 32)
             (pss_selinux_types 0) (pss_selinux_types 31).

(** a volume with two sources, emptyDir and hostPath (rejected by API validation) *)
Definition example_two_source_pod : pod :=
  Pod "p" [] None false false false None None None [] [] []
      [Volume "v" ["hostPath"; "emptyDir"]] None.

(** an os=windows pod whose container adds SYS_ADMIN (rejected by API validation) *)
Definition example_windows_caps_pod : pod :=
  Pod "p" [] None false false false None (Some "windows") None []
      [Container "c" "img" []
         (Some (SecCtx None None None None None (Some (["SYS_ADMIN"], [])) None None None None))]
      [] [] None.

Example restrictedVolumes_needs_one_source : exists al p, cr_allowed (restrictedVolumes_1_0 al false p) = true /\ cr_allowed (hostPathVolumes_1_0 al false p) = false.
Proof. exists example_allowlists, example_two_source_pod. vm_compute. split; reflexivity. Qed.

Example capabilities_windows_needs_validity : exists al p, mem "NET_BIND_SERVICE" (al_caps al) = true /\ cr_allowed (capabilitiesRestricted_1_25 al false p) = true /\ cr_allowed (capabilitiesBaseline_1_0 al false p) = false.
Proof. exists example_allowlists, example_windows_caps_pod. vm_compute. repeat split; reflexivity. Qed.

Print Assumptions revisions_decide_standard.
Print Assumptions restrictedVolumes_implies_hostPath.
Print Assumptions capabilitiesRestricted_1_25_implies_baseline.
Print Assumptions seccompRestricted_1_25_implies_baseline_1_19.
