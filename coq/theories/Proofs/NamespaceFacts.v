(** Proofs/NamespaceFacts.v - facts about Model/Namespace.v needed by properties
    C11 and C12: [prioritize_pods] is the specification's ordering, [eval_loop]
    checks exactly a prefix, the aggregated warning map is the specification's
    report (as a list, before sorting), the dry-run deadline, and the case
    analysis of [validate_namespace]. *)
From Coq Require Import List Bool NArith ZArith Arith String Lia Permutation.
From Coq Require Import Sorting.Sorted.
From PSA Require Import Base.Str Model.Api Model.Pod Model.Checks Model.Registry Model.Admission Model.Namespace.
From PSA Require Import Spec.P05 Spec.PAdm Proofs.StrFacts Proofs.ApiFacts.
Import ListNotations.
Local Open Scope string_scope.

(** * Small generic facts *)

Lemma is_nil_filter_existsb {A} (f : A -> bool) (l : list A) :
  is_nil (filter f l) = negb (existsb f l).
Proof.
  induction l as [|a l IH]; [reflexivity|].
  cbn [filter existsb]. destruct (f a); cbn [is_nil orb negb]; [reflexivity|exact IH].
Qed.

Lemma filter_all {A} (f : A -> bool) (l : list A) :
  (forall a, In a l -> f a = true) -> filter f l = l.
Proof.
  induction l as [|a l IH]; intros H; [reflexivity|].
  cbn [filter]. rewrite (H a (or_introl eq_refl)). f_equal. apply IH.
  intros b Hb. apply H. now right.
Qed.

Lemma filter_none {A} (f : A -> bool) (l : list A) :
  (forall a, In a l -> f a = false) -> filter f l = [].
Proof.
  induction l as [|a l IH]; intros H; [reflexivity|].
  cbn [filter]. rewrite (H a (or_introl eq_refl)). apply IH.
  intros b Hb. apply H. now right.
Qed.

Lemma filter_comm {A} (f g : A -> bool) (l : list A) :
  filter f (filter g l) = filter g (filter f l).
Proof.
  induction l as [|a l IH]; [reflexivity|].
  cbn [filter]. destruct (f a) eqn:Ef, (g a) eqn:Eg; cbn [filter]; rewrite ?Ef, ?Eg, IH; reflexivity.
Qed.

Lemma filter_map_comm {A B} (g : A -> B) (f : B -> bool) (l : list A) :
  filter f (map g l) = map g (filter (fun a => f (g a)) l).
Proof.
  induction l as [|a l IH]; [reflexivity|].
  cbn [map filter]. destruct (f (g a)); cbn [map]; now rewrite IH.
Qed.

Lemma filter_length_le {A} (f : A -> bool) (l : list A) : List.length (filter f l) <= List.length l.
Proof.
  induction l as [|a l IH]; [apply le_n|]. cbn [filter]. destruct (f a); cbn [List.length]; lia.
Qed.

Lemma filter_partition_length {A} (f : A -> bool) (l : list A) :
  List.length l = List.length (filter f l) + List.length (filter (fun a => negb (f a)) l).
Proof.
  induction l as [|a l IH]; [reflexivity|].
  cbn [filter]. destruct (f a); cbn [negb List.length]; lia.
Qed.

(** * Exemption tests: model = specification *)

Lemma exempt_in_spec x l : exempt_in x l = s_exempt x l.
Proof. reflexivity. Qed.

Lemma exempt_namespace_spec c ns : exempt_namespace c ns = s_exempt ns (cf_ex_namespaces c).
Proof. reflexivity. Qed.

Lemma exempt_runtimeclass_spec c p : exempt_runtimeclass c (pd_runtimeClass p) = s_exempt_rc c p.
Proof. reflexivity. Qed.

Lemma ferrs_eqb_spec a b : ferrs_eqb a b = s_ferrs_eqb a b.
Proof. reflexivity. Qed.

Lemma compare_levels_le a b :
  match compare_levels a b with Gt => false | _ => true end = N.leb (strictness a) (strictness b).
Proof. destruct a, b; reflexivity. Qed.

(** * prioritizePods *)

Definition s_keep (c : config) (pods : list pod) : list pod := filter (fun p => negb (s_exempt_rc c p)) pods.

Lemma prioritize_aux_spec c pods : forall seen,
  prioritize_aux c seen pods = (s_first_of_each seen (s_keep c pods), s_siblings seen (s_keep c pods)).
Proof.
  unfold s_keep.
  induction pods as [|p pods IH]; intros seen; [reflexivity|].
  cbn [prioritize_aux filter]. rewrite exempt_runtimeclass_spec.
  destruct (s_exempt_rc c p); cbn [negb]; [apply IH|].
  cbn [s_first_of_each s_siblings].
  destruct (pd_ownerUID p) as [u|].
  - unfold mem. destruct (existsb (String.eqb u) seen); rewrite IH; reflexivity.
  - rewrite IH. reflexivity.
Qed.

Lemma prioritize_pods_spec c pods : prioritize_pods c pods = s_prioritized c pods.
Proof. unfold prioritize_pods. rewrite prioritize_aux_spec. reflexivity. Qed.

Lemma first_siblings_perm l : forall seen,
  Permutation (s_first_of_each seen l +:+ s_siblings seen l) l.
Proof.
  induction l as [|p l IH]; intros seen; [apply perm_nil|].
  cbn [s_first_of_each s_siblings].
  destruct (pd_ownerUID p) as [u|].
  - destruct (existsb (String.eqb u) seen).
    + apply Permutation_sym. apply Permutation_cons_app. apply Permutation_sym, IH.
    + cbn [app]. apply perm_skip, IH.
  - cbn [app]. apply perm_skip, IH.
Qed.

Lemma s_prioritized_perm c pods : Permutation (s_prioritized c pods) (s_keep c pods).
Proof. apply first_siblings_perm. Qed.

Lemma prioritize_pods_perm c pods :
  Permutation (prioritize_pods c pods) (filter (fun p => negb (s_exempt_rc c p)) pods).
Proof. rewrite prioritize_pods_spec. apply s_prioritized_perm. Qed.

(** * The evaluation loop *)

Lemma ag_allowed_spec rs : ag_allowed (aggregate_results rs) = forallb cr_allowed rs.
Proof.
  unfold aggregate_results. cbn [ag_allowed].
  induction rs as [|r rs IH]; [reflexivity|].
  cbn [filter forallb]. destruct (cr_allowed r); cbn [negb map is_nil andb]; [exact IH|reflexivity].
Qed.

Definition step (ev : evaluator) (x : lv) (m : list (string * pod_count)) (p : pod) : list (string * pod_count) :=
  if violates ev x p then count_update (s_reason ev x p) (pd_name p) m else m.

Definition checked_from (expire : option nat) (i : nat) (pods : list pod) : list pod :=
  match expire with Some k => firstn (S (k - i)) pods | None => pods end.

Lemma eval_loop_spec ev x expire : forall pods i m,
  (forall k, expire = Some k -> i <= k) ->
  eval_loop ev x expire i pods m =
  (fold_left (step ev x) (checked_from expire i pods) m,
   i + List.length (checked_from expire i pods),
   map pd_name (checked_from expire i pods)).
Proof.
  induction pods as [|p rest IH]; intros i m Hi.
  - unfold checked_from. destruct expire; cbn [eval_loop firstn fold_left List.length map];
      now rewrite Nat.add_0_r.
  - cbn [eval_loop].
    assert (Em : (if ag_allowed (aggregate_results (ev x p)) then m
                  else count_update (forbidden_reason (aggregate_results (ev x p))) (pd_name p) m)
                 = step ev x m p).
    { unfold step, violates, s_reason. rewrite ag_allowed_spec.
      destruct (forallb cr_allowed (ev x p)); reflexivity. }
    rewrite Em. clear Em.
    destruct expire as [k|].
    + specialize (Hi k eq_refl). unfold checked_from.
      destruct (Nat.eqb_spec k i) as [->|Hne].
      * rewrite Nat.sub_diag. cbn [firstn fold_left List.length map]. now rewrite Nat.add_1_r.
      * rewrite IH by (intros k' [= <-]; lia). unfold checked_from.
        replace (k - i) with (S (k - S i)) by lia.
        cbn [firstn fold_left List.length map]. now rewrite Nat.add_succ_r.
    + rewrite IH by discriminate. unfold checked_from.
      cbn [fold_left List.length map]. now rewrite Nat.add_succ_r.
Qed.

(** only violating pods touch the map *)
Lemma fold_step_filter ev x pods : forall m,
  fold_left (step ev x) pods m =
  fold_left (fun m p => count_update (s_reason ev x p) (pd_name p) m) (filter (violates ev x) pods) m.
Proof.
  induction pods as [|p pods IH]; intros m; [reflexivity|].
  cbn [fold_left filter]. unfold step at 2.
  destruct (violates ev x p); cbn [fold_left]; apply IH.
Qed.

(** * The aggregation map is the report, line by line, in first-seen order *)

Section Report.
  Context {A : Type} (key nm : A -> string).

  Definition minf (m y : string) : string := if String.ltb y m then y else m.
  Definition upd (m : list (string * pod_count)) (a : A) := count_update (key a) (nm a) m.
  Definition bump (c : pod_count) (a : A) : pod_count :=
    PodCount (if String.ltb (nm a) (pc_name c) then nm a else pc_name c) (S (pc_count c)).
  Definition grp (t : string) (l : list A) : list A := filter (fun a => String.eqb (key a) t) l.
  Definition others (t : string) (l : list A) : list A := filter (fun a => negb (String.eqb (key a) t)) l.
  Definition entry (l : list A) (t : string) : string * pod_count :=
    (t, PodCount (s_min_name (map nm (grp t l))) (List.length (grp t l))).

  (** an existing head entry absorbs exactly the elements with its key; the rest of the map sees the others *)
  Lemma build_cons l : forall k c m,
    fold_left upd l ((k, c) :: m) =
    (k, fold_left bump (grp k l) c) :: fold_left upd (others k l) m.
  Proof.
    unfold grp, others.
    induction l as [|a l IH]; intros k c m; [reflexivity|].
    cbn [fold_left filter]. unfold upd at 2. cbn [count_update].
    destruct (String.eqb (key a) k); cbn [negb fold_left]; rewrite IH; reflexivity.
  Qed.

  Lemma fold_bump g : forall n k,
    fold_left bump g (PodCount n k) = PodCount (fold_left minf (map nm g) n) (k + List.length g).
  Proof.
    induction g as [|a g IH]; intros n k; cbn [fold_left map List.length].
    - now rewrite Nat.add_0_r.
    - unfold bump at 2. cbn [pc_name pc_count]. rewrite IH. unfold minf at 2.
      now rewrite Nat.add_succ_r.
  Qed.

  Lemma In_s_distinct x l : In x (s_distinct l) <-> In x l.
  Proof.
    induction l as [|y l IH]; [reflexivity|].
    cbn [s_distinct In]. rewrite filter_In, IH.
    destruct (String.eqb_spec y x) as [->|N]; cbn [negb]; [intuition|].
    intuition congruence.
  Qed.

  Lemma s_distinct_NoDup l : NoDup (s_distinct l).
  Proof.
    induction l as [|y l IH]; cbn [s_distinct]; constructor.
    - rewrite filter_In. rewrite String.eqb_refl. cbn [negb]. intros [_ H]. discriminate.
    - now apply NoDup_filter.
  Qed.

  Lemma s_distinct_filter (f : string -> bool) l :
    filter f (s_distinct l) = s_distinct (filter f l).
  Proof.
    induction l as [|y l IH]; [reflexivity|].
    cbn [s_distinct filter]. destruct (f y) eqn:Ef; cbn [s_distinct].
    - f_equal. rewrite filter_comm, IH. reflexivity.
    - rewrite filter_comm, IH. apply filter_all.
      intros z Hz. apply In_s_distinct, filter_In in Hz. destruct Hz as [_ Hz].
      destruct (String.eqb_spec y z) as [->|N]; [congruence|reflexivity].
  Qed.

  Lemma is_nil_s_distinct l : is_nil (s_distinct l) = is_nil l.
  Proof. destruct l; reflexivity. Qed.

  Lemma distinct_keys_cons a l :
    s_distinct (map key (a :: l)) = key a :: s_distinct (map key (others (key a) l)).
  Proof.
    cbn [map s_distinct]. f_equal. rewrite s_distinct_filter. f_equal.
    unfold others. rewrite filter_map_comm. f_equal.
    apply filter_ext. intros b. now rewrite String.eqb_sym.
  Qed.

  Lemma grp_others t k l : t <> k -> grp t (others k l) = grp t l.
  Proof.
    intros N. unfold grp, others. induction l as [|a l IH]; [reflexivity|].
    cbn [filter]. destruct (String.eqb_spec (key a) k) as [E|E]; cbn [negb filter].
    - destruct (String.eqb_spec (key a) t) as [E'|E']; [congruence|exact IH].
    - destruct (String.eqb (key a) t); now rewrite IH.
  Qed.

  Lemma grp_cons_other t a l : t <> key a -> grp t (a :: l) = grp t l.
  Proof.
    intros N. unfold grp. cbn [filter].
    destruct (String.eqb_spec (key a) t) as [E|E]; [congruence|reflexivity].
  Qed.

  Lemma grp_cons_same a l : grp (key a) (a :: l) = a :: grp (key a) l.
  Proof. unfold grp. cbn [filter]. now rewrite String.eqb_refl. Qed.

  Lemma In_distinct_others t k l : In t (s_distinct (map key (others k l))) -> t <> k.
  Proof.
    intros H. apply In_s_distinct, in_map_iff in H. destruct H as [a [<- Ha]].
    unfold others in Ha. apply filter_In in Ha. destruct Ha as [_ Ha].
    destruct (String.eqb_spec (key a) k); [discriminate|assumption].
  Qed.

  Lemma others_length k l : List.length (others k l) <= List.length l.
  Proof. apply filter_length_le. Qed.

  Lemma build_spec_n n : forall l, List.length l <= n ->
    fold_left upd l [] = map (entry l) (s_distinct (map key l)).
  Proof.
    induction n as [|n IH]; intros [|a l] Hl; try reflexivity; [cbn in Hl; lia|].
    cbn [fold_left]. unfold upd at 2. cbn [count_update].
    rewrite build_cons, distinct_keys_cons. cbn [map]. f_equal.
    - unfold entry. rewrite grp_cons_same. cbn [map s_min_name List.length].
      rewrite fold_bump. reflexivity.
    - rewrite IH by (pose proof (others_length (key a) l); cbn in Hl; lia).
      apply map_ext_in. intros t Ht. apply In_distinct_others in Ht.
      unfold entry. rewrite grp_others, grp_cons_other by assumption. reflexivity.
  Qed.

  Lemma build_spec l : fold_left upd l [] = map (entry l) (s_distinct (map key l)).
  Proof. apply (build_spec_n (List.length l)). apply le_n. Qed.

  (** the group sizes add up to the number of elements *)
  Lemma counts_add_up_n n : forall l, List.length l <= n ->
    List.length l = fold_right plus 0 (map (fun t => List.length (grp t l)) (s_distinct (map key l))).
  Proof.
    induction n as [|n IH]; intros [|a l] Hl; try reflexivity; [cbn in Hl; lia|].
    rewrite distinct_keys_cons. cbn [map fold_right].
    rewrite (map_ext_in _ (fun t => List.length (grp t (others (key a) l)))).
    - rewrite <- IH by (pose proof (others_length (key a) l); cbn in Hl; lia).
      rewrite grp_cons_same. cbn [List.length plus]. f_equal.
      unfold grp, others. apply filter_partition_length.
    - intros t Ht. apply In_distinct_others in Ht.
      rewrite grp_others, grp_cons_other by assumption. reflexivity.
  Qed.

  Lemma counts_add_up l :
    List.length l = fold_right plus 0 (map (fun t => List.length (grp t l)) (s_distinct (map key l))).
  Proof. apply (counts_add_up_n (List.length l)). apply le_n. Qed.
End Report.

Lemma decorate_spec t n k : decorate (t, PodCount n k) = s_line n k t.
Proof. reflexivity. Qed.

Definition s_line_of (ev : evaluator) (x : lv) (bad : list pod) (t : string) : string :=
  let group := filter (fun p => String.eqb (s_reason ev x p) t) bad in
  s_line (s_min_name (map pd_name group)) (List.length group) t.

(** the decorated map is, line by line, the specification's report before sorting *)
Lemma decorated_map_spec ev x checked :
  map decorate (fold_left (step ev x) checked []) =
  map (s_line_of ev x (filter (violates ev x) checked))
      (s_distinct (map (s_reason ev x) (filter (violates ev x) checked))).
Proof.
  rewrite fold_step_filter.
  change (fold_left (fun m p => count_update (s_reason ev x p) (pd_name p) m))
    with (fold_left (upd (s_reason ev x) pd_name)).
  rewrite build_spec, map_map. apply map_ext. intros t. reflexivity.
Qed.

Lemma is_nil_map_spec ev x checked :
  is_nil (fold_left (step ev x) checked []) = negb (existsb (violates ev x) checked).
Proof.
  rewrite fold_step_filter.
  change (fold_left (fun m p => count_update (s_reason ev x p) (pd_name p) m))
    with (fold_left (upd (s_reason ev x) pd_name)).
  rewrite build_spec.
  destruct (filter (violates ev x) checked) eqn:E.
  - rewrite <- (is_nil_filter_existsb (violates ev x)), E. reflexivity.
  - rewrite <- (is_nil_filter_existsb (violates ev x)), E. reflexivity.
Qed.

Lemma report_spec ev x checked :
  ssort (map decorate (fold_left (step ev x) checked [])) = s_report ev x checked.
Proof. rewrite decorated_map_spec. reflexivity. Qed.

(** * The dry-run deadline *)

Lemma dry_run_deadline_spec c d now : dry_run_deadline c d now = s_deadline c d now.
Proof.
  unfold dry_run_deadline, s_deadline. destruct d as [d|]; [|reflexivity].
  remember (Z.quot (d - now) 2) as q eqn:Eq. clear Eq.
  destruct (Z.ltb_spec q (cf_timeout c)); lia.
Qed.

(** * EvaluatePodsInNamespace = the specification's report, plus its effects *)

Definition s_checked (c : config) (w : world) (pods : list pod) : list pod :=
  let capped := firstn (cf_max_pods c) (s_prioritized c pods) in
  match w_expire_after w with Some k => firstn (S k) capped | None => capped end.

Lemma s_checked_length c w pods : List.length (s_checked c w pods) <= cf_max_pods c.
Proof.
  unfold s_checked. destruct (w_expire_after w); rewrite ?firstn_length; lia.
Qed.

Lemma epin_spec c ev r w name x :
  evaluate_pods_in_namespace c ev r w name x =
  (s_dry_run_warnings c ev name x w,
   EvList (s_deadline c (r_deadline r) (w_now w)) ::
   match w_pods w with
   | None => []
   | Some pods => map (fun p => EvEval x (pd_name p)) (s_checked c w pods)
   end).
Proof.
  unfold evaluate_pods_in_namespace, s_dry_run_warnings, s_checked.
  rewrite dry_run_deadline_spec.
  destruct (w_pods w) as [pods|]; [|reflexivity].
  rewrite prioritize_pods_spec, eval_loop_spec by (intros; apply Nat.le_0_l).
  cbv iota beta.
  assert (Ec : checked_from (w_expire_after w) 0 (firstn (cf_max_pods c) (s_prioritized c pods)) =
               match w_expire_after w with
               | Some k => firstn (S k) (firstn (cf_max_pods c) (s_prioritized c pods))
               | None => firstn (cf_max_pods c) (s_prioritized c pods) end).
  { unfold checked_from. destruct (w_expire_after w); [now rewrite Nat.sub_0_r|reflexivity]. }
  rewrite Ec. clear Ec.
  rewrite is_nil_map_spec, report_spec, map_map. cbn [plus].
  destruct (existsb (violates ev x) _); reflexivity.
Qed.

(** * Case analysis of ValidateNamespace *)

Lemma validate_ns c ev r w : is_namespaces r = true -> validate c ev r w = validate_namespace c ev r w.
Proof. unfold validate, is_namespaces. intros ->. reflexivity. Qed.

Definition must_reject (ls old_ls : labels) : bool :=
  negb (is_nil (spec_errs ls)) && (is_nil (spec_errs old_ls) || negb (s_ferrs_eqb (spec_errs ls) (spec_errs old_ls))).

Lemma vn_subresource c ev r w : r_subresource r <> "" -> validate_namespace c ev r w = (shared_allowed, []).
Proof.
  intros H. unfold validate_namespace.
  destruct (String.eqb_spec (r_subresource r) ""); [contradiction|reflexivity].
Qed.

Lemma vn_create c ev r w name ls :
  r_subresource r = "" -> r_object r = ONamespace name ls -> r_op r = OpCreate ->
  exists resp, validate_namespace c ev r w = (resp, [EvDecode]) /\
    if is_nil (spec_errs ls) then rs_allowed resp = true else resp = invalid (spec_errs ls).
Proof.
  intros Hsub Hobj Hop. unfold validate_namespace.
  rewrite Hsub, String.eqb_refl, Hobj, policy_to_evaluate_spec, Hop. cbv iota beta. cbn [negb].
  destruct (is_nil (spec_errs ls)); cbn [negb].
  - destruct (exempt_namespace c (r_namespace r)); [|eexists; split; reflexivity].
    destruct (String.eqb _ ""); eexists; split; reflexivity.
  - eexists; split; reflexivity.
Qed.

Lemma vn_other c ev r w name ls raw :
  r_subresource r = "" -> r_object r = ONamespace name ls -> r_op r = OpOther raw ->
  validate_namespace c ev r w = (shared_allowed, [EvDecode]).
Proof.
  intros Hsub Hobj Hop. unfold validate_namespace.
  rewrite Hsub, String.eqb_refl, Hobj, policy_to_evaluate_spec, Hop. reflexivity.
Qed.

Lemma vn_update c ev r w name ls oname old_ls :
  r_subresource r = "" -> r_object r = ONamespace name ls -> r_op r = OpUpdate ->
  r_old r = ONamespace oname old_ls ->
  let tr := [EvDecode; EvDecodeOld] in
  let E := evaluate_pods_in_namespace c ev r w name (enforce (spec_policy ls (cf_defaults c))) in
  (must_reject ls old_ls = true -> validate_namespace c ev r w = (invalid (spec_errs ls), tr)) /\
  (must_reject ls old_ls = false -> dry_run_required c r ls old_ls = true ->
   validate_namespace c ev r w = (with_warnings allowed_fresh (fst E), tr +:+ snd E)) /\
  (must_reject ls old_ls = false -> dry_run_required c r ls old_ls = false ->
   exists resp, validate_namespace c ev r w = (resp, tr) /\ rs_allowed resp = true).
Proof.
  intros Hsub Hobj Hop Hold tr E. subst tr E.
  unfold validate_namespace.
  rewrite Hsub, String.eqb_refl, Hobj, policy_to_evaluate_spec, Hop, Hold, policy_to_evaluate_spec.
  cbv iota beta. cbn [negb].
  rewrite ferrs_eqb_spec, compare_levels_le, exempt_namespace_spec.
  fold (must_reject ls old_ls). unfold dry_run_required.
  destruct (must_reject ls old_ls).
  { split; [reflexivity|]. split; discriminate. }
  split; [discriminate|].
  destruct (lv_eqb _ _); cbn [negb andb].
  { split; [discriminate|]. intros _ _. eexists; split; reflexivity. }
  destruct (level_eqb _ Privileged); cbn [negb andb].
  { split; [discriminate|]. intros _ _. eexists; split; reflexivity. }
  destruct (version_eqb _ _ && N.leb _ _); cbn [negb andb].
  { split; [discriminate|]. intros _ _. eexists; split; reflexivity. }
  destruct (s_exempt (r_namespace r) (cf_ex_namespaces c)); cbn [negb].
  { split; [discriminate|]. intros _ _.
    destruct (String.eqb _ ""); eexists; split; reflexivity. }
  split; [|discriminate]. intros _ _.
  destruct (evaluate_pods_in_namespace _ _ _ _ _ _). reflexivity.
Qed.

(** a trace without lister call or evaluation *)
Definition quiet (tr : list event) : bool := forallb (fun e => negb (is_list e) && negb (is_eval e)) tr.

Lemma quiet_no_list tr : quiet tr = true -> existsb is_list tr = false.
Proof.
  induction tr as [|e tr IH]; [reflexivity|]. cbn [quiet forallb existsb].
  intros H. apply andb_true_iff in H. destruct H as [H1 H2].
  apply andb_true_iff in H1. destruct H1 as [H1 _]. apply negb_true_iff in H1.
  rewrite H1. now apply IH.
Qed.

Lemma quiet_no_eval tr : quiet tr = true -> eval_events tr = [].
Proof.
  induction tr as [|e tr IH]; [reflexivity|]. cbn [quiet forallb].
  intros H. apply andb_true_iff in H. destruct H as [H1 H2].
  apply andb_true_iff in H1. destruct H1 as [_ H1].
  unfold eval_events. cbn [flat_map]. fold (eval_events tr). rewrite (IH H2).
  destruct e; try reflexivity. discriminate.
Qed.

Lemma quiet_not_In tr dl : quiet tr = true -> ~ In (EvList dl) tr.
Proof.
  intros H Hin. unfold quiet in H. rewrite forallb_forall in H. specialize (H _ Hin). discriminate.
Qed.

Lemma vn_cases c ev r w :
  quiet (snd (validate_namespace c ev r w)) = true \/
  exists name ls oname old_ls,
    r_subresource r = "" /\ r_object r = ONamespace name ls /\ r_op r = OpUpdate /\
    r_old r = ONamespace oname old_ls /\ must_reject ls old_ls = false /\ dry_run_required c r ls old_ls = true /\
    validate_namespace c ev r w =
    (with_warnings allowed_fresh
       (fst (evaluate_pods_in_namespace c ev r w name (enforce (spec_policy ls (cf_defaults c))))),
     [EvDecode; EvDecodeOld] +:+
       snd (evaluate_pods_in_namespace c ev r w name (enforce (spec_policy ls (cf_defaults c))))).
Proof.
  destruct (String.eqb_spec (r_subresource r) "") as [Hsub|Hsub];
    [|left; now rewrite vn_subresource].
  destruct (r_object r) as [msg| |p|name ls|k t|what] eqn:Hobj;
    try (left; unfold validate_namespace; rewrite Hsub, String.eqb_refl, Hobj; reflexivity).
  destruct (r_op r) as [| |raw] eqn:Hop.
  - left. destruct (vn_create c ev r w name ls Hsub Hobj Hop) as [resp [-> _]]. reflexivity.
  - destruct (r_old r) as [msg| |p|oname old_ls|k t|what] eqn:Hold;
      try (left; unfold validate_namespace;
           rewrite Hsub, String.eqb_refl, Hobj, policy_to_evaluate_spec, Hop, Hold; reflexivity).
    destruct (vn_update c ev r w name ls oname old_ls Hsub Hobj Hop Hold) as [H1 [H2 H3]].
    destruct (must_reject ls old_ls) eqn:Em; [left; now rewrite H1|].
    destruct (dry_run_required c r ls old_ls) eqn:Ed.
    + right. exists name, ls, oname, old_ls. repeat (split; [assumption||reflexivity|]).
      now apply H2.
    + left. destruct (H3 eq_refl eq_refl) as [resp [-> _]]. reflexivity.
  - left. now rewrite (vn_other c ev r w name ls raw).
Qed.

(** * The relations P_11 and P_12 *)

Lemma eval_events_map x l :
  eval_events (map (fun p => EvEval x (pd_name p)) l) = map (fun p => (x, pd_name p)) l.
Proof.
  unfold eval_events. induction l as [|p l IH]; [reflexivity|].
  cbn [map flat_map app]. now rewrite IH.
Qed.

Lemma existsb_is_list_map x l : existsb is_list (map (fun p => EvEval x (pd_name p)) l) = false.
Proof. induction l as [|p l IH]; [reflexivity|]. exact IH. Qed.

Lemma string_list_eqb_refl l : list_eqb String.eqb l l = true.
Proof. now apply list_eqb_string_eq. Qed.

Lemma P12_proof c ev r w : P12 c ev r w (validate c ev r w) = true.
Proof.
  unfold P12. destruct (is_namespaces r) eqn:Hns; cbn [negb]; [|reflexivity].
  rewrite validate_ns by assumption.
  destruct (r_object r) as [msg| |p|name ls|k t|what] eqn:Hobj; try reflexivity.
  destruct (w_pods w) as [pods|] eqn:Hpods; [|reflexivity].
  destruct (vn_cases c ev r w) as [Hq|(name' & ls' & oname & old_ls & Hsub & Hobj' & Hop & Hold & Hm & Hd & Hvn)].
  - rewrite (quiet_no_list _ Hq). reflexivity.
  - rewrite Hobj in Hobj'. injection Hobj' as <- <-.
    rewrite Hvn, epin_spec, Hpods. cbn [fst snd app rs_warnings with_warnings existsb is_list orb].
    unfold imp. cbn [negb orb].
    unfold eval_events. cbn [flat_map app]. fold (eval_events (map (fun p => EvEval (enforce (spec_policy ls (cf_defaults c))) (pd_name p)) (s_checked c w pods))).
    rewrite eval_events_map, map_map. cbn [snd].
    rewrite map_length, !string_list_eqb_refl.
    pose proof (s_checked_length c w pods) as Hl. apply Nat.leb_le in Hl. rewrite Hl. reflexivity.
Qed.

Lemma P11_proof c ev r w : P11 c ev r w (validate c ev r w) = true.
Proof.
  unfold P11. destruct (is_namespaces r) eqn:Hns; cbn [negb orb]; [|reflexivity].
  rewrite validate_ns by assumption.
  destruct (String.eqb_spec (r_subresource r) "") as [Hsub|Hsub]; cbn [negb]; [|reflexivity].
  destruct (r_object r) as [msg| |p|name ls|k t|what] eqn:Hobj; try reflexivity.
  destruct (r_op r) as [| |raw] eqn:Hop.
  - destruct (vn_create c ev r w name ls Hsub Hobj Hop) as [resp [-> Hr]]. cbn [fst snd existsb is_list orb negb].
    destruct (is_nil (spec_errs ls)).
    + rewrite Hr. reflexivity.
    + subst resp. cbn [invalid rs_allowed rs_code rs_reason rs_causes negb Bool.eqb imp orb opt_eqb].
      rewrite string_list_eqb_refl. reflexivity.
  - destruct (r_old r) as [msg| |p|oname old_ls|k t|what] eqn:Hold; try reflexivity.
    destruct (vn_update c ev r w name ls oname old_ls Hsub Hobj Hop Hold) as [H1 [H2 H3]].
    fold (must_reject ls old_ls).
    destruct (must_reject ls old_ls) eqn:Em.
    + rewrite H1 by reflexivity.
      cbn [fst snd invalid rs_allowed rs_code rs_reason rs_causes negb Bool.eqb imp orb opt_eqb existsb is_list andb].
      rewrite string_list_eqb_refl. reflexivity.
    + destruct (dry_run_required c r ls old_ls) eqn:Ed.
      * rewrite H2 by reflexivity. rewrite epin_spec.
        cbn [fst snd app rs_warnings rs_allowed with_warnings allowed_fresh existsb is_list orb negb Bool.eqb imp andb].
        apply string_list_eqb_refl.
      * destruct (H3 eq_refl eq_refl) as [resp [-> Hr]].
        cbn [fst snd existsb is_list orb negb andb imp Bool.eqb]. rewrite Hr. reflexivity.
  - rewrite (vn_other c ev r w name ls raw) by assumption. reflexivity.
Qed.

(** * Direct statements *)

Lemma cap_proof c ev r w : is_namespaces r = true ->
  List.length (eval_events (snd (validate c ev r w))) <= cf_max_pods c.
Proof.
  intros Hns. rewrite validate_ns by assumption.
  destruct (vn_cases c ev r w) as [Hq|(name & ls & oname & old_ls & Hsub & Hobj & Hop & Hold & Hm & Hd & Hvn)].
  - rewrite (quiet_no_eval _ Hq). apply Nat.le_0_l.
  - rewrite Hvn, epin_spec. cbn [fst snd app]. unfold eval_events. cbn [flat_map app].
    destruct (w_pods w) as [pods|]; [|apply Nat.le_0_l].
    fold (eval_events (map (fun p => EvEval (enforce (spec_policy ls (cf_defaults c))) (pd_name p)) (s_checked c w pods))).
    rewrite eval_events_map, map_length. apply s_checked_length.
Qed.

Lemma deadline_ns_proof c ev r w dl : 
  In (EvList dl) (snd (validate_namespace c ev r w)) -> dl = s_deadline c (r_deadline r) (w_now w).
Proof.
  destruct (vn_cases c ev r w) as [Hq|(name & ls & oname & old_ls & Hsub & Hobj & Hop & Hold & Hm & Hd & Hvn)].
  - intros H. exfalso. exact (quiet_not_In _ dl Hq H).
  - rewrite Hvn, epin_spec. cbn [fst snd app In].
    intros [H|[H|[H|H]]]; try discriminate.
    + now injection H.
    + exfalso. destruct (w_pods w) as [pods|]; [|exact H].
      apply in_map_iff in H. destruct H as [p [H _]]. discriminate.
Qed.

Lemma never_rejected_for_pods_ns c ev ev' r w w' :
  rs_allowed (fst (validate_namespace c ev r w)) = rs_allowed (fst (validate_namespace c ev' r w')).
Proof.
  destruct (String.eqb_spec (r_subresource r) "") as [Hsub|Hsub];
    [|now rewrite !vn_subresource].
  destruct (r_object r) as [msg| |p|name ls|k t|what] eqn:Hobj;
    try (unfold validate_namespace; rewrite Hsub, String.eqb_refl, Hobj; reflexivity).
  destruct (r_op r) as [| |raw] eqn:Hop.
  - destruct (vn_create c ev r w name ls Hsub Hobj Hop) as [resp [-> Hr]].
    destruct (vn_create c ev' r w' name ls Hsub Hobj Hop) as [resp' [-> Hr']]. cbn [fst].
    destruct (is_nil (spec_errs ls)); congruence.
  - destruct (r_old r) as [msg| |p|oname old_ls|k t|what] eqn:Hold;
      try (unfold validate_namespace;
           rewrite Hsub, String.eqb_refl, Hobj, policy_to_evaluate_spec, Hop, Hold; reflexivity).
    destruct (vn_update c ev r w name ls oname old_ls Hsub Hobj Hop Hold) as [H1 [H2 H3]].
    destruct (vn_update c ev' r w' name ls oname old_ls Hsub Hobj Hop Hold) as [H1' [H2' H3']].
    destruct (must_reject ls old_ls) eqn:Em; [now rewrite H1, H1'|].
    destruct (dry_run_required c r ls old_ls) eqn:Ed.
    + now rewrite H2, H2'.
    + destruct (H3 eq_refl eq_refl) as [resp [-> Hr]].
      destruct (H3' eq_refl eq_refl) as [resp' [-> Hr']]. cbn [fst]. congruence.
  - now rewrite !(vn_other _ _ r _ name ls raw).
Qed.

Lemma never_rejected_for_pods_proof c ev ev' r w w' : is_namespaces r = true ->
  rs_allowed (fst (validate c ev r w)) = rs_allowed (fst (validate c ev' r w')).
Proof. intros Hns. rewrite !validate_ns by assumption. apply never_rejected_for_pods_ns. Qed.

Lemma warnings_exact_proof c ev r w name x :
  fst (evaluate_pods_in_namespace c ev r w name x) = s_dry_run_warnings c ev name x w.
Proof. now rewrite epin_spec. Qed.

Lemma counts_add_up_proof ev x checked :
  List.length (filter (violates ev x) checked) =
  fold_right plus 0
    (map (fun t => List.length (filter (fun p => String.eqb (s_reason ev x p) t) (filter (violates ev x) checked)))
         (s_distinct (map (s_reason ev x) (filter (violates ev x) checked)))).
Proof. apply (counts_add_up (s_reason ev x)). Qed.

(** * Only namespace requests call the lister *)

Ltac step_if :=
  match goal with
  | |- context [if ?b then _ else _] =>
      lazymatch b with
      | context [if _ then _ else _] => fail
      | context [match _ with _ => _ end] => fail
      | _ => destruct b eqn:?
      end
  end; cbv beta iota zeta; cbn [cache_get app rs_allowed allowed_fresh forbidden].

Lemma epr_no_list c ev pol errs p b :
  existsb is_list (snd (evaluate_pod_request c ev pol errs p b)) = false.
Proof.
  unfold evaluate_pod_request.
  destruct (exempt_runtimeclass c (pd_runtimeClass p)); [reflexivity|].
  destruct b; cbv beta iota zeta; cbn [cache_get]; repeat step_if; reflexivity.
Qed.

Lemma vp_no_list c ev r w : existsb is_list (snd (validate_pod c ev r w)) = false.
Proof.
  unfold validate_pod.
  destruct (mem _ _); [reflexivity|].
  destruct (exempt_namespace _ _); [reflexivity|].
  destruct (exempt_user _ _); [reflexivity|].
  destruct (w_ns w) as [ls|]; [|reflexivity].
  destruct (policy_to_evaluate ls (cf_defaults c)) as [pol errs].
  destruct (is_nil errs && fully_privileged pol); [reflexivity|].
  destruct (r_object r) as [msg| |p|name ls'|k t|what]; try reflexivity.
  destruct (is_update (r_op r)).
  - destruct (r_old r) as [msg| |old|name ls'|k t|what]; try reflexivity.
    destruct (significant_update p old); [|reflexivity].
    pose proof (epr_no_list c ev pol errs p true) as H.
    destruct (evaluate_pod_request c ev pol errs p true) as [resp tr]. exact H.
  - pose proof (epr_no_list c ev pol errs p true) as H.
    destruct (evaluate_pod_request c ev pol errs p true) as [resp tr]. exact H.
Qed.

Lemma vc_no_list c ev r w : existsb is_list (snd (validate_controller c ev r w)) = false.
Proof.
  unfold validate_controller.
  destruct (negb _); [reflexivity|].
  destruct (exempt_namespace _ _); [reflexivity|].
  destruct (exempt_user _ _); [reflexivity|].
  destruct (w_ns w) as [ls|]; [|reflexivity].
  destruct (policy_to_evaluate ls (cf_defaults c)) as [pol errs].
  destruct (is_nil errs && _ && _); [reflexivity|].
  destruct (r_object r) as [msg| |p|name ls'|k [t|]|what]; try reflexivity.
  - pose proof (epr_no_list c ev pol errs p false) as H. cbn [extract_pod_spec].
    destruct (evaluate_pod_request c ev pol errs p false) as [resp tr]. exact H.
  - pose proof (epr_no_list c ev pol errs t false) as H. cbn [extract_pod_spec].
    destruct (evaluate_pod_request c ev pol errs t false) as [resp tr]. exact H.
Qed.

Lemma existsb_is_list_In dl tr : In (EvList dl) tr -> existsb is_list tr = true.
Proof. intros H. apply existsb_exists. exists (EvList dl). split; [assumption|reflexivity]. Qed.

Lemma deadline_proof c ev r w dl :
  In (EvList dl) (snd (validate c ev r w)) -> dl = s_deadline c (r_deadline r) (w_now w).
Proof.
  unfold validate.
  destruct (String.eqb (r_group r) "" && String.eqb (r_resource r) "namespaces"); [apply deadline_ns_proof|].
  destruct (String.eqb (r_group r) "" && String.eqb (r_resource r) "pods"); intros H;
    apply existsb_is_list_In in H; [rewrite vp_no_list in H|rewrite vc_no_list in H]; discriminate.
Qed.

(** * Listing order does not matter when nothing is truncated *)

Lemma sorted_perm_eq l1 : forall l2,
  StronglySorted sle l1 -> StronglySorted sle l2 -> Permutation l1 l2 -> l1 = l2.
Proof.
  induction l1 as [|a l1 IH]; intros l2 S1 S2 P.
  - now apply Permutation_nil in P.
  - destruct l2 as [|b l2]; [apply Permutation_sym, Permutation_nil in P; discriminate|].
    inversion S1 as [|? ? S1' F1]; inversion S2 as [|? ? S2' F2]; subst.
    rewrite Forall_forall in F1, F2.
    assert (E : a = b).
    { assert (Ha : In a (b :: l2)) by (eapply Permutation_in; [exact P|now left]).
      assert (Hb : In b (a :: l1)) by (eapply Permutation_in; [apply Permutation_sym; exact P|now left]).
      destruct Ha as [Ha|Ha]; [now symmetry|]. destruct Hb as [Hb|Hb]; [assumption|].
      apply String.leb_antisym; [now apply F1|now apply F2]. }
    subst b. f_equal. apply IH; try assumption. eapply Permutation_cons_inv. exact P.
Qed.

Lemma ssort_perm_eq l l' : Permutation l l' -> ssort l = ssort l'.
Proof.
  intros P. apply sorted_perm_eq; try apply ssort_sorted.
  eapply Permutation_trans; [apply ssort_perm|].
  eapply Permutation_trans; [exact P|apply Permutation_sym, ssort_perm].
Qed.

Lemma filter_perm {A} (f : A -> bool) l l' : Permutation l l' -> Permutation (filter f l) (filter f l').
Proof.
  induction 1 as [|a l l' P IH|a b l|l l' l'' P1 IH1 P2 IH2]; cbn [filter].
  - apply perm_nil.
  - destruct (f a); [now apply perm_skip|assumption].
  - destruct (f a), (f b); try apply Permutation_refl. apply perm_swap.
  - eapply Permutation_trans; eassumption.
Qed.

Lemma existsb_perm {A} (f : A -> bool) l l' : Permutation l l' -> existsb f l = existsb f l'.
Proof.
  intros P. apply eq_iff_eq_true. rewrite !existsb_exists.
  split; intros [a [Ha Hf]]; exists a; (split; [|assumption]);
    (eapply Permutation_in; [|exact Ha]); [assumption|now apply Permutation_sym].
Qed.

Lemma string_ltb_false_leb a b : String.ltb a b = false -> String.leb b a = true.
Proof.
  unfold String.ltb, String.leb. rewrite (String.compare_antisym b a).
  destruct (String.compare a b); cbn [CompOpp]; congruence.
Qed.

Lemma minf_spec m y : (minf m y = m \/ minf m y = y) /\ String.leb (minf m y) m = true /\ String.leb (minf m y) y = true.
Proof.
  unfold minf. destruct (String.ltb y m) eqn:E.
  - split; [now right|]. split; [now apply string_ltb_leb|apply string_leb_refl].
  - split; [now left|]. split; [apply string_leb_refl|now apply string_ltb_false_leb].
Qed.

Lemma fold_minf_spec r : forall x,
  In (fold_left minf r x) (x :: r) /\ forall y, In y (x :: r) -> String.leb (fold_left minf r x) y = true.
Proof.
  induction r as [|z r IH]; intros x; cbn [fold_left].
  - split; [now left|]. intros y [<-|[]]. apply string_leb_refl.
  - destruct (IH (minf x z)) as [Hin Hle]. destruct (minf_spec x z) as [Hc [Hx Hz]].
    split.
    + destruct Hin as [Hin|Hin]; [|now right; right].
      rewrite <- Hin. destruct Hc as [->| ->]; [now left|now right; left].
    + intros y [<-|[<-|Hy]].
      * eapply string_leb_trans; [|exact Hx]. apply Hle. now left.
      * eapply string_leb_trans; [|exact Hz]. apply Hle. now left.
      * apply Hle. now right.
Qed.

Lemma s_min_name_perm l l' : Permutation l l' -> s_min_name l = s_min_name l'.
Proof.
  intros P. destruct l as [|x r].
  - apply Permutation_nil in P. now subst.
  - destruct l' as [|x' r']; [apply Permutation_sym, Permutation_nil in P; discriminate|].
    cbn [s_min_name]. change (fun m y : string => if String.ltb y m then y else m) with minf.
    destruct (fold_minf_spec r x) as [Hin Hle]. destruct (fold_minf_spec r' x') as [Hin' Hle'].
    apply String.leb_antisym.
    + apply Hle. eapply Permutation_in; [apply Permutation_sym; exact P|exact Hin'].
    + apply Hle'. eapply Permutation_in; [exact P|exact Hin].
Qed.

Lemma s_line_of_perm ev x bad bad' t : Permutation bad bad' -> s_line_of ev x bad t = s_line_of ev x bad' t.
Proof.
  intros P. unfold s_line_of.
  pose proof (filter_perm (fun p => String.eqb (s_reason ev x p) t) _ _ P) as Pg.
  rewrite (Permutation_length Pg). f_equal. apply s_min_name_perm. now apply Permutation_map.
Qed.

Lemma s_report_perm ev x l l' : Permutation l l' -> s_report ev x l = s_report ev x l'.
Proof.
  intros P. unfold s_report.
  pose proof (filter_perm (violates ev x) _ _ P) as Pb.
  set (bad := filter (violates ev x) l) in *. set (bad' := filter (violates ev x) l') in *.
  change (ssort (map (s_line_of ev x bad) (s_distinct (map (s_reason ev x) bad))) =
          ssort (map (s_line_of ev x bad') (s_distinct (map (s_reason ev x) bad')))).
  apply ssort_perm_eq.
  rewrite (map_ext _ (s_line_of ev x bad')) by (intros t; now apply s_line_of_perm).
  apply Permutation_map. apply NoDup_Permutation; try apply s_distinct_NoDup.
  intros t. rewrite !In_s_distinct.
  split; apply Permutation_in; [|apply Permutation_sym]; now apply Permutation_map.
Qed.

Lemma order_independent_proof c ev r w w' name x pods pods' :
  w_pods w = Some pods -> w_pods w' = Some pods' -> Permutation pods pods' ->
  w_expire_after w = None -> w_expire_after w' = None ->
  List.length (filter (fun p => negb (s_exempt_rc c p)) pods) <= cf_max_pods c ->
  fst (evaluate_pods_in_namespace c ev r w name x) = fst (evaluate_pods_in_namespace c ev r w' name x).
Proof.
  intros Hp Hp' P He He' Hcap. rewrite !epin_spec. cbn [fst].
  unfold s_dry_run_warnings. rewrite Hp, Hp', He, He'.
  pose proof (filter_perm (fun p => negb (s_exempt_rc c p)) _ _ P) as Pk.
  pose proof (s_prioritized_perm c pods) as P1. pose proof (s_prioritized_perm c pods') as P2.
  unfold s_keep in P1, P2.
  assert (PP : Permutation (s_prioritized c pods) (s_prioritized c pods')).
  { eapply Permutation_trans; [exact P1|]. eapply Permutation_trans; [exact Pk|]. now apply Permutation_sym. }
  assert (L1 : List.length (s_prioritized c pods) <= cf_max_pods c) by (rewrite (Permutation_length P1); exact Hcap).
  assert (L2 : List.length (s_prioritized c pods') <= cf_max_pods c) by (rewrite <- (Permutation_length PP); exact L1).
  rewrite !firstn_all2 by assumption.
  rewrite !Nat.ltb_irrefl, (existsb_perm _ _ _ PP), (s_report_perm ev x _ _ PP). reflexivity.
Qed.

(** * A concrete configuration / request / world for the non-vacuity examples *)

Definition ex_pod (name : string) (owner rc : option string) : pod :=
  Pod name [] owner false false false None None rc [] [] [] [] None.
Definition ex_priv := LV Privileged Latest.
Definition ex_config : config := Config (Policy ex_priv ex_priv ex_priv) [] [] ["exempt-rc"] 2 1000%Z.
Definition ex_pods : list pod :=
  [ex_pod "b2" (Some "u1") None; ex_pod "a1" (Some "u1") None; ex_pod "x" None (Some "exempt-rc"); ex_pod "c3" None None].
Definition ex_request (op : operation) (new_ls old_ls : labels) : request :=
  Request "" "namespaces" "" "ns" "ns" "user" op (ONamespace "ns" new_ls) (ONamespace "ns" old_ls) (Some 10000%Z).
Definition ex_world (pods : list pod) (expire : option nat) : world := World None "" (Some pods) expire 0%Z.
Definition ex_ev : evaluator := fun x p => if String.eqb (pd_name p) "ok" then [cr_ok] else [CR false "r" "d"].
