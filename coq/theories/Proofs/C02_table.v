(** Proofs/C02_table.v - the side conditions of C02 computed on the check table
    and allow-lists regenerated from the source (Gen/), and the shipped
    instances of the table-parametric theorems of Proofs/StandardFacts.v.
    Each obligation is a closed boolean evaluated by [vm_compute]: a change of
    the generated tables that falsifies one of them breaks exactly that lemma. *)
From Coq Require Import List Bool NArith ZArith String.
From PSA Require Import Base.Str Model.Api Model.Pod Model.Checks Model.Registry Model.Shipped
     Spec.PSS Spec.P02 Proofs.StandardFacts.
Import ListNotations.
Local Open Scope string_scope.

(** the allow-lists in the source are, as sets, the ones the standard publishes *)
Lemma shipped_lists_ok : lists_ok shipped_lists = true.
Proof. vm_compute. reflexivity. Qed.

(** the newest registered version is the newest published one, and at every
    published minor the registered table resolves, at both levels, to exactly
    the revisions the standard has in force *)
Lemma shipped_table_ok :
  table_ok (fun l v => map (fun x => vc_fn (snd x)) (resolve shipped_checks l v))
           (max_version shipped_checks) = true.
Proof. vm_compute. reflexivity. Qed.

(** every function name in the registered table is bound to a model function *)
Lemma shipped_all_bound : all_bound shipped_checks = true.
Proof. vm_compute. reflexivity. Qed.

Theorem shipped_standard : forall relax l v m p,
  api_valid p = true -> relaxed_for relax p = false -> effective_minor v = Some m ->
  eval_allowed shipped_lists relax shipped_checks l v p = compliant l m p.
Proof.
  intros relax l v m p.
  exact (standard_generic shipped_lists shipped_checks relax l v m p shipped_lists_ok shipped_table_ok).
Qed.

Theorem shipped_standard_baseline : forall relax v m p,
  relaxed_for relax p = false -> effective_minor v = Some m ->
  eval_allowed shipped_lists relax shipped_checks Baseline v p = baseline_compliant m p.
Proof.
  intros relax v m p.
  exact (standard_generic_baseline shipped_lists shipped_checks relax v m p shipped_lists_ok shipped_table_ok).
Qed.

Theorem shipped_P02_eval : forall relax l v p,
  P02_eval relax l v p (eval_allowed shipped_lists relax shipped_checks l v p) = true.
Proof.
  intros relax l v p.
  exact (P02_eval_generic shipped_lists shipped_checks relax l v p shipped_lists_ok shipped_table_ok).
Qed.

Theorem shipped_P02_check : forall relax fn p,
  P02_check relax fn p (cr_allowed (run_check shipped_lists relax fn p)) = true.
Proof. intros relax fn p. exact (P02_check_generic shipped_lists relax fn p shipped_lists_ok). Qed.

(** a worked example.  [example_pod]: one container adding NET_RAW, pod-level
    seccomp profile Unconfined, hostUsers unset.  [example_pod_fixed]: the same
    with the capability removed and the profile RuntimeDefault. *)
Definition example_container (add : list string) : container :=
  Container "c" "img" []
    (Some (SecCtx None None None None None (Some (add, [])) None None None None)).
Definition example_pod : pod :=
  Pod "p" [] None false false false None None None [] [example_container ["NET_RAW"]] [] []
      (Some (PodSC None None (Some "Unconfined") None None [] None)).
Definition example_pod_fixed : pod :=
  Pod "p" [] None false false false None None None [] [example_container []] [] []
      (Some (PodSC None None (Some "RuntimeDefault") None None [] None)).

Definition denied_reasons (l : level) (v : version) (p : pod) : list string :=
  map cr_reason (filter (fun r => negb (cr_allowed r)) (shipped_eval false l v p)).

Example shipped_example :
  api_valid example_pod = true /\ api_valid example_pod_fixed = true /\
  denied_reasons Baseline (V 1 19) example_pod = ["non-default capabilities"; "seccompProfile"] /\
  denied_reasons Baseline (V 1 18) example_pod = ["non-default capabilities"] /\
  eval_allowed shipped_lists false shipped_checks Baseline (V 1 19) example_pod = false /\
  compliant Baseline 19 example_pod = false /\
  eval_allowed shipped_lists false shipped_checks Baseline Latest example_pod_fixed = true /\
  compliant Baseline 32 example_pod_fixed = true /\
  denied_reasons Restricted Latest example_pod_fixed
    = ["allowPrivilegeEscalation != false"; "unrestricted capabilities"; "runAsNonRoot != true"] /\
  compliant Restricted 32 example_pod_fixed = false.
Proof. vm_compute. repeat split. Qed.

(** both hypotheses of C02 are the property's own: a pod that API validation
    rejects (one volume with two sources) is allowed at Restricted v1.0 though
    not compliant; and with the relax switch on, a hostUsers=false pod is
    allowed at Restricted latest without runAsNonRoot *)
Definition example_invalid_volume_pod : pod :=
  Pod "p" [] None false false false None None None [] [] []
      [Volume "v" ["hostPath"; "emptyDir"]]
      (Some (PodSC (Some true) None None None None [] None)).
Definition example_userns_pod : pod :=
  Pod "p" [] None false false false (Some false) None None []
      [Container "c" "img" []
         (Some (SecCtx None (Some false) None None None (Some ([], ["ALL"])) None None None None))]
      [] []
      (Some (PodSC None None (Some "RuntimeDefault") None None [] None)).

Example shipped_C02_hypotheses_needed :
  (api_valid example_invalid_volume_pod = false /\
   eval_allowed shipped_lists false shipped_checks Restricted (V 1 0) example_invalid_volume_pod = true /\
   compliant Restricted 0 example_invalid_volume_pod = false) /\
  (api_valid example_userns_pod = true /\ relaxed_for true example_userns_pod = true /\
   eval_allowed shipped_lists true shipped_checks Restricted Latest example_userns_pod = true /\
   compliant Restricted 32 example_userns_pod = false /\
   eval_allowed shipped_lists false shipped_checks Restricted Latest example_userns_pod = false).
Proof. vm_compute. repeat split. Qed.
