(** Base/Str.v - string helpers shared by every model file.
    Executable definitions only (proofs about them live in Proofs/StrFacts.v). *)
From Coq Require Import List Bool NArith ZArith Ascii String DecimalString.
Import ListNotations.
Local Open Scope string_scope.

(** Go [strings.Join] *)
Definition join (sep : string) (l : list string) : string := String.concat sep l.

(** policy/helpers.go:joinQuote *)
Definition join_quote (l : list string) : string :=
  match l with
  | [] => ""
  | _ => """" ++ join """, """ l ++ """"
  end.

(** policy/helpers.go:pluralize *)
Definition pluralize (singular plural : string) (count : nat) : string :=
  if Nat.eqb count 1 then singular else plural.

(** Go [strings.HasPrefix p] *)
Definition has_prefix (p s : string) : bool := String.prefix p s.

Fixpoint strip_prefix (p s : string) : option string :=
  match p with
  | EmptyString => Some s
  | String a p' =>
      match s with
      | EmptyString => None
      | String b s' => if Ascii.eqb a b then strip_prefix p' s' else None
      end
  end.

(** Go [fmt.Sprintf("%q", s)] restricted to printable ASCII: only the backslash
    and the double quote are escaped.  The harness only compares exact text on
    strings inside that range. *)
Fixpoint go_escape (s : string) : string :=
  match s with
  | EmptyString => EmptyString
  | String c r =>
      if Ascii.eqb c """"%char then String "\"%char (String """"%char (go_escape r))
      else if Ascii.eqb c "\"%char then String "\"%char (String "\"%char (go_escape r))
      else String c (go_escape r)
  end.
Definition go_quote (s : string) : string := """" ++ go_escape s ++ """".

(** decimal rendering, Go [strconv.Itoa] *)
Definition N_to_string (n : N) : string := NilZero.string_of_uint (N.to_uint n).
Definition Z_to_string (z : Z) : string :=
  match z with
  | Z0 => "0"
  | Zpos p => N_to_string (Npos p)
  | Zneg p => "-" ++ N_to_string (Npos p)
  end.
Definition nat_to_string (n : nat) : string := N_to_string (N.of_nat n).

(** byte-wise order, Go's [<] on strings *)
Definition sltb (a b : string) : bool := String.ltb a b.
Definition sleb (a b : string) : bool := String.leb a b.

(** [sets.String]: insertion into a sorted duplicate-free list; [List()] is the
    list itself. *)
Fixpoint sinsert (x : string) (l : list string) : list string :=
  match l with
  | [] => [x]
  | y :: ys =>
      match String.compare x y with
      | Lt => x :: l
      | Eq => l
      | Gt => y :: sinsert x ys
      end
  end.
Definition sset_of (l : list string) : list string :=
  fold_left (fun acc x => sinsert x acc) l [].

(** [sort.Strings]: insertion sort that keeps duplicates. *)
Fixpoint oinsert (x : string) (l : list string) : list string :=
  match l with
  | [] => [x]
  | y :: ys => if String.leb x y then x :: l else y :: oinsert x ys
  end.
Definition ssort (l : list string) : list string :=
  fold_right oinsert [] l.

Definition mem (x : string) (l : list string) : bool :=
  existsb (String.eqb x) l.

(** association lists standing for Go maps with unique keys *)
Fixpoint lookup {A} (k : string) (m : list (string * A)) : option A :=
  match m with
  | [] => None
  | (k', v) :: r => if String.eqb k k' then Some v else lookup k r
  end.

Definition is_some {A} (o : option A) : bool := match o with Some _ => true | None => false end.
Definition is_nil {A} (l : list A) : bool := match l with [] => true | _ => false end.
Definition opt_eqb {A} (eqb : A -> A -> bool) (a b : option A) : bool :=
  match a, b with
  | None, None => true
  | Some x, Some y => eqb x y
  | _, _ => false
  end.
Fixpoint list_eqb {A} (eqb : A -> A -> bool) (a b : list A) : bool :=
  match a, b with
  | [], [] => true
  | x :: a', y :: b' => eqb x y && list_eqb eqb a' b'
  | _, _ => false
  end.

(** [ends_with suf s]: Go [strings.HasSuffix] *)
Fixpoint string_rev_acc (s acc : string) : string :=
  match s with
  | EmptyString => acc
  | String c r => string_rev_acc r (String c acc)
  end.
Definition string_rev (s : string) : string := string_rev_acc s EmptyString.
Definition has_suffix (suf s : string) : bool := String.prefix (string_rev suf) (string_rev s).

(** [contains sub s]: Go [strings.Contains] *)
Fixpoint contains (sub s : string) : bool :=
  if String.prefix sub s then true
  else match s with
       | EmptyString => false
       | String _ r => contains sub r
       end.

(** indices of the elements satisfying [f]; used by the correspondence files *)
Fixpoint find_idx_from {A} (f : A -> bool) (i : N) (l : list A) : list N :=
  match l with
  | [] => []
  | x :: r => if f x then i :: find_idx_from f (N.succ i) r else find_idx_from f (N.succ i) r
  end.
Definition find_idx {A} (f : A -> bool) (l : list A) : list N := find_idx_from f 0%N l.

(** strings given as byte lists (used by generated case files for non printable input) *)
Definition s_of (l : list N) : string := string_of_list_ascii (map ascii_of_N l).

(** list append usable while string_scope is open (where [++] is string append) *)
Infix "+:+" := (@List.app _) (at level 60, right associativity).
