// psaharness generates correspondence cases by running the implementation in
// /repo and writes them as Coq case files.
package main

import (
	"flag"
	"fmt"
	"os"

	"psaverif/internal/cq"
	"psaverif/internal/gen"
	"psaverif/internal/streams"
)

func main() {
	if len(os.Args) < 2 {
		fmt.Fprintln(os.Stderr, "usage: psaharness <stream> [-seed N] [-n N] [-out DIR] [-shards K]")
		os.Exit(2)
	}
	stream := os.Args[1]
	fs := flag.NewFlagSet(stream, flag.ExitOnError)
	seed := fs.Int64("seed", 1, "PRNG seed")
	n := fs.Int("n", 1000, "random case budget")
	out := fs.String("out", ".", "output directory")
	shards := fs.Int("shards", 16, "number of case files")
	fs.Parse(os.Args[2:])
	var set *cq.Set
	var in *cq.Interner
	switch stream {
	case "gen":
		if err := gen.Write(*out); err != nil {
			fmt.Fprintln(os.Stderr, err)
			os.Exit(3)
		}
		fmt.Println("gen ok")
		return
	case "c05":
		set, in = streams.C05(*seed, *n)
	case "c04":
		set, in = streams.C04(*seed, *n)
	case "c19":
		set, in = streams.C19(*seed, *n)
	case "c02":
		set, in = streams.Pods("c02", *seed, *n, "Model.Api Model.Pod Model.Checks Corr.PodCases Corr.C02", "pod_case", "run_c02", true)
	case "c03":
		set, in = streams.Pods("c03", *seed, *n, "Model.Api Model.Pod Model.Checks Corr.PodCases Corr.C02", "pod_case", "run_c03", true)
	case "podstext":
		set, in = streams.Pods("podstext", *seed, *n, "Model.Api Model.Pod Model.Checks Corr.PodCases", "pod_case", "run_pods_text", true)
	default:
		fmt.Fprintln(os.Stderr, "unknown stream", stream)
		os.Exit(2)
	}
	if err := set.Write(*out, *shards, in); err != nil {
		fmt.Fprintln(os.Stderr, err)
		os.Exit(3)
	}
	fmt.Printf("stream=%s cases=%d shards=%d\n", stream, len(set.Cases), *shards)
}
