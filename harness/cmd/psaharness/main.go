// psaharness generates correspondence cases by running the implementation in
// /repo and writes them as Coq case files.
package main

import (
	"encoding/json"
	"flag"
	"fmt"
	"io"
	corev1 "k8s.io/api/core/v1"
	"os"

	"k8s.io/klog/v2"
	"psaverif/internal/cq"
	"psaverif/internal/gen"
	"psaverif/internal/streams"
)

func main() {
	if len(os.Args) < 2 {
		fmt.Fprintln(os.Stderr, "usage: psaharness <stream> [-seed N] [-n N] [-out DIR] [-shards K]")
		os.Exit(2)
	}
	stream := os.Args[1]
	fs := flag.NewFlagSet(stream, flag.ExitOnError)
	seed := fs.Int64("seed", 1, "PRNG seed")
	n := fs.Int("n", 1000, "random case budget")
	out := fs.String("out", ".", "output directory")
	shards := fs.Int("shards", 16, "number of case files")
	replay := fs.String("replay", "", "re-run the recorded case in this JSON file instead of generating (admission streams)")
	fs.Parse(os.Args[2:])
	klog.LogToStderr(false)
	klog.SetOutput(io.Discard)
	var set *cq.Set
	var in *cq.Interner
	if *replay != "" {
		if stream == "c02" || stream == "c03" || stream == "c19" {
			// pod streams: the recorded case holds the pod
			js, err := os.ReadFile(*replay)
			var rec struct {
				Pod *corev1.Pod `json:"pod"`
			}
			if err == nil {
				err = json.Unmarshal(js, &rec)
			}
			if err != nil || rec.Pod == nil {
				fmt.Fprintln(os.Stderr, "replay: no pod in", *replay, err)
				os.Exit(3)
			}
			streams.ReplayPod = rec.Pod
			*replay = ""
			*shards = 1
		}
	}
	if *replay != "" {
		pf, ok := map[string]string{"c01": "pf01", "c03adm": "pf01", "c06": "pf06", "c07": "pf07", "c08": "pf08", "c09": "pf09", "c10": "pf10", "c11": "pf11", "c11cs": "pf11cs", "c12": "pf12", "c13adm": "pf13", "c18adm": "pf18"}[stream]
		if !ok {
			fmt.Fprintln(os.Stderr, "replay is only available for the admission streams")
			os.Exit(2)
		}
		js, err := os.ReadFile(*replay)
		if err == nil {
			set, in, err = streams.AdmReplay(stream, pf, js)
		}
		if err != nil {
			fmt.Fprintln(os.Stderr, "replay:", err)
			os.Exit(3)
		}
		*shards = 1
	} else {
		switch stream {
		case "gen":
			if err := gen.Write(*out); err != nil {
				fmt.Fprintln(os.Stderr, err)
				os.Exit(3)
			}
			fmt.Println("gen ok")
			return
		case "c05":
			set, in = streams.C05(*seed, *n)
		case "c04":
			set, in = streams.C04(*seed, *n)
		case "c19":
			set, in = streams.C19(*seed, *n)
		case "c02":
			set, in = streams.Pods("c02", *seed, *n, "Model.Api Model.Pod Model.Checks Corr.PodCases Corr.C02", "pod_case", "run_c02", true)
		case "c03":
			set, in = streams.Pods("c03", *seed, *n, "Model.Api Model.Pod Model.Checks Corr.PodCases Corr.C02", "pod_case", "run_c03", true)
		case "c01":
			set, in = streams.Adm("c01", *seed, *n, "pf01", []string{"pod"})
		case "c03adm":
			set, in = streams.Adm("c03adm", *seed, *n, "pf01", []string{"pod"})
		case "c06":
			set, in = streams.Adm("c06", *seed, *n, "pf06", []string{"pod", "controller", "namespace"})
		case "c07":
			set, in = streams.Adm("c07", *seed, *n, "pf07", []string{"pod", "controller", "namespace"})
		case "c08":
			set, in = streams.Adm("c08", *seed, *n, "pf08", []string{"pod", "controller"})
		case "c09":
			set, in = streams.Adm("c09", *seed, *n, "pf09", []string{"controller"})
		case "c10":
			set, in = streams.Adm("c10", *seed, *n, "pf10", []string{"pod"})
		case "c11":
			set, in = streams.Adm("c11", *seed, *n, "pf11", []string{"namespace"})
		case "c11cs":
			set, in = streams.Adm("c11cs", *seed, *n, "pf11cs", []string{"namespace"})
		case "c13adm":
			set, in = streams.Adm("c13adm", *seed, *n, "pf13", []string{"pod", "controller"})
		case "c12":
			set, in = streams.Adm("c12", *seed, *n, "pf12", []string{"namespace"})
		case "c18adm":
			set, in = streams.Adm("c18adm", *seed, *n, "pf18", []string{"pod", "controller", "namespace"})
		case "c13":
			set, in = streams.C13(*seed, *n)
		case "c14":
			set, in = streams.C14(*seed, *n)
		case "c15":
			set, in = streams.C15(*seed, *n)
		case "c18hist":
			set, in = streams.C18Hist(*seed+2000, *n)
			set.Stream = "c18hist"
		case "c07hist":
			// fault handling must not depend on what was served before: the C15 histories, filed under C07
			set, in = streams.C15(*seed+1000, *n)
			set.Stream = "c07hist"
		case "c15src":
			set, in = streams.Src(*seed, *n, "pf_src15")
			set.Stream = "c15src"
		case "c12src":
			set, in = streams.Src(*seed, *n, "pf_src12")
			set.Stream = "c12src"
		case "c07src":
			set, in = streams.Src(*seed, *n, "pf_src07")
			set.Stream = "c07src"
		case "c16":
			set, in = streams.C16(*seed, *n)
		case "c17":
			set, in = streams.C17(*seed, *n)
		case "c17e2e":
			set, in = streams.Deploy(*seed, *n)
		case "c18e2e":
			set, in = streams.DeployStream("c18e2e", *seed, *n, true)
		case "c18":
			set, in = streams.C18(*seed, *n)
		case "c20":
			set, in = streams.C20(*seed, *n)
		case "admall":
			set, in = streams.Adm("admall", *seed, *n, "pf_all", []string{"pod", "controller", "namespace"})
		case "podstext":
			set, in = streams.Pods("podstext", *seed, *n, "Model.Api Model.Pod Model.Checks Corr.PodCases", "pod_case", "run_pods_text", true)
		default:
			fmt.Fprintln(os.Stderr, "unknown stream", stream)
			os.Exit(2)
		}
	}
	if err := set.Write(*out, *shards, in); err != nil {
		fmt.Fprintln(os.Stderr, err)
		os.Exit(3)
	}
	fmt.Printf("stream=%s cases=%d shards=%d\n", stream, len(set.Cases), *shards)
}
