//go:build verif

package main

import (
	"fmt"
	"io"

	corev1 "k8s.io/api/core/v1"
	"k8s.io/klog/v2"
	"k8s.io/pod-security-admission/api"
	"k8s.io/pod-security-admission/policy"
	"psaverif/internal/adm"
)

func main() {
	klog.LogToStderr(false)
	klog.SetOutput(io.Discard)
	ev, _ := policy.NewEvaluator(policy.DefaultChecks())
	lat := api.LevelVersion{Level: api.LevelPrivileged, Version: api.LatestVersion()}
	cfg := adm.CfgSpec{Defaults: api.Policy{Enforce: lat, Audit: lat, Warn: lat}}
	// 1. controller request with nil object
	req := adm.ReqSpec{Group: "apps", Resource: "deployments", Namespace: "ns", Name: "d", User: "u", Op: "DELETE", Object: adm.ObjSpec{Kind: "nil"}, Old: adm.ObjSpec{Kind: "nil"}}
	w := adm.WorldSpec{NSLabels: map[string]string{api.WarnLevelLabel: "baseline"}}
	o := adm.Run(&cfg, ev, &req, &w)
	fmt.Printf("controller nil object: panic=%q resp=%+v\n", o.Panic, o.Resp)
	// 2. F3: two pods, same control set {appArmorProfile}, different plural
	mk := func(name string, anns map[string]string) *corev1.Pod {
		p := &corev1.Pod{}
		p.Name = name
		p.Annotations = anns
		p.Spec.Containers = []corev1.Container{{Name: "c", Image: "i"}}
		return p
	}
	pa := mk("a", map[string]string{"container.apparmor.security.beta.kubernetes.io/c": "unconfined"})
	pb := mk("b", map[string]string{"container.apparmor.security.beta.kubernetes.io/c": "unconfined", "container.apparmor.security.beta.kubernetes.io/d": "bad"})
	req2 := adm.ReqSpec{Group: "", Resource: "namespaces", Namespace: "ns", Name: "ns", User: "u", Op: "UPDATE",
		Object: adm.ObjSpec{Kind: "namespace", NSName: "ns", Labels: map[string]string{api.EnforceLevelLabel: "baseline"}}, Old: adm.ObjSpec{Kind: "namespace", NSName: "ns", Labels: nil}}
	w2 := adm.WorldSpec{Pods: []*corev1.Pod{pa, pb}}
	o2 := adm.Run(&cfg, ev, &req2, &w2)
	fmt.Printf("F3: warnings=%q\n", o2.Resp.Warnings)
}
